import Proofs.Fold
import Proofs.Props.C11
import Proofs.Props.C16
import Proofs.Props.C05
