import Proofs.T
