import Model.GeneratedLib
/-!
Failing-input search for the library contracts (C17), used when a contract theorem of `Proofs/Props/C17.lean` no longer
checks: evaluates the *current* library text (re-translated into `Model/GeneratedLib.lean` on every run, elaborated by the
reference elaborator) on an edge grid and compares with the documented contract. Prints one JSON line per failure.
Run: `lake env lean --run LibSearch.lean`. This is a search, not a proof.
-/
open Facto Lean Gen

def resultOf' (nodes : Array CNode) (env : Env) : I32 :=
  argVal nodes (evalNodes nodes env) (.node (nodes.size - 1))

def envOf (bs : List (String × Int)) : Env :=
  { input := fun nm => (bs.find? (fun b => b.1 == nm)).map (fun b => BitVec.ofInt 32 b.2) }

def grid : List Int :=
  [-2147483648, -2147483647, -1000000007, -100000, -70000, -40000, -30000, -1000, -17, -8, -7, -3, -2, -1, 0, 1, 2, 3, 7, 8, 17,
   1000, 30000, 40000, 70000, 100000, 1000000007, 2147483646, 2147483647]

def wrap (x : Int) : Int := (BitVec.ofInt 32 x).toInt

structure Contract where
  name : String
  prog : Program
  args : List String
  /-- `none`: outside the documented domain -/
  spec : List Int → Option Int

def contracts : List Contract := [
  { name := "abs", prog := call_abs, args := ["in_x"], spec := fun | [x] => some (wrap x.natAbs) | _ => none },
  { name := "sign", prog := call_sign, args := ["in_x"], spec := fun | [x] => some (if x < 0 then -1 else if x > 0 then 1 else 0) | _ => none },
  { name := "min", prog := call_min, args := ["in_a", "in_b"], spec := fun | [a, b] => some (min a b) | _ => none },
  { name := "max", prog := call_max, args := ["in_a", "in_b"], spec := fun | [a, b] => some (max a b) | _ => none },
  { name := "div_floor", prog := call_div_floor, args := ["in_a", "in_b"],
    spec := fun | [a, b] => if b == 0 || (a == -2147483648 && b == -1) then none else some (wrap (a.fdiv b)) | _ => none },
  { name := "mod_positive", prog := call_mod_positive, args := ["in_a", "in_b"],
    spec := fun | [a, b] => if b == 0 then none else some (wrap (a % b)) | _ => none } ]

def tuples : Nat → List (List Int)
  | 0 => [[]]
  | n + 1 => grid.flatMap (fun x => (tuples n).map (fun t => x :: t))

def main : IO Unit := do
  for c in contracts do
    match nodesOf c.prog with
    | none => IO.println (Json.mkObj [("function", c.name), ("error", "the call no longer elaborates")]).compress
    | some nodes =>
      let mut shown := 0
      for t in tuples c.args.length do
        if shown < 3 then
          match c.spec t with
          | none => pure ()
          | some want =>
            let got := (resultOf' nodes (envOf (c.args.zip t))).toInt
            if got != want then
              shown := shown + 1
              IO.println (Json.mkObj [("function", c.name), ("args", Json.arr (t.map (fun x => Json.num (JsonNumber.fromInt x))).toArray),
                ("contract", Json.num (JsonNumber.fromInt want)), ("library_returns", Json.num (JsonNumber.fromInt got))]).compress
