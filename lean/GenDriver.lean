import Model.Generated
import Model.Int32
import Model.Elab
import Lean.Data.Json
/-!
Line-protocol driver for the translated functions: evaluates `Gen.*` (what the code says now) and the
specification side (`Facto.alu`, `Facto.cmp`, `Facto.iterValues`) on the same operands.
-/
open Lean Facto

def optInt : Option Int → Json
  | some v => Json.num (JsonNumber.fromInt v)
  | none => Json.null

def specBinary (op : String) (a b : Int) : Option Int :=
  match ArithOp.ofString? op with
  | some o => some (alu o (i32 a) (i32 b)).toInt
  | none =>
    match CmpOp.ofString? op with
    | some c => some (if cmp c (i32 a) (i32 b) then 1 else 0)
    | none =>
      if op == "&&" then some (if i32 a != 0 && i32 b != 0 then 1 else 0)
      else if op == "||" then some (if i32 a != 0 || i32 b != 0 then 1 else 0)
      else none

def handle (line : String) : String :=
  match Json.parse line with
  | .error e => (Json.mkObj [("error", e)]).compress
  | .ok j =>
    let s (k : String) : String := ((j.getObjVal? k).toOption.bind (·.getStr?.toOption)).getD ""
    let i (k : String) : Int := ((j.getObjVal? k).toOption.bind (·.getInt?.toOption)).getD 0
    let oi (k : String) : Option Int := (j.getObjVal? k).toOption.bind (·.getInt?.toOption)
    match s "fn" with
    | "fold" => (Json.mkObj [("gen", optInt (Gen.foldBinary (s "op") (i "l") (i "r"))),
                             ("gen32", optInt ((Gen.foldBinary (s "op") (i "l") (i "r")).map (fun v => (i32 v).toInt))),
                             ("spec", optInt (specBinary (s "op") (i "l") (i "r")))]).compress
    | "optarith" => (Json.mkObj [("gen", optInt (Gen.optFoldArith (s "op") (i "l") (i "r"))),
                             ("gen32", optInt ((Gen.optFoldArith (s "op") (i "l") (i "r")).map (fun v => (i32 v).toInt))),
                             ("spec", optInt (specBinary (s "op") (i "l") (i "r")))]).compress
    | "optcmp" => (Json.mkObj [("gen", match Gen.optFoldCmp (s "op") (i "l") (i "r") with
                                       | some b => Json.bool b | none => Json.null),
                             ("spec", optInt (specBinary (s "op") (i "l") (i "r")))]).compress
    | "invert" => let r := Gen.invertComparison (s "op") (i "c")
                  (Json.mkObj [("gen", Json.arr #[Json.str r.1, Json.num (JsonNumber.fromInt r.2)])]).compress
    | "parse" => (Json.mkObj [("gen", optInt (Gen.parseNumber (s "text")))]).compress
    | "iter" => let g := Gen.pyIterationValues (i "start") (i "stop") (oi "step")
                let sp := iterValues (i "start") (i "stop") (oi "step")
                (Json.mkObj [("gen", Json.arr (g.map (fun v => Json.num (JsonNumber.fromInt v))).toArray),
                             ("spec", Json.arr (sp.map (fun v => Json.num (JsonNumber.fromInt v))).toArray)]).compress
    | f => (Json.mkObj [("error", s!"unknown fn {f}")]).compress

partial def loop (h : IO.FS.Stream) (out : IO.FS.Stream) : IO Unit := do
  let line ← h.getLine
  if line.isEmpty then return ()
  if line.trimAscii.toString.isEmpty then loop h out else
  out.putStrLn (handle line)
  loop h out

def main : IO Unit := do
  loop (← IO.getStdin) (← IO.getStdout)
