import Model
import Model.Wire
import Model.Geometry
import Model.Canon
import Model.Imports
import Model.Match
import Model.Embed
import Model.Rename
/-!
# Line-protocol driver: one JSON case per input line, one JSON verdict per output line.
-/
open Lean Facto

def jgetD (j : Json) (k : String) : Json := (j.getObjVal? k).toOption.getD Json.null
def jstrD (j : Json) (k : String) (d : String := "") : String := ((j.getObjVal? k).toOption.bind (·.getStr?.toOption)).getD d
def jnatD (j : Json) (k : String) (d : Nat := 0) : Nat := ((j.getObjVal? k).toOption.bind (·.getNat?.toOption)).getD d

/-- compiler's map from IR signal types to Factorio names -/
def factorioName (stm : Json) (ty : String) : String :=
  match (stm.getObjVal? ty).toOption with
  | some (.str s) => s
  | some o => jstrD o "name" ty
  | none => ty

def isImplicit (ty : String) : Bool := ty.startsWith "__v"

structure SemCase where
  core : CoreProg
  bp : Blueprint
  circ : Circuit
  ids : Array String
  names : Json
  stm : Json
  /-- constants of the final IR by node id: what the compiler claims for a name it does not materialise -/
  irConsts : List (String × SigMap) := []
  /-- nodes merged (CSE) or folded away by the optimisers: old id ↦ the node standing for it -/
  replaced : Json := Json.null

/-- follow the optimisers' replacement map -/
def SemCase.resolve (c : SemCase) (src : String) : String :=
  (List.range 8).foldl (fun s _ => match (c.replaced.getObjVal? s).toOption with
    | some (.str t) => t
    | _ => s) src

def idxOfId (ids : Array String) (id : String) : Option Nat := ids.findIdx? (· == id)

def buildObs (c : SemCase) : List Observation × (Sig → Sig) × List (Sig × Sig) :=
  let named := c.core.named.toList.filter (·.topLevel)
  -- renaming of implicit Core types through the names the compiler reports
  let renPairs : List (Sig × Sig) := named.filterMap (fun nm =>
    if nm.isBundle then none else
    match (c.core.nodes.getD nm.node (.const "" 0)).ty? with
    | some ty =>
      if isImplicit ty then
        let r := jgetD c.names nm.name
        let cs := jstrD r "sig"
        if cs == "" then none else some (ty, factorioName c.stm cs)
      else none
    | none => none)
  let ren : Sig → Sig := fun s => (renPairs.lookup s).getD s
  let obs := named.filterMap (fun nm =>
    let r := jgetD c.names nm.name
    let src0 := jstrD r "src"
    if src0 == "" then none else
    -- a result merged into an identical earlier one is observed at the node that stands for it
    let src := if (idxOfId c.ids src0).isSome || (idxOfId c.ids s!"{src0}_{nm.name}_output_anchor").isSome then src0 else c.resolve src0
    let anchorId := s!"{src}_{nm.name}_output_anchor"
    let sig : Option Sig :=
      if nm.isBundle then none
      else (c.core.nodes.getD nm.node (.const "" 0)).ty?.map ren
    match idxOfId c.ids anchorId with
    | some i => some { name := nm.name, idx := i, atAnchor := true, sig, node := nm.node }
    | none =>
      match idxOfId c.ids src with
      | some i => some { name := nm.name, idx := i, atAnchor := false, sig, node := nm.node }
      | none =>
        -- constant propagation replaces a node by `<id>_folded`
        match idxOfId c.ids (src ++ "_folded") with
        | some i => some { name := nm.name, idx := i, atAnchor := false, sig, node := nm.node }
        | none =>
        match (c.irConsts.lookup src).orElse (fun _ => c.irConsts.lookup (src ++ "_folded")) with
        | some m => some { name := nm.name, idx := 0, atAnchor := false, sig, node := nm.node, claim := some m }
        | none => none)
  (obs, ren, renPairs)

def buildInputs (c : SemCase) : List InputBinding :=
  c.core.nodes.toList.filterMap (fun nd =>
    match nd with
    | .input name _ v =>
      let r := jgetD c.names name
      let src := jstrD r "src"
      match idxOfId c.ids src with
      | some i =>
        match c.circ.kind i with
        | .const [(s, _)] => some { name, idx := i, sig := s, lit := v }
        | _ => none
      | none => none
    | _ => none)

/-- withdraw rejected nodes from the binding until every remaining bound node passes -/
def withdraw (vc : Circuit) (nodes : Array CNode) : Nat → Array (Option Bind) → Array (Option Bind)
  | 0, b => b
  | f + 1, b =>
    let bad := (List.range nodes.size).filter (fun n => !checkNode vc nodes (fun m => b.getD m none) n)
    if bad.isEmpty then b else withdraw vc nodes f (bad.foldl (fun b n => b.setIfInBounds n none) b)

def runSem (j : Json) : Json :=
  let id := jgetD j "id"
  let prog := decodeProgram (jgetD j "ast")
  match elabProgram prog with
  | .error e =>
    Json.mkObj [("id", id), ("elab", Json.mkObj [("error", e.cls.toString), ("msg", e.msg), ("line", e.line)])]
  | .ok core =>
    match parseBlueprint (jgetD j "printed") with
    | .error e => Json.mkObj [("id", id), ("elab", "ok"), ("blueprint_error", e)]
    | .ok bp =>
      -- certificate of the network partition (hypothesis of Facto.components_exact / mem_prodOf_iff)
      if !bp.componentsClosed then
        Json.mkObj [("id", id), ("elab", "ok"), ("certificate_error", "Blueprint.componentsClosed is false: the union-find ids do not close over the printed wires")] else
      let ids := ((jgetD j "entity_ids").getArr?.toOption.getD #[]).map (fun x => x.getStr?.toOption.getD "")
      -- entities read through `.output` are the circuit's declared sources
      let placed0 := ((jgetD j "placed").getArr?.toOption.getD #[]).toList.map (fun x => x.getStr?.toOption.getD "")
      let srcIdx : List Nat := (List.range core.ents.size).filterMap (fun k =>
        if core.nodes.any (fun nd => match nd with | .entOut e => e == k | _ => false) then
          (placed0[k]?).bind (idxOfId ids)
        else none)
      let stm := jgetD j "signal_type_map"
      let irConsts : List (String × SigMap) := ((jgetD j "ir_final").getArr?.toOption.getD #[]).toList.filterMap (fun op =>
        if jstrD op "kind" != "IRConst" then none else
        let sigs : List (Sig × I32) := match (jgetD op "signals").getObj? with
          | .ok o => o.toList.map (fun (k, v) => (factorioName stm k, i32 (v.getInt?.toOption.getD 0)))
          | .error _ => []
        let m : SigMap := if sigs.isEmpty then [(factorioName stm (jstrD op "output_type"), i32 ((jgetD op "value").getInt?.toOption.getD 0))] else sigs
        some (jstrD op "id", m.filter (fun (_, v) => v != 0)))
      let c : SemCase := { core, bp, circ := { bp.toCircuit with sources := srcIdx }, ids, names := jgetD j "names", stm, irConsts, replaced := jgetD j "replaced" }
      let (obs, ren, renPairs) := buildObs c
      let inputs := buildInputs c
      -- C13, source level: the program with the compiler's signal names on its untyped values denotes the same
      -- (theorem Facto.retype_nodeVal holds for every retyping that passes this check)
      let renamed : Array CNode := core.nodes.map (fun nd =>
        match nd, nd.ty? with
        | .select .., _ => nd
        | _, some ty => if isImplicit ty then nd.setTy (ren ty) else nd
        | _, none => nd)
      let retypeOk := retypeCheck core.nodes renamed
      -- the validator works on the program as the compiler named it: implicit types replaced by the signals chosen for
      -- them (bundle members then carry the names found on the wires); `retypeCheck` is the premise of
      -- Facto.retype_nodeVal / retype_bundle, which carry every statement back to the program as written
      -- … in general (bundle members, selections): the renaming is the composition of the transpositions
      -- implicit type <-> chosen signal, injective whatever the compiler chose (Facto.swaps_injective);
      -- Facto.rename_evalNodes / scalar_end_to_end_renamed / bundle_end_to_end_renamed carry the validator's statements
      -- about `renameNodes ρ P` back to the program as written
      let rho : Sig → Sig := swaps renPairs.eraseDups
      let vnodes : Array CNode := core.nodes.map (CNode.rename rho)
      let seed := (jnatD j "seed" 1).toUInt64
      let count := jnatD j "count" 20
      let ticks := jnatD j "ticks" (2 * bp.ents.size + 8)
      let stateful : Bool := decide (core.mems.size > 0)
      let unsupported := bp.ents.toList.filterMap (fun e => match e.kind with | .unsupported w => some s!"{e.number}:{w}" | _ => none)
      -- placed entities: the k-th `place` of the Core program is the k-th IRPlaceEntity
      let placed := ((jgetD j "placed").getArr?.toOption.getD #[]).toList.map (fun x => x.getStr?.toOption.getD "")
      let entIdx (k : Nat) : Option Nat := (placed[k]?).bind (idxOfId ids)
      let enableObs : List Observation := (List.range core.ents.size).flatMap (fun k =>
        match entIdx k, core.ents[k]? with
        | some i, some e => e.writes.filterMap (fun w =>
            if w.prop == "enable" then some { name := s!"entity{k}.enable", idx := i, atAnchor := false, sig := none, node := 0, enable := some w.value }
            else none)
        | _, _ => [])
      let srcBindings : List SourceBinding := (List.range core.ents.size).filterMap (fun k =>
        if core.nodes.any (fun nd => match nd with | .entOut e => e == k | _ => false) then
          (entIdx k).map (fun i => { ent := k, idx := i })
        else none)
      let obs := obs ++ enableObs
      let (done, ms) := if stateful then (0, []) else searchStateless core c.circ inputs obs ren seed count ticks 3 srcBindings
      -- wiring check against the planned edges
      let pairIdx (p : Json) : Option (Nat × Nat) :=
        match p.getArr?.toOption with
        | some a =>
          match (a[0]?).bind (·.getStr?.toOption), (a[1]?).bind (·.getStr?.toOption) with
          | some x, some y =>
            match idxOfId ids x, idxOfId ids y with
            | some i, some k => some (i, k)
            | _, _ => none
          | _, _ => none
        | none => none
      let edges := ((jgetD j "edges").getArr?.toOption.getD #[]).toList.filterMap pairIdx
      let explicit := ((jgetD j "explicit_wires").getArr?.toOption.getD #[]).toList.filterMap pairIdx
      let intended : Array (List Nat) := (Array.range bp.ents.size).map (fun i =>
        (edges.filterMap (fun (s, t) => if t == i then some s else none)) ++
        (explicit.filterMap (fun (a, b) => if b == i then some a else if a == i then some b else none)))
      let anchors := (List.range ids.size).filter (fun i => (ids.getD i "").endsWith "_output_anchor")
      -- per entity: the producers planned for its wildcard operand (bundle sources)
      let wild : List (Nat × List Nat) := match (jgetD j "wild_sources") with
        | .obj kvs => kvs.toList.filterMap (fun (k, v) =>
            match idxOfId ids k with
            | some i => some (i, (v.getArr?.toOption.getD #[]).toList.filterMap (fun x => (x.getStr?.toOption).bind (idxOfId ids)))
            | none => none)
        | _ => []
      let wr := wireCheck bp c.circ intended explicit anchors (srcBindings.map (·.idx)) wild
      let idOf (i : Nat) : Json := Json.str (ids.getD i s!"#{i}")
      let wireJson := Json.mkObj [
        ("pollution", Json.arr (wr.pollution.map (fun (a, c, p) => Json.mkObj [("sink", idOf a), ("colour", c), ("producer", idOf p)])).toArray),
        ("unselected", Json.arr (wr.unselected.map (fun (a, p) => Json.arr #[idOf p, idOf a])).toArray),
        ("doubled", Json.arr (wr.doubled.map (fun (a, p) => Json.mkObj [("sink", idOf a), ("producer", idOf p)])).toArray),
        ("intrusions", Json.arr (wr.intrusions.map (fun x => Json.mkObj [("sink", idOf x.sink), ("colour", x.colour), ("producer", idOf x.producer), ("sig", x.sig)])).toArray),
        ("missing", Json.arr (wr.missing.map (fun (a, b) => Json.arr #[idOf a, idOf b])).toArray),
        ("unjustified", Json.arr (wr.unjustified.map (fun (a, b) => Json.arr #[idOf (a / 4), toJson (a % 4 + 1), idOf (b / 4), toJson (b % 4 + 1)])).toArray)]
      -- stateful programs
      let alwaysCells := (List.range core.mems.size).filter (fun m =>
        match core.mems[m]? with
        | some cell => cell.writes.any (fun w => match w with | .always _ => true | _ => false)
        | none => false)
      let hold := jnatD j "hold" (2 * bp.ents.size + 10)
      let steps := jnatD j "steps" 12
      -- memory cells: pair each gated cell of the source with its two gates; the validator then works on the
      -- circuit cut at all gates (theorem Facto.gated_cell_end_to_end)
      let memIds : List String := ((jgetD j "ir_final").getArr?.toOption.getD #[]).toList.filterMap (fun op =>
        if jstrD op "kind" == "IRMemCreate" then some (jstrD op "memory_id") else none)
      let cellPairs : List (Nat × Nat × Nat × Sig × Arg × Arg) := (List.range core.mems.size).filterMap (fun m =>
        match core.mems[m]? with
        | some cell =>
          (match cell.writes, cell.ty with
           | [WriteRule.gated d en], some ty =>
             -- the k-th cell of the source is the k-th IRMemCreate; its gates are named after the memory id
             (match (memIds[m]?).bind (fun id => (idxOfId ids (id ++ "_write_gate")).bind (fun w => (idxOfId ids (id ++ "_hold_gate")).map (fun h => (w, h)))) with
              | some (w, h) => some (m, w, h, ren ty, d, en)
              | none =>
                match gatePairs c.circ (ren ty) with
                | (w, h) :: _ => some (m, w, h, ren ty, d, en)
                | [] => none)
           | _, _ => none)
        | none => none)
      -- always-written cells folded into one self-reading arithmetic combinator
      let loopCells : List (Nat × Nat × Sig × Arg) := (List.range core.mems.size).filterMap (fun m =>
        match core.mems[m]? with
        | some cell =>
          (match cell.writes, cell.ty with
           | [WriteRule.always d], some ty =>
             (match selfLoops c.circ (ren ty) with
              | [e] => some (m, e, ren ty, d)
              | _ => none)
           | _, _ => none)
        | none => none)
      -- set-priority latches with value 1: one three-row decider that reads its own output
      let latchCells : List (Nat × Nat × Option Nat × I32 × Sig × Arg × Arg × Bool) := (List.range core.mems.size).filterMap (fun m =>
        match core.mems[m]? with
        | some cell =>
          (match cell.writes, cell.ty with
           | [WriteRule.latch (.int k) s r sp], some ty =>
             -- the k-th cell of the source is the k-th IRMemCreate; its latch is named after the memory id
             let cands := match (memIds[m]?).bind (fun id => idxOfId ids (id ++ "_latch")) with
               | some e => [e]
               | none => latchCands c.circ (ren ty) (if sp then 3 else 4)
             (match cands with
              | [e] =>
                if k == 1 then some (m, e, none, k, ren ty, s, r, sp)
                else if k == 0 then none
                else (match multCands c.circ e (ren ty) k with
                      | [mu] => some (m, e, some mu, k, ren ty, s, r, sp)
                      | _ => none)
              | _ => none)
           | _, _ => none)
        | none => none)
      -- where the circuit keeps each recognised cell: at the first step of a history the content the power-on
      -- transient left there is accepted as the cell's initial content (see searchHistory)
      let cellProbe : List (Nat × List Nat × Sig) :=
        cellPairs.map (fun (m, w, h, ty, _, _) => (m, [w, h], ty)) ++
        loopCells.map (fun (m, e, ty, _) => (m, [e], ty)) ++
        latchCells.map (fun (m, e, _, _, ty, _, _, _) => (m, [e], ty))
      let histJson : Json :=
        if !stateful then Json.null
        else if alwaysCells.isEmpty then
          let (k, hm) := searchHistory core c.circ inputs obs ren seed steps hold cellProbe
          Json.mkObj [("steps", k), ("mismatches", Json.arr (hm.map HistMismatch.toJson).toArray)]
        else
          let readers := obs.filter (fun o => match (core.nodes[o.node]? : Option CNode) with
            | some (CNode.memRead m _) => alwaysCells.contains m
            | _ => false)
          let results := readers.map (fun o =>
            let cell := match (core.nodes[o.node]? : Option CNode) with | some (CNode.memRead m _) => m | _ => 0
            let (l, trace) := iterateCheck core c.circ inputs cell o (inputs.map (·.lit)) (jnatD j "maxL" 12) (jnatD j "window" 40)
            Json.mkObj [("name", o.name), ("cell", cell), ("latency", match l with | some v => toJson v | none => Json.null),
              ("trace", Json.arr (trace.map (fun v => Json.num (JsonNumber.fromInt v))).toArray)])
          Json.mkObj [("iterate", Json.arr results.toArray)]
      let cutL : List Nat := cellPairs.flatMap (fun (_, w, h, _, _, _) => [w, h]) ++ loopCells.map (fun (_, e, _, _) => e) ++
        latchCells.flatMap (fun (_, e, mu, _, _, _, _, _) => e :: mu.toList)
      -- a stateless circuit whose only cycles go through producers that cannot emit what the reader reads is
      -- validated on its pruned form (theorems Facto.prune_run, *_end_to_end_pruned); observations stay on the original
      let usePrune : Bool := !stateful && !(c.circ.checkRanked (computeRank c.circ))
      -- … and if cycles remain, only the part whose dependency cone is acyclic (theorems Facto.restrict_run,
      -- *_end_to_end_cone): results bound outside that part are not claimed
      let coneS : List Nat := if usePrune then stableEnts c.circ.prune else []
      let useCone : Bool := usePrune && !(c.circ.prune.checkRanked (computeRank c.circ.prune)) && c.circ.prune.closedUnder coneS
      let vc : Circuit := if stateful then c.circ.cut cutL
        else if useCone then c.circ.prune.restrict coneS else if usePrune then c.circ.prune else c.circ
      let inCone : Bind → Bool := fun b =>
        !useCone || (match b with
          | .ent e _ => coneS.contains e
          | .sum es _ => es.all coneS.contains
          | .many es => es.all coneS.contains
          | .konst _ => true)
      let memRoots : List (Nat × Bind) := (List.range vnodes.size).filterMap (fun n =>
        match (vnodes[n]? : Option CNode) with
        | some (CNode.memRead m _) =>
          match (cellPairs.find? (fun (m', _, _, _, _, _) => m' == m)).map (fun (_, w, h, ty, _, _) => (n, Bind.sum [w, h] ty)) with
          | some r => some r
          | none =>
            match (loopCells.find? (fun (m', _, _, _) => m' == m)).map (fun (_, e, ty, _) => (n, Bind.sum [e] ty)) with
            | some r => some r
            | none => (latchCells.find? (fun (m', _, _, _, _, _, _) => m' == m)).map (fun (_, e, mu, _, ty, _, _) => (n, Bind.sum [mu.getD e] ty))
        | _ => none)
      -- verified validator for the scalar fragment (theorem Facto.scalar_end_to_end)
      let roots : List (Nat × Bind) := (core.named.toList.filter (·.topLevel)).filterMap (fun nm =>
        let r := jgetD c.names nm.name
        let src0 := jstrD r "src"
        let src := if (idxOfId c.ids src0).isSome || (idxOfId c.ids s!"{src0}_{nm.name}_output_anchor").isSome then src0 else c.resolve src0
        if nm.isBundle then
          match idxOfId c.ids src with
          | some i => some (nm.node, Bind.many [i])
          | none =>
            -- a bundle that exists only on the wires: whatever its anchor sees
            match idxOfId c.ids s!"{src}_{nm.name}_output_anchor" with
            | some a => some (nm.node, Bind.many (vc.loud a RG))
            | none => none
        else
        match vnodes.getD nm.node (.const "" 0) with
        | .select b _ =>
          -- bound from its bundle; if the bundle has no binding of its own, it is whatever this result's anchor sees
          (match idxOfId c.ids s!"{src}_{nm.name}_output_anchor" with
           | some a => some (b, Bind.many (c.circ.loud a RG))
           | none => none)
        | nd =>
        -- constant propagation replaces a node by the constant `<id>_folded`
        match (idxOfId c.ids src).orElse (fun _ => idxOfId c.ids (src ++ "_folded")), nd.ty? with
        | some i, some ty => some (nm.node, Bind.ent i (ren ty))
        | _, _ => none)
      let entOutRoots : List (Nat × Bind) := (List.range vnodes.size).filterMap (fun n =>
        match (vnodes[n]? : Option CNode) with
        | some (CNode.entOut k) => (entIdx k).map (fun i => (n, Bind.many [i]))
        | _ => none)
      let enablePairs : List (Nat × Arg) := enableObs.filterMap (fun o => o.enable.map (fun w => (o.idx, w)))
      let bindArr := inferBindings vc vnodes (memRoots ++ entOutRoots ++ roots ++ cellPairs.flatMap (fun (_, w, _, ty, d, en) => proposeGated c.circ vnodes w ty d en) ++ loopCells.flatMap (fun (_, e, ty, d) => proposeAlways c.circ vnodes e ty d) ++ latchCells.flatMap (fun (_, e, _, _, ty, s, r, _) => proposeLatch c.circ vnodes e ty s r)) enablePairs
      -- nodes the validator rejects (reported), then withdrawn from the binding together with whatever depended on
      -- them, until every remaining bound node passes: the theorems then speak about the results that are still bound
      let bindArr0 := bindArr
      let failing := (List.range vnodes.size).filter (fun n => !checkNode vc vnodes (fun m => bindArr0.getD m none) n)
      let bindArr := withdraw vc vnodes (vnodes.size + 1) bindArr0
      let bindF : Nat → Option Bind := fun n => bindArr.getD n none
      let rank := computeRank vc
      let ranked := vc.checkRanked rank
      let allOk := (List.range vnodes.size).all (fun n => checkNode vc vnodes bindF n)
      let nBound := (bindArr.toList.filter Option.isSome).length
      let matchJson := Json.mkObj <| [("ranked", Json.bool ranked), ("all", Json.bool failing.isEmpty),
        ("failing_nodes", Json.arr (failing.map (fun n => Json.mkObj [("node", toJson n),
            ("kind", Json.str ((toString (repr (vnodes.getD n (.const "" 0)))).take 60).toString)])).toArray),
        ("bound", nBound), ("roots", roots.length), ("nodes", vnodes.size),
        ("cells", Json.arr (cellPairs.map (fun (m, w, h, ty, d, en) =>
          Json.mkObj [("mem", toJson m), ("write_gate", toJson w), ("hold_gate", toJson h), ("type", Json.str ty),
            ("proved", Json.bool (stateful && allOk && cutOK c.circ cutL &&
              gatedCellIs c.circ vc vnodes bindF w h ty d en))])).toArray),
        ("latch_cells", Json.arr (latchCells.map (fun (m, e, mu, k, ty, sArg, rArg, sp) =>
          Json.mkObj [("mem", toJson m), ("entity", toJson e), ("type", Json.str ty), ("multiplier", match mu with | some x => toJson x | none => Json.null),
            ("set_priority", Json.bool sp),
            ("proved", Json.bool (stateful && allOk && cutOK c.circ cutL &&
              latchIs c.circ vc vnodes bindF e ty sArg rArg sp &&
              (match mu with | some x => multIs c.circ e x ty k | none => true)))])).toArray),
        ("loop_cells", Json.arr (loopCells.map (fun (m, e, ty, d) =>
          Json.mkObj [("mem", toJson m), ("entity", toJson e), ("type", Json.str ty),
            ("proved", Json.bool (stateful && allOk && cutOK c.circ cutL &&
              alwaysCellIs c.circ vc vnodes bindF e ty d))])).toArray),
        ("rings", Json.arr ((List.range core.mems.size).filterMap (fun m =>
          match core.mems[m]? with
          | some cell =>
            (match cell.writes, cell.ty with
             | [WriteRule.always d], some ty =>
               -- theorem Facto.ring_end_to_end on the uncut circuit
               (match discoverRing c.circ vnodes (ren ty) m d with
                | some (_, stages) => some (Json.mkObj [("mem", toJson m), ("latency", toJson stages.length), ("proved", Json.bool true)])
                | none => some (Json.mkObj [("mem", toJson m), ("proved", Json.bool false)]))
             | _, _ => none)
          | none => none)).toArray),
        ("pruned", Json.bool usePrune), ("cone", Json.bool useCone),
        ("n_mems", core.mems.size),
        ("proved_names", Json.arr ((
            -- a name whose producer is an unmaterialised constant of the final IR: the source value is that constant
            -- for all inputs when the node is constant-leaved with the same value (theorem Facto.constVal_sound)
            obs.filterMap (fun o =>
              match o.claim, o.sig with
              | some m, some s =>
                (match constVal vnodes (o.node + 1) o.node with
                 | some k => if SigMap.get m s == k then some (Json.str o.name) else none
                 | none => none)
              | _, _ => none)) ++ (if ranked && allOk then
            -- a name is proved when its node is bound and the place it is observed at reads exactly that binding
            (obs.filterMap (fun o =>
              if o.claim.isSome then none else
              if let some w := o.enable then
                (if !useCone && enableIs vc vnodes bindF o.idx w then some (Json.str o.name) else none)
              else
              match bindF o.node with
              | some (.konst _) => none
              | some b =>
                if !inCone b then none else
                let sigOK := match b with
                  | .ent _ s => o.sig == some s
                  | .sum _ s => o.sig == some s
                  | .many _ => o.sig.isNone
                  | .konst _ => false
                if !sigOK then none else
                if !o.atAnchor then
                  (match b with
                   | .ent e _ => if e == o.idx then some (Json.str o.name) else none
                   | .many [e] => if e == o.idx then some (Json.str o.name) else none
                   | _ => none)
                else if obsOK c.circ o.idx b then some (Json.str o.name) else none
              | none => none)) else [])).toArray)] ++
        (if (jgetD j "dump").getBool?.toOption.getD false then
          [("dump", Json.mkObj [
            ("kinds", Json.arr (vc.kinds.map (fun k => Json.str (toString (repr k))))),
            ("prodR", Json.str (toString (repr vc.prodR))), ("prodG", Json.str (toString (repr vc.prodG))),
            ("nodes", Json.arr (core.nodes.map (fun k => Json.str (toString (repr k))))),
            ("bind", Json.arr (bindArr.map (fun k => Json.str (toString (repr k)))))])]
         else [])
      let outputsJson := Json.arr (core.named.toList.filterMap (fun nm =>
        if nm.topLevel && !core.consumed.contains nm.name then
          some (Json.mkObj [("name", nm.name), ("line", nm.line), ("bundle", Json.bool nm.isBundle),
            ("const", Json.bool (match core.nodes[nm.node]? with | some (.input ..) => true | some (.const ..) => true | _ => false))])
        else none)).toArray
      let inputsJson := Json.arr (core.nodes.toList.filterMap (fun nd => match nd with
        | .input name ty v => some (Json.mkObj [("name", name), ("ty", ty), ("lit", Json.num (JsonNumber.fromInt v.toInt))])
        | _ => none)).toArray
      Json.mkObj [("id", id), ("elab", "ok"), ("stateful", Json.bool stateful), ("outputs", outputsJson), ("inputs", inputsJson), ("match", matchJson),
        ("retype_ok", Json.bool retypeOk), ("n_implicit", (core.nodes.toList.filter (fun nd => match nd.ty? with | some ty => isImplicit ty | none => false)).length),
        ("n_nodes", core.nodes.size), ("n_obs", obs.length), ("n_inputs", inputs.length),
        ("obs", Json.arr (obs.map (fun o => Json.str o.name)).toArray),
        ("claimed", Json.arr ((obs.filter (·.claim.isSome)).map (fun o => Json.str o.name)).toArray),
        -- results (top-level names nothing consumes) that are compared nowhere; a consumed value without an entity of
        -- its own (a wire-merged bundle) is seen through its consumers
        ("unobserved", Json.arr (((core.named.toList.filter (fun nm => nm.topLevel && !core.consumed.contains nm.name)).filter (fun nm => !obs.any (·.name == nm.name))).map (fun nm => Json.str nm.name)).toArray),
        ("unsupported", Json.arr (unsupported.map Json.str).toArray),
        ("wire", wireJson), ("history", histJson), ("valuations", done), ("mismatches", Json.arr (ms.map Mismatch.toJson).toArray)]

/-- static semantics only: does the reference elaborator accept the program? -/
def runWf (j : Json) : Json :=
  let id := jgetD j "id"
  let prog := decodeProgram (jgetD j "ast")
  let known : Option (List String) := match (jgetD j "known").getArr?.toOption with
    | some a => some (a.toList.filterMap (fun x => x.getStr?.toOption))
    | none => none
  match elabProgram prog known with
  | .error e => Json.mkObj [("id", id), ("accept", Json.bool false), ("class", e.cls.toString), ("msg", e.msg), ("line", e.line)]
  | .ok core => Json.mkObj [("id", id), ("accept", Json.bool true), ("n_nodes", core.nodes.size),
      ("n_ents", core.ents.size), ("n_mems", core.mems.size),
      ("ents", Json.arr (core.ents.map (fun e => Json.mkObj [("proto", e.proto), ("line", e.line),
        ("pos", match e.pos with | some (x, y) => Json.arr #[Json.num (JsonNumber.fromInt x), Json.num (JsonNumber.fromInt y)] | none => Json.null),
        ("props", Json.arr (e.props.map (fun (k, v) => Json.arr #[Json.str k, Json.str v])).toArray)])))]

/-- geometry / structure of the printed blueprint (C08, C09, C18) -/
def runGeo (j : Json) : Json :=
  let id := jgetD j "id"
  match parseBlueprint (jgetD j "printed") with
  | .error e => Json.mkObj [("id", id), ("blueprint_error", e)]
  | .ok bp =>
    let protos := ((jgetD j "geometry").getArr?.toOption.getD #[]).map decodeProto
    let checkPower := ((jgetD j "check_power").getBool?.toOption).getD false
    -- pole grid before trimming (centres, tiles) in 1/1000 tile
    let grid : List (Int × Int) := ((jgetD j "pretrim_poles").getArr?.toOption.getD #[]).toList.filterMap (fun p =>
      match p.getArr?.toOption with
      | some a =>
        let f (x : Json) : Int := match x.getNum?.toOption with
          | some n => (n.mantissa * 1000) / (10 ^ n.exponent : Nat)
          | none => 0
        some (f (a.getD 0 Json.null), f (a.getD 1 Json.null))
      | none => none)
    let gridSupply : Int := (jgetD j "grid_supply").getInt?.toOption.getD 0
    let g := geoCheck bp protos checkPower grid gridSupply
    let num (i : Nat) : Json := toJson ((bp.ents.getD i default).number)
    let ents := Json.arr (bp.ents.map (fun e => Json.mkObj [("n", e.number), ("name", e.name), ("x2", Json.num (JsonNumber.fromInt e.x2)), ("y2", Json.num (JsonNumber.fromInt e.y2))]))
    Json.mkObj [("id", id), ("n_entities", bp.ents.size), ("n_wires", bp.wires.size),
      ("geometry_rows", protos.size),
      ("overlaps", Json.arr (g.overlaps.map (fun (a, b) => Json.arr #[num a, num b])).toArray),
      ("bad_wires", Json.arr (g.badWires.map (fun (k, why) => Json.mkObj [("wire", k), ("why", why)])).toArray),
      ("unpowered", Json.arr (g.unpowered.map num).toArray),
      ("pole_components", g.poleComponents), ("n_poles", g.nPoles),
      ("connectable", Json.arr (g.connectable.map (fun (a, b) => Json.arr #[num a, num b])).toArray),
      ("unpowered_inside", Json.arr (g.unpoweredInside.map num).toArray),
      ("unpowered_off_grid", Json.arr (g.unpoweredOffGrid.map num).toArray),
      ("unpowered_grid_hole", Json.arr (g.unpoweredGridHole.map num).toArray),
      ("grid_points", grid.length), ("entities", ents)]

/-- source-level embedding of one program in another (C12: P in an interleaving of P and Q) -/
def runEmbed (j : Json) : Json :=
  let id := jgetD j "id"
  match elabProgram (decodeProgram (jgetD j "ast")), elabProgram (decodeProgram (jgetD j "ast2")) with
  | .ok P, .ok P' =>
    let (ι, μ, ε) := findEmbedding P P'
    -- P with the types its nodes carry inside P' (implicit types are numbered program-wide), then node for node
    let P2 := retypeAlong ι P.nodes P'.nodes
    let ok := retypeCheck P.nodes P2 && embedsCheck ι μ ε P2 P'.nodes
    -- every top-level name of P must be the same-named result of P'
    let names := P.named.toList.filter (·.topLevel)
    let matched := names.filter (fun nm =>
      match P'.named.toList.find? (fun nm' => nm'.name == nm.name && nm'.topLevel) with
      | some nm' => ι nm.node == nm'.node
      | none => false)
    -- cells: same write rules up to the embedding is part of the node check only for reads; report the counts
    Json.mkObj [("id", id), ("elab", "ok"), ("embeds", Json.bool ok), ("names", names.length), ("names_matched", matched.length),
      ("nodes", P.nodes.size), ("nodes2", P'.nodes.size)]
  | .error e, _ => Json.mkObj [("id", id), ("elab", Json.mkObj [("error", e.cls.toString), ("msg", e.msg)])]
  | _, .error e => Json.mkObj [("id", id), ("elab", Json.mkObj [("error", e.cls.toString), ("msg", e.msg)])]

def handle (line : String) : String :=
  match Json.parse line with
  | .error e => (Json.mkObj [("error", s!"bad json: {e}")]).compress
  | .ok j =>
    match jstrD j "mode" "sem" with
    | "sem" => (runSem j).compress
    | "wf" => (runWf j).compress
    | "embed" => (runEmbed j).compress
    | "geo" => (runGeo j).compress
    | "imports" =>
      let files : List (String × String) := match jgetD j "files" with
        | .obj kvs => kvs.toList.map (fun (k, v) => (k, v.getStr?.toOption.getD ""))
        | _ => []
      let search := ((jgetD j "search").getArr?.toOption.getD #[]).toList.map (fun x => x.getStr?.toOption.getD "")
      let base := (jgetD j "base").getStr?.toOption
      let r := expand { files } search (files.length + 2) (jstrD j "source") base []
      (Json.mkObj [("id", jgetD j "id"), ("text", r.text), ("processed", Json.arr (r.processed.map Json.str).toArray),
        ("error", match r.error with | some e => Json.str e | none => Json.null)]).compress
    | "canon" =>
      (match parseBlueprint (jgetD j "printed") with
       | .error e => Json.mkObj [("id", jgetD j "id"), ("blueprint_error", e)]
       | .ok bp => Json.mkObj [("id", jgetD j "id"), ("canon", canonical bp),
           ("kinds", Json.mkObj (bp.ents.toList.map (fun (e : BpEntity) => (toString e.number, Json.str (kindStr e.kind))))),
           ("wires", Json.arr (bp.wires.map (fun (w : BpWire) => Json.arr #[toJson w.e1, toJson w.c1, toJson w.e2, toJson w.c2])))]).compress
    | m => (Json.mkObj [("id", jgetD j "id"), ("error", s!"unknown mode {m}")]).compress

partial def loop (h : IO.FS.Stream) (out : IO.FS.Stream) : IO Unit := do
  let line ← h.getLine
  if line.isEmpty then return ()
  if line.trimAscii.toString.isEmpty then loop h out else
  out.putStrLn (handle line)
  out.flush
  loop h out

def main : IO Unit := do
  loop (← IO.getStdin) (← IO.getStdout)
