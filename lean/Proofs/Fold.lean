import Model.Int32
import Model.Generated
/-!
# Lemmas relating the Python integer shim (`PyInt`) to 32-bit combinator arithmetic (`Facto.alu`)
-/
namespace Facto

theorem i32_toInt (a : I32) : i32 a.toInt = a := by
  unfold i32; exact BitVec.ofInt_toInt

theorem i32_add (x y : Int) : i32 (x + y) = i32 x + i32 y := by
  unfold i32; exact BitVec.ofInt_add x y

theorem i32_mul (x y : Int) : i32 (x * y) = i32 x * i32 y := by
  unfold i32; exact BitVec.ofInt_mul x y

theorem i32_sub (x y : Int) : i32 (x - y) = i32 x - i32 y := by
  unfold i32
  apply BitVec.eq_of_toInt_eq
  simp [BitVec.toInt_sub, BitVec.toInt_ofInt]

theorem i32_pow (x : Int) (n : Nat) : i32 (x ^ n) = (i32 x) ^ n := by
  induction n with
  | zero => simp [i32]
  | succ n ih => rw [Int.pow_succ, i32_mul, ih, BitVec.pow_succ]

theorem sq_pow (x : I32) (m : Nat) : (x * x) ^ m = x ^ (2 * m) := by
  induction m with
  | zero => simp
  | succ m ih =>
    rw [BitVec.pow_succ, ih, show 2 * (m + 1) = (2 * m + 1) + 1 by omega, BitVec.pow_succ, BitVec.pow_succ,
      BitVec.mul_assoc]

theorem powLoop_eq : ∀ (f n : Nat) (base acc : I32), n < 2 ^ f → powLoop base acc n f = acc * base ^ n := by
  intro f
  induction f with
  | zero =>
    intro n base acc h
    have : n = 0 := by simpa using h
    subst this
    simp [powLoop]
  | succ f ih =>
    intro n base acc h
    unfold powLoop
    by_cases h0 : n = 0
    · subst h0; simp
    · simp only [h0, if_false]
      rw [ih (n / 2) (base * base) _ (by rw [Nat.pow_succ] at h; omega), sq_pow]
      by_cases hodd : n % 2 = 1
      · simp only [hodd, if_true]
        have : n = 2 * (n / 2) + 1 := by omega
        conv => rhs; rw [this, BitVec.pow_succ]
        rw [BitVec.mul_assoc, BitVec.mul_comm base]
      · simp only [hodd, if_false]
        have : n = 2 * (n / 2) := by omega
        conv => rhs; rw [this]

theorem ipow_eq (a b : I32) : ipow a b = if b.toInt < 0 then 0 else a ^ b.toNat := by
  unfold ipow
  split
  · rfl
  · rw [powLoop_eq 32 b.toNat a 1 b.isLt]
    simp

theorem slt_iff (a b : I32) : a.slt b = decide (a.toInt < b.toInt) := by
  simp [BitVec.slt]

theorem ofInt64_toInt (a : I32) : BitVec.ofInt 64 a.toInt = a.signExtend 64 := by
  apply BitVec.eq_of_toInt_eq
  rw [BitVec.toInt_ofInt, BitVec.toInt_signExtend_of_le (by omega)]
  have h1 := @BitVec.toInt_lt 32 a
  have h2 := @BitVec.le_toInt 32 a
  apply Int.bmod_eq_of_le <;> omega

/-- `& | ^` through the 64-bit shim agree with the 32-bit operations on 32-bit operands -/
theorem i32_band (a b : I32) : i32 (PyInt.band a.toInt b.toInt) = a &&& b := by
  unfold i32 PyInt.band
  rw [ofInt64_toInt, ofInt64_toInt, ← BitVec.signExtend_and, BitVec.toInt_signExtend_of_le (by omega), BitVec.ofInt_toInt]

theorem i32_bor (a b : I32) : i32 (PyInt.bor a.toInt b.toInt) = a ||| b := by
  unfold i32 PyInt.bor
  rw [ofInt64_toInt, ofInt64_toInt, ← BitVec.signExtend_or, BitVec.toInt_signExtend_of_le (by omega), BitVec.ofInt_toInt]

theorem i32_bxor (a b : I32) : i32 (PyInt.bxor a.toInt b.toInt) = a ^^^ b := by
  unfold i32 PyInt.bxor
  rw [ofInt64_toInt, ofInt64_toInt, ← BitVec.signExtend_xor, BitVec.toInt_signExtend_of_le (by omega), BitVec.ofInt_toInt]

theorem ofInt32_toInt64 (y : BitVec 64) : BitVec.ofInt 32 y.toInt = y.setWidth 32 := by
  apply BitVec.eq_of_toNat_eq
  simp only [BitVec.toNat_ofInt, BitVec.toNat_setWidth]
  rw [BitVec.toInt_eq_toNat_cond]
  have := y.isLt
  split <;> omega

theorem setWidth32_ofInt64 (x : Int) : (BitVec.ofInt 64 x).setWidth 32 = BitVec.ofInt 32 x := by
  apply BitVec.eq_of_toNat_eq
  simp only [BitVec.toNat_ofInt, BitVec.toNat_setWidth]
  omega

/-- masking with `0xFFFFFFFF` is invisible after truncation to 32 bits, for every integer -/
theorem i32_mask (x : Int) : i32 (PyInt.band x 4294967295) = i32 x := by
  unfold i32 PyInt.band
  rw [ofInt32_toInt64, BitVec.setWidth_and, setWidth32_ofInt64, setWidth32_ofInt64]
  have : BitVec.ofInt 32 4294967295 = BitVec.allOnes 32 := by decide
  rw [this, BitVec.and_allOnes]

theorem i32_two_pow (n : Nat) : i32 ((2 : Int) ^ n) = BitVec.twoPow 32 n := by
  induction n with
  | zero => simp [i32, BitVec.twoPow_zero]
  | succ n ih =>
    rw [Int.pow_succ, i32_mul, ih]
    have h2 : i32 2 = BitVec.twoPow 32 1 := by decide
    rw [h2, BitVec.twoPow_mul_twoPow_eq]

theorem i32_shl (a : I32) (n : Nat) : i32 (PyInt.shl a.toInt n) = a <<< n := by
  unfold PyInt.shl
  rw [i32_mul, i32_toInt, Int.toNat_natCast, i32_two_pow, BitVec.shiftLeft_eq_mul_twoPow]

theorem i32_shr (a : I32) (n : Nat) : i32 (PyInt.shr a.toInt n) = a.sshiftRight n := by
  unfold PyInt.shr i32
  rw [Int.toNat_natCast, ← BitVec.toInt_sshiftRight, BitVec.ofInt_toInt]

end Facto
