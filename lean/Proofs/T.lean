import Model.Int32
import Mathlib.Tactic.Ring
namespace Facto
theorem foo_comm (a b : I32) : foo a b = foo b a := by unfold foo; exact BitVec.add_comm a b
end Facto
