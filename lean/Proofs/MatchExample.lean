import Proofs.MatchSound
/-!
# Non-vacuity of `scalar_end_to_end`

A concrete circuit of seven combinators (negation as `× -1`, a comparison, and the four-combinator
lowering of `||` on a non-boolean operand) passes `checkAll` and `checkRanked`, the hypotheses
`InputsOK` / `InputsAgree` are satisfiable for every input value, and the conclusion specialises to a
closed statement about that circuit: for all values `v` of the declared input.
-/
namespace Facto.MatchExample
open Facto SigMap

def R : Sel := { red := true, green := false }
def G : Sel := { red := false, green := true }
def RG : Sel := { red := true, green := true }

def one (s : Sig) : DOut := { sig := .sig s, copy := false, const := 1, sel := RG }

def circ : Circuit where
  kinds := #[
    .const [("A", 5)],
    .arith { first := .ref (.sig "A") R, second := .const (i32 (-1)), op := .mul, out := some (.sig "A") },
    .decider { conds := [{ first := .ref (.sig "A") R, op := .gt, second := .const 3, isAnd := false }], outs := [one "A"] },
    .decider { conds := [{ first := .ref (.sig "A") R, op := .ne, second := .const 0, isAnd := false }], outs := [one "A"] },
    .decider { conds := [{ first := .ref (.sig "A") R, op := .ne, second := .const 0, isAnd := false }], outs := [one "A"] },
    .arith { first := .ref (.sig "A") R, second := .ref (.sig "A") G, op := .add, out := some (.sig "A") },
    .decider { conds := [{ first := .ref (.sig "A") R, op := .gt, second := .const 0, isAnd := false }], outs := [one "A"] }]
  prodR := #[[], [0], [1], [0], [2], [3], [5]]
  prodG := #[[], [], [], [], [], [4], []]

def nodes : Array CNode := #[
  .input "a" "A" 5,
  .arith .sub (.int 0) (.node 0) "A",
  .cmp .gt (.node 1) (.int 3) "A",
  .lor (.node 0) (.node 2) "A"]

def bind : Nat → Option Bind
  | 0 => some (.ent 0 "A")
  | 1 => some (.ent 1 "A")
  | 2 => some (.ent 2 "A")
  | 3 => some (.ent 6 "A")
  | _ => none

theorem accepts : checkAll circ nodes bind = true := by decide +kernel
def rank (i : Nat) : Nat := if i < 7 then i else 0
theorem ranked : circ.checkRanked rank = true := by decide +kernel

def inpOf (v : I32) : Inputs := fun i => if i = 0 then some [("A", v)] else none
def envOf (v : I32) : Env := { input := fun name => if name = "a" then some v else none }

theorem inputsOK (v : I32) : InputsOK circ (inpOf v) := by
  intro i m h
  unfold inpOf at h
  split at h
  · rename_i hi
    subst hi
    injection h with h
    subst h
    exact Or.inr ⟨"A", 5, rfl, by intro s hs; have : ¬ "A" = s := fun e => hs e.symm; simp [this]⟩
  · cases h

theorem inputsAgree (v : I32) : InputsAgree nodes bind (inpOf v) (envOf v) := by
  refine ⟨?_, ?_, ?_⟩
  · intro n name ty lit e s hnode hbind
    match n, hnode, hbind with
    | 0, hnode, hbind =>
      simp only [nodes] at hnode
      injection hnode with hnode
      injection hnode with h1 h2 h3
      injection hbind with hbind
      injection hbind with he hs
      subst h1; subst he; subst hs
      simp [inpOf, envOf]
    | 1, hnode, _ => simp [nodes] at hnode
    | 2, hnode, _ => simp [nodes] at hnode
    | 3, hnode, _ => simp [nodes] at hnode
    | (k + 4), hnode, _ => simp [nodes] at hnode
  · intro n e s hbind hnot
    match n, hbind, hnot with
    | 0, _, hnot => exact absurd rfl (hnot "a" "A" 5)
    | 1, hbind, _ => injection hbind with h; injection h with he _; subst he; rfl
    | 2, hbind, _ => injection hbind with h; injection h with he _; subst he; rfl
    | 3, hbind, _ => injection hbind with h; injection h with he _; subst he; rfl
    | (k + 4), hbind, _ => simp [bind] at hbind
  · refine ⟨?_, ?_⟩
    · intro e he
      unfold inpOf at he
      split at he
      · rename_i h0
        subst h0
        exact Or.inl ⟨0, "a", "A", 5, "A", by decide, rfl, rfl⟩
      · exact absurd rfl he
    · refine ⟨?_, ?_⟩
      · intro n k e hnode _
        match n, hnode with
        | 0, hnode => simp [nodes] at hnode
        | 1, hnode => simp [nodes] at hnode
        | 2, hnode => simp [nodes] at hnode
        | 3, hnode => simp [nodes] at hnode
        | (j + 4), hnode => simp [nodes] at hnode
      · intro n m ty es hnode _
        match n, hnode with
        | 0, hnode => simp [nodes] at hnode
        | 1, hnode => simp [nodes] at hnode
        | 2, hnode => simp [nodes] at hnode
        | 3, hnode => simp [nodes] at hnode
        | (j + 4), hnode => simp [nodes] at hnode

/-- the closed corollary: from tick 7 on, for every input value `v`, combinator 6 shows `v || (-v > 3)` -/
theorem holds_for_all_inputs (v : I32) (t : Nat) (ht : 7 ≤ t) :
    get (circ.runF (inpOf v) t 6) "A" = nodeVal nodes (envOf v) 3 :=
  scalar_end_to_end circ nodes bind rank ranked accepts (inpOf v) (envOf v) (inputsOK v) (inputsAgree v)
    7 (by
      intro i
      unfold rank
      split <;> omega) t ht 3 6 "A" (by decide) rfl

/-- … and the right-hand side is the source-level meaning, computed: `v ≠ 0 ∨ (0 - v) > 3` -/
theorem rhs_value (v : I32) :
    nodeVal nodes (envOf v) 3 = boolI (v != 0 || boolI (cmp .gt (alu .sub 0 v) 3) != 0) := by
  have h0 : nodeVal nodes (envOf v) 0 = v := by
    rw [nodeVal_eq nodes (envOf v) 0 (by decide) "A" rfl]
    simp [nodes, evalNode, envOf]
  have h1 : nodeVal nodes (envOf v) 1 = alu .sub 0 v := by
    rw [nodeVal_arith nodes (envOf v) 1 (by decide) .sub (.int 0) (.node 0) "A" rfl rfl rfl]
    show alu .sub 0 (nodeVal nodes (envOf v) 0) = _
    rw [h0]
  have h2 : nodeVal nodes (envOf v) 2 = boolI (cmp .gt (alu .sub 0 v) 3) := by
    rw [nodeVal_cmp nodes (envOf v) 2 (by decide) .gt (.node 1) (.int 3) "A" rfl rfl rfl]
    show boolI (cmp .gt (nodeVal nodes (envOf v) 1) 3) = _
    rw [h1]
  rw [nodeVal_lor nodes (envOf v) 3 (by decide) (.node 0) (.node 2) "A" rfl rfl rfl]
  show boolI (nodeVal nodes (envOf v) 0 != 0 || nodeVal nodes (envOf v) 2 != 0) = _
  rw [h0, h2]

end Facto.MatchExample
