import Proofs.MemSound
/-!
# Non-vacuity of the memory theorems: a one-combinator counter

`Memory c: "A"; c.write(c.read() + 1);` folded by the compiler into one arithmetic combinator that reads its own
output. The ring check accepts it (`decide +kernel`), `ring_end_to_end` applies at every tick, and the closed
consequence is that the combinator shows `t` at tick `t`.
-/
namespace Facto.MemExample
open Facto SigMap

def circ : Circuit where
  kinds := #[.arith { first := .ref (.sig "A") { red := true, green := false }, second := .const 1, op := .add,
                      out := some (.sig "A") }]
  prodR := #[[0]]
  prodG := #[[]]

def nodes : Array CNode := #[.memRead 0 "A", .arith .add (.node 0) (.int 1) "A"]

def stages : List RStage := [{ node := 1, ent := 0, op := .add, ringFirst := true, side := .int 1 }]

theorem accepts : ringCellIs circ nodes "A" 0 0 stages (.node 1) = true := by decide +kernel

def inp : Inputs := fun _ => none

theorem inputsOK : InputsOK circ inp := by intro i m h; cases h

/-- the source-level step: the written expression with the cell holding `x` is `x + 1` -/
theorem next_is_succ (env : Env) :
    (WriteRule.always (.node 1)).next nodes (evalNodes nodes env) (env.mem 0) = env.mem 0 + 1 := by
  show argVal nodes (evalNodes nodes env) (.node 1) = _
  have h0 : nodeVal nodes env 0 = env.mem 0 := by
    rw [nodeVal_eq nodes env 0 (by decide) "A" rfl]
    simp [nodes, evalNode]
  have h1 := nodeVal_arith nodes env 1 (by decide) .add (.node 0) (.int 1) "A" rfl rfl rfl
  show nodeVal nodes env 1 = _
  rw [h1]
  show alu .add (nodeVal nodes env 0) 1 = _
  rw [h0]
  rfl

/-- the counter counts: at tick `t` the combinator shows `t` (mod 2³²) -/
theorem counter_counts : ∀ t, get (circ.runF inp t 0) "A" = BitVec.ofNat 32 t := by
  intro t
  induction t with
  | zero => rfl
  | succ t ih =>
    let env : Env := { mem := fun _ => get (circ.runF inp t 0) "A" }
    have h := ring_end_to_end circ nodes "A" 0 0 stages (.node 1) accepts inp inputsOK t env rfl
      (by intro st hst; simp [stages] at hst; subst hst; rfl)
    have hl : lastEnt 0 stages = 0 := rfl
    rw [hl] at h
    have : t + stages.length = t + 1 := rfl
    rw [this] at h
    rw [h, next_is_succ env]
    show get (circ.runF inp t 0) "A" + 1 = _
    rw [ih]
    apply BitVec.eq_of_toNat_eq
    simp [BitVec.toNat_add, BitVec.toNat_ofNat]

end Facto.MemExample
