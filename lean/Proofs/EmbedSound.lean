import Model.Embed
import Proofs.MatchSound
/-!
# A Core program embedded in another denotes the same (C12; the source half of C15 / C16)
-/
namespace Facto
open SigMap

/-- the two valuations agree through the renumbering of cells and entities -/
structure EnvRel (μ ε : Nat → Nat) (env env' : Env) : Prop where
  input : env'.input = env.input
  mem : ∀ m, env'.mem (μ m) = env.mem m
  entOut : ∀ e, env'.entOut (ε e) = env.entOut e
  entProp : ∀ e p, env'.entProp (ε e) p = env.entProp e p

theorem mapIdx_ty (ι μ ε : Nat → Nat) (nd : CNode) : (nd.mapIdx ι μ ε).ty? = nd.ty? := by
  cases nd <;> rfl

/-- what the evaluation of a node looks at: the values and the types of the nodes it refers to -/
def RefsAgree (ι : Nat → Nat) (P P' : Array CNode) (V V' : Array SigMap) (refs : List Nat) : Prop :=
  ∀ i, i ∈ refs → V'.getD (ι i) [] = V.getD i [] ∧
    (P'.getD (ι i) (.const "" 0)).ty? = (P.getD i (.const "" 0)).ty?

theorem argVal_mapIdx (ι : Nat → Nat) (P P' : Array CNode) (V V' : Array SigMap) (a : Arg)
    (h : RefsAgree ι P P' V V' a.refs) : argVal P' V' (a.mapIdx ι) = argVal P V a := by
  cases a with
  | int k => rfl
  | node i =>
    obtain ⟨hv, ht⟩ := h i (by simp [Arg.refs])
    simp only [Arg.mapIdx, argVal, hv, ht]

theorem RefsAgree.mono {ι : Nat → Nat} {P P' : Array CNode} {V V' : Array SigMap} {l1 l2 : List Nat}
    (h : RefsAgree ι P P' V V' l2) (hs : ∀ i, i ∈ l1 → i ∈ l2) : RefsAgree ι P P' V V' l1 :=
  fun i hi => h i (hs i hi)

theorem evalNode_mapIdx (ι μ ε : Nat → Nat) (P P' : Array CNode) (env env' : Env) (hrel : EnvRel μ ε env env')
    (V V' : Array SigMap) (nd : CNode) (h : RefsAgree ι P P' V V' nd.refs) :
    evalNode P' env' V' (nd.mapIdx ι μ ε) = evalNode P env V nd := by
  have av : ∀ a : Arg, (∀ i, i ∈ a.refs → i ∈ nd.refs) → argVal P' V' (a.mapIdx ι) = argVal P V a :=
    fun a hs => argVal_mapIdx ι P P' V V' a (h.mono hs)
  have bv : ∀ b, b ∈ nd.refs → V'.getD (ι b) [] = V.getD b [] := fun b hb => (h b hb).1
  cases nd with
  | input name ty v => simp [CNode.mapIdx, evalNode, hrel.input]
  | const ty v => rfl
  | arith op a b ty =>
    simp only [CNode.mapIdx, evalNode]
    rw [av a (by intro i hi; simp [CNode.refs, hi]), av b (by intro i hi; simp [CNode.refs, hi])]
  | cmp op a b ty =>
    simp only [CNode.mapIdx, evalNode]
    rw [av a (by intro i hi; simp [CNode.refs, hi]), av b (by intro i hi; simp [CNode.refs, hi])]
  | gate op a b v ty =>
    simp only [CNode.mapIdx, evalNode]
    rw [av a (by intro i hi; simp [CNode.refs, hi]), av b (by intro i hi; simp [CNode.refs, hi]),
      av v (by intro i hi; simp [CNode.refs, hi])]
  | land a b ty =>
    simp only [CNode.mapIdx, evalNode]
    rw [av a (by intro i hi; simp [CNode.refs, hi]), av b (by intro i hi; simp [CNode.refs, hi])]
  | lor a b ty =>
    simp only [CNode.mapIdx, evalNode]
    rw [av a (by intro i hi; simp [CNode.refs, hi]), av b (by intro i hi; simp [CNode.refs, hi])]
  | lnot a ty =>
    simp only [CNode.mapIdx, evalNode]
    rw [av a (by intro i hi; simp [CNode.refs, hi])]
  | proj a ty =>
    simp only [CNode.mapIdx, evalNode]
    rw [av a (by intro i hi; simp [CNode.refs, hi])]
  | memRead m ty => simp [CNode.mapIdx, evalNode, hrel.mem]
  | select b ty =>
    simp only [CNode.mapIdx, evalNode]
    rw [bv b (by simp [CNode.refs])]
  | anyCmp b op rhs out ty =>
    have e1 := bv b (by simp [CNode.refs])
    have e2 := av rhs (by intro i hi; simp [CNode.refs, hi])
    cases out with
    | none => simp only [CNode.mapIdx, evalNode, Option.map_none, e1, e2]
    | some o =>
      have e3 := av o (by intro i hi; simp [CNode.refs, hi])
      simp only [CNode.mapIdx, evalNode, Option.map_some, e1, e2, e3]
  | allCmp b op rhs out ty =>
    have e1 := bv b (by simp [CNode.refs])
    have e2 := av rhs (by intro i hi; simp [CNode.refs, hi])
    cases out with
    | none => simp only [CNode.mapIdx, evalNode, Option.map_none, e1, e2]
    | some o =>
      have e3 := av o (by intro i hi; simp [CNode.refs, hi])
      simp only [CNode.mapIdx, evalNode, Option.map_some, e1, e2, e3]
  | entRead e p ty => simp [CNode.mapIdx, evalNode, hrel.entProp]
  | bmerge parts =>
    simp only [CNode.mapIdx, evalNode, List.map_map]
    congr 1
    apply List.map_congr_left
    intro p hp
    exact bv p (by simp [CNode.refs, hp])
  | beach op b k =>
    simp only [CNode.mapIdx, evalNode]
    rw [bv b (by simp [CNode.refs]), av k (by intro i hi; simp [CNode.refs, hi])]
  | bfilter op b k out =>
    simp only [CNode.mapIdx, evalNode]
    rw [bv b (by simp [CNode.refs]), av k (by intro i hi; simp [CNode.refs, hi])]
  | bgate op a k b =>
    simp only [CNode.mapIdx, evalNode]
    rw [bv b (by simp [CNode.refs]), av a (by intro i hi; simp [CNode.refs, hi]),
      av k (by intro i hi; simp [CNode.refs, hi])]
  | entOut e => simp [CNode.mapIdx, evalNode, hrel.entOut]

/-- **Embedding.** Every node of `P` denotes in `P'`, at its image, what it denotes in `P` — for all inputs. -/
theorem embed_sound (ι μ ε : Nat → Nat) (P P' : Array CNode) (h : embedsCheck ι μ ε P P' = true)
    (env env' : Env) (hrel : EnvRel μ ε env env') :
    ∀ n, n < P.size → (evalNodes P' env').getD (ι n) [] = (evalNodes P env).getD n [] := by
  intro n
  induction n using Nat.strongRecOn with
  | _ n ih =>
    intro hn
    unfold embedsCheck at h
    rw [List.all_eq_true] at h
    have hc := h n (List.mem_range.mpr hn)
    rw [Array.getElem?_eq_getElem hn] at hc
    simp only [Bool.and_eq_true, decide_eq_true_eq, beq_iff_eq, List.all_eq_true] at hc
    obtain ⟨⟨hlt, hnode⟩, hrefs⟩ := hc
    have hnd' : P'[ι n] = P[n].mapIdx ι μ ε := by
      rw [Array.getElem?_eq_getElem hlt] at hnode
      injection hnode
    rw [evalNodes_getD P env n hn, evalNodes_getD P' env' (ι n) hlt, hnd']
    apply evalNode_mapIdx ι μ ε P P' env env' hrel
    intro i hi
    obtain ⟨hin, hιi⟩ := hrefs i hi
    have hiP : i < P.size := by omega
    refine ⟨?_, ?_⟩
    · rw [evalUpTo_prefix P env n i hin (by omega), evalUpTo_prefix P' env' (ι n) (ι i) hιi (by omega)]
      exact ih i hin hiP
    · -- the image of `i` is `P[i]` mapped, which keeps its type
      have hci := h i (List.mem_range.mpr hiP)
      rw [Array.getElem?_eq_getElem hiP] at hci
      simp only [Bool.and_eq_true, decide_eq_true_eq, beq_iff_eq] at hci
      obtain ⟨⟨hlti, hnodei⟩, _⟩ := hci
      have : P'.getD (ι i) (.const "" 0) = P[i].mapIdx ι μ ε := by
        rw [Array.getD_eq_getD_getElem?, hnodei]; rfl
      rw [this, mapIdx_ty]
      simp [Array.getD_eq_getD_getElem?, Array.getElem?_eq_getElem hiP]

/-- scalar form: the value of a node of `P` read on its own type -/
theorem embed_nodeVal (ι μ ε : Nat → Nat) (P P' : Array CNode) (h : embedsCheck ι μ ε P P' = true)
    (env env' : Env) (hrel : EnvRel μ ε env env') (n : Nat) (hn : n < P.size) :
    nodeVal P' env' (ι n) = nodeVal P env n := by
  unfold nodeVal
  simp only [argVal]
  have hv := embed_sound ι μ ε P P' h env env' hrel n hn
  unfold embedsCheck at h
  rw [List.all_eq_true] at h
  have hc := h n (List.mem_range.mpr hn)
  rw [Array.getElem?_eq_getElem hn] at hc
  simp only [Bool.and_eq_true, decide_eq_true_eq, beq_iff_eq] at hc
  obtain ⟨⟨hlt, hnode⟩, _⟩ := hc
  have : P'.getD (ι n) (.const "" 0) = P[n].mapIdx ι μ ε := by
    rw [Array.getD_eq_getD_getElem?, hnode]; rfl
  rw [this, mapIdx_ty, hv]
  simp [Array.getD_eq_getD_getElem?, Array.getElem?_eq_getElem hn]

end Facto

namespace Facto
open SigMap

/-! ## retyping scalar values (C13: the source-level half) -/

theorem setTy_ty (a : CNode) (t t2 : Sig) (h : a.ty? = some t) : ∃ t', (a.setTy t2).ty? = some t' := by
  cases a <;> simp_all [CNode.setTy, CNode.ty?]

/-- evaluating a retyped scalar node: same value under the new key -/
theorem evalNode_setTy (P P2 : Array CNode) (env : Env) (V V2 : Array SigMap) (a : CNode) (t t2 : Sig)
    (hty : a.ty? = some t)
    (hA : ∀ x : Arg, (∀ i, i ∈ x.refs → i ∈ a.refs) → argVal P2 V2 x = argVal P V x)
    (hB : ∀ i, i ∈ a.brefs → V2.getD i [] = V.getD i []) :
    ∃ v t', (a.setTy t2).ty? = some t' ∧ evalNode P env V a = [(t, v)] ∧ evalNode P2 env V2 (a.setTy t2) = [(t', v)] := by
  cases a with
  | input name ty v =>
    simp only [CNode.ty?] at hty; injection hty with hty; subst hty
    exact ⟨_, t2, rfl, rfl, rfl⟩
  | const ty v =>
    simp only [CNode.ty?] at hty; injection hty with hty; subst hty
    exact ⟨_, t2, rfl, rfl, rfl⟩
  | arith op x y ty =>
    simp only [CNode.ty?] at hty; injection hty with hty; subst hty
    refine ⟨_, t2, rfl, rfl, ?_⟩
    simp only [CNode.setTy, evalNode]
    rw [hA x (by intro i hi; simp [CNode.refs, hi]), hA y (by intro i hi; simp [CNode.refs, hi])]
  | cmp op x y ty =>
    simp only [CNode.ty?] at hty; injection hty with hty; subst hty
    refine ⟨_, t2, rfl, rfl, ?_⟩
    simp only [CNode.setTy, evalNode]
    rw [hA x (by intro i hi; simp [CNode.refs, hi]), hA y (by intro i hi; simp [CNode.refs, hi])]
  | gate op x y w ty =>
    simp only [CNode.ty?] at hty; injection hty with hty; subst hty
    refine ⟨_, t2, rfl, rfl, ?_⟩
    simp only [CNode.setTy, evalNode]
    rw [hA x (by intro i hi; simp [CNode.refs, hi]), hA y (by intro i hi; simp [CNode.refs, hi]),
      hA w (by intro i hi; simp [CNode.refs, hi])]
  | land x y ty =>
    simp only [CNode.ty?] at hty; injection hty with hty; subst hty
    refine ⟨_, t2, rfl, rfl, ?_⟩
    simp only [CNode.setTy, evalNode]
    rw [hA x (by intro i hi; simp [CNode.refs, hi]), hA y (by intro i hi; simp [CNode.refs, hi])]
  | lor x y ty =>
    simp only [CNode.ty?] at hty; injection hty with hty; subst hty
    refine ⟨_, t2, rfl, rfl, ?_⟩
    simp only [CNode.setTy, evalNode]
    rw [hA x (by intro i hi; simp [CNode.refs, hi]), hA y (by intro i hi; simp [CNode.refs, hi])]
  | lnot x ty =>
    simp only [CNode.ty?] at hty; injection hty with hty; subst hty
    refine ⟨_, t2, rfl, rfl, ?_⟩
    simp only [CNode.setTy, evalNode]
    rw [hA x (by intro i hi; simp [CNode.refs, hi])]
  | proj x ty =>
    simp only [CNode.ty?] at hty; injection hty with hty; subst hty
    refine ⟨_, t2, rfl, rfl, ?_⟩
    simp only [CNode.setTy, evalNode]
    rw [hA x (by intro i hi; simp [CNode.refs, hi])]
  | memRead m ty =>
    simp only [CNode.ty?] at hty; injection hty with hty; subst hty
    exact ⟨_, t2, rfl, rfl, rfl⟩
  | select b ty =>
    simp only [CNode.ty?] at hty; injection hty with hty; subst hty
    refine ⟨_, ty, rfl, rfl, ?_⟩
    simp only [CNode.setTy, evalNode]
    rw [hB b (by simp [CNode.brefs])]
  | anyCmp b op rhs out ty =>
    simp only [CNode.ty?] at hty; injection hty with hty; subst hty
    refine ⟨_, t2, rfl, rfl, ?_⟩
    have e1 := hB b (by simp [CNode.brefs])
    have e2 := hA rhs (by intro i hi; simp [CNode.refs, hi])
    cases out with
    | none => simp only [CNode.setTy, evalNode, e1, e2]
    | some o =>
      have e3 := hA o (by intro i hi; simp [CNode.refs, hi])
      simp only [CNode.setTy, evalNode, e1, e2, e3]
  | allCmp b op rhs out ty =>
    simp only [CNode.ty?] at hty; injection hty with hty; subst hty
    refine ⟨_, t2, rfl, rfl, ?_⟩
    have e1 := hB b (by simp [CNode.brefs])
    have e2 := hA rhs (by intro i hi; simp [CNode.refs, hi])
    cases out with
    | none => simp only [CNode.setTy, evalNode, e1, e2]
    | some o =>
      have e3 := hA o (by intro i hi; simp [CNode.refs, hi])
      simp only [CNode.setTy, evalNode, e1, e2, e3]
  | entRead e p ty =>
    simp only [CNode.ty?] at hty; injection hty with hty; subst hty
    exact ⟨_, t2, rfl, rfl, rfl⟩
  | bmerge _ => simp [CNode.ty?] at hty
  | beach _ _ _ => simp [CNode.ty?] at hty
  | bfilter _ _ _ _ => simp [CNode.ty?] at hty
  | bgate _ _ _ _ => simp [CNode.ty?] at hty
  | entOut _ => simp [CNode.ty?] at hty

/-- evaluating an unchanged bundle node -/
theorem evalNode_bundle_congr (P P2 : Array CNode) (env : Env) (V V2 : Array SigMap) (a : CNode)
    (hty : a.ty? = none)
    (hA : ∀ x : Arg, (∀ i, i ∈ x.refs → i ∈ a.refs) → argVal P2 V2 x = argVal P V x)
    (hB : ∀ i, i ∈ a.brefs → V2.getD i [] = V.getD i []) :
    evalNode P2 env V2 a = evalNode P env V a := by
  cases a with
  | bmerge parts =>
    simp only [evalNode]
    congr 1
    apply List.map_congr_left
    intro p hp
    exact hB p (by simp [CNode.brefs, hp])
  | beach op b k =>
    simp only [evalNode]
    rw [hB b (by simp [CNode.brefs]), hA k (by intro i hi; simp [CNode.refs, hi])]
  | bfilter op b k out =>
    simp only [evalNode]
    rw [hB b (by simp [CNode.brefs]), hA k (by intro i hi; simp [CNode.refs, hi])]
  | bgate op x k b =>
    simp only [evalNode]
    rw [hB b (by simp [CNode.brefs]), hA x (by intro i hi; simp [CNode.refs, hi]), hA k (by intro i hi; simp [CNode.refs, hi])]
  | entOut e => rfl
  | _ => simp [CNode.ty?] at hty

/-- what retyping preserves at node `n` -/
def RetypeRel (P P2 : Array CNode) (env : Env) (n : Nat) : Prop :=
  (∀ t, (P.getD n (.const "" 0)).ty? = some t →
      ∃ v t', (P2.getD n (.const "" 0)).ty? = some t' ∧
        (evalNodes P env).getD n [] = [(t, v)] ∧ (evalNodes P2 env).getD n [] = [(t', v)]) ∧
  ((P.getD n (.const "" 0)).ty? = none → (evalNodes P2 env).getD n [] = (evalNodes P env).getD n [])

theorem retype_rel (P P2 : Array CNode) (h : retypeCheck P P2 = true) (env : Env) :
    ∀ n, n < P.size → RetypeRel P P2 env n := by
  unfold retypeCheck at h
  simp only [Bool.and_eq_true, beq_iff_eq, List.all_eq_true] at h
  obtain ⟨hsize, hall⟩ := h
  intro n
  induction n using Nat.strongRecOn with
  | _ n ih =>
    intro hn
    have hn2 : n < P2.size := by omega
    have hc := hall n (List.mem_range.mpr hn)
    rw [Array.getElem?_eq_getElem hn, Array.getElem?_eq_getElem hn2] at hc
    simp only [Bool.and_eq_true, List.all_eq_true, decide_eq_true_eq, beq_iff_eq] at hc
    obtain ⟨⟨hshape, hrefs⟩, hbrefs⟩ := hc
    have gP : P.getD n (.const "" 0) = P[n] := by simp [Array.getD_eq_getD_getElem?, Array.getElem?_eq_getElem hn]
    have gP2 : P2.getD n (.const "" 0) = P2[n] := by simp [Array.getD_eq_getD_getElem?, Array.getElem?_eq_getElem hn2]
    -- agreement of what node `n` looks at, from the induction hypothesis
    have hA : ∀ x : Arg, (∀ i, i ∈ x.refs → i ∈ P[n].refs) →
        argVal P2 (evalUpTo P2 env n) x = argVal P (evalUpTo P env n) x := by
      intro x hx
      cases x with
      | int k => rfl
      | node i =>
        have hi : i < n := hrefs i (hx i (by simp [Arg.refs]))
        have hr := ih i hi (by omega)
        simp only [argVal]
        rw [evalUpTo_prefix P env n i hi (by omega), evalUpTo_prefix P2 env n i hi (by omega)]
        cases hti : (P.getD i (.const "" 0)).ty? with
        | none =>
          -- a bundle node used as a scalar reads 0 on both sides (its image is the same bundle node)
          have hci := hall i (List.mem_range.mpr (by omega))
          have hi1 : i < P.size := by omega
          have hi2 : i < P2.size := by omega
          rw [Array.getElem?_eq_getElem hi1, Array.getElem?_eq_getElem hi2] at hci
          simp only [Bool.and_eq_true] at hci
          have gi : P.getD i (.const "" 0) = P[i] := by simp [Array.getD_eq_getD_getElem?, Array.getElem?_eq_getElem hi1]
          have gi2 : P2.getD i (.const "" 0) = P2[i] := by simp [Array.getD_eq_getD_getElem?, Array.getElem?_eq_getElem hi2]
          rw [gi] at hti
          have hs := hci.1.1
          rw [hti] at hs
          cases ht2 : P2[i].ty? with
          | none => rw [gi2, ht2]
          | some _ => rw [ht2] at hs; simp at hs
        | some t =>
          obtain ⟨v, t', ht', hv, hv2⟩ := hr.1 t hti
          rw [ht', hv, hv2]
          simp
    have hB : ∀ i, i ∈ P[n].brefs → (evalUpTo P2 env n).getD i [] = (evalUpTo P env n).getD i [] := by
      intro i hi
      have hin : i < n := by
        apply hrefs i
        cases hk : P[n] <;> simp_all [CNode.brefs, CNode.refs]
      have hr := ih i hin (by omega)
      rw [evalUpTo_prefix P env n i hin (by omega), evalUpTo_prefix P2 env n i hin (by omega)]
      have hsame := hbrefs i hi
      cases hti : (P.getD i (.const "" 0)).ty? with
      | none => exact hr.2 hti
      | some t =>
        obtain ⟨v, t', ht', hv, hv2⟩ := hr.1 t hti
        rw [hti, ht'] at hsame
        have : t = t' := by simpa using hsame
        subst this
        rw [hv, hv2]
    unfold RetypeRel
    rw [gP, gP2, evalNodes_getD P env n hn, evalNodes_getD P2 env n hn2]
    cases hty : P[n].ty? with
    | some t =>
      rw [hty] at hshape
      cases hty2 : P2[n].ty? with
      | none => rw [hty2] at hshape; simp at hshape
      | some t2 =>
        rw [hty2] at hshape
        have hb : P2[n] = P[n].setTy t2 := by simpa using hshape
        refine ⟨?_, fun hh => (by cases hh)⟩
        intro t0 ht0
        injection ht0 with ht0
        subst ht0
        obtain ⟨v, t', hst, e1, e2⟩ := evalNode_setTy P P2 env _ _ P[n] t t2 hty hA hB
        refine ⟨v, t', ?_, e1, ?_⟩
        · rw [hb] at hty2; rw [hst] at hty2; exact hty2.symm ▸ rfl
        · rw [hb]; exact e2
    | none =>
      rw [hty] at hshape
      cases hty2 : P2[n].ty? with
      | some _ => rw [hty2] at hshape; simp at hshape
      | none =>
        rw [hty2] at hshape
        have hb : P2[n] = P[n] := by simpa using hshape
        refine ⟨fun t ht => (by cases ht), ?_⟩
        intro _
        rw [hb]
        exact evalNode_bundle_congr P P2 env _ _ P[n] hty hA hB

/-- **C13, source level.** Giving the scalar values of a program other signal types (in particular: a fresh explicit
type for every untyped value) changes no value, for all inputs. -/
theorem retype_nodeVal (P P2 : Array CNode) (h : retypeCheck P P2 = true) (env : Env) (n : Nat) (hn : n < P.size) :
    nodeVal P2 env n = nodeVal P env n := by
  have hr := retype_rel P P2 h env n hn
  unfold nodeVal
  simp only [argVal]
  cases hti : (P.getD n (.const "" 0)).ty? with
  | some t =>
    obtain ⟨v, t', ht', hv, hv2⟩ := hr.1 t hti
    rw [ht', hv, hv2]
    simp
  | none =>
    -- a bundle node has no scalar value on either side
    have h2 : (P2.getD n (.const "" 0)).ty? = none := by
      unfold retypeCheck at h
      simp only [Bool.and_eq_true, beq_iff_eq, List.all_eq_true] at h
      have hn2 : n < P2.size := by omega
      have hc := h.2 n (List.mem_range.mpr hn)
      rw [Array.getElem?_eq_getElem hn, Array.getElem?_eq_getElem hn2] at hc
      simp only [Bool.and_eq_true] at hc
      have gP : P.getD n (.const "" 0) = P[n] := by simp [Array.getD_eq_getD_getElem?, Array.getElem?_eq_getElem hn]
      have gP2 : P2.getD n (.const "" 0) = P2[n] := by simp [Array.getD_eq_getD_getElem?, Array.getElem?_eq_getElem hn2]
      rw [gP] at hti
      have hs := hc.1.1
      rw [hti] at hs
      rw [gP2]
      cases ht2 : P2[n].ty? with
      | none => rfl
      | some _ => rw [ht2] at hs; simp at hs
    rw [h2]

/-- bundle values are untouched by retyping -/
theorem retype_bundle (P P2 : Array CNode) (h : retypeCheck P P2 = true) (env : Env) (n : Nat) (hn : n < P.size)
    (hb : (P.getD n (.const "" 0)).ty? = none) :
    (evalNodes P2 env).getD n [] = (evalNodes P env).getD n [] :=
  (retype_rel P P2 h env n hn).2 hb

end Facto

namespace Facto

/-- embedding after retyping: `P` sits in `P'` up to the types of its scalar values -/
theorem embed_retype_nodeVal (ι μ ε : Nat → Nat) (P P2 P' : Array CNode)
    (hr : retypeCheck P P2 = true) (he : embedsCheck ι μ ε P2 P' = true)
    (env env' : Env) (hrel : EnvRel μ ε env env') (n : Nat) (hn : n < P.size) :
    nodeVal P' env' (ι n) = nodeVal P env n := by
  have hsz : P.size = P2.size := by
    unfold retypeCheck at hr
    simp only [Bool.and_eq_true, beq_iff_eq] at hr
    exact hr.1
  rw [embed_nodeVal ι μ ε P2 P' he env env' hrel n (by omega), retype_nodeVal P P2 hr env n hn]

end Facto
