import Model.Circuit
import Proofs.SigMapLemmas
import Proofs.Settle
/-!
# M2 — the tick semantics depends on signal maps only through `get`

Signal maps are association lists read through the summing `get`; two lists with the same `get` are the same wire
content. This file proves that every combinator treats them alike: if the inputs of an entity agree signal by
signal, so do its outputs. Consequently the run of a circuit is determined, signal by signal, by the `get`s of the
initial state — no theorem of the development depends on list order or on how a sum is split into entries.
-/
namespace Facto
open SigMap

/-- the same wire content -/
def SEq (m m' : SigMap) : Prop := ∀ s, get m s = get m' s

theorem SEq.refl (m : SigMap) : SEq m m := fun _ => rfl
theorem SEq.symm {m m' : SigMap} (h : SEq m m') : SEq m' m := fun s => (h s).symm
theorem SEq.trans {a b c : SigMap} (h1 : SEq a b) (h2 : SEq b c) : SEq a c := fun s => (h1 s).trans (h2 s)

theorem get_perm' (s : Sig) {m1 m2 : SigMap} (h : m1.Perm m2) : get m1 s = get m2 s := by
  induction h with
  | nil => rfl
  | cons x _ ih => obtain ⟨k, v⟩ := x; simp only [get_cons, ih]
  | swap x y l =>
    obtain ⟨k1, v1⟩ := x
    obtain ⟨k2, v2⟩ := y
    simp only [get_cons]
    rw [← BitVec.add_assoc, ← BitVec.add_assoc, BitVec.add_comm (if k2 = s then v2 else 0)]
  | trans _ _ ih1 ih2 => rw [ih1, ih2]

theorem SEq.append {a a' b b' : SigMap} (h1 : SEq a a') (h2 : SEq b b') : SEq (a ++ b) (a' ++ b') := by
  intro s; simp [h1 s, h2 s]

theorem selIn_congr (sel : Sel) {r r' g g' : SigMap} (hr : SEq r r') (hg : SEq g g') :
    SEq (selIn sel r g) (selIn sel r' g') := by
  unfold selIn
  cases sel.red <;> cases sel.green <;> simp only [if_true, if_false, Bool.false_eq_true]
  · exact SEq.refl _
  · exact SEq.append (SEq.refl _) hg
  · exact SEq.append hr (SEq.refl _)
  · exact SEq.append hr hg

theorem support_perm {m m' : SigMap} (h : SEq m m') : (support m).Perm (support m') := by
  rw [List.perm_ext_iff_of_nodup (nodup_support m) (nodup_support m')]
  intro a
  rw [mem_support, mem_support, h a]

theorem mem_support_congr {m m' : SigMap} (h : SEq m m') (s : Sig) : s ∈ support m ↔ s ∈ support m' := by
  rw [mem_support, mem_support, h s]

/-- a member-wise map over the support, read back: only the `get`s of the base map and the member function matter -/
theorem map_support_congr {m m' : SigMap} (h : SEq m m') (f f' : Sig → I32) (hf : ∀ k, f k = f' k) :
    SEq ((support m).map (fun k => (k, f k))) ((support m').map (fun k => (k, f' k))) := by
  intro s
  rw [get_map_support, get_map_support, h s, hf s]

theorem Operand.val_congr (o : Operand) {r r' g g' : SigMap} (hr : SEq r r') (hg : SEq g g') :
    o.val r g = o.val r' g' := by
  cases o with
  | const k => rfl
  | ref rf sel =>
    cases rf with
    | sig s => exact selIn_congr sel hr hg s
    | _ => rfl

theorem foldl_add_eq_foldr (l : List I32) (a : I32) : l.foldl (· + ·) a = a + l.foldr (· + ·) 0 := by
  induction l generalizing a with
  | nil => simp
  | cons x l ih =>
    simp only [List.foldl_cons, List.foldr_cons, ih]
    rw [BitVec.add_assoc]

/-- the sum of the values of a signal map built over a key list = its `get` after relabelling every key to one -/
theorem sum_snd_eq_get (l : List (Sig × I32)) (s : Sig) :
    (l.map Prod.snd).foldl (· + ·) 0 = get (l.map (fun kv => (s, kv.2))) s := by
  rw [foldl_add_eq_foldr]
  induction l with
  | nil => simp
  | cons kv l ih =>
    simp only [List.map_cons, List.foldr_cons, get_cons, if_true] at ih ⊢
    rw [← ih]
    simp

theorem sum_map_support_congr {m m' : SigMap} (h : SEq m m') (f f' : Sig → I32) (hf : ∀ k, f k = f' k) :
    (((support m).map (fun k => (k, f k))).map Prod.snd).foldl (· + ·) 0 =
      (((support m').map (fun k => (k, f' k))).map Prod.snd).foldl (· + ·) 0 := by
  rw [sum_snd_eq_get _ "", sum_snd_eq_get _ ""]
  simp only [List.map_map]
  have hp := (support_perm h).map (fun k => (("" : Sig), f k))
  have : (support m').map (fun k => (("" : Sig), f k)) = (support m').map (fun k => (("" : Sig), f' k)) :=
    List.map_congr_left (fun k _ => by rw [hf k])
  have e1 : ((fun (kv : Sig × I32) => (("" : Sig), kv.2)) ∘ fun k => (k, f k)) = fun k => (("" : Sig), f k) := rfl
  have e2 : ((fun (kv : Sig × I32) => (("" : Sig), kv.2)) ∘ fun k => (k, f' k)) = fun k => (("" : Sig), f' k) := rfl
  rw [e1, e2, ← this]
  exact get_perm' "" hp

/-- **arithmetic combinators** -/
theorem evalArith_congr (c : ArithCfg) {r r' g g' : SigMap} (hr : SEq r r') (hg : SEq g g') :
    SEq (evalArith c r g) (evalArith c r' g') := by
  unfold evalArith
  cases c.out with
  | none => exact SEq.refl _
  | some out =>
    simp only
    have hv1 := Operand.val_congr c.first hr hg
    have hv2 := Operand.val_congr c.second hr hg
    by_cases h1 : c.first.isEach = true
    · simp only [h1, if_true]
      have hin := selIn_congr c.first.sel hr hg
      cases out with
      | each => exact map_support_congr hin _ _ (fun k => by rw [hin k, hv2])
      | sig s =>
        intro t
        simp only [get_cons, get_nil]
        rw [sum_map_support_congr hin _ _ (fun k => by rw [hin k, hv2])]
      | _ => exact SEq.refl _
    · simp only [h1, Bool.false_eq_true, if_false]
      by_cases h2 : c.second.isEach = true
      · simp only [h2, if_true]
        have hin := selIn_congr c.second.sel hr hg
        cases out with
        | each => exact map_support_congr hin _ _ (fun k => by rw [hin k, hv1])
        | sig s =>
          intro t
          simp only [get_cons, get_nil]
          rw [sum_map_support_congr hin _ _ (fun k => by rw [hin k, hv1])]
        | _ => exact SEq.refl _
      · simp only [h2, Bool.false_eq_true, if_false]
        cases out with
        | sig s => intro t; simp only [get_cons, get_nil, hv1, hv2]
        | _ => exact SEq.refl _

theorem any_support_congr' {m m' : SigMap} (h : SEq m m') (P : I32 → Bool) :
    (support m).any (fun s => P (get m s)) = (support m').any (fun s => P (get m' s)) := by
  apply Bool.eq_iff_iff.mpr
  simp only [List.any_eq_true, mem_support]
  constructor
  · rintro ⟨s, hs, hp⟩; exact ⟨s, by rwa [← h s], by rwa [← h s]⟩
  · rintro ⟨s, hs, hp⟩; exact ⟨s, by rwa [h s], by rwa [h s]⟩

theorem all_support_congr' {m m' : SigMap} (h : SEq m m') (P : I32 → Bool) :
    (support m).all (fun s => P (get m s)) = (support m').all (fun s => P (get m' s)) := by
  apply Bool.eq_iff_iff.mpr
  simp only [List.all_eq_true, mem_support]
  constructor
  · intro hh s hs; have := hh s (by rwa [h s]); rwa [← h s]
  · intro hh s hs; have := hh s (by rwa [← h s]); rwa [h s]

theorem Cond.rhs_congr (cd : Cond) {r r' g g' : SigMap} (hr : SEq r r') (hg : SEq g g') (k : Option Sig) :
    cd.rhs r g k = cd.rhs r' g' k := by
  unfold Cond.rhs
  split
  · rename_i sel kk _
    exact selIn_congr sel hr hg kk
  · exact Operand.val_congr _ hr hg

theorem Cond.eval_congr (cd : Cond) {r r' g g' : SigMap} (hr : SEq r r') (hg : SEq g g') (k : Option Sig) :
    cd.eval r g k = cd.eval r' g' k := by
  unfold Cond.eval
  simp only
  rw [Cond.rhs_congr cd hr hg k]
  cases cd.first with
  | const a => rfl
  | ref rf sel =>
    have hin := selIn_congr sel hr hg
    cases rf with
    | sig s => simp only [hin s]
    | each => cases k with
      | none => rfl
      | some kk => simp only [hin kk]
    | everything => exact all_support_congr' hin (fun v => cmp cd.op v (cd.rhs r' g' k))
    | anything => exact any_support_congr' hin (fun v => cmp cd.op v (cd.rhs r' g' k))

theorem evalConds_go_congr {r r' g g' : SigMap} (hr : SEq r r') (hg : SEq g g') (k : Option Sig) :
    ∀ (cs : List Cond) (cur : Bool), evalConds.go r g k cs cur = evalConds.go r' g' k cs cur := by
  intro cs
  induction cs with
  | nil => intro cur; rfl
  | cons cd rest ih =>
    intro cur
    simp only [evalConds.go, Cond.eval_congr cd hr hg k, ih]

theorem evalConds_congr (cs : List Cond) {r r' g g' : SigMap} (hr : SEq r r') (hg : SEq g g') (k : Option Sig) :
    evalConds cs r g k = evalConds cs r' g' k := by
  unfold evalConds
  cases cs with
  | nil => rfl
  | cons cd rest => simp only [Cond.eval_congr cd hr hg k, evalConds_go_congr hr hg k]

theorem DOut.emit_congr (o : DOut) {r r' g g' : SigMap} (hr : SEq r r') (hg : SEq g g') (k : Option Sig) :
    SEq (o.emit r g k) (o.emit r' g' k) := by
  unfold DOut.emit
  have hin := selIn_congr o.sel hr hg
  simp only
  cases o.sig with
  | sig s => intro t; simp only [get_cons, get_nil, hin s]
  | each =>
    cases k with
    | none => exact SEq.refl _
    | some kk => intro t; simp only [get_cons, get_nil, hin kk]
  | everything => exact map_support_congr hin _ _ (fun kk => by rw [hin kk])
  | anything => exact SEq.refl _

theorem SEq.flatten_map {α} (l : List α) (f f' : α → SigMap) (h : ∀ a, a ∈ l → SEq (f a) (f' a)) :
    SEq ((l.map f).flatten) ((l.map f').flatten) := by
  induction l with
  | nil => exact SEq.refl _
  | cons a l ih =>
    simp only [List.map_cons, List.flatten_cons]
    exact SEq.append (h a (List.mem_cons_self)) (ih (fun b hb => h b (List.mem_cons_of_mem _ hb)))

theorem SEq.flatten_perm {l l' : List SigMap} (h : l.Perm l') : SEq l.flatten l'.flatten :=
  fun s => get_perm' s h.flatten

theorem eachDomain_perm (conds : List Cond) {r r' g g' : SigMap} (hr : SEq r r') (hg : SEq g g') :
    (eachDomain conds r g).Perm (eachDomain conds r' g') := by
  unfold eachDomain
  rw [List.perm_ext_iff_of_nodup (nodup_dedup _) (nodup_dedup _)]
  intro a
  simp only [mem_dedup, List.mem_flatMap]
  constructor
  · rintro ⟨sel, hsel, ha⟩
    exact ⟨sel, hsel, (mem_support_congr (selIn_congr sel hr hg) a).mp ha⟩
  · rintro ⟨sel, hsel, ha⟩
    exact ⟨sel, hsel, (mem_support_congr (selIn_congr sel hr hg) a).mpr ha⟩

/-- **decider combinators** -/
theorem evalDecider_congr (c : DeciderCfg) {r r' g g' : SigMap} (hr : SEq r r') (hg : SEq g g') :
    SEq (evalDecider c r g) (evalDecider c r' g') := by
  unfold evalDecider
  have houts : ∀ k, SEq ((c.outs.map (fun o => o.emit r g k)).flatten) ((c.outs.map (fun o => o.emit r' g' k)).flatten) :=
    fun k => SEq.flatten_map c.outs _ _ (fun o _ => DOut.emit_congr o hr hg k)
  by_cases he : c.conds.any Cond.usesEach = true
  · simp only [he, if_true]
    -- same body on both domains, then the domains are permutations of each other
    have hbody : ∀ k, SEq (if evalConds c.conds r g (some k) = true then (c.outs.map (fun o => o.emit r g (some k))).flatten else [])
        (if evalConds c.conds r' g' (some k) = true then (c.outs.map (fun o => o.emit r' g' (some k))).flatten else []) := by
      intro k
      rw [evalConds_congr c.conds hr hg (some k)]
      split
      · exact houts (some k)
      · exact SEq.refl _
    refine SEq.trans (SEq.flatten_map (eachDomain c.conds r g) _ _ (fun k _ => hbody k)) ?_
    exact SEq.flatten_perm ((eachDomain_perm c.conds hr hg).map _)
  · simp only [he, Bool.false_eq_true, if_false]
    rw [evalConds_congr c.conds hr hg none]
    split
    · exact houts none
    · exact SEq.refl _

/-- states that agree signal by signal -/
def StEq (E E' : Nat → SigMap) : Prop := ∀ i, SEq (E i) (E' i)

theorem sumOuts_seq (ps : List Nat) {E E' : Nat → SigMap} (h : StEq E E') :
    SEq (Circuit.sumOuts ps E) (Circuit.sumOuts ps E') := by
  unfold Circuit.sumOuts
  exact SEq.flatten_map ps _ _ (fun p _ => h p)

/-- **M2.** One tick of any entity respects wire content: states that agree signal by signal lead to outputs that
agree signal by signal. -/
theorem evalEnt_congr (c : Circuit) (inp : Inputs) {E E' : Nat → SigMap} (h : StEq E E') (i : Nat) :
    SEq (c.evalEnt inp E i) (c.evalEnt inp E' i) := by
  unfold Circuit.evalEnt
  cases inp i with
  | some m => exact SEq.refl _
  | none =>
    simp only
    have hr : SEq (c.readR E i) (c.readR E' i) := sumOuts_seq _ h
    have hg : SEq (c.readG E i) (c.readG E' i) := sumOuts_seq _ h
    cases c.kind i with
    | arith cfg => exact evalArith_congr cfg hr hg
    | decider cfg => exact evalDecider_congr cfg hr hg
    | _ => exact SEq.refl _

/-- the run is determined, signal by signal, by the wire content of the initial state -/
theorem runFrom_congr (c : Circuit) (inp : Inputs) {s0 s0' : Nat → SigMap} (h : StEq s0 s0') :
    ∀ t, StEq (c.runFrom inp s0 t) (c.runFrom inp s0' t) := by
  intro t
  induction t with
  | zero => exact h
  | succ t ih => intro i; exact evalEnt_congr c inp ih i

end Facto
