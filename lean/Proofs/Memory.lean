import Model.Circuit
import Model.Core
import Proofs.Rules
/-!
# Memory templates (C03, C04, C05)

The circuits `MemoryBuilder` instantiates, as the exact decider configurations it emits, and their
next-state functions for *every* value of the enable / data / set / reset signals. The premises
(`hW…`, `hD`, `hM`, …) say what the gates' input networks carry; they are established per program by the
wiring check (`Model/Wire.lean`), which is where a mutated compiler leaves the model.
-/
namespace Facto
open SigMap

def sigW : Sig := "signal-W"

/-! ## C03: the write-gated cell -/

def writeGateCfg (ty : Sig) : DeciderCfg :=
  { conds := [{ first := .ref (.sig sigW) {}, op := .gt, second := .const 0, isAnd := false }],
    outs := [{ sig := .sig ty, copy := true, const := 1, sel := {} }] }

def holdGateCfg (ty : Sig) : DeciderCfg :=
  { conds := [{ first := .ref (.sig sigW) {}, op := .eq, second := .const 0, isAnd := false }],
    outs := [{ sig := .sig ty, copy := true, const := 1, sel := {} }] }

/-- abstract cell: enable > 0 takes the data, enable = 0 holds, enable < 0 closes both gates -/
def cellNext (w d m : I32) : I32 := if w.toInt > 0 then d else if w = 0 then m else 0

theorem selIn_both (r g : SigMap) : selIn {} r g = r ++ g := rfl

theorem cmp_gt_zero (w : I32) : cmp .gt w 0 = decide (w.toInt > 0) := by
  simp [cmp, slt_iff']
where slt_iff' : ∀ a b : I32, a.slt b = decide (a.toInt < b.toInt) := by intro a b; simp [BitVec.slt]

/-- **C03, one tick.** The value on the cell's feedback network (write gate output + hold gate output)
after one tick, for all enable, data and stored values. -/
theorem gated_cell_step (ty : Sig) (rw gw rh gh : SigMap) (W D M : I32)
    (hWw : get (rw ++ gw) sigW = W) (hWh : get (rh ++ gh) sigW = W)
    (hD : get (rw ++ gw) ty = D) (hM : get (rh ++ gh) ty = M) :
    get (evalDecider (writeGateCfg ty) rw gw) ty + get (evalDecider (holdGateCfg ty) rh gh) ty = cellNext W D M := by
  unfold writeGateCfg holdGateCfg
  rw [get_evalDecider_single _ _ ty rfl rfl, get_evalDecider_single _ _ ty rfl rfl]
  simp only [Cond.eval, Cond.rhs, Operand.val, selIn_both, hWw, hWh, hD, hM, if_true, cmp_gt_zero]
  unfold cellNext
  by_cases h1 : W.toInt > 0
  · have h0 : W ≠ 0 := by intro h; subst h; simp at h1
    simp [h1, cmp]
    try (intro h; exact absurd h h0)
  · by_cases h0 : W = 0
    · subst h0; simp [cmp]
    · simp [h1, cmp, h0]

/-- the cell never emits anything but its own signal type -/
theorem gated_cell_only_ty (ty s : Sig) (hs : ty ≠ s) (r g : SigMap) :
    get (evalDecider (writeGateCfg ty) r g) s = 0 ∧ get (evalDecider (holdGateCfg ty) r g) s = 0 := by
  unfold writeGateCfg holdGateCfg
  rw [get_evalDecider_single _ _ ty rfl rfl, get_evalDecider_single _ _ ty rfl rfl]
  simp [hs]

/-- stream form: `M (t+1) = cellNext (W t) (D t) (M t)` -/
def CellRun (W D M : Nat → I32) : Prop := M 0 = 0 ∧ ∀ t, M (t + 1) = cellNext (W t) (D t) (M t)

/-- reading yields 0 before the first enabled write -/
theorem cell_zero_before_write (W D M : Nat → I32) (h : CellRun W D M) (n : Nat)
    (hw : ∀ t, t < n → ¬ (W t).toInt > 0) : M n = 0 := by
  induction n with
  | zero => exact h.1
  | succ n ih =>
    rw [h.2 n]
    unfold cellNext
    have := hw n (by omega)
    simp only [this, if_false]
    split
    · exact ih (fun t ht => hw t (by omega))
    · rfl

/-- follows `v` (one tick behind) while `c` is positive -/
theorem cell_follows (W D M : Nat → I32) (h : CellRun W D M) (t : Nat) (hw : (W t).toInt > 0) :
    M (t + 1) = D t := by
  rw [h.2 t]; unfold cellNext; simp [hw]

/-- keeps the last value for as long as `c` stays zero, whatever `v` does -/
theorem cell_holds (W D M : Nat → I32) (h : CellRun W D M) (a n : Nat)
    (hw : ∀ t, a ≤ t → t < a + n → W t = 0) : M (a + n) = M a := by
  induction n with
  | zero => rfl
  | succ n ih =>
    have hz : W (a + n) = 0 := hw (a + n) (by omega) (by omega)
    rw [← Nat.add_assoc, h.2 (a + n)]
    unfold cellNext
    simp only [hz]
    simp
    exact ih (fun t h1 h2 => hw t h1 (by omega))

example : CellRun (fun t => if t = 1 then 1 else 0) (fun _ => 42)
    (fun t => if t ≤ 1 then 0 else 42) := by
  refine ⟨rfl, ?_⟩
  intro t
  by_cases h1 : t = 1
  · subst h1; decide
  · by_cases h0 : t = 0
    · subst h0; decide
    · have : ¬ t ≤ 1 := by omega
      have : ¬ t + 1 ≤ 1 := by omega
      simp [cellNext, *]

/-! ## C04: feedback rings iterate the composed function -/

/-- `g j ∘ … ∘ g 0` -/
def compUpTo {α} (g : Nat → α → α) : Nat → α → α
  | 0, x => g 0 x
  | j + 1, x => g (j + 1) (compUpTo g j x)

/-- **M6.** Stages `0 … k-1` in a ring, each one tick behind its predecessor: the last stage's output
`k` ticks later is the composed function of its current output, at *every* tick. -/
theorem ring_iterates {α} (k : Nat) (hk : 0 < k) (g : Nat → α → α) (o : Nat → Nat → α)
    (h0 : ∀ t, o 0 (t + 1) = g 0 (o (k - 1) t))
    (hs : ∀ j t, j + 1 < k → o (j + 1) (t + 1) = g (j + 1) (o j t)) :
    ∀ j, j < k → ∀ t, o j (t + j + 1) = compUpTo g j (o (k - 1) t) := by
  intro j
  induction j with
  | zero => intro _ t; simpa [compUpTo] using h0 t
  | succ j ih =>
    intro hj t
    have := hs j (t + j + 1) hj
    rw [show t + (j + 1) + 1 = (t + j + 1) + 1 by omega, this, ih (by omega) t]
    rfl

/-- the round-trip latency is the ring length: `value (t + k) = f (value t)` with `f = g (k-1) ∘ … ∘ g 0` -/
theorem ring_latency {α} (k : Nat) (hk : 0 < k) (g : Nat → α → α) (o : Nat → Nat → α)
    (h0 : ∀ t, o 0 (t + 1) = g 0 (o (k - 1) t))
    (hs : ∀ j t, j + 1 < k → o (j + 1) (t + 1) = g (j + 1) (o j t)) (t : Nat) :
    o (k - 1) (t + k) = compUpTo g (k - 1) (o (k - 1) t) := by
  have := ring_iterates k hk g o h0 hs (k - 1) (by omega) t
  rwa [show t + (k - 1) + 1 = t + k by omega] at this

/-- a single self-fed arithmetic combinator: `x (t+1) = f (x t)` (latency 1) -/
theorem self_feedback (cfg : ArithCfg) (ty : Sig) (sel : Sel) (k : I32) (x : I32) (r g : SigMap)
    (hcfg : cfg = { first := .ref (.sig ty) sel, second := .const k, op := cfg.op, out := some (.sig ty) })
    (hin : get (selIn sel r g) ty = x) :
    get (evalArith cfg r g) ty = alu cfg.op x k := by
  rw [get_evalArith_scalar cfg ty (by rw [hcfg]; rfl) (by rw [hcfg]; rfl) (by rw [hcfg])]
  rw [hcfg]
  simp [Operand.val, hin]

/-! ## C05: latches -/

/-- abstract latch with the declared priority (C05) on boolean set / reset -/
def latchNext (setPrio : Bool) (on s r : Bool) : Bool :=
  if s && r then setPrio else if s then true else if r then false else on

/-- the set-priority latch the compiler emits: `(fb > 0 AND R = 0) OR S > 0`, feedback on green,
set (remapped onto the memory signal) and reset on red -/
def srLatchCfg (ty rsig : Sig) : DeciderCfg :=
  { conds := [{ first := .ref (.sig ty) { red := false, green := true }, op := .gt, second := .const 0, isAnd := false },
              { first := .ref (.sig rsig) { red := true, green := false }, op := .eq, second := .const 0, isAnd := true },
              { first := .ref (.sig ty) { red := true, green := false }, op := .gt, second := .const 0, isAnd := false }],
    outs := [{ sig := .sig ty, copy := false, const := 1, sel := {} }] }

theorem sr_latch_step (ty rsig : Sig) (r g : SigMap) (fb s rs : Bool)
    (hfb : get g ty = boolI fb) (hs : get r ty = boolI s) (hr : get r rsig = boolI rs) :
    get (evalDecider (srLatchCfg ty rsig) r g) ty = boolI (latchNext true fb s rs) := by
  unfold srLatchCfg evalDecider
  simp only [List.any_cons, List.any_nil, Cond.usesEach, Operand.isEach, Bool.or_false, Bool.false_eq_true, if_false,
    evalConds, evalConds.go, Cond.eval, Cond.rhs, Operand.val, selIn, if_true, List.nil_append, List.append_nil,
    hfb, hs, hr]
  cases fb <;> cases s <;> cases rs <;> simp [boolI, cmp, latchNext, DOut.emit, BitVec.slt]

/-- the inlined set-priority form: `set OR (fb > 0 AND NOT reset)` for arbitrary comparisons -/
theorem latch_inlined_set_priority (fb setC resetC : Bool) :
    (setC || (fb && !resetC)) = latchNext true fb setC resetC := by
  cases fb <;> cases setC <;> cases resetC <;> rfl

/-- the reset-priority latch with signal inputs is the single condition `set + feedback > reset` -/
def rsCond (s fb r : I32) : Bool := cmp .gt (s + fb) r

/-- … which agrees with the declared priority except when it is on and both inputs are active -/
theorem rs_latch_partial (fb s r : Bool) (h : ¬ (fb = true ∧ s = true ∧ r = true)) :
    rsCond (boolI s) (boolI fb) (boolI r) = latchNext false fb s r := by
  cases fb <;> cases s <;> cases r <;> first | decide | (exfalso; exact h ⟨rfl, rfl, rfl⟩)

/-- finding F22: on, set and reset all active — the latch stays on although reset has priority -/
theorem rs_latch_not_reset_priority :
    ¬ ∀ fb s r : Bool, rsCond (boolI s) (boolI fb) (boolI r) = latchNext false fb s r := by
  intro h
  have := h true true true
  revert this; decide

/-- … and the inlined reset-priority form is built like the set-priority one (F22, second call site) -/
theorem rs_inlined_not_reset_priority :
    ¬ ∀ fb setC resetC : Bool, (setC || (fb && !resetC)) = latchNext false fb setC resetC := by
  intro h
  have := h false true true
  revert this; decide

/-- the repaired reset-priority rows (fix e0dbdb4, both call sites): `(set AND NOT reset) OR (fb AND NOT reset)`.
The three theorems above describe the forms emitted before that repair and are kept as the record of F22; the
per-program theorem for the rows actually emitted is `latch_cell_end_to_end` with `setPrio := false`. -/
theorem rs_latch_repaired (fb setC resetC : Bool) :
    ((setC && !resetC) || (fb && !resetC)) = latchNext false fb setC resetC := by
  cases fb <;> cases setC <;> cases resetC <;> rfl

/-- value multiplier: a latched 0/1 times `v` is `v` when on and 0 when off -/
theorem latch_multiplier (on : Bool) (v : I32) : alu .mul (boolI on) v = if on then v else 0 := by
  cases on <;> simp [alu, boolI]

end Facto
