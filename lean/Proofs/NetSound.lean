import Proofs.GeoSound
/-!
# The network partition computed from the printed wires is exact

`Blueprint.components` (fuel-bounded union–find over connector slots) is what `toCircuit` builds the logical
circuit from, so every per-program theorem of the validator is a statement about *that* partition.

* `components_sound` — equal ids ⇒ the two connectors are joined by a chain of circuit wires (invariant of the
  union–find, for every blueprint);
* `components_complete` — given the run-time certificate `componentsClosed` (both ends of every wire carry the same
  id; the driver evaluates it on every blueprint and refuses to go on if it is false), joined ⇒ equal ids;
* `mem_prod_iff` — hence `toCircuit`'s producer lists are exactly "non-pole entities whose output connector of that
  colour is wired (transitively) to this entity's input connector of that colour".
-/
namespace Facto
open Blueprint

theorem circuitPar_inv (bp : Blueprint) :
    UFInv bp.circuitEdges
      (bp.circuitEdges.foldl (fun p (ab : Nat × Nat) => ufUnion p ab.1 ab.2) (Array.range (4 * bp.ents.size))) :=
  ufFold_inv bp.circuitEdges bp.circuitEdges _ (fun _ h => h) (ufInv_range _ _)

theorem compOf_lt (bp : Blueprint) (x : Nat) (hx : x < 4 * bp.ents.size) :
    bp.compOf x = ufFind (bp.circuitEdges.foldl (fun p (ab : Nat × Nat) => ufUnion p ab.1 ab.2)
      (Array.range (4 * bp.ents.size))) x := by
  unfold Blueprint.compOf Blueprint.components
  simp [Array.getD_eq_getD_getElem?, hx]

theorem compOf_ge (bp : Blueprint) (x : Nat) (hx : ¬ x < 4 * bp.ents.size) : bp.compOf x = x := by
  unfold Blueprint.compOf Blueprint.components
  simp [Array.getD_eq_getD_getElem?, hx]

/-- every connector is joined to its component id's representative -/
theorem conn_compOf (bp : Blueprint) (x : Nat) : Conn bp.circuitEdges x (bp.compOf x) := by
  by_cases hx : x < 4 * bp.ents.size
  · rw [compOf_lt bp x hx]; exact ufFind_conn _ _ (circuitPar_inv bp) x
  · rw [compOf_ge bp x hx]; exact Conn.refl x

/-- **equal ids ⇒ wired together** -/
theorem components_sound (bp : Blueprint) (a b : Nat) (h : bp.compOf a = bp.compOf b) :
    Conn bp.circuitEdges a b := by
  have ha := conn_compOf bp a
  have hb := conn_compOf bp b
  rw [h] at ha
  exact Conn.trans ha (Conn.symm hb)

/-- **wired together ⇒ equal ids**, given the run-time certificate -/
theorem components_complete (bp : Blueprint) (hc : bp.componentsClosed = true) (a b : Nat)
    (h : Conn bp.circuitEdges a b) : bp.compOf a = bp.compOf b := by
  induction h with
  | refl x => rfl
  | edge he =>
    unfold Blueprint.componentsClosed at hc
    rw [List.all_eq_true] at hc
    simpa using hc _ he
  | symm _ ih => exact ih.symm
  | trans _ _ ih1 ih2 => exact ih1.trans ih2

theorem components_exact (bp : Blueprint) (hc : bp.componentsClosed = true) (a b : Nat) :
    bp.compOf a = bp.compOf b ↔ Conn bp.circuitEdges a b :=
  ⟨components_sound bp a b, components_complete bp hc a b⟩


theorem getD_components (bp : Blueprint) (x d : Nat) (hx : x < 4 * bp.ents.size) :
    bp.components.getD x d = bp.compOf x := by
  unfold Blueprint.compOf
  have hs : bp.components.size = 4 * bp.ents.size := by simp [Blueprint.components]
  simp [Array.getD_eq_getD_getElem?, hs, hx]

theorem slot_lt (n idx conn : Nat) (hi : idx < n) (hc : conn ≤ 4) : slot idx conn < 4 * n := by
  unfold slot; omega

theorem outConn_le (e : BpEntity) (c : Nat) (hc : c ≤ 2) : outConn e c ≤ 4 := by
  unfold outConn; split <;> omega

theorem prodR_eq (bp : Blueprint) (i : Nat) (hi : i < bp.ents.size) :
    bp.toCircuit.prodR.getD i [] = prodOf bp 1 i := by
  unfold Blueprint.toCircuit
  simp [Array.getD_eq_getD_getElem?, hi]

theorem prodG_eq (bp : Blueprint) (i : Nat) (hi : i < bp.ents.size) :
    bp.toCircuit.prodG.getD i [] = prodOf bp 2 i := by
  unfold Blueprint.toCircuit
  simp [Array.getD_eq_getD_getElem?, hi]

/-- **what is on the wire**: `j` is listed as a producer on `i`'s colour-`c` input exactly when `j` is a non-pole
entity whose colour-`c` output connector is joined by circuit wires to `i`'s colour-`c` input connector. -/
theorem mem_prodOf_iff (bp : Blueprint) (hc : bp.componentsClosed = true) (c i j : Nat) (hcol : 1 ≤ c ∧ c ≤ 2)
    (hi : i < bp.ents.size) :
    j ∈ prodOf bp c i ↔ ∃ e, bp.ents[j]? = some e ∧ (match e.kind with | .pole => false | _ => true) = true ∧
      Conn bp.circuitEdges (slot j (outConn e c)) (slot i c) := by
  unfold prodOf
  rw [List.mem_filter, List.mem_range]
  constructor
  · rintro ⟨hj, h⟩
    cases he : bp.ents[j]? with
    | none => rw [he] at h; exact absurd h (by simp)
    | some e =>
      rw [he] at h
      simp only [Bool.and_eq_true, beq_iff_eq] at h
      refine ⟨e, rfl, h.1, ?_⟩
      rw [getD_components bp _ _ (slot_lt _ j _ hj (outConn_le e c hcol.2)),
        getD_components bp _ _ (slot_lt _ i _ hi (by omega))] at h
      exact components_sound bp _ _ h.2
  · rintro ⟨e, he, hk, hconn⟩
    have hj : j < bp.ents.size := by
      rcases Nat.lt_or_ge j bp.ents.size with h | h
      · exact h
      · rw [Array.getElem?_eq_none h] at he; cases he
    refine ⟨hj, ?_⟩
    rw [he]
    simp only [Bool.and_eq_true, beq_iff_eq]
    refine ⟨hk, ?_⟩
    rw [getD_components bp _ _ (slot_lt _ j _ hj (outConn_le e c hcol.2)),
      getD_components bp _ _ (slot_lt _ i _ hi (by omega))]
    exact components_complete bp hc _ _ hconn

end Facto
