import Proofs.MemSound
/-!
# Non-vacuity of the latch theorems: a reset-priority latch with inlined comparisons

`Memory l: "L"; l.write(1, reset=a >= 8, set=a > 3);` as emitted after the F22 repair: one decider with the rows
`a > 3 AND a < 8 OR L > 0 AND a < 8` that reads its own output on green. The validator accepts it for reset priority
and rejects it for set priority (`decide +kernel`), so the hypotheses of `latch_cell_end_to_end` are satisfiable and
discriminate.
-/
namespace Facto.LatchExample
open Facto

def row (first : Operand) (op : CmpOp) (k : I32) (isAnd : Bool) : Cond :=
  { first, op, second := .const k, isAnd }

def circ : Circuit where
  kinds := #[.const [("A", 5)],
             .decider { conds := [row (.ref (.sig "A") { red := true, green := false }) .gt 3 false,
                                  row (.ref (.sig "A") { red := true, green := false }) .lt 8 true,
                                  row (.ref (.sig "L") { red := false, green := true }) .gt 0 false,
                                  row (.ref (.sig "A") { red := true, green := false }) .lt 8 true],
                        outs := [{ sig := .sig "L", copy := false, const := 1, sel := {} }] }]
  prodR := #[[], [0]]
  prodG := #[[], [1]]

def nodes : Array CNode :=
  #[.input "a" "A" 5, .cmp .gt (.node 0) (.int 3) "A", .cmp .ge (.node 0) (.int 8) "A"]

def bind : Nat → Option Bind := fun n => if n == 0 then some (.ent 0 "A") else none

theorem accepts_reset_priority :
    latchIs circ (circ.cut [1]) nodes bind 1 "L" (.node 1) (.node 2) false = true := by decide +kernel

theorem rejects_set_priority :
    latchIs circ (circ.cut [1]) nodes bind 1 "L" (.node 1) (.node 2) true = false := by decide +kernel

theorem bindings_check : checkAll (circ.cut [1]) nodes bind = true := by decide +kernel

end Facto.LatchExample
