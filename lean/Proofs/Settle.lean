import Model.Circuit
/-!
# M1 — acyclic circuits settle

If `rank` strictly increases along "reads a network that p outputs to", every entity's output is
constant from tick `rank i + 1` on, and the state reached is a fixpoint of the one-tick semantics that
depends on the inputs only.
-/
namespace Facto
namespace Circuit

theorem checkRanked_sound (c : Circuit) (rank : Nat → Nat) (h : c.checkRanked rank = true) : c.Ranked rank := by
  intro i p hri hp
  unfold checkRanked at h
  rw [List.all_eq_true] at h
  by_cases hi : i < max c.prodR.size c.prodG.size
  · have := h i (List.mem_range.mpr hi)
    rw [hri] at this
    simp only [Bool.not_true, Bool.false_or] at this
    rw [Bool.and_eq_true, List.all_eq_true, List.all_eq_true] at this
    rcases hp with hp | hp
    · simpa using this.1 p hp
    · simpa using this.2 p hp
  · have h1 : c.prodR.getD i [] = [] := by
      rw [Array.getD_eq_getD_getElem?, Array.getElem?_eq_none (by omega)]; rfl
    have h2 : c.prodG.getD i [] = [] := by
      rw [Array.getD_eq_getD_getElem?, Array.getElem?_eq_none (by omega)]; rfl
    rw [h1, h2] at hp
    simp at hp

theorem sumOuts_congr (ps : List Nat) (o₁ o₂ : Nat → SigMap) (h : ∀ p ∈ ps, o₁ p = o₂ p) :
    sumOuts ps o₁ = sumOuts ps o₂ := by
  unfold sumOuts
  congr 1
  exact List.map_congr_left h

/-- locality: the next output of `i` depends only on the outputs of its producers, and only if `i` is a
combinator at all -/
theorem evalEnt_local (c : Circuit) (inp : Inputs) (o₁ o₂ : Nat → SigMap) (i : Nat)
    (h : ∀ p, readsInputs (c.kind i) = true → (p ∈ c.prodR.getD i [] ∨ p ∈ c.prodG.getD i []) → o₁ p = o₂ p) :
    c.evalEnt inp o₁ i = c.evalEnt inp o₂ i := by
  unfold evalEnt
  cases hk : c.kind i with
  | arith cfg =>
    have hri : readsInputs (c.kind i) = true := by rw [hk]; rfl
    have hr : c.readR o₁ i = c.readR o₂ i := sumOuts_congr _ _ _ (fun p hp => h p hri (Or.inl hp))
    have hg : c.readG o₁ i = c.readG o₂ i := sumOuts_congr _ _ _ (fun p hp => h p hri (Or.inr hp))
    rw [hr, hg]
  | decider cfg =>
    have hri : readsInputs (c.kind i) = true := by rw [hk]; rfl
    have hr : c.readR o₁ i = c.readR o₂ i := sumOuts_congr _ _ _ (fun p hp => h p hri (Or.inl hp))
    have hg : c.readG o₁ i = c.readG o₂ i := sumOuts_congr _ _ _ (fun p hp => h p hri (Or.inr hp))
    rw [hr, hg]
  | _ => rfl

theorem runF_succ (c : Circuit) (inp : Inputs) (t i : Nat) :
    c.runF inp (t + 1) i = c.evalEnt inp (c.runF inp t) i := rfl

/-- **M1.** From tick `rank i + 1` on the output of `i` no longer changes. -/
theorem settle (c : Circuit) (inp : Inputs) (rank : Nat → Nat) (hr : c.Ranked rank) :
    ∀ (t i : Nat), rank i < t + 1 → c.runF inp (t + 1) i = c.runF inp (rank i + 1) i := by
  intro t
  induction t using Nat.strongRecOn with
  | _ t ih =>
    intro i hi
    by_cases h : rank i = t
    · subst h; rfl
    · have hlt : rank i < t := by omega
      obtain ⟨t', rfl⟩ : ∃ t', t = t' + 1 := ⟨t - 1, by omega⟩
      rw [runF_succ, ← ih t' (by omega) i (by omega), runF_succ]
      apply evalEnt_local
      intro p hri hp
      have hp' : rank p < rank i := hr i p hri hp
      obtain ⟨t'', rfl⟩ : ∃ t'', t' = t'' + 1 := ⟨t' - 1, by omega⟩
      rw [ih (t'' + 1) (by omega) p (by omega), ih t'' (by omega) p (by omega)]

/-- the settled state is a fixpoint of one tick, entity by entity -/
theorem settled_fixpoint (c : Circuit) (inp : Inputs) (rank : Nat → Nat) (hr : c.Ranked rank)
    (T : Nat) (hT : ∀ i, rank i < T) (i : Nat) :
    c.evalEnt inp (c.runF inp T) i = c.runF inp T i := by
  obtain ⟨T', rfl⟩ : ∃ T', T = T' + 1 := ⟨T - 1, by have := hT 0; omega⟩
  rw [← runF_succ, settle c inp rank hr (T' + 1) i (by have := hT i; omega),
      settle c inp rank hr T' i (hT i)]

/-- … and it is reached by every later tick -/
theorem settled_stable (c : Circuit) (inp : Inputs) (rank : Nat → Nat) (hr : c.Ranked rank)
    (T : Nat) (hT : ∀ i, rank i < T) (t : Nat) (ht : T ≤ t) (i : Nat) :
    c.runF inp t i = c.runF inp T i := by
  obtain ⟨T', rfl⟩ : ∃ T', T = T' + 1 := ⟨T - 1, by have := hT 0; omega⟩
  obtain ⟨t', rfl⟩ : ∃ t', t = t' + 1 := ⟨t - 1, by omega⟩
  rw [settle c inp rank hr t' i (by have := hT i; omega), settle c inp rank hr T' i (hT i)]

end Circuit
end Facto

namespace Facto
namespace Circuit

/-! ## histories: the same from an arbitrary earlier state -/

/-- the run under constant inputs `inp`, continued from an arbitrary state `s0` (what earlier inputs left behind) -/
def runFrom (c : Circuit) (inp : Inputs) (s0 : Nat → SigMap) : Nat → Nat → SigMap
  | 0 => s0
  | t + 1 => fun i => c.evalEnt inp (c.runFrom inp s0 t) i

theorem runFrom_succ (c : Circuit) (inp : Inputs) (s0 : Nat → SigMap) (t i : Nat) :
    c.runFrom inp s0 (t + 1) i = c.evalEnt inp (c.runFrom inp s0 t) i := rfl

/-- **M1 for histories.** From tick `rank i + 1` after the inputs took their present values, the output of `i` no
longer changes — whatever state the earlier inputs left behind. -/
theorem settle_from (c : Circuit) (inp : Inputs) (s0 : Nat → SigMap) (rank : Nat → Nat) (hr : c.Ranked rank) :
    ∀ (t i : Nat), rank i < t + 1 → c.runFrom inp s0 (t + 1) i = c.runFrom inp s0 (rank i + 1) i := by
  intro t
  induction t using Nat.strongRecOn with
  | _ t ih =>
    intro i hi
    by_cases h : rank i = t
    · subst h; rfl
    · have hlt : rank i < t := by omega
      obtain ⟨t', rfl⟩ : ∃ t', t = t' + 1 := ⟨t - 1, by omega⟩
      rw [runFrom_succ, ← ih t' (by omega) i (by omega), runFrom_succ]
      apply evalEnt_local
      intro p hri hp
      have hp' : rank p < rank i := hr i p hri hp
      obtain ⟨t'', rfl⟩ : ∃ t'', t' = t'' + 1 := ⟨t' - 1, by omega⟩
      rw [ih (t'' + 1) (by omega) p (by omega), ih t'' (by omega) p (by omega)]

/-- a ranked circuit has at most one fixpoint per input valuation -/
theorem fixpoint_unique (c : Circuit) (inp : Inputs) (rank : Nat → Nat) (hr : c.Ranked rank)
    (E1 E2 : Nat → SigMap) (h1 : ∀ i, c.evalEnt inp E1 i = E1 i) (h2 : ∀ i, c.evalEnt inp E2 i = E2 i) :
    ∀ i, E1 i = E2 i := by
  have key : ∀ n i, rank i = n → E1 i = E2 i := by
    intro n
    induction n using Nat.strongRecOn with
    | _ n ih =>
      intro i hi
      rw [← h1 i, ← h2 i]
      apply evalEnt_local
      intro p hri hp
      have hp' : rank p < rank i := hr i p hri hp
      exact ih (rank p) (by omega) p rfl
  intro i
  exact key (rank i) i rfl

/-- after `T` ticks (any `T` above every rank) of the present inputs, the state is the settled state of a run from
power-on with those inputs: the outputs of a stateless circuit depend on the present inputs only, not on the history -/
theorem history_independent (c : Circuit) (inp : Inputs) (s0 : Nat → SigMap) (rank : Nat → Nat) (hr : c.Ranked rank)
    (T : Nat) (hT : ∀ i, rank i < T) (t : Nat) (ht : T ≤ t) (i : Nat) :
    c.runFrom inp s0 t i = c.runF inp T i := by
  obtain ⟨T', rfl⟩ : ∃ T', T = T' + 1 := ⟨T - 1, by have := hT 0; omega⟩
  obtain ⟨t', rfl⟩ : ∃ t', t = t' + 1 := ⟨t - 1, by omega⟩
  -- the state at `T` of the continued run is a fixpoint
  have hfix : ∀ j, c.evalEnt inp (c.runFrom inp s0 (T' + 1)) j = c.runFrom inp s0 (T' + 1) j := by
    intro j
    rw [← runFrom_succ, settle_from c inp s0 rank hr (T' + 1) j (by have := hT j; omega),
      settle_from c inp s0 rank hr T' j (hT j)]
  have hstable : c.runFrom inp s0 (t' + 1) i = c.runFrom inp s0 (T' + 1) i := by
    rw [settle_from c inp s0 rank hr t' i (by have := hT i; omega), settle_from c inp s0 rank hr T' i (hT i)]
  rw [hstable]
  exact fixpoint_unique c inp rank hr _ _ hfix (settled_fixpoint c inp rank hr (T' + 1) hT) i

end Circuit
end Facto
