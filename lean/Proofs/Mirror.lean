import Model.Generated
import Model.Int32
import Proofs.MatchSound

/-! The emitter's comparator table (`_MIRRORED_COMPARATOR`, translated from the current source on every run) really
mirrors: writing `c OP s` as `s OP' c` keeps the condition, for every spelling of every comparator. -/

namespace Facto

/-- every comparator spelling the compiler and draftsman use -/
def comparatorSpellings : List String := ["<", ">", "=", "==", "≥", ">=", "≤", "<=", "≠", "!="]

theorem mirroredComparator_spec : ∀ s ∈ comparatorSpellings,
    CmpOp.ofString? (Gen.mirroredComparator s) = (CmpOp.ofString? s).map CmpOp.mirror := by
  decide

/-- **F03 repair, for all operands**: the row the emitter prints for a constant-left comparison holds exactly when
the comparison does. -/
theorem emitted_mirror_sound (s : String) (hs : s ∈ comparatorSpellings) (op : CmpOp)
    (h : CmpOp.ofString? s = some op) (a b : I32) :
    ∃ op', CmpOp.ofString? (Gen.mirroredComparator s) = some op' ∧ cmp op' b a = cmp op a b := by
  refine ⟨op.mirror, ?_, cmp_mirror op a b⟩
  rw [mirroredComparator_spec s hs, h]
  rfl

/-- the spellings are all of them: every comparator has one -/
example : ∀ op : CmpOp, ∃ s ∈ comparatorSpellings, CmpOp.ofString? s = some op := by
  intro op; cases op <;> simp [comparatorSpellings, CmpOp.ofString?]

end Facto
