import Model.Geometry
/-!
# Soundness of the geometric checker (C08, C18)

`geoCheck` (Model/Geometry.lean) is run by the driver on every printed blueprint. These theorems say what an
*empty report* means, for every blueprint and every prototype table:

* `overlaps_sound`  — no two distinct entities have intersecting collision boxes;
* `wires_sound`     — every wire joins two entities of the blueprint, copper to copper or circuit to circuit,
                      at connectors the entities have, same colour at both ends, no longer than the smaller
                      reach of its two endpoints;
* `powered_sound`   — every electricity consumer's box touches the supply area of some pole;
* `single_grid_sound` — `poleComponents ≤ 1` ⇒ any two poles are joined by a chain of copper wires
                      (soundness of the fuel-bounded union–find: equal roots ⇒ connected);
* `copperEdge_is_wire` — every edge of that chain is a copper wire of the blueprint (and by `wires_sound`
                      within reach).
-/
namespace Facto

/-! ## collision boxes -/

theorem boxesOverlap_comm (a b : Int × Int × Int × Int) : boxesOverlap a b = boxesOverlap b a := by
  unfold boxesOverlap
  cases h1 : decide (a.1 < b.2.2.1) <;> cases h2 : decide (b.1 < a.2.2.1) <;>
    cases h3 : decide (a.2.1 < b.2.2.2) <;> cases h4 : decide (b.2.1 < a.2.2.2) <;> simp_all

theorem overlapsOf_lt (n : Nat) (boxes : Array (Int × Int × Int × Int)) (h : overlapsOf n boxes = [])
    (i j : Nat) (hi : i < n) (hj : j < n) (hij : i < j) :
    boxesOverlap (boxes.getD i default) (boxes.getD j default) = false := by
  unfold overlapsOf at h
  rw [List.flatMap_eq_nil_iff] at h
  have h1 := h i (List.mem_range.mpr hi)
  rw [List.map_eq_nil_iff, List.filter_eq_nil_iff] at h1
  have h2 := h1 j (List.mem_range.mpr hj)
  simp only [Bool.and_eq_true, decide_eq_true_eq, not_and, Bool.not_eq_true] at h2
  exact h2 hij

/-- **C08, no overlap**: an empty `overlaps` list means no two distinct entities collide. -/
theorem overlaps_sound (n : Nat) (boxes : Array (Int × Int × Int × Int)) (h : overlapsOf n boxes = [])
    (i j : Nat) (hi : i < n) (hj : j < n) (hij : i ≠ j) :
    boxesOverlap (boxes.getD i default) (boxes.getD j default) = false := by
  rcases Nat.lt_or_gt_of_ne hij with h1 | h1
  · exact overlapsOf_lt n boxes h i j hi hj h1
  · rw [boxesOverlap_comm]; exact overlapsOf_lt n boxes h j i hj hi h1

/-! ## wires -/

/-- what C08 asks of one wire -/
def WireOK (bp : Blueprint) (pr : Nat → Proto) (w : BpWire) : Prop :=
  ∃ i j, bp.indexOf w.e1 = some i ∧ bp.indexOf w.e2 = some j ∧
    ((5 ≤ w.c1 ∧ 5 ≤ w.c2 ∧
        ((pr i).isPole = true ∨ (bp.ents.getD i default).name = "power-switch") ∧
        ((pr j).isPole = true ∨ (bp.ents.getD j default).name = "power-switch") ∧
        dist2 (bp.ents.getD i default) (bp.ents.getD j default)
          ≤ min (pr i).copperReach (pr j).copperReach * min (pr i).copperReach (pr j).copperReach)
     ∨ (1 ≤ w.c1 ∧ w.c1 ≤ maxConn (bp.ents.getD i default) ∧ w.c1 < 5 ∧
        1 ≤ w.c2 ∧ w.c2 ≤ maxConn (bp.ents.getD j default) ∧ w.c2 < 5 ∧
        w.c1 % 2 = w.c2 % 2 ∧
        dist2 (bp.ents.getD i default) (bp.ents.getD j default)
          ≤ min (pr i).circuitReach (pr j).circuitReach * min (pr i).circuitReach (pr j).circuitReach))

theorem wireFault_none (bp : Blueprint) (pr : Nat → Proto) (w : BpWire) (h : wireFault bp pr w = none) :
    WireOK bp pr w := by
  unfold wireFault at h
  split at h
  · rename_i i j hi hj
    refine ⟨i, j, hi, hj, ?_⟩
    simp only [ge_iff_le] at h
    split at h
    · exact absurd h (by simp)
    · rename_i hc
      split at h
      · rename_i hc1
        left
        split at h
        · exact absurd h (by simp)
        · rename_i hp
          split at h
          · exact absurd h (by simp)
          · rename_i hd
            have hc1' : 5 ≤ w.c1 := by simpa using hc1
            have hc2' : 5 ≤ w.c2 := by
              have : decide (5 ≤ w.c1) = decide (5 ≤ w.c2) := by simpa using hc
              simp [hc1'] at this; exact this
            simp only [Bool.or_eq_true, Bool.not_eq_true', Bool.or_eq_false_iff, not_or,
              beq_iff_eq, not_and, Bool.not_eq_false] at hp
            refine ⟨hc1', hc2', ?_, ?_, by omega⟩
            · by_cases hq : (pr i).isPole = true
              · exact Or.inl hq
              · right
                have := hp.1
                simp only [Bool.not_eq_true] at hq
                simpa using this hq
            · by_cases hq : (pr j).isPole = true
              · exact Or.inl hq
              · right
                have := hp.2
                simp only [Bool.not_eq_true] at hq
                simpa using this hq
      · rename_i hc1
        right
        have hc1' : w.c1 < 5 := by simpa using hc1
        have hc2' : w.c2 < 5 := by
          have : decide (5 ≤ w.c1) = decide (5 ≤ w.c2) := by simpa using hc
          have h5 : ¬ 5 ≤ w.c1 := by omega
          simp [h5] at this; omega
        split at h
        · exact absurd h (by simp)
        · rename_i hb
          split at h
          · exact absurd h (by simp)
          · rename_i hm
            split at h
            · exact absurd h (by simp)
            · rename_i hd
              simp only [Bool.or_eq_true, beq_iff_eq, decide_eq_true_eq, not_or, Nat.not_lt] at hb
              have hm' : w.c1 % 2 = w.c2 % 2 := by simpa using hm
              refine ⟨by omega, by omega, hc1', by omega, by omega, hc2', hm', by omega⟩
  · exact absurd h (by simp)

/-- **C08, wires**: an empty `badWires` list means every wire of the blueprint is `WireOK`. -/
theorem wires_sound (bp : Blueprint) (pr : Nat → Proto) (h : badWiresOf bp pr = [])
    (k : Nat) (hk : k < bp.wires.size) : WireOK bp pr (bp.wires.getD k default) := by
  unfold badWiresOf at h
  rw [List.filterMap_eq_nil_iff] at h
  have h1 := h k (List.mem_range.mpr hk)
  apply wireFault_none
  cases hw : wireFault bp pr (bp.wires.getD k default) with
  | none => rfl
  | some r => rw [hw] at h1; simp at h1

/-! ## power coverage -/

/-- **C18, coverage**: an empty `unpowered` list means every consumer touches a pole's supply area. -/
theorem powered_sound (n : Nat) (bp : Blueprint) (pr : Nat → Proto) (boxes : Array (Int × Int × Int × Int))
    (poles : List Nat) (h : unpoweredOf n bp pr boxes poles = [])
    (i : Nat) (hi : i < n) (he : (pr i).electric = true) :
    ∃ p ∈ poles, boxesTouch (boxes.getD i default) (supplyArea bp pr p) = true := by
  unfold unpoweredOf at h
  rw [List.filter_eq_nil_iff] at h
  have h1 := h i (List.mem_range.mpr hi)
  simp only [he, Bool.true_and, Bool.not_eq_true', Bool.not_eq_false] at h1
  simpa [List.any_eq_true] using h1

/-! ## union–find: equal roots ⇒ connected -/

/-- the equivalence generated by a list of edges -/
inductive Conn (es : List (Nat × Nat)) : Nat → Nat → Prop
  | refl (x : Nat) : Conn es x x
  | edge {a b : Nat} : (a, b) ∈ es → Conn es a b
  | symm {a b : Nat} : Conn es a b → Conn es b a
  | trans {a b c : Nat} : Conn es a b → Conn es b c → Conn es a c

/-- every node is connected to its parent -/
def UFInv (es : List (Nat × Nat)) (par : Array Nat) : Prop := ∀ x, Conn es x (par.getD x x)

theorem ufFind_go_conn (es : List (Nat × Nat)) (par : Array Nat) (h : UFInv es par) :
    ∀ fuel x, Conn es x (ufFind.go par fuel x) := by
  intro fuel
  induction fuel with
  | zero => intro x; exact Conn.refl x
  | succ f ih =>
    intro x
    unfold ufFind.go
    simp only
    split
    · exact Conn.refl x
    · exact Conn.trans (h x) (ih _)

theorem ufFind_conn (es : List (Nat × Nat)) (par : Array Nat) (h : UFInv es par) (x : Nat) :
    Conn es x (ufFind par x) := ufFind_go_conn es par h _ x

theorem getD_setIfInBounds (par : Array Nat) (i v x : Nat) :
    (par.setIfInBounds i v).getD x x = if x = i ∧ i < par.size then v else par.getD x x := by
  simp only [Array.getD_eq_getD_getElem?, Array.getElem?_setIfInBounds]
  by_cases hx : i = x
  · subst hx
    by_cases hs : i < par.size
    · simp [hs]
    · simp [hs]
  · have hx' : ¬ x = i := fun e => hx e.symm
    simp [hx, hx']

theorem ufUnion_inv (es : List (Nat × Nat)) (par : Array Nat) (h : UFInv es par) (a b : Nat)
    (hab : Conn es a b) : UFInv es (ufUnion par a b) := by
  unfold ufUnion
  simp only
  split
  · exact h
  · intro x
    rw [getD_setIfInBounds]
    split
    · rename_i hx
      rw [hx.1]
      exact Conn.trans (Conn.symm (ufFind_conn es par h a)) (Conn.trans hab (ufFind_conn es par h b))
    · exact h x

theorem ufFold_inv (all : List (Nat × Nat)) :
    ∀ (es : List (Nat × Nat)) (par : Array Nat), (∀ e ∈ es, e ∈ all) → UFInv all par →
      UFInv all (es.foldl (fun p (ab : Nat × Nat) => ufUnion p ab.1 ab.2) par) := by
  intro es
  induction es with
  | nil => intro par _ h; exact h
  | cons e rest ih =>
    intro par hsub h
    simp only [List.foldl_cons]
    apply ih
    · intro e' he'; exact hsub e' (List.mem_cons_of_mem _ he')
    · exact ufUnion_inv all par h e.1 e.2 (Conn.edge (hsub e (List.mem_cons_self ..)))

theorem ufInv_range (es : List (Nat × Nat)) (n : Nat) : UFInv es (Array.range n) := by
  intro x
  have : (Array.range n).getD x x = x := by
    simp only [Array.getD_eq_getD_getElem?]
    by_cases hx : x < n
    · simp [hx]
    · simp [hx]
  rw [this]; exact Conn.refl x

theorem copperPar_inv (bp : Blueprint) : UFInv (copperEdges bp) (copperPar bp) := by
  unfold copperPar
  have := ufFold_inv (copperEdges bp) (copperEdges bp) (Array.range bp.ents.size) (fun _ h => h)
    (ufInv_range _ _)
  exact this

/-- equal roots ⇒ joined by a chain of copper wires -/
theorem copper_root_eq_conn (bp : Blueprint) (p q : Nat)
    (h : ufFind (copperPar bp) p = ufFind (copperPar bp) q) : Conn (copperEdges bp) p q := by
  have hp := ufFind_conn _ _ (copperPar_inv bp) p
  have hq := ufFind_conn _ _ (copperPar_inv bp) q
  rw [h] at hp
  exact Conn.trans hp (Conn.symm hq)

theorem eraseDups_length_le_one {l : List Nat} (h : l.eraseDups.length ≤ 1) :
    ∀ a ∈ l, ∀ b ∈ l, a = b := by
  cases l with
  | nil => intro a ha; cases ha
  | cons x xs =>
    rw [List.eraseDups_cons] at h
    simp only [List.length_cons] at h
    have h0 : ((xs.filter (fun b => !b == x)).eraseDups).length = 0 := by omega
    have hnil : xs.filter (fun b => !b == x) = [] := by
      cases hf : xs.filter (fun b => !b == x) with
      | nil => rfl
      | cons y ys => rw [hf, List.eraseDups_cons] at h0; simp at h0
    rw [List.filter_eq_nil_iff] at hnil
    have hall : ∀ a ∈ x :: xs, a = x := by
      intro a ha
      rcases List.mem_cons.mp ha with rfl | ha
      · rfl
      · have := hnil a ha; simpa using this
    intro a ha b hb
    rw [hall a ha, hall b hb]

/-- **C18, one grid**: if the pole roots collapse to at most one, any two poles are joined by copper wires. -/
theorem single_grid_sound (bp : Blueprint) (poles : List Nat)
    (h : ((poles.map (ufFind (copperPar bp))).eraseDups).length ≤ 1)
    (p q : Nat) (hp : p ∈ poles) (hq : q ∈ poles) : Conn (copperEdges bp) p q := by
  apply copper_root_eq_conn
  exact eraseDups_length_le_one h _ (List.mem_map_of_mem hp) _ (List.mem_map_of_mem hq)

/-- every edge used by `Conn (copperEdges bp)` is a copper wire of the blueprint between those entities -/
theorem copperEdge_is_wire (bp : Blueprint) (i j : Nat) (h : (i, j) ∈ copperEdges bp) :
    ∃ w ∈ bp.wires.toList, 5 ≤ w.c1 ∧ 5 ≤ w.c2 ∧ bp.indexOf w.e1 = some i ∧ bp.indexOf w.e2 = some j := by
  unfold copperEdges at h
  rw [List.mem_filterMap] at h
  obtain ⟨w, hw, hf⟩ := h
  refine ⟨w, hw, ?_⟩
  split at hf
  · rename_i hc
    simp only [ge_iff_le, Bool.and_eq_true, decide_eq_true_eq] at hc
    split at hf
    · rename_i a b ha hb
      simp only [Option.some.injEq, Prod.mk.injEq] at hf
      rw [← hf.1, ← hf.2]
      exact ⟨hc.1, hc.2, ha, hb⟩
    · exact absurd hf (by simp)
  · exact absurd hf (by simp)

/-! ## the report as a whole -/

/-- What an all-clear `geoCheck` report guarantees (C08 + C18), for every blueprint and prototype table. -/
theorem geoCheck_sound (bp : Blueprint) (protos : Array Proto) (grid : List (Int × Int)) (gs : Int)
    (h1 : (geoCheck bp protos true grid gs).overlaps = [])
    (h2 : (geoCheck bp protos true grid gs).badWires = [])
    (h3 : (geoCheck bp protos true grid gs).unpowered = [])
    (h4 : (geoCheck bp protos true grid gs).poleComponents ≤ 1) :
    let pr := fun i => protos.getD i default
    let boxes := (Array.range bp.ents.size).map (fun i => absBox (bp.ents.getD i default) (pr i))
    let poles := (List.range bp.ents.size).filter (fun i => (pr i).isPole)
    (∀ i j, i < bp.ents.size → j < bp.ents.size → i ≠ j →
        boxesOverlap (boxes.getD i default) (boxes.getD j default) = false) ∧
    (∀ k, k < bp.wires.size → WireOK bp pr (bp.wires.getD k default)) ∧
    (∀ i, i < bp.ents.size → (pr i).electric = true →
        ∃ p ∈ poles, boxesTouch (boxes.getD i default) (supplyArea bp pr p) = true) ∧
    (∀ p ∈ poles, ∀ q ∈ poles, Conn (copperEdges bp) p q) := by
  intro pr boxes poles
  refine ⟨?_, ?_, ?_, ?_⟩
  · exact fun i j hi hj hij => overlaps_sound _ boxes h1 i j hi hj hij
  · exact fun k hk => wires_sound bp pr h2 k hk
  · exact fun i hi he => powered_sound _ bp pr boxes poles h3 i hi he
  · exact fun p hp q hq => single_grid_sound bp poles h4 p q hp hq

end Facto

/-! ## non-vacuity: a concrete blueprint with an all-clear report -/
namespace Facto.GeoExample
open Facto

def pole : Proto :=
  ⟨"medium-electric-pole", (-100, -100, 100, 100), 1, 1, 9000, true, 9000, 3500, false⟩
def lamp : Proto :=
  ⟨"small-lamp", (-150, -150, 150, 150), 1, 1, 9000, false, 0, 0, true⟩
def ent (n : Nat) (name : String) (x2 y2 : Int) : BpEntity :=
  { number := n, name, x2, y2, direction := 0, kind := default, description := "", raw := .null }

/-- two poles 6 tiles apart joined by a copper wire, a lamp between them, a red circuit wire pole → lamp -/
def bp : Blueprint :=
  { ents := #[ent 1 "medium-electric-pole" 1 1, ent 2 "small-lamp" 7 1, ent 3 "medium-electric-pole" 13 1],
    wires := #[⟨1, 5, 3, 5⟩, ⟨1, 1, 2, 1⟩] }
def protos : Array Proto := #[pole, lamp, pole]

theorem report_clear :
    (geoCheck bp protos true).overlaps = [] ∧ (geoCheck bp protos true).badWires = [] ∧
    (geoCheck bp protos true).unpowered = [] ∧ (geoCheck bp protos true).poleComponents = 1 := by
  decide +kernel

/-- the hypotheses of `geoCheck_sound` are met by a real-shaped blueprint, and the conclusion says its two poles
are connected -/
theorem poles_connected : Conn (copperEdges bp) 0 2 := by
  have h := geoCheck_sound bp protos [] 0 report_clear.1 report_clear.2.1 report_clear.2.2.1
    (by rw [report_clear.2.2.2]; exact Nat.le_refl 1)
  have m0 : (0 : Nat) ∈ (List.range bp.ents.size).filter (fun i => (protos.getD i default).isPole) :=
    List.mem_filter.mpr ⟨List.mem_range.mpr (by decide), by simp [protos, pole]⟩
  have m2 : (2 : Nat) ∈ (List.range bp.ents.size).filter (fun i => (protos.getD i default).isPole) :=
    List.mem_filter.mpr ⟨List.mem_range.mpr (by decide), by simp [protos, pole]⟩
  exact h.2.2.2 0 m0 2 m2

/-- and the checker is not trivially accepting: moving the lamp onto a pole is reported -/
theorem overlap_reported :
    (geoCheck { bp with ents := #[ent 1 "medium-electric-pole" 1 1, ent 2 "small-lamp" 1 1] } #[pole, lamp] true).overlaps
      = [(0, 1)] := by decide +kernel

end Facto.GeoExample
