import Model.Circuit
import Model.Core
import Proofs.SigMapLemmas
/-!
# What each combinator configuration computes, and the lowering rules

First part: closed forms for `evalArith` / `evalDecider` in the configurations the compiler emits
(read through `get`, for every signal `s`). Second part: one lemma per lowering scheme — if the
combinator's input networks carry the operands' values, its output is the Core node's value
(value *and* signal type). These are the per-rule obligations of `Lowers` (DESIGN §3.3).
-/
namespace Facto
open SigMap

/-! ## combinators -/

theorem get_evalArith_scalar (c : ArithCfg) (t : Sig) (hf : c.first.isEach = false) (hs : c.second.isEach = false)
    (ho : c.out = some (.sig t)) (r g : SigMap) (s : Sig) :
    get (evalArith c r g) s = if t = s then alu c.op (c.first.val r g) (c.second.val r g) else 0 := by
  simp [evalArith, ho, hf, hs]

theorem get_evalArith_each (c : ArithCfg) (sel : Sel) (hf : c.first = .ref .each sel) (ho : c.out = some .each)
    (r g : SigMap) (s : Sig) :
    get (evalArith c r g) s =
      if get (selIn sel r g) s ≠ 0 then alu c.op (get (selIn sel r g) s) (c.second.val r g) else 0 := by
  simp only [evalArith, ho, hf, Operand.isEach, Operand.sel, if_true]
  exact get_map_support (selIn sel r g) (fun k => alu c.op (get (selIn sel r g) k) (c.second.val r g)) s

/-- single non-wildcard condition, single plain output -/
theorem get_evalDecider_single (cd : Cond) (o : DOut) (t : Sig) (hc : cd.usesEach = false) (ho : o.sig = .sig t)
    (r g : SigMap) (s : Sig) :
    get (evalDecider { conds := [cd], outs := [o] } r g) s =
      if cd.eval r g none then (if t = s then (if o.copy then get (selIn o.sel r g) t else o.const) else 0) else 0 := by
  simp only [evalDecider, List.any_cons, List.any_nil, hc, Bool.or_false, evalConds, evalConds.go]
  by_cases h : cd.eval r g none
  · simp [h, DOut.emit, ho]
  · simp [h]

/-- gate: non-wildcard condition, output `everything` copied from the selected networks -/
theorem get_evalDecider_gate (cd : Cond) (o : DOut) (hc : cd.usesEach = false) (ho : o.sig = .everything)
    (hcopy : o.copy = true) (r g : SigMap) (s : Sig) :
    get (evalDecider { conds := [cd], outs := [o] } r g) s =
      if cd.eval r g none then get (selIn o.sel r g) s else 0 := by
  have hany : List.any [cd] Cond.usesEach = false := by simp [hc]
  unfold evalDecider
  simp only [hany, evalConds, evalConds.go]
  by_cases h : cd.eval r g none
  · simp only [h, if_true, DOut.emit, ho, hcopy, List.map_cons, List.map_nil, List.flatten_cons, List.flatten_nil,
      List.append_nil, Bool.false_eq_true, if_false]
    rw [get_map_support]
    by_cases hz : get (selIn o.sel r g) s = 0
    · rw [if_neg (fun hne => hne hz), hz]
    · rw [if_pos hz]
  · simp [h]

/-! ## Core nodes -/

theorem get_evalNode_beach (nodes : Array CNode) (env : Env) (vals : Array SigMap) (op : ArithOp) (b : Nat) (k : Arg)
    (s : Sig) :
    get (evalNode nodes env vals (.beach op b k)) s =
      if get (vals.getD b []) s ≠ 0 then alu op (get (vals.getD b []) s) (argVal nodes vals k) else 0 := by
  simp only [evalNode]
  exact get_map_support (vals.getD b []) (fun x => alu op (get (vals.getD b []) x) (argVal nodes vals k)) s

theorem get_evalNode_bfilter_copy (nodes : Array CNode) (env : Env) (vals : Array SigMap) (op : CmpOp) (b : Nat) (k : Arg)
    (s : Sig) :
    get (evalNode nodes env vals (.bfilter op b k none)) s =
      if get (vals.getD b []) s ≠ 0 ∧ cmp op (get (vals.getD b []) s) (argVal nodes vals k) = true
      then get (vals.getD b []) s else 0 := by
  simp only [evalNode]
  exact get_map_filter_support (vals.getD b []) (fun x => cmp op (get (vals.getD b []) x) (argVal nodes vals k))
    (fun x => get (vals.getD b []) x) s

theorem get_evalNode_bgate (nodes : Array CNode) (env : Env) (vals : Array SigMap) (op : CmpOp) (a k : Arg) (b : Nat)
    (s : Sig) :
    get (evalNode nodes env vals (.bgate op a k b)) s =
      if cmp op (argVal nodes vals a) (argVal nodes vals k) then get (vals.getD b []) s else 0 := by
  simp only [evalNode]
  split <;> simp

/-- **C02, no leak.** A member-wise bundle result is present only where the bundle is. -/
theorem beach_support_subset (nodes : Array CNode) (env : Env) (vals : Array SigMap) (op : ArithOp) (b : Nat) (k : Arg)
    (s : Sig) (h : get (evalNode nodes env vals (.beach op b k)) s ≠ 0) : get (vals.getD b []) s ≠ 0 := by
  rw [get_evalNode_beach] at h
  intro hz
  rw [if_neg (fun hne => hne hz)] at h
  exact h rfl

theorem bfilter_support_subset (nodes : Array CNode) (env : Env) (vals : Array SigMap) (op : CmpOp) (b : Nat) (k : Arg)
    (s : Sig) (h : get (evalNode nodes env vals (.bfilter op b k none)) s ≠ 0) :
    get (vals.getD b []) s ≠ 0 ∧ cmp op (get (vals.getD b []) s) (argVal nodes vals k) = true := by
  rw [get_evalNode_bfilter_copy] at h
  by_cases hc : get (vals.getD b []) s ≠ 0 ∧ cmp op (get (vals.getD b []) s) (argVal nodes vals k) = true
  · exact hc
  · rw [if_neg hc] at h
    exact absurd rfl h

/-! ## lowering rules: combinator output = Core node value under operand agreement -/

/-- `a op b` → arithmetic combinator -/
theorem rule_arith (nodes : Array CNode) (env : Env) (vals : Array SigMap) (cfg : ArithCfg) (op : ArithOp) (a b : Arg)
    (ty : Sig) (r g : SigMap)
    (hf : cfg.first.isEach = false) (hs : cfg.second.isEach = false) (hop : cfg.op = op) (ho : cfg.out = some (.sig ty))
    (ha : cfg.first.val r g = argVal nodes vals a) (hb : cfg.second.val r g = argVal nodes vals b) (s : Sig) :
    get (evalArith cfg r g) s = get (evalNode nodes env vals (.arith op a b ty)) s := by
  rw [get_evalArith_scalar cfg ty hf hs ho]
  simp [evalNode, hop, ha, hb]

/-- `-a` → `a * (-1)` -/
theorem rule_neg (x : I32) : alu .mul x (i32 (-1)) = alu .sub 0 x := by
  simp only [alu, i32]
  have : BitVec.ofInt 32 (-1) = -1#32 := by decide
  rw [this, BitVec.mul_neg, BitVec.mul_one]
  simp

/-- `e | "t"` → `e + 0` on the target type -/
theorem rule_proj (x : I32) : alu .add x 0 = x := by simp [alu]

/-- `a && b` on 0/1 operands → `a * b` -/
theorem rule_and_bool (x y : I32) (hx : x = 0 ∨ x = 1) (hy : y = 0 ∨ y = 1) :
    alu .mul x y = boolI (x != 0 && y != 0) := by
  rcases hx with rfl | rfl <;> rcases hy with rfl | rfl <;> decide

/-- `a || b` on 0/1 operands → `(a + b) > 0` -/
theorem rule_or_bool (x y : I32) (hx : x = 0 ∨ x = 1) (hy : y = 0 ∨ y = 1) :
    boolI (cmp .gt (alu .add x y) 0) = boolI (x != 0 || y != 0) := by
  rcases hx with rfl | rfl <;> rcases hy with rfl | rfl <;> decide

/-- `!a` → `a = 0 : 1`, for every value of `a` -/
theorem rule_not (x : I32) : boolI (cmp .eq x 0) = boolI (x == 0) := by simp [cmp]

/-- normalising an arbitrary operand of `&&`/`||` through `x != 0` yields a 0/1 value -/
theorem boolI_is_bool (b : Bool) : boolI b = 0 ∨ boolI b = 1 := by cases b <;> simp [boolI]

/-- `a cmp b` → decider with constant output 1 -/
theorem rule_cmp (nodes : Array CNode) (env : Env) (vals : Array SigMap) (cd : Cond) (o : DOut) (op : CmpOp) (a b : Arg)
    (ty : Sig) (r g : SigMap) (hc : cd.usesEach = false) (ho : o.sig = .sig ty) (hcopy : o.copy = false) (hk : o.const = 1)
    (hcond : cd.eval r g none = cmp op (argVal nodes vals a) (argVal nodes vals b)) (s : Sig) :
    get (evalDecider { conds := [cd], outs := [o] } r g) s = get (evalNode nodes env vals (.cmp op a b ty)) s := by
  rw [get_evalDecider_single cd o ty hc ho, hcond]
  simp only [evalNode, get_single, hcopy, hk, boolI]
  by_cases h : cmp op (argVal nodes vals a) (argVal nodes vals b) <;> by_cases ht : ty = s <;> simp [h, ht]

/-- `(a cmp b) : v` with a signal value → decider copying `v`'s signal from its input -/
theorem rule_gate_copy (nodes : Array CNode) (env : Env) (vals : Array SigMap) (cd : Cond) (o : DOut) (op : CmpOp)
    (a b v : Arg) (ty : Sig) (r g : SigMap) (hc : cd.usesEach = false) (ho : o.sig = .sig ty) (hcopy : o.copy = true)
    (hcond : cd.eval r g none = cmp op (argVal nodes vals a) (argVal nodes vals b))
    (hv : get (selIn o.sel r g) ty = argVal nodes vals v) (s : Sig) :
    get (evalDecider { conds := [cd], outs := [o] } r g) s = get (evalNode nodes env vals (.gate op a b v ty)) s := by
  rw [get_evalDecider_single cd o ty hc ho, hcond]
  simp only [evalNode, get_single, hcopy, hv]
  by_cases h : cmp op (argVal nodes vals a) (argVal nodes vals b) <;> by_cases ht : ty = s <;> simp [h, ht]

/-- `bundle op k` → `each op k → each`, provided the each-operand's networks carry exactly the bundle -/
theorem rule_each_arith (nodes : Array CNode) (env : Env) (vals : Array SigMap) (cfg : ArithCfg) (sel : Sel)
    (op : ArithOp) (b : Nat) (k : Arg) (r g : SigMap)
    (hf : cfg.first = .ref .each sel) (ho : cfg.out = some .each) (hop : cfg.op = op)
    (hin : ∀ s, get (selIn sel r g) s = get (vals.getD b []) s)
    (hk : cfg.second.val r g = argVal nodes vals k) (s : Sig) :
    get (evalArith cfg r g) s = get (evalNode nodes env vals (.beach op b k)) s := by
  rw [get_evalArith_each cfg sel hf ho, get_evalNode_beach, hin s, hop, hk]

/-- `(a cmp k) : bundle` → decider gating `everything`, provided the copied networks carry exactly the
bundle (in particular: *not* the condition signal — finding F23 is the failure of this premise) -/
theorem rule_bundle_gate (nodes : Array CNode) (env : Env) (vals : Array SigMap) (cd : Cond) (o : DOut) (op : CmpOp)
    (a k : Arg) (b : Nat) (r g : SigMap) (hc : cd.usesEach = false) (ho : o.sig = .everything) (hcopy : o.copy = true)
    (hcond : cd.eval r g none = cmp op (argVal nodes vals a) (argVal nodes vals k))
    (hin : ∀ s, get (selIn o.sel r g) s = get (vals.getD b []) s) (s : Sig) :
    get (evalDecider { conds := [cd], outs := [o] } r g) s = get (evalNode nodes env vals (.bgate op a k b)) s := by
  rw [get_evalDecider_gate cd o hc ho hcopy, get_evalNode_bgate, hcond, hin s]

end Facto
