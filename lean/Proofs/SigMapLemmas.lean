import Model.SigMap
/-!
# Signal-map algebra: concatenation is the wire sum; `support` lists exactly the present signals
-/
namespace Facto
namespace SigMap

@[simp] theorem get_nil (s : Sig) : get [] s = 0 := rfl

@[simp] theorem get_cons (k : Sig) (v : I32) (m : SigMap) (s : Sig) :
    get ((k, v) :: m) s = (if k = s then v else 0) + get m s := rfl

@[simp] theorem get_append (a b : SigMap) (s : Sig) : get (a ++ b) s = get a s + get b s := by
  induction a with
  | nil => simp
  | cons kv a ih =>
    obtain ⟨k, v⟩ := kv
    simp only [List.cons_append, get_cons, ih, BitVec.add_assoc]

theorem get_single (k : Sig) (v : I32) (s : Sig) : get [(k, v)] s = if k = s then v else 0 := by
  simp

theorem get_flatten (ms : List SigMap) (s : Sig) :
    get ms.flatten s = (ms.map (fun m => get m s)).foldr (· + ·) 0 := by
  induction ms with
  | nil => simp
  | cons m ms ih => simp [ih]

/-- a signal that is not a key reads 0 -/
theorem get_eq_zero_of_not_mem_keys (m : SigMap) (s : Sig) (h : s ∉ m.map Prod.fst) : get m s = 0 := by
  induction m with
  | nil => rfl
  | cons kv m ih =>
    obtain ⟨k, v⟩ := kv
    simp only [List.map_cons, List.mem_cons, not_or] at h
    have hk : ¬ k = s := fun e => h.1 e.symm
    simp [hk, ih h.2]

theorem mem_dedup (l : List Sig) (s : Sig) : s ∈ dedup l ↔ s ∈ l := by
  induction l with
  | nil => simp [dedup]
  | cons k l ih =>
    simp only [dedup, List.mem_cons, List.mem_filter, ih]
    constructor
    · rintro (h | ⟨h, _⟩)
      · exact Or.inl h
      · exact Or.inr h
    · rintro (h | h)
      · exact Or.inl h
      · by_cases hk : s = k
        · exact Or.inl hk
        · exact Or.inr ⟨h, by simpa using hk⟩

theorem nodup_dedup (l : List Sig) : (dedup l).Nodup := by
  induction l with
  | nil => simp [dedup]
  | cons k l ih =>
    simp only [dedup, List.nodup_cons, List.mem_filter]
    refine ⟨?_, List.Pairwise.filter _ ih⟩
    rintro ⟨_, h⟩
    simp at h

theorem mem_keys (m : SigMap) (s : Sig) : s ∈ keys m ↔ s ∈ m.map Prod.fst := by
  unfold keys
  exact mem_dedup _ s

theorem mem_support (m : SigMap) (s : Sig) : s ∈ support m ↔ get m s ≠ 0 := by
  unfold support
  rw [List.mem_filter, mem_keys]
  constructor
  · rintro ⟨_, h⟩; simpa using h
  · intro h
    refine ⟨?_, by simpa using h⟩
    apply Classical.byContradiction
    intro hn
    exact h (get_eq_zero_of_not_mem_keys m s hn)

theorem nodup_support (m : SigMap) : (support m).Nodup := by
  unfold support keys
  exact List.Pairwise.filter _ (nodup_dedup _)

/-- reading a map built member-wise over a duplicate-free key list -/
theorem get_map_nodup (l : List Sig) (hl : l.Nodup) (f : Sig → I32) (s : Sig) :
    get (l.map (fun k => (k, f k))) s = if s ∈ l then f s else 0 := by
  induction l with
  | nil => simp
  | cons k l ih =>
    rw [List.nodup_cons] at hl
    simp only [List.map_cons, get_cons, ih hl.2, List.mem_cons]
    by_cases hks : k = s
    · subst hks
      simp [hl.1]
    · have : ¬ s = k := fun e => hks e.symm
      simp [hks, this]

/-- member-wise map over the support: present signals get `f`, absent ones read 0 -/
theorem get_map_support (m : SigMap) (f : Sig → I32) (s : Sig) :
    get ((support m).map (fun k => (k, f k))) s = if get m s ≠ 0 then f s else 0 := by
  rw [get_map_nodup _ (nodup_support m)]
  simp only [mem_support]

theorem get_norm (m : SigMap) (s : Sig) : get (norm m) s = get m s := by
  unfold norm
  rw [get_map_support]
  by_cases h : get m s = 0
  · simp [h]
  · simp [h]
    intro h'; exact absurd h' h

/-- filtered member-wise map (bundle filter) -/
theorem get_map_filter_support (m : SigMap) (p : Sig → Bool) (f : Sig → I32) (s : Sig) :
    get (((support m).filter p).map (fun k => (k, f k))) s = if get m s ≠ 0 ∧ p s = true then f s else 0 := by
  rw [get_map_nodup _ (List.Pairwise.filter _ (nodup_support m))]
  simp only [List.mem_filter, mem_support]

end SigMap
end Facto
