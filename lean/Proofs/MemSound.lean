import Model.MatchMem
import Proofs.MatchSound
import Proofs.Memory
/-!
# Memory cells of the decoded blueprint obey the source semantics, one tick at a time

`gated_cell_end_to_end`: let `E` be any state of the (uncut) circuit that has settled *around* the cell —
every entity other than the cut gates satisfies its own equation — and let the rest of the program pass the
validator on the cut circuit. Then after one more tick the content of the cell (the wire-sum of its two gates
on the cell's signal) is `WriteRule.next`: the data if the enable is positive, the present content if it is
zero, nothing if it is negative; for all inputs, all contents, all states.
-/
namespace Facto
open SigMap

/-! ## cutting -/

theorem cut_readR (c : Circuit) (L : List Nat) (E : Nat → SigMap) (i : Nat) : (c.cut L).readR E i = c.readR E i := rfl
theorem cut_readG (c : Circuit) (L : List Nat) (E : Nat → SigMap) (i : Nat) : (c.cut L).readG E i = c.readG E i := rfl

theorem cut_kind_not_mem (c : Circuit) (L : List Nat) (i : Nat) (h : L.contains i = false) :
    (c.cut L).kind i = c.kind i := by
  have h' : i ∉ L := by simpa using h
  unfold Circuit.kind Circuit.cut
  by_cases hi : i < c.kinds.size
  · simp [Array.getD_eq_getD_getElem?, hi, h', Circuit.kind]
  · simp [Array.getD_eq_getD_getElem?, hi]

theorem cut_kind_mem (c : Circuit) (L : List Nat) (i : Nat) (h : L.contains i = true) (hi : i < c.kinds.size)
    (t : Sig) (ht : c.cutSig i = some t) : (c.cut L).kind i = .const [(t, 0)] := by
  have h' : i ∈ L := by simpa using h
  unfold Circuit.kind Circuit.cut
  simp [Array.getD_eq_getD_getElem?, hi, h', ht]

/-- inputs of the cut circuit: the cut entities emit what they emit in `E` -/
def cutInp (inp : Inputs) (L : List Nat) (E : Nat → SigMap) : Inputs :=
  fun i => if L.contains i then some (E i) else inp i

/-- a state settled around the cut entities is a fixpoint of the cut circuit -/
theorem cut_fix (c : Circuit) (L : List Nat) (inp : Inputs) (E : Nat → SigMap)
    (h : ∀ i, L.contains i = false → c.evalEnt inp E i = E i) :
    ∀ i, (c.cut L).evalEnt (cutInp inp L E) E i = E i := by
  intro i
  cases hL : L.contains i with
  | true =>
    unfold Circuit.evalEnt cutInp
    rw [hL]
    rfl
  | false =>
    have := h i hL
    unfold Circuit.evalEnt at this ⊢
    simp only [cutInp, hL, Bool.false_eq_true, if_false, cut_kind_not_mem c L i hL, cut_readR, cut_readG]
    exact this

theorem cutSig_spec (c : Circuit) (i : Nat) (t : Sig) (h : c.cutSig i = some t) (s : Sig) (hs : s ≠ t) :
    c.mayEmit i s = false := by
  unfold Circuit.cutSig at h
  unfold Circuit.mayEmit
  cases hl : c.emitListOf i with
  | none => rw [hl] at h; cases h
  | some l =>
    rw [hl] at h
    match l, h with
    | [t'], h =>
      have : t' = t := by simpa using h
      subst this
      simp only [List.contains_cons, List.contains_nil, Bool.or_false, beq_eq_false_iff_ne, ne_eq]
      exact hs
    | [], h => simp at h
    | _ :: _ :: _, h => simp at h

/-- the cut entities emit only their own signal in `E` (true of every state after the first tick) -/
def GatesOK (c : Circuit) (L : List Nat) (E : Nat → SigMap) : Prop :=
  ∀ i, L.contains i = true → ∀ s, c.mayEmit i s = false → get (E i) s = 0

/-- every state that is the successor of some state satisfies `GatesOK` (so does every state of a run after
the first tick) -/
theorem gatesOK_succ (c : Circuit) (L : List Nat) (inp : Inputs) (hinp : InputsOK c inp) (E0 : Nat → SigMap) :
    GatesOK c L (fun i => c.evalEnt inp E0 i) := by
  intro i _ s hs
  exact emits_evalEnt c inp hinp E0 i s hs

theorem cut_inputsOK (c : Circuit) (L : List Nat) (inp : Inputs) (E : Nat → SigMap) (hinp : InputsOK c inp)
    (hL : cutOK c L = true) (hg : GatesOK c L E) : InputsOK (c.cut L) (cutInp inp L E) := by
  intro i m hi
  unfold cutInp at hi
  cases hc : L.contains i with
  | true =>
    right
    unfold cutOK at hL
    rw [List.all_eq_true] at hL
    have hh := hL i (List.contains_iff_mem.mp hc)
    simp only [Bool.and_eq_true, decide_eq_true_eq] at hh
    obtain ⟨hlt, hsome⟩ := hh
    cases ht : c.cutSig i with
    | none => rw [ht] at hsome; cases hsome
    | some t =>
      refine ⟨t, 0, cut_kind_mem c L i hc hlt t ht, ?_⟩
      simp only [hc, if_true] at hi
      injection hi with hi
      subst hi
      intro s hs
      exact hg i hc s (cutSig_spec c i t ht s hs)
  | false =>
    simp only [hc, Bool.false_eq_true, if_false] at hi
    rcases hinp i m hi with ⟨hs, cd, hk⟩ | ⟨t, lit, hk, hm⟩
    · left
      exact ⟨hs, cd, by rw [cut_kind_not_mem c L i hc]; exact hk⟩
    · right
      exact ⟨t, lit, by rw [cut_kind_not_mem c L i hc]; exact hk, hm⟩

/-! ## the write-gated cell -/

theorem isConst0_spec (o : Operand) (h : isConst0 o = true) : o = .const 0 := by
  cases o with
  | const k => simp [isConst0] at h; rw [h]; rfl
  | ref _ _ => simp [isConst0] at h

theorem sigIs_spec (r : SigRef) (ty : Sig) (h : sigIs r ty = true) : r = .sig ty := by
  cases r <;> simp_all [sigIs]

theorem toInt_eq_zero (w : I32) : w.toInt = 0 ↔ w = 0 := by
  constructor
  · intro h
    apply BitVec.eq_of_toInt_eq
    simpa using h
  · intro h; subst h; rfl

theorem gates_sum (W D M : I32) :
    (if cmp .gt W 0 = true then D else 0) + (if cmp .eq W 0 = true then M else 0) = gatedNext W D M := by
  unfold gatedNext
  rw [cmp_gt_zero]
  by_cases h1 : W.toInt > 0
  · have h0 : ¬ W = 0#32 := by intro h; subst h; simp at h1
    simp [h1, cmp, h0]
  · by_cases h0 : W = 0#32
    · subst h0; simp [cmp]
    · simp [h1, cmp, h0]

theorem operandIsArg_sound (x : Ctx) (hall : ∀ m, m < x.nodes.size → Holds x.E x.nodes x.env x.bind m)
    (e : Nat) (o : Operand) (a : Arg) (ha : argBelow x.nodes.size a = true)
    (h : operandIsArg x.c x.nodes x.bind e o a = true) :
    o.isPlain = true ∧ o.val (x.c.readR x.E e) (x.c.readG x.E e) = x.av a := by
  unfold operandIsArg at h
  simp only [Bool.or_eq_true] at h
  rcases h with h | h
  · exact ⟨matchOperand_plain _ _ _ _ _ _ h, matchOperand_sound x e o a x.nodes.size ha hall h⟩
  · refine ⟨opIs_plain _ _ _ _ _ _ _ h, ?_⟩
    have hu : (projOf a).under x.nodes.size = true := by
      simp only [projOf, VExpr.under, ha, Bool.true_and]
      rfl
    rw [opIs_sound x x.nodes.size hall _ (projOf a) e o
      (fun p t hp => entIs_sound x x.nodes.size hall (projOf a) p t hu hp) hu h]
    simp [projOf, VExpr.val, alu, Ctx.av, argVal]

/-- the one-tick law of a matched cell, in a context over the cut circuit -/
theorem gated_cell_step_cut (c : Circuit) (L : List Nat) (x : Ctx) (hc : x.c = c.cut L)
    (hall : ∀ m, m < x.nodes.size → Holds x.E x.nodes x.env x.bind m)
    (inp : Inputs) (hinp : InputsOK c inp)
    (ew eh : Nat) (ty : Sig) (d en : Arg)
    (h : gatedCellIs c x.c x.nodes x.bind ew eh ty d en = true) :
    get (c.evalEnt inp x.E ew) ty + get (c.evalEnt inp x.E eh) ty =
      gatedNext (x.av en) (x.av d) (get (Circuit.sumOuts [ew, eh] x.E) ty) := by
  have hr : ∀ i, c.readR x.E i = x.c.readR x.E i := by intro i; rw [hc]; rfl
  have hg : ∀ i, c.readG x.E i = x.c.readG x.E i := by intro i; rw [hc]; rfl
  unfold gatedCellIs at h
  simp only [Bool.and_eq_true] at h
  obtain ⟨⟨⟨hd, hen⟩, hw⟩, hh⟩ := h
  have inpNone : ∀ e cfg, c.kind e = .decider cfg → inp e = none := by
    intro e cfg hk
    cases hi : inp e with
    | none => rfl
    | some m =>
      rcases hinp e m hi with ⟨_, cd, hk'⟩ | ⟨t, lit, hk', _⟩
      · rw [hk] at hk'; cases hk'
      · rw [hk] at hk'; cases hk'
  -- write gate
  have hW : get (c.evalEnt inp x.E ew) ty = if cmp .gt (x.av en) 0 = true then x.av d else 0 := by
    cases hkw : c.kind ew with
    | decider cw =>
      rw [hkw] at hw
      simp only at hw
      obtain ⟨cdw, ow, hcs, hos, hP⟩ := decider_shape cw.conds cw.outs _ hw
      simp only [Bool.and_eq_true, Bool.not_eq_true', beq_iff_eq] at hP
      obtain ⟨⟨⟨⟨⟨hop, hu⟩, hm⟩, h0⟩, hs⟩, hv⟩ := hP
      obtain ⟨hpl, hmv⟩ := operandIsArg_sound x hall ew cdw.first en hen hm
      have hcfg : cw = { conds := [cdw], outs := [ow] } := by cases cw; simp_all
      have e1 : c.evalEnt inp x.E ew = evalDecider cw (x.c.readR x.E ew) (x.c.readG x.E ew) := by
        unfold Circuit.evalEnt; rw [inpNone ew cw hkw, hkw, hr, hg]
      rw [e1, hcfg, get_evalDecider_single cdw ow ty hu (sigIs_spec _ _ hs), cond_eval_plain cdw _ _ hpl hu,
        hmv, isConst0_spec _ h0, hop, if_pos rfl,
        outValIs_sound x x.nodes.size hall ew ow ty d hd hv]
      rfl
    | _ => rw [hkw] at hw; simp at hw
  -- hold gate
  have hH : get (c.evalEnt inp x.E eh) ty =
      if cmp .eq (x.av en) 0 = true then get (Circuit.sumOuts [ew, eh] x.E) ty else 0 := by
    cases hkh : c.kind eh with
    | decider ch =>
      rw [hkh] at hh
      simp only at hh
      obtain ⟨cdh, oh, hcs, hos, hP⟩ := decider_shape ch.conds ch.outs _ hh
      simp only [Bool.and_eq_true, Bool.not_eq_true', beq_iff_eq] at hP
      obtain ⟨⟨⟨⟨⟨⟨hop, hu⟩, hm⟩, h0⟩, hs⟩, hcopy⟩, hfb⟩ := hP
      obtain ⟨hpl, hmv⟩ := operandIsArg_sound x hall eh cdh.first en hen hm
      have hcfg : ch = { conds := [cdh], outs := [oh] } := by cases ch; simp_all
      have e2 : c.evalEnt inp x.E eh = evalDecider ch (x.c.readR x.E eh) (x.c.readG x.E eh) := by
        unfold Circuit.evalEnt; rw [inpNone eh ch hkh, hkh, hr, hg]
      rw [e2, hcfg, get_evalDecider_single cdh oh ty hu (sigIs_spec _ _ hs), cond_eval_plain cdh _ _ hpl hu,
        hmv, isConst0_spec _ h0, hop, if_pos rfl,
        hcopy, if_pos rfl, readsSum_sound x.c x.E x.emits eh oh.sel ty [ew, eh] hfb]
      rfl
    | _ => rw [hkh] at hh; simp at hh
  rw [hW, hH]
  exact gates_sum _ _ _

theorem gatedNext_eq_next (nodes : Array CNode) (vals : Array SigMap) (d en : Arg) (cur : I32) :
    gatedNext (argVal nodes vals en) (argVal nodes vals d) cur = (WriteRule.gated d en).next nodes vals cur := by
  unfold gatedNext WriteRule.next
  simp only
  by_cases h1 : (argVal nodes vals en).toInt > 0
  · simp [h1]
  · by_cases h0 : argVal nodes vals en = 0
    · simp [h0]
    · have : ¬ (argVal nodes vals en).toInt = 0 := fun h => h0 ((toInt_eq_zero _).mp h)
      have h0' : ¬ argVal nodes vals en = 0#32 := h0
      simp [h1, h0', this]

/-- **C03, per program, one tick.** `c` is the decoded blueprint, `L` the cut (all cell gates), `E` any state in
which every entity outside `L` satisfies its own equation (the circuit has settled around the present cell
contents). If the cut circuit passes the validator and the gates `ew`, `eh` match the cell written with
`write(d, when=en)`, then one tick later the cell holds what the source semantics says — for every input
valuation and every present content. -/
theorem gated_cell_end_to_end (c : Circuit) (L : List Nat) (nodes : Array CNode) (bind : Nat → Option Bind)
    (hL : cutOK c L = true) (hall : checkAll (c.cut L) nodes bind = true)
    (inp : Inputs) (env : Env) (hinp : InputsOK c inp) (E : Nat → SigMap)
    (hsettled : ∀ i, L.contains i = false → c.evalEnt inp E i = E i) (hgates : GatesOK c L E)
    (hagree : InputsAgree nodes bind (cutInp inp L E) env)
    (ew eh : Nat) (ty : Sig) (d en : Arg)
    (hcell : gatedCellIs c (c.cut L) nodes bind ew eh ty d en = true) :
    get (Circuit.sumOuts [ew, eh] (fun i => c.evalEnt inp E i)) ty =
      (WriteRule.gated d en).next nodes (evalNodes nodes env) (get (Circuit.sumOuts [ew, eh] E) ty) := by
  let x : Ctx := { c := c.cut L, inp := cutInp inp L E, E, nodes, env, bind,
                   hfix := cut_fix c L inp E hsettled, hinp := cut_inputsOK c L inp E hinp hL hgates, hagree }
  have hs := gated_cell_step_cut c L x rfl (checkAll_sound x hall) inp hinp ew eh ty d en hcell
  rw [← gatedNext_eq_next]
  have e : get (Circuit.sumOuts [ew, eh] (fun i => c.evalEnt inp E i)) ty =
      get (c.evalEnt inp E ew) ty + get (c.evalEnt inp E eh) ty := by
    simp [Circuit.sumOuts]
  rw [e]
  exact hs

/-! ## arithmetic feedback: `m.write(f(m.read()))` as one self-reading combinator (C04, latency 1) -/

theorem under_mono (v : VExpr) (a b : Nat) (hab : a ≤ b) (h : v.under a = true) : v.under b = true := by
  have argm : ∀ x : Arg, argBelow a x = true → argBelow b x = true := by
    intro x hx
    cases x with
    | int k => rfl
    | node m =>
      have : m < a := by simpa [argBelow] using hx
      simp [argBelow]; omega
  induction v with
  | arg x => exact argm x h
  | alu op y z ihy ihz =>
    simp only [VExpr.under, Bool.and_eq_true] at h ⊢
    exact ⟨ihy h.1, ihz h.2⟩
  | cmpB op y z ihy ihz =>
    simp only [VExpr.under, Bool.and_eq_true] at h ⊢
    exact ⟨ihy h.1, ihz h.2⟩
  | gate op y z w ihy ihz =>
    simp only [VExpr.under, Bool.and_eq_true] at h ⊢
    exact ⟨⟨ihy h.1.1, ihz h.1.2⟩, argm w h.2⟩
  | allB cs =>
    simp only [VExpr.under, List.all_eq_true, Bool.and_eq_true] at h ⊢
    intro q hq
    exact ⟨argm _ (h q hq).1, argm _ (h q hq).2⟩
  | anyB cs =>
    simp only [VExpr.under, List.all_eq_true, Bool.and_eq_true] at h ⊢
    intro q hq
    exact ⟨argm _ (h q hq).1, argm _ (h q hq).2⟩

theorem stepIs_sound (c : Circuit) (L : List Nat) (x : Ctx) (hc : x.c = c.cut L)
    (hall : ∀ m, m < x.nodes.size → Holds x.E x.nodes x.env x.bind m)
    (inp : Inputs) (hinp : InputsOK c inp) (v : VExpr) (e : Nat) (s : Sig)
    (hu : v.under x.nodes.size = true) (h : stepIs c x.c x.nodes x.bind v e s = true) :
    get (c.evalEnt inp x.E e) s = v.val x.av := by
  have hr : ∀ i, c.readR x.E i = x.c.readR x.E i := by intro i; rw [hc]; rfl
  have hg : ∀ i, c.readG x.E i = x.c.readG x.E i := by intro i; rw [hc]; rfl
  cases v with
  | alu op y z =>
    simp only [stepIs, stepIsAlu] at h
    simp only [VExpr.under, Bool.and_eq_true] at hu
    cases hk : c.kind e with
    | arith cfg =>
      simp only [hk, Bool.and_eq_true, Bool.not_eq_true', beq_iff_eq] at h
      obtain ⟨⟨⟨⟨⟨hop, hf⟩, hs⟩, hout⟩, h1⟩, h2⟩ := h
      have hno : inp e = none := by
        cases hi : inp e with
        | none => rfl
        | some m =>
          rcases hinp e m hi with ⟨_, cd, hk'⟩ | ⟨t, lit, hk', _⟩
          · rw [hk] at hk'; cases hk'
          · rw [hk] at hk'; cases hk'
      have e1 : c.evalEnt inp x.E e = evalArith cfg (x.c.readR x.E e) (x.c.readG x.E e) := by
        unfold Circuit.evalEnt; rw [hno, hk, hr, hg]
      rw [e1, get_evalArith_scalar cfg s hf hs (outIs_spec _ _ hout), if_pos rfl,
        opIs_sound x x.nodes.size hall _ y e cfg.first
          (fun p t hp => entIs_sound x x.nodes.size hall y p t hu.1 hp) hu.1 h1,
        opIs_sound x x.nodes.size hall _ z e cfg.second
          (fun p t hp => entIs_sound x x.nodes.size hall z p t hu.2 hp) hu.2 h2, hop]
      rfl
    | _ => simp [hk] at h
  | _ => simp [stepIs] at h

/-- **C04, per program, latency 1.** In any state settled around the cells, the self-reading combinator `e`
emits next tick exactly the written function of the cell's present content. -/
theorem always_cell_end_to_end (c : Circuit) (L : List Nat) (nodes : Array CNode) (bind : Nat → Option Bind)
    (hL : cutOK c L = true) (hall : checkAll (c.cut L) nodes bind = true)
    (inp : Inputs) (env : Env) (hinp : InputsOK c inp) (E : Nat → SigMap)
    (hsettled : ∀ i, L.contains i = false → c.evalEnt inp E i = E i) (hgates : GatesOK c L E)
    (hagree : InputsAgree nodes bind (cutInp inp L E) env)
    (e : Nat) (ty : Sig) (d : Arg)
    (hcell : alwaysCellIs c (c.cut L) nodes bind e ty d = true) (cur : I32) :
    get (c.evalEnt inp E e) ty = (WriteRule.always d).next nodes (evalNodes nodes env) cur := by
  let x : Ctx := { c := c.cut L, inp := cutInp inp L E, E, nodes, env, bind,
                   hfix := cut_fix c L inp E hsettled, hinp := cut_inputsOK c L inp E hinp hL hgates, hagree }
  have hh := checkAll_sound x hall
  unfold alwaysCellIs at hcell
  cases d with
  | int k => simp at hcell
  | node m =>
    simp only [Bool.and_eq_true, decide_eq_true_eq, List.any_eq_true] at hcell
    obtain ⟨hm, v, hv, hu, hs⟩ := hcell
    have := stepIs_sound c L x rfl hh inp hinp v e ty hu hs
    rw [this]
    show v.val (fun a => argVal nodes (evalNodes nodes env) a) = _
    rw [lowerings_sound nodes env (m + 1) m v hv hm]
    rfl

/-! ## rings of arithmetic combinators (C04, any latency) -/

theorem emitsOK_runF (c : Circuit) (inp : Inputs) (hinp : InputsOK c inp) : ∀ t, EmitsOK c (c.runF inp t) := by
  intro t
  cases t with
  | succ t => intro p s h; exact emits_evalEnt c inp hinp (c.runF inp t) p s h
  | zero =>
    intro p s h
    obtain ⟨hsrc, hk⟩ := mayEmit_false c p s h
    simp only [Circuit.runF]
    cases hi : inp p with
    | some m =>
      rcases hinp p m hi with ⟨hs, _⟩ | ⟨t, lit, hkind, hm⟩
      · rw [hsrc] at hs; cases hs
      · simp only [Kind.mayEmitB, hkind, Kind.emitList, List.map_cons, List.map_nil] at hk
        have : ¬ s = t := by intro e; subst e; simp at hk
        exact hm s this
    | none =>
      simp only
      cases hkind : c.kind p with
      | const m =>
        simp only [Kind.mayEmitB, hkind, Kind.emitList] at hk
        exact get_eq_zero_of_not_mem_keys m s (contains_false_not_mem _ s hk)
      | _ => rfl

theorem ringOperand_sound (c : Circuit) (E : Nat → SigMap) (hE : EmitsOK c E) (e : Nat) (s : Sig) (prev : Nat)
    (o : Operand) (h : ringOperand c e s prev o = true) :
    o.val (c.readR E e) (c.readG E e) = get (E prev) s := by
  unfold ringOperand at h
  cases o with
  | const k => simp at h
  | ref r sel =>
    cases r with
    | sig t =>
      simp only [Bool.and_eq_true, beq_iff_eq] at h
      obtain ⟨ht, hiso⟩ := h
      subst ht
      simp only [Operand.val]
      exact read_isolated c E hE e sel t prev hiso
    | _ => simp at h

/-- a constant combinator emits the same thing at every tick of a run -/
theorem runF_const (c : Circuit) (inp : Inputs) (p : Nat) (m : SigMap) (hk : c.kind p = .const m) :
    ∀ t, c.runF inp t p = c.runF inp 0 p := by
  intro t
  cases t with
  | zero => rfl
  | succ t =>
    simp only [Circuit.runF, Circuit.evalEnt, hk]

/-- the value of a stage's side operand in the run: the integer, or what the input's combinator emits -/
def Side.circVal (c : Circuit) (inp : Inputs) : Side → I32
  | .int k => k
  | .inp _ p t => get (c.runF inp 0 p) t

/-- … and in the source -/
def Side.coreVal (nodes : Array CNode) (env : Env) (sd : Side) : I32 := argVal nodes (evalNodes nodes env) sd.arg

theorem sideOperand_sound (c : Circuit) (inp : Inputs) (hinp : InputsOK c inp) (nodes : Array CNode) (e n : Nat)
    (o : Operand) (sd : Side) (t : Nat) (h : sideOperand c nodes e n o sd = true) :
    o.val (c.readR (c.runF inp t) e) (c.readG (c.runF inp t) e) = sd.circVal c inp := by
  cases sd with
  | int k =>
    cases o with
    | const k' => simp [sideOperand] at h; simp [Operand.val, Side.circVal, h]
    | ref _ _ => simp [sideOperand] at h
  | inp q p ts =>
    simp only [sideOperand, Bool.and_eq_true] at h
    obtain ⟨⟨⟨_, _⟩, hkind⟩, hro⟩ := h
    rw [ringOperand_sound c (c.runF inp t) (emitsOK_runF c inp hinp t) e ts p o hro]
    cases hk : c.kind p with
    | const m => rw [runF_const c inp p m hk t]; rfl
    | _ => rw [hk] at hkind; simp at hkind

/-- the law of one ring stage, at every tick of the run -/
theorem ring_stage_law (c : Circuit) (inp : Inputs) (hinp : InputsOK c inp) (t : Nat)
    (nodes : Array CNode) (s : Sig) (prevEnt : Nat) (prevArg : Arg) (st : RStage)
    (h : ringStageOK c nodes s prevEnt prevArg st = true) :
    get (c.runF inp (t + 1) st.ent) s = st.fn (st.side.circVal c inp) (get (c.runF inp t prevEnt) s) := by
  have hE := emitsOK_runF c inp hinp t
  unfold ringStageOK at h
  simp only [Bool.and_eq_true] at h
  obtain ⟨_, h⟩ := h
  cases hn : nodes[st.node]? with
  | none => simp [hn] at h
  | some nd =>
    cases nd with
    | arith op a b ty =>
      cases hk : c.kind st.ent with
      | arith cfg =>
        simp only [hn, hk, Bool.and_eq_true, Bool.not_eq_true', beq_iff_eq] at h
        obtain ⟨⟨⟨⟨⟨hop, hcop⟩, hf⟩, hs⟩, hout⟩, hside⟩ := h
        have hno : inp st.ent = none := by
          cases hi : inp st.ent with
          | none => rfl
          | some m =>
            rcases hinp st.ent m hi with ⟨_, cd, hk'⟩ | ⟨t', lit, hk', _⟩
            · rw [hk] at hk'; cases hk'
            · rw [hk] at hk'; cases hk'
        have e1 : c.runF inp (t + 1) st.ent =
            evalArith cfg (c.readR (c.runF inp t) st.ent) (c.readG (c.runF inp t) st.ent) := by
          simp only [Circuit.runF, Circuit.evalEnt, hno, hk]
        rw [e1, get_evalArith_scalar cfg s hf hs (outIs_spec _ _ hout), if_pos rfl]
        unfold RStage.fn
        cases hrf : st.ringFirst with
        | true =>
          simp only [hrf, if_true, Bool.and_eq_true, beq_iff_eq] at hside ⊢
          obtain ⟨⟨⟨_, _⟩, hro⟩, hco⟩ := hside
          rw [ringOperand_sound c _ hE st.ent s prevEnt cfg.first hro,
            sideOperand_sound c inp hinp nodes st.ent st.node cfg.second st.side t hco, hcop, hop]
        | false =>
          simp only [hrf, Bool.false_eq_true, if_false, Bool.and_eq_true, beq_iff_eq] at hside ⊢
          obtain ⟨⟨⟨_, _⟩, hro⟩, hco⟩ := hside
          rw [ringOperand_sound c _ hE st.ent s prevEnt cfg.second hro,
            sideOperand_sound c inp hinp nodes st.ent st.node cfg.first st.side t hco, hcop, hop]
      | _ => simp [hn, hk] at h
    | _ => simp [hn] at h

/-- a chain of stages is a pipeline: the last stage shows, `length` ticks later, the chain applied to what the
entity feeding the first stage shows now — at every tick of the run from power-on -/
theorem ring_pipeline (c : Circuit) (inp : Inputs) (hinp : InputsOK c inp) (nodes : Array CNode) (s : Sig) :
    ∀ (stages : List RStage) (p : Nat) (a : Arg), ringOK c nodes s p a stages = true → ∀ t,
      get (c.runF inp (t + stages.length) (lastEnt p stages)) s =
        chainVal (fun st => st.side.circVal c inp) stages (get (c.runF inp t p) s) := by
  intro stages
  induction stages with
  | nil => intro p a _ t; simp [lastEnt, chainVal]
  | cons st rest ih =>
    intro p a h t
    simp only [ringOK, Bool.and_eq_true] at h
    obtain ⟨hst, hrest⟩ := h
    have step := ring_stage_law c inp hinp t nodes s p a st hst
    have := ih st.ent (.node st.node) hrest (t + 1)
    have hl : lastEnt p (st :: rest) = lastEnt st.ent rest := rfl
    rw [hl, show t + (st :: rest).length = t + 1 + rest.length by simp; omega, this, step]
    simp [chainVal]

/-- the same chain in the source: the last node denotes the chain applied to the value of the first argument -/
theorem ring_core (c : Circuit) (nodes : Array CNode) (env : Env) (s : Sig) :
    ∀ (stages : List RStage) (p : Nat) (a : Arg), ringOK c nodes s p a stages = true →
      argVal nodes (evalNodes nodes env) (lastArg a stages) =
        chainVal (fun st => st.side.coreVal nodes env) stages (argVal nodes (evalNodes nodes env) a) := by
  intro stages
  induction stages with
  | nil => intro p a _; simp [lastArg, chainVal]
  | cons st rest ih =>
    intro p a h
    simp only [ringOK, Bool.and_eq_true] at h
    obtain ⟨hst, hrest⟩ := h
    have hl : lastArg a (st :: rest) = lastArg (.node st.node) rest := rfl
    rw [hl, ih st.ent (.node st.node) hrest]
    have hv : argVal nodes (evalNodes nodes env) (.node st.node) =
        st.fn (st.side.coreVal nodes env) (argVal nodes (evalNodes nodes env) a) := by
      unfold ringStageOK at hst
      simp only [Bool.and_eq_true] at hst
      obtain ⟨hbelow, hst⟩ := hst
      cases hn : nodes[st.node]? with
      | none => simp [hn] at hst
      | some nd =>
        obtain ⟨hlt, hnd⟩ := kind_getD nodes st.node nd hn
        cases nd with
        | arith op x y ty =>
          cases hk : c.kind st.ent with
          | arith cfg =>
            simp only [hn, hk, Bool.and_eq_true, Bool.not_eq_true', beq_iff_eq] at hst
            obtain ⟨⟨⟨⟨⟨hop, _⟩, _⟩, _⟩, _⟩, hside⟩ := hst
            -- the side argument lies below the node
            have sideBelow : ∀ o, sideOperand c nodes st.ent st.node o st.side = true → argBelow st.node st.side.arg = true := by
              intro o ho
              cases hsd : st.side with
              | int k => rfl
              | inp q p' t' =>
                rw [hsd] at ho
                simp only [sideOperand, Bool.and_eq_true, decide_eq_true_eq] at ho
                simp [Side.arg, argBelow, ho.1.1.1]
            unfold RStage.fn Side.coreVal
            cases hrf : st.ringFirst with
            | true =>
              simp only [hrf, if_true, Bool.and_eq_true, beq_iff_eq] at hside ⊢
              obtain ⟨⟨⟨hx, hy⟩, _⟩, hso⟩ := hside
              subst hx
              show nodeVal nodes env st.node = _
              rw [nodeVal_arith nodes env st.node hlt op x y ty hnd hbelow (by rw [hy]; exact sideBelow _ hso), hop, hy]
            | false =>
              simp only [hrf, Bool.false_eq_true, if_false, Bool.and_eq_true, beq_iff_eq] at hside ⊢
              obtain ⟨⟨⟨hy, hx⟩, _⟩, hso⟩ := hside
              subst hy
              show nodeVal nodes env st.node = _
              rw [nodeVal_arith nodes env st.node hlt op x y ty hnd (by rw [hx]; exact sideBelow _ hso) hbelow, hop, hx]
          | _ => simp [hn, hk] at hst
        | _ => simp [hn] at hst
    rw [hv]
    simp [chainVal]

theorem chainVal_congr (k1 k2 : RStage → I32) (stages : List RStage) (h : ∀ st, st ∈ stages → k1 st = k2 st) (x : I32) :
    chainVal k1 stages x = chainVal k2 stages x := by
  induction stages generalizing x with
  | nil => rfl
  | cons st rest ih =>
    simp only [chainVal, List.foldl_cons]
    rw [h st (List.mem_cons_self)]
    exact ih (fun st' hs => h st' (List.mem_cons_of_mem _ hs)) _

/-- **C04, per program, at every tick.** If the ring `stages` of the decoded blueprint passes `ringCellIs` for the
cell `m` written with `write(d)`, then in the run from the all-zero state, for every tick `t`: what the cell shows
`L = stages.length` ticks later is the written function of what it shows now — `d` evaluated in the source
semantics with the cell holding the present value and the declared inputs holding what their combinators emit. -/
theorem ring_end_to_end (c : Circuit) (nodes : Array CNode) (s : Sig) (m readNode : Nat) (stages : List RStage)
    (d : Arg) (hcell : ringCellIs c nodes s m readNode stages d = true)
    (inp : Inputs) (hinp : InputsOK c inp) (t : Nat) (env : Env)
    (hmem : env.mem m = get (c.runF inp t (lastEnt 0 stages)) s)
    (hside : ∀ st, st ∈ stages → st.side.circVal c inp = st.side.coreVal nodes env) :
    get (c.runF inp (t + stages.length) (lastEnt 0 stages)) s =
      (WriteRule.always d).next nodes (evalNodes nodes env) (env.mem m) := by
  unfold ringCellIs at hcell
  simp only [Bool.and_eq_true, beq_iff_eq] at hcell
  obtain ⟨⟨⟨_, hread⟩, hd⟩, hok⟩ := hcell
  have hp := ring_pipeline c inp hinp nodes s stages (lastEnt 0 stages) (.node readNode) hok t
  have hl : lastEnt (lastEnt 0 stages) stages = lastEnt 0 stages := by
    cases stages with
    | nil => rfl
    | cons st rest => rfl
  rw [hl] at hp
  rw [hp, chainVal_congr _ _ stages hside]
  have hc := ring_core c nodes env s stages (lastEnt 0 stages) (.node readNode) hok
  simp only [WriteRule.next]
  rw [hd, hc, ← hmem]
  congr 1
  -- the read node denotes the cell's content
  cases hn : nodes[readNode]? with
  | none => simp [hn] at hread
  | some nd =>
    obtain ⟨hlt, hnd⟩ := kind_getD nodes readNode nd hn
    cases nd with
    | memRead m' ty =>
      simp only [hn, beq_iff_eq] at hread
      subst hread
      symm
      show nodeVal nodes env readNode = _
      rw [nodeVal_eq nodes env readNode hlt ty (by rw [hnd]; rfl), hnd]
      simp [evalNode]
    | _ => simp [hn] at hread

/-! ## set/reset latches (C05): set priority, value 1 -/

theorem negate_spec (op : CmpOp) (a b : I32) : cmp op.negate a b = !cmp op a b := by
  cases op <;> simp [CmpOp.negate, cmp, bne]

theorem fbRow_sound (x : Ctx) (e : Nat) (ty : Sig) (cd : Cond) (hue : cd.usesEach = false)
    (h : fbRow x.c e ty cd = true) :
    cd.eval (x.c.readR x.E e) (x.c.readG x.E e) none = cmp .gt (get (x.E e) ty) 0 := by
  unfold fbRow at h
  simp only [Bool.and_eq_true, beq_iff_eq] at h
  obtain ⟨⟨hop, h0⟩, hf⟩ := h
  cases hfst : cd.first with
  | const k => rw [hfst] at hf; simp at hf
  | ref rf sel =>
    rw [hfst] at hf
    cases rf with
    | sig t =>
      simp only [Bool.and_eq_true, beq_iff_eq] at hf
      obtain ⟨ht, hrd⟩ := hf
      subst ht
      have hpl : cd.first.isPlain = true := by rw [hfst]; rfl
      rw [cond_eval_plain cd _ _ hpl hue, hop, isConst0_spec _ h0, hfst]
      simp only [Operand.val]
      rw [readsSum_sound x.c x.E x.emits e sel t [e] hrd, get_sumOuts_single]
    | _ => simp at hf

theorem mulOne_val (x : Ctx) (a : Arg) : (mulOne a).val x.av = x.av a := by
  simp [mulOne, VExpr.val, alu, Ctx.av, argVal]

theorem flagRow_sound (x : Ctx) (hall : ∀ m, m < x.nodes.size → Holds x.E x.nodes x.env x.bind m)
    (e : Nat) (cd : Cond) (a : Arg) (pos : Bool) (ha : argBelow x.nodes.size a = true)
    (h : flagRow x.c x.nodes x.bind e cd a pos = true) :
    cd.eval (x.c.readR x.E e) (x.c.readG x.E e) none = ((x.av a != 0) == pos) := by
  unfold flagRow at h
  simp only [Bool.and_eq_true, Bool.not_eq_true', beq_iff_eq, Bool.or_eq_true] at h
  obtain ⟨⟨⟨⟨hbool, hue⟩, h0⟩, hop⟩, hfirst⟩ := h
  have hval : cd.first.isPlain = true ∧ cd.first.val (x.c.readR x.E e) (x.c.readG x.E e) = x.av a := by
    rcases hfirst with hf | hf
    · exact operandIsArg_sound x hall e cd.first a ha hf
    · refine ⟨opIs_plain _ _ _ _ _ _ _ hf, ?_⟩
      have hu : (mulOne a).under x.nodes.size = true := by
        simp only [mulOne, VExpr.under, ha, Bool.true_and]
        rfl
      rw [opIs_sound x x.nodes.size hall _ (mulOne a) e cd.first
        (fun p t hp => entIs_sound x x.nodes.size hall (mulOne a) p t hu hp) hu hf, mulOne_val]
  rw [cond_eval_plain cd _ _ hval.1 hue, hval.2, isConst0_spec _ h0, hop]
  have hb := bool_argVal x.nodes x.env a hbool
  have hb' : x.av a = 0 ∨ x.av a = 1 := hb
  simp only [Operand.val]
  cases pos <;> rcases hb' with h | h <;> rw [h] <;> decide

theorem cmpRow_sound (x : Ctx) (hall : ∀ m, m < x.nodes.size → Holds x.E x.nodes x.env x.bind m)
    (e : Nat) (cd : Cond) (a : Arg) (pos : Bool) (ha : argBelow x.nodes.size a = true)
    (h : cmpRow x.c x.nodes x.bind e cd a pos = true) :
    cd.eval (x.c.readR x.E e) (x.c.readG x.E e) none = ((x.av a != 0) == pos) := by
  unfold cmpRow at h
  cases a with
  | int k => simp at h
  | node m =>
    have hm : m < x.nodes.size := by simpa [argBelow] using ha
    have hnd : x.nodes[m]? = some x.nodes[m] := Array.getElem?_eq_getElem hm
    simp only [hnd] at h
    have hallm : ∀ j, j < m → Holds x.E x.nodes x.env x.bind j := fun j hj => hall j (by omega)
    cases hk : x.nodes[m] with
    | cmp op p q ty =>
      rw [hk] at h
      simp only [Bool.and_eq_true, Bool.not_eq_true', beq_iff_eq] at h
      obtain ⟨⟨⟨⟨⟨⟨hp, hq⟩, hop⟩, hpl⟩, hue⟩, h1⟩, h2⟩ := h
      rw [cond_eval_plain cd _ _ hpl hue, matchOperand_sound x e cd.first p m hp hallm h1,
        matchOperand_sound x e cd.second q m hq hallm h2, hop]
      have hv : x.av (.node m) = boolI (cmp op (x.av p) (x.av q)) := nodeVal_cmp x.nodes x.env m hm op p q ty hk hp hq
      rw [hv, boolI_ne_zero]
      cases pos
      · simp [negate_spec]
      · simp
    | _ => rw [hk] at h; simp at h

theorem rowIs_sound (x : Ctx) (hall : ∀ m, m < x.nodes.size → Holds x.E x.nodes x.env x.bind m)
    (e : Nat) (cd : Cond) (a : Arg) (pos : Bool) (ha : argBelow x.nodes.size a = true)
    (h : rowIs x.c x.nodes x.bind e cd a pos = true) :
    cd.eval (x.c.readR x.E e) (x.c.readG x.E e) none = ((x.av a != 0) == pos) := by
  unfold rowIs at h
  simp only [Bool.or_eq_true] at h
  rcases h with h | h
  · exact flagRow_sound x hall e cd a pos ha h
  · exact cmpRow_sound x hall e cd a pos ha h

theorem rowIs_noEach (c' : Circuit) (nodes : Array CNode) (bind : Nat → Option Bind) (e : Nat) (cd : Cond) (a : Arg) (pos : Bool)
    (h : rowIs c' nodes bind e cd a pos = true) : cd.usesEach = false := by
  unfold rowIs flagRow cmpRow at h
  simp only [Bool.or_eq_true, Bool.and_eq_true, Bool.not_eq_true'] at h
  rcases h with h | h
  · exact h.1.1.1.2
  · cases a with
    | int k => simp at h
    | node m =>
      simp only at h
      cases hn : nodes[m]? with
      | none => simp [hn] at h
      | some nd =>
        cases nd with
        | cmp op p q ty =>
          simp only [hn, Bool.and_eq_true, Bool.not_eq_true'] at h
          exact h.1.1.2
        | _ => simp [hn] at h

/-- the one-tick law of a matched latch, in a context over the cut circuit -/
theorem latch_step_cut (c : Circuit) (L : List Nat) (x : Ctx) (hc : x.c = c.cut L)
    (hall : ∀ m, m < x.nodes.size → Holds x.E x.nodes x.env x.bind m)
    (inp : Inputs) (hinp : InputsOK c inp)
    (e : Nat) (ty : Sig) (s r : Arg) (setPrio : Bool)
    (h : latchIs c x.c x.nodes x.bind e ty s r setPrio = true) :
    get (c.evalEnt inp x.E e) ty =
      boolI (latchNextB setPrio (cmp .gt (get (x.E e) ty) 0) (x.av s != 0) (x.av r != 0)) := by
  have hr : ∀ i, c.readR x.E i = x.c.readR x.E i := by intro i; rw [hc]; rfl
  have hg : ∀ i, c.readG x.E i = x.c.readG x.E i := by intro i; rw [hc]; rfl
  unfold latchIs at h
  simp only [Bool.and_eq_true] at h
  obtain ⟨⟨hs, hrb⟩, h⟩ := h
  cases hk : c.kind e with
  | decider cfg =>
    rw [hk] at h
    simp only [Bool.and_eq_true] at h
    obtain ⟨hout, hrows⟩ := h
    obtain ⟨o, hos, ho⟩ := outs_shape cfg.outs _ hout
    obtain ⟨hsig, hcopy, hone⟩ := isConstOneOut_spec o ty ho
    have hno : inp e = none := by
      cases hi : inp e with
      | none => rfl
      | some m =>
        rcases hinp e m hi with ⟨_, cd, hk'⟩ | ⟨t, lit, hk', _⟩
        · rw [hk] at hk'; cases hk'
        · rw [hk] at hk'; cases hk'
    have e1 : c.evalEnt inp x.E e = evalDecider cfg (x.c.readR x.E e) (x.c.readG x.E e) := by
      unfold Circuit.evalEnt; rw [hno, hk, hr, hg]
    cases setPrio with
    | true =>
      simp only [if_true] at hrows
      unfold latchRowsSet at hrows
      match hcs : cfg.conds, hrows with
      | [c1, c2, c3], hrows =>
        have hcfg : cfg = { conds := [c1, c2, c3], outs := [o] } := by cases cfg; simp_all
        simp only [Bool.or_eq_true, Bool.and_eq_true, Bool.not_eq_true'] at hrows
        rcases hrows with ⟨⟨⟨⟨⟨hfb, hu1⟩, hand2⟩, hr2⟩, hand3⟩, hr3⟩ | ⟨⟨⟨⟨⟨hr1, hand2⟩, hfb⟩, hu2⟩, hand3⟩, hr3⟩
        · -- (feedback AND NOT r) OR s
          have hu2 := rowIs_noEach _ _ _ _ _ _ _ hr2
          have hu3 := rowIs_noEach _ _ _ _ _ _ _ hr3
          have hany : List.any [c1, c2, c3] Cond.usesEach = false := by simp [hu1, hu2, hu3]
          rw [e1, hcfg, get_evalDecider_out1 [c1, c2, c3] o ty hany hsig]
          simp only [evalConds, evalConds.go, hand2, hand3, if_true, Bool.false_eq_true, if_false,
            fbRow_sound x e ty c1 hu1 hfb, rowIs_sound x hall e c2 r false hrb hr2, rowIs_sound x hall e c3 s true hs hr3,
            hcopy, hone]
          generalize cmp CmpOp.gt (get (x.E e) ty) 0 = q
          generalize (x.av s != 0) = sb
          generalize (x.av r != 0) = rb
          cases q <;> cases sb <;> cases rb <;> simp [latchNextB, boolI]
        · -- s OR (feedback AND NOT r)
          have hu1 := rowIs_noEach _ _ _ _ _ _ _ hr1
          have hu3 := rowIs_noEach _ _ _ _ _ _ _ hr3
          have hany : List.any [c1, c2, c3] Cond.usesEach = false := by simp [hu1, hu2, hu3]
          rw [e1, hcfg, get_evalDecider_out1 [c1, c2, c3] o ty hany hsig]
          simp only [evalConds, evalConds.go, hand2, hand3, if_true, Bool.false_eq_true, if_false,
            fbRow_sound x e ty c2 hu2 hfb, rowIs_sound x hall e c1 s true hs hr1, rowIs_sound x hall e c3 r false hrb hr3,
            hcopy, hone]
          generalize cmp CmpOp.gt (get (x.E e) ty) 0 = q
          generalize (x.av s != 0) = sb
          generalize (x.av r != 0) = rb
          cases q <;> cases sb <;> cases rb <;> simp [latchNextB, boolI]
      | [], hrows => simp at hrows
      | [_], hrows => simp at hrows
      | [_, _], hrows => simp at hrows
      | _ :: _ :: _ :: _ :: _, hrows => simp at hrows
    | false =>
      simp only [Bool.false_eq_true, if_false] at hrows
      unfold latchRowsReset at hrows
      match hcs : cfg.conds, hrows with
      | [c1, c2, c3, c4], hrows =>
        have hcfg : cfg = { conds := [c1, c2, c3, c4], outs := [o] } := by cases cfg; simp_all
        simp only [Bool.and_eq_true, Bool.not_eq_true'] at hrows
        obtain ⟨⟨⟨⟨⟨⟨⟨hr1, hand2⟩, hr2⟩, hand3⟩, hfb⟩, hu3⟩, hand4⟩, hr4⟩ := hrows
        -- (s AND NOT r) OR (feedback AND NOT r)
        have hu1 := rowIs_noEach _ _ _ _ _ _ _ hr1
        have hu2 := rowIs_noEach _ _ _ _ _ _ _ hr2
        have hu4 := rowIs_noEach _ _ _ _ _ _ _ hr4
        have hany : List.any [c1, c2, c3, c4] Cond.usesEach = false := by simp [hu1, hu2, hu3, hu4]
        rw [e1, hcfg, get_evalDecider_out1 [c1, c2, c3, c4] o ty hany hsig]
        simp only [evalConds, evalConds.go, hand2, hand3, hand4, if_true, Bool.false_eq_true, if_false,
          fbRow_sound x e ty c3 hu3 hfb, rowIs_sound x hall e c1 s true hs hr1, rowIs_sound x hall e c2 r false hrb hr2,
          rowIs_sound x hall e c4 r false hrb hr4, hcopy, hone]
        generalize cmp CmpOp.gt (get (x.E e) ty) 0 = q
        generalize (x.av s != 0) = sb
        generalize (x.av r != 0) = rb
        cases q <;> cases sb <;> cases rb <;> simp [latchNextB, boolI]
      | [], hrows => simp at hrows
      | [_], hrows => simp at hrows
      | [_, _], hrows => simp at hrows
      | [_, _, _], hrows => simp at hrows
      | _ :: _ :: _ :: _ :: _ :: _, hrows => simp at hrows
  | _ => rw [hk] at h; simp at h

theorem latch_next_eq (nodes : Array CNode) (vals : Array SigMap) (s r : Arg) (cur : I32) (setPrio : Bool)
    (hb : cur = 0 ∨ cur = 1) :
    boolI (latchNextB setPrio (cmp .gt cur 0) (argVal nodes vals s != 0) (argVal nodes vals r != 0)) =
      (WriteRule.latch (.int 1) s r setPrio).next nodes vals cur := by
  unfold WriteRule.next latchNextB
  have h1 : argVal nodes vals (.int 1) = 1 := rfl
  simp only [h1]
  have hq : cmp .gt cur 0 = (cur != 0) := by rcases hb with h | h <;> rw [h] <;> decide
  rw [hq]
  generalize (argVal nodes vals s != 0) = sb
  generalize (argVal nodes vals r != 0) = rb
  generalize (cur != 0) = q
  cases q <;> cases sb <;> cases rb <;> cases setPrio <;> simp [boolI]

/-- a decider whose only output is the constant 1 on `ty` shows 0 or 1 there, whatever it reads -/
theorem const_one_out_bool (cfg : DeciderCfg) (o : DOut) (ty : Sig) (hos : cfg.outs = [o]) (ho : isConstOneOut o ty = true)
    (hany : cfg.conds.any Cond.usesEach = false) (r g : SigMap) :
    get (evalDecider cfg r g) ty = 0 ∨ get (evalDecider cfg r g) ty = 1 := by
  obtain ⟨hsig, hcopy, hone⟩ := isConstOneOut_spec o ty ho
  have hcfg : cfg = { conds := cfg.conds, outs := [o] } := by cases cfg; simp_all
  rw [hcfg, get_evalDecider_out1 cfg.conds o ty hany hsig]
  by_cases h : evalConds cfg.conds r g none = true
  · right; simp [h, hcopy, hone]
  · left; simp [h]

/-- **C05, per program, one tick (set priority, value 1).** As `gated_cell_end_to_end`, for a cell written with
`write(1, set=s, reset=r)`; `hbool` holds in every state after the first tick (`const_one_out_bool`). -/
theorem latch_cell_end_to_end (c : Circuit) (L : List Nat) (nodes : Array CNode) (bind : Nat → Option Bind)
    (hL : cutOK c L = true) (hall : checkAll (c.cut L) nodes bind = true)
    (inp : Inputs) (env : Env) (hinp : InputsOK c inp) (E : Nat → SigMap)
    (hsettled : ∀ i, L.contains i = false → c.evalEnt inp E i = E i) (hgates : GatesOK c L E)
    (hagree : InputsAgree nodes bind (cutInp inp L E) env)
    (e : Nat) (ty : Sig) (s r : Arg) (setPrio : Bool)
    (hcell : latchIs c (c.cut L) nodes bind e ty s r setPrio = true)
    (hbool : get (E e) ty = 0 ∨ get (E e) ty = 1) :
    get (c.evalEnt inp E e) ty = (WriteRule.latch (.int 1) s r setPrio).next nodes (evalNodes nodes env) (get (E e) ty) := by
  let x : Ctx := { c := c.cut L, inp := cutInp inp L E, E, nodes, env, bind,
                   hfix := cut_fix c L inp E hsettled, hinp := cut_inputsOK c L inp E hinp hL hgates, hagree }
  have hs := latch_step_cut c L x rfl (checkAll_sound x hall) inp hinp e ty s r setPrio hcell
  rw [hs]
  exact latch_next_eq nodes (evalNodes nodes env) s r (get (E e) ty) setPrio hbool

/-- the multiplier behind a latch: one tick later it shows the latch state times `k`, in every state -/
theorem mult_law (c : Circuit) (inp : Inputs) (hinp : InputsOK c inp) (E : Nat → SigMap) (hE : EmitsOK c E)
    (e m : Nat) (ty : Sig) (k : I32) (h : multIs c e m ty k = true) :
    get (c.evalEnt inp E m) ty = alu .mul (get (E e) ty) k := by
  unfold multIs at h
  cases hk : c.kind m with
  | arith cfg =>
    simp only [hk, Bool.and_eq_true, Bool.not_eq_true', beq_iff_eq] at h
    obtain ⟨⟨⟨⟨⟨hop, hf⟩, hs⟩, hout⟩, hro⟩, hc⟩ := h
    have hno : inp m = none := by
      cases hi : inp m with
      | none => rfl
      | some mm =>
        rcases hinp m mm hi with ⟨_, cd, hk'⟩ | ⟨t, lit, hk', _⟩
        · rw [hk] at hk'; cases hk'
        · rw [hk] at hk'; cases hk'
    have e1 : c.evalEnt inp E m = evalArith cfg (c.readR E m) (c.readG E m) := by
      unfold Circuit.evalEnt; rw [hno, hk]
    have hsec : cfg.second.val (c.readR E m) (c.readG E m) = k := by
      cases hcs : cfg.second with
      | const k' => rw [hcs] at hc; simp at hc; simp [Operand.val, hc]
      | ref _ _ => rw [hcs] at hc; simp at hc
    rw [e1, get_evalArith_scalar cfg ty hf hs (outIs_spec _ _ hout), if_pos rfl,
      ringOperand_sound c E hE m ty e cfg.first hro, hsec, hop]
  | _ => rw [hk] at h; simp at h

theorem latch_value_next_eq (nodes : Array CNode) (vals : Array SigMap) (s r : Arg) (k st : I32) (setPrio : Bool)
    (hk : k ≠ 0) (hb : st = 0 ∨ st = 1) :
    alu .mul (boolI (latchNextB setPrio (cmp .gt st 0) (argVal nodes vals s != 0) (argVal nodes vals r != 0))) k =
      (WriteRule.latch (.int k) s r setPrio).next nodes vals (alu .mul st k) := by
  unfold WriteRule.next latchNextB
  have h1 : argVal nodes vals (.int k) = k := rfl
  simp only [h1]
  have hq : (alu .mul st k != 0) = cmp .gt st 0 := by
    rcases hb with h | h
    · subst h; simp [alu, cmp]
    · subst h
      have : alu .mul 1 k = k := by simp [alu]
      rw [this]
      have hk' : (k != 0) = true := by simpa using hk
      rw [hk']; decide
  rw [hq]
  generalize (argVal nodes vals s != 0) = sb
  generalize (argVal nodes vals r != 0) = rb
  generalize cmp CmpOp.gt st 0 = q
  cases q <;> cases sb <;> cases rb <;> cases setPrio <;> simp [boolI, alu]

/-- **C05, per program (set priority, constant value `k ≠ 0` through a multiplier).** In a state settled around the
latch `e` and its multiplier `m`, with the multiplier showing the latch state times `k`: two ticks later the cell
(the multiplier's output) holds what the source semantics says. -/
theorem latch_value_end_to_end (c : Circuit) (L : List Nat) (nodes : Array CNode) (bind : Nat → Option Bind)
    (hL : cutOK c L = true) (hall : checkAll (c.cut L) nodes bind = true)
    (inp : Inputs) (env : Env) (hinp : InputsOK c inp) (E : Nat → SigMap)
    (hsettled : ∀ i, L.contains i = false → c.evalEnt inp E i = E i) (hgates : GatesOK c L E)
    (hagree : InputsAgree nodes bind (cutInp inp L E) env)
    (e m : Nat) (ty : Sig) (s r : Arg) (k : I32) (setPrio : Bool) (hk : k ≠ 0)
    (hcell : latchIs c (c.cut L) nodes bind e ty s r setPrio = true) (hmul : multIs c e m ty k = true)
    (hbool : get (E e) ty = 0 ∨ get (E e) ty = 1)
    (hmset : get (E m) ty = alu .mul (get (E e) ty) k) :
    get (c.evalEnt inp (fun i => c.evalEnt inp E i) m) ty =
      (WriteRule.latch (.int k) s r setPrio).next nodes (evalNodes nodes env) (get (E m) ty) := by
  let x : Ctx := { c := c.cut L, inp := cutInp inp L E, E, nodes, env, bind,
                   hfix := cut_fix c L inp E hsettled, hinp := cut_inputsOK c L inp E hinp hL hgates, hagree }
  have hs := latch_step_cut c L x rfl (checkAll_sound x hall) inp hinp e ty s r setPrio hcell
  have hE1 : EmitsOK c (fun i => c.evalEnt inp E i) := fun p sg hp => emits_evalEnt c inp hinp E p sg hp
  rw [mult_law c inp hinp _ hE1 e m ty k hmul, hs, hmset]
  exact latch_value_next_eq nodes (evalNodes nodes env) s r k (get (E e) ty) setPrio hk hbool

/-! ## the settling hypothesis is reached whenever the cells stand still long enough -/

/-- If the cut circuit is ranked and, during `T` ticks of constant inputs, the cell entities do not move, then at the
end every other entity satisfies its own equation: the state has settled around the cells, which is the hypothesis
of the one-tick theorems above. -/
theorem settles_around_cells (c : Circuit) (L : List Nat) (rank : Nat → Nat) (hr : (c.cut L).checkRanked rank = true)
    (inp : Inputs) (s0 : Nat → SigMap) (T : Nat) (hT : ∀ i, rank i < T)
    (hstill : ∀ t, t < T → ∀ i, L.contains i = true → c.runFrom inp s0 (t + 1) i = s0 i) :
    ∀ i, L.contains i = false → c.evalEnt inp (c.runFrom inp s0 T) i = c.runFrom inp s0 T i := by
  have hrk := Circuit.checkRanked_sound (c.cut L) rank hr
  -- the run of the uncut circuit coincides, up to `T`, with the run of the cut circuit fed with the cells' outputs
  have hsame : ∀ t, t ≤ T → ∀ i, c.runFrom inp s0 t i = (c.cut L).runFrom (cutInp inp L s0) s0 t i := by
    intro t
    induction t with
    | zero => intro _ i; rfl
    | succ t ih =>
      intro ht i
      have heq : c.runFrom inp s0 t = (c.cut L).runFrom (cutInp inp L s0) s0 t := funext (ih (by omega))
      cases hL : L.contains i with
      | true =>
        rw [hstill t (by omega) i hL]
        simp only [Circuit.runFrom, Circuit.evalEnt, cutInp, hL, if_true]
      | false =>
        simp only [Circuit.runFrom]
        rw [heq]
        unfold Circuit.evalEnt
        simp only [cutInp, hL, Bool.false_eq_true, if_false, cut_kind_not_mem c L i hL, cut_readR, cut_readG]
  intro i hi
  have heqT : c.runFrom inp s0 T = (c.cut L).runFrom (cutInp inp L s0) s0 T := funext (hsame T (Nat.le_refl _))
  obtain ⟨T', rfl⟩ : ∃ T', T = T' + 1 := ⟨T - 1, by have := hT 0; omega⟩
  have hfix : (c.cut L).evalEnt (cutInp inp L s0) ((c.cut L).runFrom (cutInp inp L s0) s0 (T' + 1)) i =
      (c.cut L).runFrom (cutInp inp L s0) s0 (T' + 1) i := by
    rw [← Circuit.runFrom_succ, Circuit.settle_from (c.cut L) _ s0 rank hrk (T' + 1) i (by have := hT i; omega),
      Circuit.settle_from (c.cut L) _ s0 rank hrk T' i (hT i)]
  rw [heqT]
  rw [← hfix]
  unfold Circuit.evalEnt
  simp only [cutInp, hi, Bool.false_eq_true, if_false, cut_kind_not_mem c L i hi, cut_readR, cut_readG]

end Facto
