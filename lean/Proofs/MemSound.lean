import Model.MatchMem
import Proofs.MatchSound
import Proofs.Memory
/-!
# Memory cells of the decoded blueprint obey the source semantics, one tick at a time

`gated_cell_end_to_end`: let `E` be any state of the (uncut) circuit that has settled *around* the cell —
every entity other than the cut gates satisfies its own equation — and let the rest of the program pass the
validator on the cut circuit. Then after one more tick the content of the cell (the wire-sum of its two gates
on the cell's signal) is `WriteRule.next`: the data if the enable is positive, the present content if it is
zero, nothing if it is negative; for all inputs, all contents, all states.
-/
namespace Facto
open SigMap

/-! ## cutting -/

theorem cut_readR (c : Circuit) (L : List Nat) (E : Nat → SigMap) (i : Nat) : (c.cut L).readR E i = c.readR E i := rfl
theorem cut_readG (c : Circuit) (L : List Nat) (E : Nat → SigMap) (i : Nat) : (c.cut L).readG E i = c.readG E i := rfl

theorem cut_kind_not_mem (c : Circuit) (L : List Nat) (i : Nat) (h : L.contains i = false) :
    (c.cut L).kind i = c.kind i := by
  have h' : i ∉ L := by simpa using h
  unfold Circuit.kind Circuit.cut
  by_cases hi : i < c.kinds.size
  · simp [Array.getD_eq_getD_getElem?, hi, h', Circuit.kind]
  · simp [Array.getD_eq_getD_getElem?, hi]

theorem cut_kind_mem (c : Circuit) (L : List Nat) (i : Nat) (h : L.contains i = true) (hi : i < c.kinds.size)
    (t : Sig) (ht : c.cutSig i = some t) : (c.cut L).kind i = .const [(t, 0)] := by
  have h' : i ∈ L := by simpa using h
  unfold Circuit.kind Circuit.cut
  simp [Array.getD_eq_getD_getElem?, hi, h', ht]

/-- inputs of the cut circuit: the cut entities emit what they emit in `E` -/
def cutInp (inp : Inputs) (L : List Nat) (E : Nat → SigMap) : Inputs :=
  fun i => if L.contains i then some (E i) else inp i

/-- a state settled around the cut entities is a fixpoint of the cut circuit -/
theorem cut_fix (c : Circuit) (L : List Nat) (inp : Inputs) (E : Nat → SigMap)
    (h : ∀ i, L.contains i = false → c.evalEnt inp E i = E i) :
    ∀ i, (c.cut L).evalEnt (cutInp inp L E) E i = E i := by
  intro i
  cases hL : L.contains i with
  | true =>
    unfold Circuit.evalEnt cutInp
    rw [hL]
    rfl
  | false =>
    have := h i hL
    unfold Circuit.evalEnt at this ⊢
    simp only [cutInp, hL, Bool.false_eq_true, if_false, cut_kind_not_mem c L i hL, cut_readR, cut_readG]
    exact this

theorem cutSig_spec (c : Circuit) (i : Nat) (t : Sig) (h : c.cutSig i = some t) (s : Sig) (hs : s ≠ t) :
    c.mayEmit i s = false := by
  unfold Circuit.cutSig at h
  unfold Circuit.mayEmit
  cases hl : c.emitListOf i with
  | none => rw [hl] at h; cases h
  | some l =>
    rw [hl] at h
    match l, h with
    | [t'], h =>
      have : t' = t := by simpa using h
      subst this
      simp only [List.contains_cons, List.contains_nil, Bool.or_false, beq_eq_false_iff_ne, ne_eq]
      exact hs
    | [], h => simp at h
    | _ :: _ :: _, h => simp at h

/-- the cut entities emit only their own signal in `E` (true of every state after the first tick) -/
def GatesOK (c : Circuit) (L : List Nat) (E : Nat → SigMap) : Prop :=
  ∀ i, L.contains i = true → ∀ s, c.mayEmit i s = false → get (E i) s = 0

/-- every state that is the successor of some state satisfies `GatesOK` (so does every state of a run after
the first tick) -/
theorem gatesOK_succ (c : Circuit) (L : List Nat) (inp : Inputs) (hinp : InputsOK c inp) (E0 : Nat → SigMap) :
    GatesOK c L (fun i => c.evalEnt inp E0 i) := by
  intro i _ s hs
  exact emits_evalEnt c inp hinp E0 i s hs

theorem cut_inputsOK (c : Circuit) (L : List Nat) (inp : Inputs) (E : Nat → SigMap) (hinp : InputsOK c inp)
    (hL : cutOK c L = true) (hg : GatesOK c L E) : InputsOK (c.cut L) (cutInp inp L E) := by
  intro i m hi
  unfold cutInp at hi
  cases hc : L.contains i with
  | true =>
    right
    unfold cutOK at hL
    rw [List.all_eq_true] at hL
    have hh := hL i (List.contains_iff_mem.mp hc)
    simp only [Bool.and_eq_true, decide_eq_true_eq] at hh
    obtain ⟨hlt, hsome⟩ := hh
    cases ht : c.cutSig i with
    | none => rw [ht] at hsome; cases hsome
    | some t =>
      refine ⟨t, 0, cut_kind_mem c L i hc hlt t ht, ?_⟩
      simp only [hc, if_true] at hi
      injection hi with hi
      subst hi
      intro s hs
      exact hg i hc s (cutSig_spec c i t ht s hs)
  | false =>
    simp only [hc, Bool.false_eq_true, if_false] at hi
    rcases hinp i m hi with ⟨hs, cd, hk⟩ | ⟨t, lit, hk, hm⟩
    · left
      exact ⟨hs, cd, by rw [cut_kind_not_mem c L i hc]; exact hk⟩
    · right
      exact ⟨t, lit, by rw [cut_kind_not_mem c L i hc]; exact hk, hm⟩

/-! ## the write-gated cell -/

theorem isConst0_spec (o : Operand) (h : isConst0 o = true) : o = .const 0 := by
  cases o with
  | const k => simp [isConst0] at h; rw [h]; rfl
  | ref _ _ => simp [isConst0] at h

theorem sigIs_spec (r : SigRef) (ty : Sig) (h : sigIs r ty = true) : r = .sig ty := by
  cases r <;> simp_all [sigIs]

theorem toInt_eq_zero (w : I32) : w.toInt = 0 ↔ w = 0 := by
  constructor
  · intro h
    apply BitVec.eq_of_toInt_eq
    simpa using h
  · intro h; subst h; rfl

theorem gates_sum (W D M : I32) :
    (if cmp .gt W 0 = true then D else 0) + (if cmp .eq W 0 = true then M else 0) = gatedNext W D M := by
  unfold gatedNext
  rw [cmp_gt_zero]
  by_cases h1 : W.toInt > 0
  · have h0 : ¬ W = 0#32 := by intro h; subst h; simp at h1
    simp [h1, cmp, h0]
  · by_cases h0 : W = 0#32
    · subst h0; simp [cmp]
    · simp [h1, cmp, h0]

theorem operandIsArg_sound (x : Ctx) (hall : ∀ m, m < x.nodes.size → Holds x.E x.nodes x.env x.bind m)
    (e : Nat) (o : Operand) (a : Arg) (ha : argBelow x.nodes.size a = true)
    (h : operandIsArg x.c x.nodes x.bind e o a = true) :
    o.isPlain = true ∧ o.val (x.c.readR x.E e) (x.c.readG x.E e) = x.av a := by
  unfold operandIsArg at h
  simp only [Bool.or_eq_true] at h
  rcases h with h | h
  · exact ⟨matchOperand_plain _ _ _ _ _ _ h, matchOperand_sound x e o a x.nodes.size ha hall h⟩
  · refine ⟨opIs_plain _ _ _ _ _ _ _ h, ?_⟩
    have hu : (projOf a).under x.nodes.size = true := by
      simp only [projOf, VExpr.under, ha, Bool.true_and]
      rfl
    rw [opIs_sound x x.nodes.size hall _ (projOf a) e o
      (fun p t hp => entIs_sound x x.nodes.size hall (projOf a) p t hu hp) hu h]
    simp [projOf, VExpr.val, alu, Ctx.av, argVal]

/-- the one-tick law of a matched cell, in a context over the cut circuit -/
theorem gated_cell_step_cut (c : Circuit) (L : List Nat) (x : Ctx) (hc : x.c = c.cut L)
    (hall : ∀ m, m < x.nodes.size → Holds x.E x.nodes x.env x.bind m)
    (inp : Inputs) (hinp : InputsOK c inp)
    (ew eh : Nat) (ty : Sig) (d en : Arg)
    (h : gatedCellIs c x.c x.nodes x.bind ew eh ty d en = true) :
    get (c.evalEnt inp x.E ew) ty + get (c.evalEnt inp x.E eh) ty =
      gatedNext (x.av en) (x.av d) (get (Circuit.sumOuts [ew, eh] x.E) ty) := by
  have hr : ∀ i, c.readR x.E i = x.c.readR x.E i := by intro i; rw [hc]; rfl
  have hg : ∀ i, c.readG x.E i = x.c.readG x.E i := by intro i; rw [hc]; rfl
  unfold gatedCellIs at h
  simp only [Bool.and_eq_true] at h
  obtain ⟨⟨⟨hd, hen⟩, hw⟩, hh⟩ := h
  have inpNone : ∀ e cfg, c.kind e = .decider cfg → inp e = none := by
    intro e cfg hk
    cases hi : inp e with
    | none => rfl
    | some m =>
      rcases hinp e m hi with ⟨_, cd, hk'⟩ | ⟨t, lit, hk', _⟩
      · rw [hk] at hk'; cases hk'
      · rw [hk] at hk'; cases hk'
  -- write gate
  have hW : get (c.evalEnt inp x.E ew) ty = if cmp .gt (x.av en) 0 = true then x.av d else 0 := by
    cases hkw : c.kind ew with
    | decider cw =>
      rw [hkw] at hw
      simp only at hw
      obtain ⟨cdw, ow, hcs, hos, hP⟩ := decider_shape cw.conds cw.outs _ hw
      simp only [Bool.and_eq_true, Bool.not_eq_true', beq_iff_eq] at hP
      obtain ⟨⟨⟨⟨⟨hop, hu⟩, hm⟩, h0⟩, hs⟩, hv⟩ := hP
      obtain ⟨hpl, hmv⟩ := operandIsArg_sound x hall ew cdw.first en hen hm
      have hcfg : cw = { conds := [cdw], outs := [ow] } := by cases cw; simp_all
      have e1 : c.evalEnt inp x.E ew = evalDecider cw (x.c.readR x.E ew) (x.c.readG x.E ew) := by
        unfold Circuit.evalEnt; rw [inpNone ew cw hkw, hkw, hr, hg]
      rw [e1, hcfg, get_evalDecider_single cdw ow ty hu (sigIs_spec _ _ hs), cond_eval_plain cdw _ _ hpl hu,
        hmv, isConst0_spec _ h0, hop, if_pos rfl,
        outValIs_sound x x.nodes.size hall ew ow ty d hd hv]
      rfl
    | _ => rw [hkw] at hw; simp at hw
  -- hold gate
  have hH : get (c.evalEnt inp x.E eh) ty =
      if cmp .eq (x.av en) 0 = true then get (Circuit.sumOuts [ew, eh] x.E) ty else 0 := by
    cases hkh : c.kind eh with
    | decider ch =>
      rw [hkh] at hh
      simp only at hh
      obtain ⟨cdh, oh, hcs, hos, hP⟩ := decider_shape ch.conds ch.outs _ hh
      simp only [Bool.and_eq_true, Bool.not_eq_true', beq_iff_eq] at hP
      obtain ⟨⟨⟨⟨⟨⟨hop, hu⟩, hm⟩, h0⟩, hs⟩, hcopy⟩, hfb⟩ := hP
      obtain ⟨hpl, hmv⟩ := operandIsArg_sound x hall eh cdh.first en hen hm
      have hcfg : ch = { conds := [cdh], outs := [oh] } := by cases ch; simp_all
      have e2 : c.evalEnt inp x.E eh = evalDecider ch (x.c.readR x.E eh) (x.c.readG x.E eh) := by
        unfold Circuit.evalEnt; rw [inpNone eh ch hkh, hkh, hr, hg]
      rw [e2, hcfg, get_evalDecider_single cdh oh ty hu (sigIs_spec _ _ hs), cond_eval_plain cdh _ _ hpl hu,
        hmv, isConst0_spec _ h0, hop, if_pos rfl,
        hcopy, if_pos rfl, readsSum_sound x.c x.E x.emits eh oh.sel ty [ew, eh] hfb]
      rfl
    | _ => rw [hkh] at hh; simp at hh
  rw [hW, hH]
  exact gates_sum _ _ _

theorem gatedNext_eq_next (nodes : Array CNode) (vals : Array SigMap) (d en : Arg) (cur : I32) :
    gatedNext (argVal nodes vals en) (argVal nodes vals d) cur = (WriteRule.gated d en).next nodes vals cur := by
  unfold gatedNext WriteRule.next
  simp only
  by_cases h1 : (argVal nodes vals en).toInt > 0
  · simp [h1]
  · by_cases h0 : argVal nodes vals en = 0
    · simp [h0]
    · have : ¬ (argVal nodes vals en).toInt = 0 := fun h => h0 ((toInt_eq_zero _).mp h)
      have h0' : ¬ argVal nodes vals en = 0#32 := h0
      simp [h1, h0', this]

/-- **C03, per program, one tick.** `c` is the decoded blueprint, `L` the cut (all cell gates), `E` any state in
which every entity outside `L` satisfies its own equation (the circuit has settled around the present cell
contents). If the cut circuit passes the validator and the gates `ew`, `eh` match the cell written with
`write(d, when=en)`, then one tick later the cell holds what the source semantics says — for every input
valuation and every present content. -/
theorem gated_cell_end_to_end (c : Circuit) (L : List Nat) (nodes : Array CNode) (bind : Nat → Option Bind)
    (hL : cutOK c L = true) (hall : checkAll (c.cut L) nodes bind = true)
    (inp : Inputs) (env : Env) (hinp : InputsOK c inp) (E : Nat → SigMap)
    (hsettled : ∀ i, L.contains i = false → c.evalEnt inp E i = E i) (hgates : GatesOK c L E)
    (hagree : InputsAgree nodes bind (cutInp inp L E) env)
    (ew eh : Nat) (ty : Sig) (d en : Arg)
    (hcell : gatedCellIs c (c.cut L) nodes bind ew eh ty d en = true) :
    get (Circuit.sumOuts [ew, eh] (fun i => c.evalEnt inp E i)) ty =
      (WriteRule.gated d en).next nodes (evalNodes nodes env) (get (Circuit.sumOuts [ew, eh] E) ty) := by
  let x : Ctx := { c := c.cut L, inp := cutInp inp L E, E, nodes, env, bind,
                   hfix := cut_fix c L inp E hsettled, hinp := cut_inputsOK c L inp E hinp hL hgates, hagree }
  have hs := gated_cell_step_cut c L x rfl (checkAll_sound x hall) inp hinp ew eh ty d en hcell
  rw [← gatedNext_eq_next]
  have e : get (Circuit.sumOuts [ew, eh] (fun i => c.evalEnt inp E i)) ty =
      get (c.evalEnt inp E ew) ty + get (c.evalEnt inp E eh) ty := by
    simp [Circuit.sumOuts]
  rw [e]
  exact hs

end Facto
