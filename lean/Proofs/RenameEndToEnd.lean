import Proofs.RenameSound
import Proofs.MatchSound
/-!
# C13, both halves together

The validator is run on the program *as the compiler named it*: `renameNodes ρ P`, with `ρ` the composition of the
transpositions (implicit type ↔ chosen Factorio signal). Its end-to-end theorems speak about that program; equivariance
(`rename_argVal`, `rename_bundle`) carries them back to the program as written: every scalar result has exactly the
source's value, every bundle result the source's bundle under the chosen names — for every injective `ρ`, i.e. whatever
signals are chosen, as long as different names stay different.
-/
namespace Facto
open SigMap

/-- **C01/C13, per program, about the program as written.** -/
theorem scalar_end_to_end_renamed (ρ : Sig → Sig) (hρ : Function.Injective ρ)
    (c : Circuit) (P : Array CNode) (bind : Nat → Option Bind) (rank : Nat → Nat)
    (hrank : c.checkRanked rank = true) (hall : checkAll c (renameNodes ρ P) bind = true)
    (inp : Inputs) (env : Env) (hinp : InputsOK c inp) (hagree : InputsAgree (renameNodes ρ P) bind inp (env.rename ρ))
    (T : Nat) (hT : ∀ i, rank i < T) (t : Nat) (ht : T ≤ t)
    (n e : Nat) (s : Sig) (hn : n < P.size) (hb : bind n = some (.ent e s)) :
    get (c.runF inp t e) s = nodeVal P env n := by
  have hn' : n < (renameNodes ρ P).size := by simpa [renameNodes] using hn
  rw [scalar_end_to_end c (renameNodes ρ P) bind rank hrank hall inp (env.rename ρ) hinp hagree T hT t ht n e s hn' hb]
  exact rename_argVal ρ hρ P env (.node n)

/-- **C02/C13, per program, about the program as written**: the wires carry the source's bundle under the chosen names. -/
theorem bundle_end_to_end_renamed (ρ : Sig → Sig) (hρ : Function.Injective ρ)
    (c : Circuit) (P : Array CNode) (bind : Nat → Option Bind) (rank : Nat → Nat)
    (hrank : c.checkRanked rank = true) (hall : checkAll c (renameNodes ρ P) bind = true)
    (inp : Inputs) (env : Env) (hinp : InputsOK c inp) (hagree : InputsAgree (renameNodes ρ P) bind inp (env.rename ρ))
    (T : Nat) (hT : ∀ i, rank i < T) (t : Nat) (ht : T ≤ t)
    (n : Nat) (es : List Nat) (hn : n < P.size) (hb : bind n = some (.many es)) (s : Sig) :
    get (Circuit.sumOuts es (c.runF inp t)) (ρ s) = get ((evalNodes P env).getD n []) s := by
  have hn' : n < (renameNodes ρ P).size := by simpa [renameNodes] using hn
  rw [bundle_end_to_end c (renameNodes ρ P) bind rank hrank hall inp (env.rename ρ) hinp hagree T hT t ht n es hn' hb (ρ s),
    rename_bundle ρ hρ P env n, get_renameSigs ρ hρ]

/-- … and no signal outside the image of `ρ` is on those wires -/
theorem bundle_end_to_end_renamed_foreign (ρ : Sig → Sig) (hρ : Function.Injective ρ)
    (c : Circuit) (P : Array CNode) (bind : Nat → Option Bind) (rank : Nat → Nat)
    (hrank : c.checkRanked rank = true) (hall : checkAll c (renameNodes ρ P) bind = true)
    (inp : Inputs) (env : Env) (hinp : InputsOK c inp) (hagree : InputsAgree (renameNodes ρ P) bind inp (env.rename ρ))
    (T : Nat) (hT : ∀ i, rank i < T) (t : Nat) (ht : T ≤ t)
    (n : Nat) (es : List Nat) (hn : n < P.size) (hb : bind n = some (.many es)) (u : Sig) (hu : ∀ s, ρ s ≠ u) :
    get (Circuit.sumOuts es (c.runF inp t)) u = 0 := by
  have hn' : n < (renameNodes ρ P).size := by simpa [renameNodes] using hn
  rw [bundle_end_to_end c (renameNodes ρ P) bind rank hrank hall inp (env.rename ρ) hinp hagree T hT t ht n es hn' hb u,
    rename_bundle ρ hρ P env n]
  apply get_eq_zero_of_not_mem_keys
  intro hmem
  simp only [renameSigs, List.map_map, List.mem_map, Function.comp_def] at hmem
  obtain ⟨kv, _, hk⟩ := hmem
  exact hu kv.1 hk

end Facto
