import Model.Match
import Proofs.Rules
import Proofs.Settle
/-!
# Soundness of the scalar matcher

If `checkAll` accepts, then at every fixpoint `E` of the circuit (the settled state, by M1), for all
values of the declared inputs, every bound Core node reads exactly its denotation.
-/
namespace Facto
open SigMap

/-! ## forward evaluation of Core nodes -/

theorem getD_push {α} (a : Array α) (x d : α) (i : Nat) :
    (a.push x).getD i d = if i < a.size then a.getD i d else if i = a.size then x else d := by
  simp only [Array.getD_eq_getD_getElem?, Array.getElem?_push]
  by_cases h1 : i < a.size
  · have : ¬ i = a.size := by omega
    simp [h1, this]
  · by_cases h2 : i = a.size
    · simp [h2]
    · have : a[i]? = none := by simp; omega
      simp [h1, h2, this]

theorem evalUpTo_size (nodes : Array CNode) (env : Env) : ∀ k, k ≤ nodes.size → (evalUpTo nodes env k).size = k := by
  intro k
  induction k with
  | zero => intro _; rfl
  | succ k ih =>
    intro hk
    have hlt : k < nodes.size := by omega
    simp only [evalUpTo, Array.getElem?_eq_getElem hlt, Array.size_push, ih (by omega)]

theorem evalUpTo_stable (nodes : Array CNode) (env : Env) (i : Nat) :
    ∀ k, i < k → k ≤ nodes.size → (evalUpTo nodes env k).getD i [] = (evalUpTo nodes env (i + 1)).getD i [] := by
  intro k
  induction k with
  | zero => intro h; omega
  | succ k ih =>
    intro hi hk
    by_cases h : i = k
    · subst h; rfl
    · have hlt : k < nodes.size := by omega
      have hsz := evalUpTo_size nodes env k (by omega)
      simp only [evalUpTo, Array.getElem?_eq_getElem hlt]
      rw [getD_push, hsz, if_pos (by omega)]
      exact ih (by omega) (by omega)

theorem evalUpTo_at (nodes : Array CNode) (env : Env) (n : Nat) (hn : n < nodes.size) :
    (evalUpTo nodes env (n + 1)).getD n [] = evalNode nodes env (evalUpTo nodes env n) nodes[n] := by
  have hsz := evalUpTo_size nodes env n (by omega)
  simp only [evalUpTo, Array.getElem?_eq_getElem hn]
  rw [getD_push, hsz]
  simp

/-- the value array restricted to indices below `n` is what node `n` was evaluated against -/
theorem evalNodes_getD (nodes : Array CNode) (env : Env) (n : Nat) (hn : n < nodes.size) :
    (evalNodes nodes env).getD n [] = evalNode nodes env (evalUpTo nodes env n) nodes[n] := by
  unfold evalNodes
  rw [evalUpTo_stable nodes env n nodes.size hn (Nat.le_refl _), evalUpTo_at nodes env n hn]

theorem evalUpTo_prefix (nodes : Array CNode) (env : Env) (n m : Nat) (hm : m < n) (hn : n ≤ nodes.size) :
    (evalUpTo nodes env n).getD m [] = (evalNodes nodes env).getD m [] := by
  unfold evalNodes
  rw [evalUpTo_stable nodes env m n hm hn, evalUpTo_stable nodes env m nodes.size (by omega) (Nat.le_refl _)]

/-- an argument below `n` has the same value against the prefix and against the final array -/
theorem argVal_prefix (nodes : Array CNode) (env : Env) (n : Nat) (hn : n ≤ nodes.size) (a : Arg) (ha : argBelow n a = true) :
    argVal nodes (evalUpTo nodes env n) a = argVal nodes (evalNodes nodes env) a := by
  cases a with
  | int k => rfl
  | node m =>
    have hm : m < n := by simpa [argBelow] using ha
    simp only [argVal]
    rw [evalUpTo_prefix nodes env n m hm hn]

/-- the scalar value of node `n` -/
def nodeVal (nodes : Array CNode) (env : Env) (n : Nat) : I32 := argVal nodes (evalNodes nodes env) (.node n)

theorem nodeVal_eq (nodes : Array CNode) (env : Env) (n : Nat) (hn : n < nodes.size) (ty : Sig)
    (hty : nodes[n].ty? = some ty) :
    nodeVal nodes env n = get (evalNode nodes env (evalUpTo nodes env n) nodes[n]) ty := by
  unfold nodeVal
  simp only [argVal]
  have : nodes.getD n (.const "" 0) = nodes[n] := by simp [Array.getD_eq_getD_getElem?, Array.getElem?_eq_getElem hn]
  rw [this, hty, evalNodes_getD nodes env n hn]

/-! ## reading an isolated operand -/

theorem get_sumOuts (ps : List Nat) (E : Nat → SigMap) (s : Sig) :
    get (Circuit.sumOuts ps E) s = (ps.map (fun p => get (E p) s)).foldr (· + ·) 0 := by
  unfold Circuit.sumOuts
  rw [get_flatten]
  simp [List.map_map, Function.comp_def]

theorem sum_filter_single (ps : List Nat) (f : Nat → I32) (keep : Nat → Bool) (e : Nat)
    (hz : ∀ p, keep p = false → f p = 0) (hf : ps.filter keep = [e]) :
    (ps.map f).foldr (· + ·) 0 = f e := by
  induction ps with
  | nil => simp at hf
  | cons p ps ih =>
    simp only [List.map_cons, List.foldr_cons]
    by_cases hk : keep p = true
    · rw [List.filter_cons_of_pos hk] at hf
      have hpe : p = e := by injection hf
      have hrest : ps.filter keep = [] := by injection hf
      have : (ps.map f).foldr (· + ·) 0 = 0 := by
        clear ih hf
        induction ps with
        | nil => rfl
        | cons q qs ihq =>
          simp only [List.map_cons, List.foldr_cons]
          have hq : keep q = false := by
            by_cases hq : keep q = true
            · rw [List.filter_cons_of_pos hq] at hrest; simp at hrest
            · simpa using hq
          rw [List.filter_cons_of_neg (by simp [hq])] at hrest
          rw [hz q hq, ihq hrest]; simp
      rw [this, hpe]; simp
    · have hk' : keep p = false := by simpa using hk
      rw [List.filter_cons_of_neg (by simp [hk'])] at hf
      rw [hz p hk', ih hf]; simp

/-- `E` is a state in which every entity emits only what its kind allows -/
def EmitsOK (c : Circuit) (E : Nat → SigMap) : Prop :=
  ∀ p s, (c.kind p).mayEmitB s = false → get (E p) s = 0

theorem selIn_eq_sumOuts (c : Circuit) (E : Nat → SigMap) (i : Nat) (sel : Sel) :
    selIn sel (c.readR E i) (c.readG E i) = Circuit.sumOuts (c.selProducers i sel) E := by
  unfold selIn Circuit.readR Circuit.readG Circuit.selProducers Circuit.sumOuts
  cases sel.red <;> cases sel.green <;> simp

theorem read_isolated (c : Circuit) (E : Nat → SigMap) (hE : EmitsOK c E) (i : Nat) (sel : Sel) (s : Sig) (e : Nat)
    (h : c.isolated i sel s e = true) :
    get (selIn sel (c.readR E i) (c.readG E i)) s = get (E e) s := by
  rw [selIn_eq_sumOuts, get_sumOuts]
  unfold Circuit.isolated at h
  exact sum_filter_single _ (fun p => get (E p) s) (fun p => (c.kind p).mayEmitB s) e (fun p hp => hE p s hp) (eq_of_beq h)

/-! ## static emission bounds hold in every fixpoint -/

/-- an overridden entity is a single-signal constant combinator and keeps its signal -/
def InputsOK (c : Circuit) (inp : Inputs) : Prop :=
  ∀ i m, inp i = some m → ∃ t v lit, c.kind i = .const [(t, lit)] ∧ m = [(t, v)]

theorem contains_false_not_mem (l : List Sig) (s : Sig) (h : l.contains s = false) : s ∉ l := by
  intro hm
  have : l.contains s = true := List.contains_iff_mem.mpr hm
  rw [this] at h; cases h

theorem get_outs_zero (outs : List DOut) (r g : SigMap) (s : Sig)
    (hall : outs.all (fun o => match o.sig with | .sig _ => true | _ => false) = true)
    (hs : s ∉ outs.filterMap (fun o => match o.sig with | .sig t => some t | _ => none)) :
    get ((outs.map (fun o => o.emit r g none)).flatten) s = 0 := by
  induction outs with
  | nil => rfl
  | cons o outs ih =>
    simp only [List.all_cons, Bool.and_eq_true] at hall
    simp only [List.map_cons, List.flatten_cons, get_append]
    cases hsig : o.sig with
    | sig t =>
      have hne : ¬ t = s := by
        intro e; apply hs; simp [List.filterMap_cons, hsig, e]
      have hs' : s ∉ outs.filterMap (fun o => match o.sig with | .sig t => some t | _ => none) := by
        intro hm; apply hs; simp [List.filterMap_cons, hsig]; right; simpa using hm
      rw [ih hall.2 hs']
      simp [DOut.emit, hsig, hne]
    | each => simp [hsig] at hall
    | anything => simp [hsig] at hall
    | everything => simp [hsig] at hall

theorem emits_evalEnt (c : Circuit) (inp : Inputs) (hinp : InputsOK c inp) (E : Nat → SigMap) (p : Nat) (s : Sig)
    (h : (c.kind p).mayEmitB s = false) : get (c.evalEnt inp E p) s = 0 := by
  unfold Circuit.evalEnt
  cases hi : inp p with
  | some m =>
    obtain ⟨t, v, lit, hk, hm⟩ := hinp p m hi
    subst hm
    simp only [Kind.mayEmitB, hk, Kind.emitList, List.map_cons, List.map_nil] at h
    have : ¬ t = s := by intro e; subst e; simp at h
    simp [this]
  | none =>
    simp only
    cases hk : c.kind p with
    | const m =>
      simp only [Kind.mayEmitB, hk, Kind.emitList] at h
      exact get_eq_zero_of_not_mem_keys m s (contains_false_not_mem _ s h)
    | arith cfg =>
      simp only [Kind.mayEmitB, hk, Kind.emitList] at h
      split at h
      · rename_i l heq
        split at heq
        · cases heq
        · rename_i he
          have hf : cfg.first.isEach = false := by
            cases hx : cfg.first.isEach <;> simp_all
          have hs2 : cfg.second.isEach = false := by
            cases hx : cfg.second.isEach <;> simp_all
          split at heq
          · rename_i t ho
            injection heq with hl
            subst hl
            have : ¬ t = s := by intro e; subst e; simp at h
            show get (evalArith cfg _ _) s = 0
            rw [get_evalArith_scalar cfg t hf hs2 ho]
            simp [this]
          · rename_i ho
            show get (evalArith cfg _ _) s = 0
            simp [evalArith, ho]
          · cases heq
      · cases h
    | decider cfg =>
      simp only [Kind.mayEmitB, hk, Kind.emitList] at h
      split at h
      · rename_i l heq
        split at heq
        · cases heq
        · rename_i he
          split at heq
          · rename_i hall
            injection heq with hl
            subst hl
            show get (evalDecider cfg _ _) s = 0
            unfold evalDecider
            have he' : cfg.conds.any Cond.usesEach = false := by simpa using he
            simp only [he', Bool.false_eq_true, if_false]
            split
            · exact get_outs_zero cfg.outs _ _ s hall (contains_false_not_mem _ s h)
            · rfl
          · cases heq
      · cases h
    | controlled _ => rfl
    | pole => rfl
    | unsupported _ => rfl

theorem emitsOK_of_fixpoint (c : Circuit) (inp : Inputs) (hinp : InputsOK c inp) (E : Nat → SigMap)
    (hfix : ∀ i, c.evalEnt inp E i = E i) : EmitsOK c E := by
  intro p s h
  rw [← hfix p]
  exact emits_evalEnt c inp hinp E p s h

/-! ## the per-node soundness lemma -/

/-- what a binding claims about node `n` in state `E` -/
def Holds (E : Nat → SigMap) (nodes : Array CNode) (env : Env) (bind : Nat → Option Bind) (n : Nat) : Prop :=
  match bind n with
  | some (.ent e s) => get (E e) s = nodeVal nodes env n
  | some (.konst k) => nodeVal nodes env n = k
  | none => True

/-- the two valuations agree: the constant combinator bound to an input node carries that input's value -/
def InputsAgree (nodes : Array CNode) (bind : Nat → Option Bind) (inp : Inputs) (env : Env) : Prop :=
  (∀ n name ty v e s, nodes[n]? = some (.input name ty v) → bind n = some (.ent e s) →
      inp e = some [(s, (env.input name).getD v)]) ∧
  (∀ n e s, bind n = some (.ent e s) → (∀ name ty v, nodes[n]? ≠ some (.input name ty v)) → inp e = none)

theorem matchOperand_sound (c : Circuit) (E : Nat → SigMap) (hE : EmitsOK c E) (nodes : Array CNode) (env : Env)
    (bind : Nat → Option Bind) (i : Nat) (o : Operand) (a : Arg) (n : Nat)
    (hbelow : argBelow n a = true) (ih : ∀ m, m < n → Holds E nodes env bind m)
    (h : matchOperand c bind i o a = true) :
    o.val (c.readR E i) (c.readG E i) = argVal nodes (evalNodes nodes env) a := by
  cases o with
  | const k =>
    cases a with
    | int k' =>
      simp only [matchOperand, beq_iff_eq] at h
      simp [Operand.val, argVal, h]
    | node m =>
      simp only [matchOperand, beq_iff_eq] at h
      have hm : m < n := by simpa [argBelow] using hbelow
      have := ih m hm
      unfold Holds at this
      rw [h] at this
      simp only [Operand.val]
      exact this.symm
  | ref r sel =>
    cases r with
    | sig s =>
      cases a with
      | int k => simp [matchOperand] at h
      | node m =>
        simp only [matchOperand] at h
        have hm : m < n := by simpa [argBelow] using hbelow
        cases hb : bind m with
        | none => simp [hb] at h
        | some b =>
          cases b with
          | konst k => simp [hb] at h
          | ent e s' =>
            simp only [hb, Bool.and_eq_true, beq_iff_eq] at h
            obtain ⟨hs, hiso⟩ := h
            subst hs
            have := ih m hm
            unfold Holds at this
            rw [hb] at this
            simp only [Operand.val]
            rw [read_isolated c E hE i sel s e hiso]
            exact this
    | each => cases a <;> simp [matchOperand] at h
    | anything => cases a <;> simp [matchOperand] at h
    | everything => cases a <;> simp [matchOperand] at h

theorem kind_getD (nodes : Array CNode) (n : Nat) (nd : CNode) (h : nodes[n]? = some nd) :
    ∃ hn : n < nodes.size, nodes[n] = nd := by
  have hn : n < nodes.size := by
    apply Classical.byContradiction
    intro hc
    rw [Array.getElem?_eq_none (by omega)] at h
    cases h
  refine ⟨hn, ?_⟩
  rw [Array.getElem?_eq_getElem hn] at h
  injection h

/-- the context shared by all cases -/
structure Ctx where
  c : Circuit
  inp : Inputs
  E : Nat → SigMap
  nodes : Array CNode
  env : Env
  bind : Nat → Option Bind
  hfix : ∀ i, c.evalEnt inp E i = E i
  hinp : InputsOK c inp
  hagree : InputsAgree nodes bind inp env

theorem Ctx.emits (x : Ctx) : EmitsOK x.c x.E := emitsOK_of_fixpoint x.c x.inp x.hinp x.E x.hfix

/-- the output of a non-overridden entity in a fixpoint -/
theorem Ctx.out_eq (x : Ctx) (e : Nat) (hno : x.inp e = none) :
    x.E e = (match x.c.kind e with
      | .const m => m
      | .arith cfg => evalArith cfg (x.c.readR x.E e) (x.c.readG x.E e)
      | .decider cfg => evalDecider cfg (x.c.readR x.E e) (x.c.readG x.E e)
      | _ => []) := by
  rw [← x.hfix e]
  unfold Circuit.evalEnt
  rw [hno]
  rfl

theorem sound_arith (x : Ctx) (n e : Nat) (s : Sig) (op : ArithOp) (a b : Arg) (ty : Sig) (cfg : ArithCfg)
    (hnode : x.nodes[n]? = some (.arith op a b ty)) (hbind : x.bind n = some (.ent e s))
    (hkind : x.c.kind e = .arith cfg)
    (ih : ∀ m, m < n → Holds x.E x.nodes x.env x.bind m)
    (ha : argBelow n a = true) (hb : argBelow n b = true) (hop : cfg.op = op)
    (hf : cfg.first.isEach = false) (hs : cfg.second.isEach = false) (hout : cfg.out = some (.sig s))
    (h1 : matchOperand x.c x.bind e cfg.first a = true) (h2 : matchOperand x.c x.bind e cfg.second b = true) :
    Holds x.E x.nodes x.env x.bind n := by
  obtain ⟨hn, hnd⟩ := kind_getD x.nodes n _ hnode
  unfold Holds
  rw [hbind]
  show get (x.E e) s = nodeVal x.nodes x.env n
  have hno : x.inp e = none := x.hagree.2 n e s hbind (by intro name ty' v hh; rw [hnode] at hh; cases hh)
  rw [x.out_eq e hno, hkind]
  show get (evalArith cfg _ _) s = _
  rw [get_evalArith_scalar cfg s hf hs hout, if_pos rfl,
    matchOperand_sound x.c x.E x.emits x.nodes x.env x.bind e cfg.first a n ha ih h1,
    matchOperand_sound x.c x.E x.emits x.nodes x.env x.bind e cfg.second b n hb ih h2,
    nodeVal_eq x.nodes x.env n hn ty (by rw [hnd]; rfl), hnd]
  simp only [evalNode, get_single, hop,
    argVal_prefix x.nodes x.env n (by omega) a ha, argVal_prefix x.nodes x.env n (by omega) b hb]
  simp

theorem cond_eval_sound (x : Ctx) (e : Nat) (cd : Cond) (op : CmpOp) (a b : Arg) (n : Nat)
    (ih : ∀ m, m < n → Holds x.E x.nodes x.env x.bind m)
    (ha : argBelow n a = true) (hb : argBelow n b = true)
    (hc : cd.usesEach = false) (hop : cd.op = op)
    (h1 : matchOperand x.c x.bind e cd.first a = true) (h2 : matchOperand x.c x.bind e cd.second b = true) :
    cd.eval (x.c.readR x.E e) (x.c.readG x.E e) none =
      cmp op (argVal x.nodes (evalNodes x.nodes x.env) a) (argVal x.nodes (evalNodes x.nodes x.env) b) := by
  have v1 := matchOperand_sound x.c x.E x.emits x.nodes x.env x.bind e cd.first a n ha ih h1
  have v2 := matchOperand_sound x.c x.E x.emits x.nodes x.env x.bind e cd.second b n hb ih h2
  have hrhs : cd.rhs (x.c.readR x.E e) (x.c.readG x.E e) none = cd.second.val (x.c.readR x.E e) (x.c.readG x.E e) := by
    unfold Cond.rhs
    split <;> simp_all
  unfold Cond.eval
  rw [hrhs, v2, hop]
  cases hfst : cd.first with
  | const k =>
    rw [hfst] at v1
    simp only [Operand.val] at v1
    simp [v1]
  | ref r sel =>
    cases r with
    | sig sg =>
      rw [hfst] at v1
      simp only [Operand.val] at v1
      simp [v1]
    | each => rw [hfst] at h1; cases a <;> simp [matchOperand] at h1
    | anything => rw [hfst] at h1; cases a <;> simp [matchOperand] at h1
    | everything => rw [hfst] at h1; cases a <;> simp [matchOperand] at h1

theorem sound_cmp (x : Ctx) (n e : Nat) (s : Sig) (op : CmpOp) (a b : Arg) (ty : Sig) (cd : Cond) (o : DOut)
    (hnode : x.nodes[n]? = some (.cmp op a b ty)) (hbind : x.bind n = some (.ent e s))
    (hkind : x.c.kind e = .decider { conds := [cd], outs := [o] })
    (ih : ∀ m, m < n → Holds x.E x.nodes x.env x.bind m)
    (ha : argBelow n a = true) (hb : argBelow n b = true) (hc : cd.usesEach = false) (hop : cd.op = op)
    (ho : isConstOneOut o s = true)
    (h1 : matchOperand x.c x.bind e cd.first a = true) (h2 : matchOperand x.c x.bind e cd.second b = true) :
    Holds x.E x.nodes x.env x.bind n := by
  obtain ⟨hn, hnd⟩ := kind_getD x.nodes n _ hnode
  unfold Holds
  rw [hbind]
  show get (x.E e) s = nodeVal x.nodes x.env n
  have hno : x.inp e = none := x.hagree.2 n e s hbind (by intro name ty' v hh; rw [hnode] at hh; cases hh)
  rw [x.out_eq e hno, hkind]
  show get (evalDecider _ _ _) s = _
  unfold isConstOneOut at ho
  simp only [Bool.and_eq_true, Bool.not_eq_true', beq_iff_eq] at ho
  obtain ⟨⟨hsig, hcopy⟩, hk⟩ := ho
  cases hos : o.sig with
  | sig t =>
    rw [hos] at hsig
    have hts : t = s := by simpa using hsig
    subst hts
    rw [get_evalDecider_single cd o t hc hos, cond_eval_sound x e cd op a b n ih ha hb hc hop h1 h2,
      nodeVal_eq x.nodes x.env n hn ty (by rw [hnd]; rfl), hnd]
    simp only [evalNode, get_single, hcopy, hk, boolI,
      argVal_prefix x.nodes x.env n (by omega) a ha, argVal_prefix x.nodes x.env n (by omega) b hb]
    simp
  | each => rw [hos] at hsig; cases hsig
  | anything => rw [hos] at hsig; cases hsig
  | everything => rw [hos] at hsig; cases hsig

theorem matchOperand_const_int (c : Circuit) (bind : Nat → Option Bind) (e : Nat) (k : I32) :
    matchOperand c bind e (.const k) (.int k) = true := by simp [matchOperand]

theorem sound_lnot (x : Ctx) (n e : Nat) (s : Sig) (a : Arg) (ty : Sig) (cd : Cond) (o : DOut)
    (hnode : x.nodes[n]? = some (.lnot a ty)) (hbind : x.bind n = some (.ent e s))
    (hkind : x.c.kind e = .decider { conds := [cd], outs := [o] })
    (ih : ∀ m, m < n → Holds x.E x.nodes x.env x.bind m)
    (ha : argBelow n a = true) (hc : cd.usesEach = false) (hop : cd.op = .eq)
    (ho : isConstOneOut o s = true)
    (h1 : matchOperand x.c x.bind e cd.first a = true) (h2 : cd.second = .const 0) :
    Holds x.E x.nodes x.env x.bind n := by
  obtain ⟨hn, hnd⟩ := kind_getD x.nodes n _ hnode
  unfold Holds
  rw [hbind]
  show get (x.E e) s = nodeVal x.nodes x.env n
  have hno : x.inp e = none := x.hagree.2 n e s hbind (by intro name ty' v hh; rw [hnode] at hh; cases hh)
  rw [x.out_eq e hno, hkind]
  show get (evalDecider _ _ _) s = _
  unfold isConstOneOut at ho
  simp only [Bool.and_eq_true, Bool.not_eq_true', beq_iff_eq] at ho
  obtain ⟨⟨hsig, hcopy⟩, hk⟩ := ho
  have h2' : matchOperand x.c x.bind e cd.second (.int 0) = true := by rw [h2]; exact matchOperand_const_int _ _ _ _
  cases hos : o.sig with
  | sig t =>
    rw [hos] at hsig
    have hts : t = s := by simpa using hsig
    subst hts
    rw [get_evalDecider_single cd o t hc hos, cond_eval_sound x e cd .eq a (.int 0) n ih ha rfl hc hop h1 h2',
      nodeVal_eq x.nodes x.env n hn ty (by rw [hnd]; rfl), hnd]
    simp only [evalNode, get_single, hcopy, hk, boolI, argVal_prefix x.nodes x.env n (by omega) a ha]
    simp [cmp, argVal]
  | each => rw [hos] at hsig; cases hsig
  | anything => rw [hos] at hsig; cases hsig
  | everything => rw [hos] at hsig; cases hsig

theorem sound_proj (x : Ctx) (n e : Nat) (s : Sig) (a : Arg) (ty : Sig) (cfg : ArithCfg)
    (hnode : x.nodes[n]? = some (.proj a ty)) (hbind : x.bind n = some (.ent e s))
    (hkind : x.c.kind e = .arith cfg)
    (ih : ∀ m, m < n → Holds x.E x.nodes x.env x.bind m)
    (ha : argBelow n a = true) (hop : cfg.op = .add)
    (hf : cfg.first.isEach = false) (hs : cfg.second.isEach = false) (hout : cfg.out = some (.sig s))
    (h1 : matchOperand x.c x.bind e cfg.first a = true) (h2 : cfg.second = .const 0) :
    Holds x.E x.nodes x.env x.bind n := by
  obtain ⟨hn, hnd⟩ := kind_getD x.nodes n _ hnode
  unfold Holds
  rw [hbind]
  show get (x.E e) s = nodeVal x.nodes x.env n
  have hno : x.inp e = none := x.hagree.2 n e s hbind (by intro name ty' v hh; rw [hnode] at hh; cases hh)
  rw [x.out_eq e hno, hkind]
  show get (evalArith cfg _ _) s = _
  rw [get_evalArith_scalar cfg s hf hs hout, if_pos rfl,
    matchOperand_sound x.c x.E x.emits x.nodes x.env x.bind e cfg.first a n ha ih h1,
    nodeVal_eq x.nodes x.env n hn ty (by rw [hnd]; rfl), hnd, h2, hop]
  simp only [evalNode, get_single, Operand.val, argVal_prefix x.nodes x.env n (by omega) a ha]
  simp [alu]

theorem sound_input (x : Ctx) (n e : Nat) (s : Sig) (name ty : Sig) (v : I32)
    (hnode : x.nodes[n]? = some (.input name ty v)) (hbind : x.bind n = some (.ent e s)) :
    Holds x.E x.nodes x.env x.bind n := by
  obtain ⟨hn, hnd⟩ := kind_getD x.nodes n _ hnode
  unfold Holds
  rw [hbind]
  show get (x.E e) s = nodeVal x.nodes x.env n
  have hov := x.hagree.1 n name ty v e s hnode hbind
  have : x.E e = [(s, (x.env.input name).getD v)] := by
    rw [← x.hfix e]; unfold Circuit.evalEnt; rw [hov]
  rw [this, nodeVal_eq x.nodes x.env n hn ty (by rw [hnd]; rfl), hnd]
  simp [evalNode]

theorem sound_const_ent (x : Ctx) (n e : Nat) (s : Sig) (ty : Sig) (v : I32)
    (hnode : x.nodes[n]? = some (.const ty v)) (hbind : x.bind n = some (.ent e s))
    (hkind : x.c.kind e = .const [(s, v)]) :
    Holds x.E x.nodes x.env x.bind n := by
  obtain ⟨hn, hnd⟩ := kind_getD x.nodes n _ hnode
  unfold Holds
  rw [hbind]
  show get (x.E e) s = nodeVal x.nodes x.env n
  have hno : x.inp e = none := x.hagree.2 n e s hbind (by intro name ty' v' hh; rw [hnode] at hh; cases hh)
  rw [x.out_eq e hno, hkind, nodeVal_eq x.nodes x.env n hn ty (by rw [hnd]; rfl), hnd]
  simp [evalNode]

theorem sound_const_konst (x : Ctx) (n : Nat) (ty : Sig) (v : I32)
    (hnode : x.nodes[n]? = some (.const ty v)) (hbind : x.bind n = some (.konst v)) :
    Holds x.E x.nodes x.env x.bind n := by
  obtain ⟨hn, hnd⟩ := kind_getD x.nodes n _ hnode
  unfold Holds
  rw [hbind]
  show nodeVal x.nodes x.env n = v
  rw [nodeVal_eq x.nodes x.env n hn ty (by rw [hnd]; rfl), hnd]
  simp [evalNode]

theorem sound_gate (x : Ctx) (n e : Nat) (s : Sig) (op : CmpOp) (a b v : Arg) (ty : Sig) (cd : Cond) (o : DOut)
    (hnode : x.nodes[n]? = some (.gate op a b v ty)) (hbind : x.bind n = some (.ent e s))
    (hkind : x.c.kind e = .decider { conds := [cd], outs := [o] })
    (ih : ∀ m, m < n → Holds x.E x.nodes x.env x.bind m)
    (ha : argBelow n a = true) (hb : argBelow n b = true) (hv : argBelow n v = true)
    (hc : cd.usesEach = false) (hop : cd.op = op)
    (h1 : matchOperand x.c x.bind e cd.first a = true) (h2 : matchOperand x.c x.bind e cd.second b = true)
    (hos : o.sig = .sig s)
    (hval : (if o.copy then get (selIn o.sel (x.c.readR x.E e) (x.c.readG x.E e)) s else o.const) =
        argVal x.nodes (evalNodes x.nodes x.env) v) :
    Holds x.E x.nodes x.env x.bind n := by
  obtain ⟨hn, hnd⟩ := kind_getD x.nodes n _ hnode
  unfold Holds
  rw [hbind]
  show get (x.E e) s = nodeVal x.nodes x.env n
  have hno : x.inp e = none := x.hagree.2 n e s hbind (by intro name ty' v' hh; rw [hnode] at hh; cases hh)
  rw [x.out_eq e hno, hkind]
  show get (evalDecider _ _ _) s = _
  rw [get_evalDecider_single cd o s hc hos, cond_eval_sound x e cd op a b n ih ha hb hc hop h1 h2, if_pos rfl, hval,
    nodeVal_eq x.nodes x.env n hn ty (by rw [hnd]; rfl), hnd]
  simp only [evalNode, get_single, argVal_prefix x.nodes x.env n (by omega) a ha,
    argVal_prefix x.nodes x.env n (by omega) b hb, argVal_prefix x.nodes x.env n (by omega) v hv]
  simp

/-- values of comparison / logical nodes are 0 or 1 -/
theorem bool_nodeVal (nodes : Array CNode) (env : Env) (m : Nat) (h : isBoolNode nodes m = true) :
    nodeVal nodes env m = 0 ∨ nodeVal nodes env m = 1 := by
  unfold isBoolNode at h
  cases hnd : nodes[m]? with
  | none => simp [hnd] at h
  | some nd =>
    obtain ⟨hn, hnd'⟩ := kind_getD nodes m nd hnd
    have bb : ∀ bv : Bool, boolI bv = 0 ∨ boolI bv = 1 := by intro bv; cases bv <;> simp [boolI]
    cases nd with
    | cmp op a b ty =>
      rw [nodeVal_eq nodes env m hn ty (by rw [hnd']; rfl), hnd']; simp only [evalNode, get_single, if_pos rfl]; simpa using bb _
    | land a b ty =>
      rw [nodeVal_eq nodes env m hn ty (by rw [hnd']; rfl), hnd']; simp only [evalNode, get_single, if_pos rfl]; simpa using bb _
    | lor a b ty =>
      rw [nodeVal_eq nodes env m hn ty (by rw [hnd']; rfl), hnd']; simp only [evalNode, get_single, if_pos rfl]; simpa using bb _
    | lnot a ty =>
      rw [nodeVal_eq nodes env m hn ty (by rw [hnd']; rfl), hnd']; simp only [evalNode, get_single, if_pos rfl]; simpa using bb _
    | _ => simp [hnd] at h

theorem bool_argVal (nodes : Array CNode) (env : Env) (a : Arg) (h : isBoolArg nodes a = true) :
    argVal nodes (evalNodes nodes env) a = 0 ∨ argVal nodes (evalNodes nodes env) a = 1 := by
  cases a with
  | int k =>
    simp only [isBoolArg, Bool.or_eq_true, beq_iff_eq] at h
    simpa [argVal] using h
  | node m => exact bool_nodeVal nodes env m h

theorem sound_land_bool (x : Ctx) (n e : Nat) (s : Sig) (a b : Arg) (ty : Sig) (cfg : ArithCfg)
    (hnode : x.nodes[n]? = some (.land a b ty)) (hbind : x.bind n = some (.ent e s))
    (hkind : x.c.kind e = .arith cfg)
    (ih : ∀ m, m < n → Holds x.E x.nodes x.env x.bind m)
    (ha : argBelow n a = true) (hb : argBelow n b = true)
    (hba : isBoolArg x.nodes a = true) (hbb : isBoolArg x.nodes b = true) (hop : cfg.op = .mul)
    (hf : cfg.first.isEach = false) (hs : cfg.second.isEach = false) (hout : cfg.out = some (.sig s))
    (h1 : matchOperand x.c x.bind e cfg.first a = true) (h2 : matchOperand x.c x.bind e cfg.second b = true) :
    Holds x.E x.nodes x.env x.bind n := by
  obtain ⟨hn, hnd⟩ := kind_getD x.nodes n _ hnode
  unfold Holds
  rw [hbind]
  show get (x.E e) s = nodeVal x.nodes x.env n
  have hno : x.inp e = none := x.hagree.2 n e s hbind (by intro name ty' v hh; rw [hnode] at hh; cases hh)
  rw [x.out_eq e hno, hkind]
  show get (evalArith cfg _ _) s = _
  rw [get_evalArith_scalar cfg s hf hs hout, if_pos rfl,
    matchOperand_sound x.c x.E x.emits x.nodes x.env x.bind e cfg.first a n ha ih h1,
    matchOperand_sound x.c x.E x.emits x.nodes x.env x.bind e cfg.second b n hb ih h2,
    nodeVal_eq x.nodes x.env n hn ty (by rw [hnd]; rfl), hnd, hop]
  simp only [evalNode, get_single, if_pos rfl,
    argVal_prefix x.nodes x.env n (by omega) a ha, argVal_prefix x.nodes x.env n (by omega) b hb]
  rw [rule_and_bool _ _ (bool_argVal x.nodes x.env a hba) (bool_argVal x.nodes x.env b hbb)]
  simp

theorem out_sig_eq (o : Option SigRef) (s : Sig)
    (h : (match o with | some (.sig t) => t == s | _ => false) = true) : o = some (.sig s) := by
  cases o with
  | none => simp at h
  | some r => cases r <;> simp_all

theorem dout_sig_eq (r : SigRef) (s : Sig)
    (h : (match r with | .sig t => t == s | _ => false) = true) : r = .sig s := by
  cases r <;> simp_all

theorem operand_const_zero (o : Operand) (h : (match o with | .const k => k == 0 | _ => false) = true) : o = .const 0 := by
  cases o <;> simp_all

theorem not_true_eq_false' (b : Bool) (h : (!b) = true) : b = false := by cases b <;> simp_all

theorem decider_shape (conds : List Cond) (outs : List DOut) (P : Cond → DOut → Bool)
    (h : (match conds, outs with | [cd], [o] => P cd o | _, _ => false) = true) :
    ∃ cd o, conds = [cd] ∧ outs = [o] ∧ P cd o = true := by
  match conds, outs, h with
  | [cd], [o], h => exact ⟨cd, o, rfl, rfl, h⟩
  | [], _, h => simp at h
  | _ :: _ :: _, _, h => simp at h
  | [_], [], h => simp at h
  | [_], _ :: _ :: _, h => simp at h

theorem checkNode_sound (x : Ctx) (n : Nat) (hn : n < x.nodes.size)
    (ih : ∀ m, m < n → Holds x.E x.nodes x.env x.bind m)
    (h : checkNode x.c x.nodes x.bind n = true) : Holds x.E x.nodes x.env x.bind n := by
  have hnd : x.nodes[n]? = some x.nodes[n] := Array.getElem?_eq_getElem hn
  unfold checkNode at h
  rw [hnd] at h
  cases hb : x.bind n with
  | none => unfold Holds; rw [hb]; trivial
  | some b =>
    rw [hb] at h
    cases b with
    | konst k =>
      cases hk : x.nodes[n] with
      | const ty v =>
        rw [hk] at h hnd
        simp only [beq_iff_eq] at h
        subst h
        exact sound_const_konst x n ty v hnd hb
      | _ => rw [hk] at h; simp at h
    | ent e s =>
      simp only at h
      cases hk : x.nodes[n] with
      | input name ty v =>
        rw [hk] at hnd
        exact sound_input x n e s name ty v hnd hb
      | const ty v =>
        rw [hk] at h hnd
        cases hkind : x.c.kind e with
        | const m =>
          rw [hkind] at h
          simp only at h
          match m, h with
          | [(t, v')], h =>
            simp only [Bool.and_eq_true, beq_iff_eq] at h
            obtain ⟨ht, hv⟩ := h
            subst ht; subst hv
            exact sound_const_ent x n e t ty v hnd hb hkind
        | _ => rw [hkind] at h; simp at h
      | arith op a b ty =>
        rw [hk] at h hnd
        cases hkind : x.c.kind e with
        | arith cfg =>
          rw [hkind] at h
          simp only [Bool.and_eq_true, beq_iff_eq] at h
          obtain ⟨⟨⟨⟨⟨⟨⟨ha, hb'⟩, hop⟩, hf⟩, hs⟩, hout⟩, h1⟩, h2⟩ := h
          exact sound_arith x n e s op a b ty cfg hnd hb hkind ih ha hb' hop (not_true_eq_false' _ hf)
            (not_true_eq_false' _ hs) (out_sig_eq _ _ hout) h1 h2
        | _ => rw [hkind] at h; simp at h
      | proj a ty =>
        rw [hk] at h hnd
        cases hkind : x.c.kind e with
        | arith cfg =>
          rw [hkind] at h
          simp only [Bool.and_eq_true, beq_iff_eq] at h
          obtain ⟨⟨⟨⟨⟨⟨ha, hop⟩, hf⟩, hs⟩, hout⟩, h1⟩, h2⟩ := h
          exact sound_proj x n e s a ty cfg hnd hb hkind ih ha hop (not_true_eq_false' _ hf)
            (not_true_eq_false' _ hs) (out_sig_eq _ _ hout) h1 (operand_const_zero _ h2)
        | _ => rw [hkind] at h; simp at h
      | land a b ty =>
        rw [hk] at h hnd
        cases hkind : x.c.kind e with
        | arith cfg =>
          rw [hkind] at h
          simp only [Bool.and_eq_true, beq_iff_eq] at h
          obtain ⟨⟨⟨⟨⟨⟨⟨⟨⟨ha, hb'⟩, hba⟩, hbb⟩, hop⟩, hf⟩, hs⟩, hout⟩, h1⟩, h2⟩ := h
          exact sound_land_bool x n e s a b ty cfg hnd hb hkind ih ha hb' hba hbb hop (not_true_eq_false' _ hf)
            (not_true_eq_false' _ hs) (out_sig_eq _ _ hout) h1 h2
        | _ => rw [hkind] at h; simp at h
      | cmp op a b ty =>
        rw [hk] at h hnd
        cases hkind : x.c.kind e with
        | decider cfg =>
          rw [hkind] at h
          obtain ⟨conds, outs⟩ := cfg
          simp only [Bool.and_eq_true] at h
          obtain ⟨⟨ha, hb'⟩, hsh⟩ := h
          obtain ⟨cd, o, rfl, rfl, hP⟩ := decider_shape conds outs _ hsh
          simp only [Bool.and_eq_true, beq_iff_eq] at hP
          obtain ⟨⟨⟨⟨hc, hop⟩, ho⟩, h1⟩, h2⟩ := hP
          exact sound_cmp x n e s op a b ty cd o hnd hb hkind ih ha hb' (not_true_eq_false' _ hc) hop ho h1 h2
        | _ => rw [hkind] at h; simp at h
      | lnot a ty =>
        rw [hk] at h hnd
        cases hkind : x.c.kind e with
        | decider cfg =>
          rw [hkind] at h
          obtain ⟨conds, outs⟩ := cfg
          simp only [Bool.and_eq_true] at h
          obtain ⟨ha, hsh⟩ := h
          obtain ⟨cd, o, rfl, rfl, hP⟩ := decider_shape conds outs _ hsh
          simp only [Bool.and_eq_true, beq_iff_eq] at hP
          obtain ⟨⟨⟨⟨hc, hop⟩, ho⟩, h1⟩, h2⟩ := hP
          exact sound_lnot x n e s a ty cd o hnd hb hkind ih ha (not_true_eq_false' _ hc) hop ho h1 (operand_const_zero _ h2)
        | _ => rw [hkind] at h; simp at h
      | gate op a b v ty =>
        rw [hk] at h hnd
        cases hkind : x.c.kind e with
        | decider cfg =>
          rw [hkind] at h
          obtain ⟨conds, outs⟩ := cfg
          simp only [Bool.and_eq_true] at h
          obtain ⟨⟨⟨ha, hb'⟩, hv⟩, hsh⟩ := h
          obtain ⟨cd, o, rfl, rfl, hP⟩ := decider_shape conds outs _ hsh
          simp only [Bool.and_eq_true, beq_iff_eq] at hP
          obtain ⟨⟨⟨⟨⟨hc, hop⟩, h1⟩, h2⟩, hsig⟩, hval⟩ := hP
          · have hos := dout_sig_eq _ _ hsig
            refine sound_gate x n e s op a b v ty cd o hnd hb hkind ih ha hb' hv (not_true_eq_false' _ hc) hop h1 h2 hos ?_
            cases v with
            | int k =>
              simp only [Bool.and_eq_true, beq_iff_eq] at hval
              obtain ⟨hcopy, hk'⟩ := hval
              have hcopy' := not_true_eq_false' _ hcopy
              simp [hcopy', hk', argVal]
            | node m =>
              have hm : m < n := by simpa [argBelow] using hv
              have ihm := ih m hm
              unfold Holds at ihm
              simp only at hval
              cases hbm : x.bind m with
              | none => simp [hbm] at hval
              | some bm =>
                rw [hbm] at hval ihm
                cases bm with
                | ent ev sv =>
                  simp only [Bool.and_eq_true, beq_iff_eq] at hval
                  obtain ⟨⟨hcopy, hsv⟩, hiso⟩ := hval
                  subst hsv
                  simp only [hcopy, if_true]
                  rw [read_isolated x.c x.E x.emits e o.sel sv ev hiso]
                  exact ihm
                | konst k =>
                  simp only [Bool.and_eq_true, beq_iff_eq] at hval
                  obtain ⟨hcopy, hk'⟩ := hval
                  have hcopy' := not_true_eq_false' _ hcopy
                  simp only [hcopy', Bool.false_eq_true, if_false, hk']
                  exact ihm.symm
        | _ => rw [hkind] at h; simp at h
      | _ => rw [hk] at h; cases hkind : x.c.kind e <;> simp [hkind] at h

/-- **Matcher soundness.** If every node passes, every bound node reads its denotation in `E`. -/
theorem checkAll_sound (x : Ctx) (h : checkAll x.c x.nodes x.bind = true) :
    ∀ n, n < x.nodes.size → Holds x.E x.nodes x.env x.bind n := by
  intro n
  induction n using Nat.strongRecOn with
  | _ n ih =>
    intro hn
    unfold checkAll at h
    rw [List.all_eq_true] at h
    have hc := h n (List.mem_range.mpr hn)
    exact checkNode_sound x n hn (fun m hm => ih m hm (by omega)) hc

/-- **C01, per program.** For a circuit with a rank certificate (M1) whose Core nodes all pass the matcher,
and for *every* valuation of the declared inputs (`inp` on the circuit side, `env` on the source side,
related by `InputsAgree`): from tick `T` on (any `T` above every rank), each bound node's entity carries,
on the bound signal, exactly the value the source denotes. -/
theorem scalar_end_to_end (c : Circuit) (nodes : Array CNode) (bind : Nat → Option Bind) (rank : Nat → Nat)
    (hrank : c.checkRanked rank = true) (hall : checkAll c nodes bind = true)
    (inp : Inputs) (env : Env) (hinp : InputsOK c inp) (hagree : InputsAgree nodes bind inp env)
    (T : Nat) (hT : ∀ i, rank i < T) (t : Nat) (ht : T ≤ t)
    (n e : Nat) (s : Sig) (hn : n < nodes.size) (hb : bind n = some (.ent e s)) :
    get (c.runF inp t e) s = nodeVal nodes env n := by
  have hr := Circuit.checkRanked_sound c rank hrank
  rw [Circuit.settled_stable c inp rank hr T hT t ht e]
  let x : Ctx := { c, inp, E := c.runF inp T, nodes, env, bind,
                   hfix := Circuit.settled_fixpoint c inp rank hr T hT, hinp, hagree }
  have := checkAll_sound x hall n hn
  unfold Holds at this
  have hb' : x.bind n = some (.ent e s) := hb
  rw [hb'] at this
  exact this

end Facto
