import Model.Match
import Proofs.Rules
import Proofs.Settle
/-!
# Soundness of the scalar matcher

If `checkAll` accepts, then at every fixpoint `E` of the circuit (the settled state, by M1), for all
values of the declared inputs, every bound Core node reads exactly its denotation.
-/
namespace Facto
open SigMap

/-! ## forward evaluation of Core nodes -/

theorem getD_push {α} (a : Array α) (x d : α) (i : Nat) :
    (a.push x).getD i d = if i < a.size then a.getD i d else if i = a.size then x else d := by
  simp only [Array.getD_eq_getD_getElem?, Array.getElem?_push]
  by_cases h1 : i < a.size
  · have : ¬ i = a.size := by omega
    simp [h1, this]
  · by_cases h2 : i = a.size
    · simp [h2]
    · have : a[i]? = none := by simp; omega
      simp [h1, h2, this]

theorem evalUpTo_size (nodes : Array CNode) (env : Env) : ∀ k, k ≤ nodes.size → (evalUpTo nodes env k).size = k := by
  intro k
  induction k with
  | zero => intro _; rfl
  | succ k ih =>
    intro hk
    have hlt : k < nodes.size := by omega
    simp only [evalUpTo, Array.getElem?_eq_getElem hlt, Array.size_push, ih (by omega)]

theorem evalUpTo_stable (nodes : Array CNode) (env : Env) (i : Nat) :
    ∀ k, i < k → k ≤ nodes.size → (evalUpTo nodes env k).getD i [] = (evalUpTo nodes env (i + 1)).getD i [] := by
  intro k
  induction k with
  | zero => intro h; omega
  | succ k ih =>
    intro hi hk
    by_cases h : i = k
    · subst h; rfl
    · have hlt : k < nodes.size := by omega
      have hsz := evalUpTo_size nodes env k (by omega)
      simp only [evalUpTo, Array.getElem?_eq_getElem hlt]
      rw [getD_push, hsz, if_pos (by omega)]
      exact ih (by omega) (by omega)

theorem evalUpTo_at (nodes : Array CNode) (env : Env) (n : Nat) (hn : n < nodes.size) :
    (evalUpTo nodes env (n + 1)).getD n [] = evalNode nodes env (evalUpTo nodes env n) nodes[n] := by
  have hsz := evalUpTo_size nodes env n (by omega)
  simp only [evalUpTo, Array.getElem?_eq_getElem hn]
  rw [getD_push, hsz]
  simp

/-- the value array restricted to indices below `n` is what node `n` was evaluated against -/
theorem evalNodes_getD (nodes : Array CNode) (env : Env) (n : Nat) (hn : n < nodes.size) :
    (evalNodes nodes env).getD n [] = evalNode nodes env (evalUpTo nodes env n) nodes[n] := by
  unfold evalNodes
  rw [evalUpTo_stable nodes env n nodes.size hn (Nat.le_refl _), evalUpTo_at nodes env n hn]

theorem evalUpTo_prefix (nodes : Array CNode) (env : Env) (n m : Nat) (hm : m < n) (hn : n ≤ nodes.size) :
    (evalUpTo nodes env n).getD m [] = (evalNodes nodes env).getD m [] := by
  unfold evalNodes
  rw [evalUpTo_stable nodes env m n hm hn, evalUpTo_stable nodes env m nodes.size (by omega) (Nat.le_refl _)]

/-- an argument below `n` has the same value against the prefix and against the final array -/
theorem argVal_prefix (nodes : Array CNode) (env : Env) (n : Nat) (hn : n ≤ nodes.size) (a : Arg) (ha : argBelow n a = true) :
    argVal nodes (evalUpTo nodes env n) a = argVal nodes (evalNodes nodes env) a := by
  cases a with
  | int k => rfl
  | node m =>
    have hm : m < n := by simpa [argBelow] using ha
    simp only [argVal]
    rw [evalUpTo_prefix nodes env n m hm hn]

/-- the scalar value of node `n` -/
def nodeVal (nodes : Array CNode) (env : Env) (n : Nat) : I32 := argVal nodes (evalNodes nodes env) (.node n)

theorem nodeVal_eq (nodes : Array CNode) (env : Env) (n : Nat) (hn : n < nodes.size) (ty : Sig)
    (hty : nodes[n].ty? = some ty) :
    nodeVal nodes env n = get (evalNode nodes env (evalUpTo nodes env n) nodes[n]) ty := by
  unfold nodeVal
  simp only [argVal]
  have : nodes.getD n (.const "" 0) = nodes[n] := by simp [Array.getD_eq_getD_getElem?, Array.getElem?_eq_getElem hn]
  rw [this, hty, evalNodes_getD nodes env n hn]

/-! ## reading an isolated operand -/

theorem get_sumOuts (ps : List Nat) (E : Nat → SigMap) (s : Sig) :
    get (Circuit.sumOuts ps E) s = (ps.map (fun p => get (E p) s)).foldr (· + ·) 0 := by
  unfold Circuit.sumOuts
  rw [get_flatten]
  simp [List.map_map, Function.comp_def]

theorem sum_filter_single (ps : List Nat) (f : Nat → I32) (keep : Nat → Bool) (e : Nat)
    (hz : ∀ p, keep p = false → f p = 0) (hf : ps.filter keep = [e]) :
    (ps.map f).foldr (· + ·) 0 = f e := by
  induction ps with
  | nil => simp at hf
  | cons p ps ih =>
    simp only [List.map_cons, List.foldr_cons]
    by_cases hk : keep p = true
    · rw [List.filter_cons_of_pos hk] at hf
      have hpe : p = e := by injection hf
      have hrest : ps.filter keep = [] := by injection hf
      have : (ps.map f).foldr (· + ·) 0 = 0 := by
        clear ih hf
        induction ps with
        | nil => rfl
        | cons q qs ihq =>
          simp only [List.map_cons, List.foldr_cons]
          have hq : keep q = false := by
            by_cases hq : keep q = true
            · rw [List.filter_cons_of_pos hq] at hrest; simp at hrest
            · simpa using hq
          rw [List.filter_cons_of_neg (by simp [hq])] at hrest
          rw [hz q hq, ihq hrest]; simp
      rw [this, hpe]; simp
    · have hk' : keep p = false := by simpa using hk
      rw [List.filter_cons_of_neg (by simp [hk'])] at hf
      rw [hz p hk', ih hf]; simp

/-- kind-level emission bound (proof helper) -/
def Kind.mayEmitB (k : Kind) (s : Sig) : Bool :=
  match k.emitList with
  | some l => l.contains s
  | none => true

theorem mayEmit_false (c : Circuit) (p : Nat) (s : Sig) (h : c.mayEmit p s = false) :
    c.sources.contains p = false ∧ (c.kind p).mayEmitB s = false := by
  unfold Circuit.mayEmit Circuit.emitListOf at h
  cases hs : c.sources.contains p with
  | true => rw [hs] at h; simp at h
  | false =>
    refine ⟨rfl, ?_⟩
    rw [hs] at h
    exact h

/-- `E` is a state in which every entity emits only what its kind allows -/
def EmitsOK (c : Circuit) (E : Nat → SigMap) : Prop :=
  ∀ p s, c.mayEmit p s = false → get (E p) s = 0

theorem selIn_eq_sumOuts (c : Circuit) (E : Nat → SigMap) (i : Nat) (sel : Sel) :
    selIn sel (c.readR E i) (c.readG E i) = Circuit.sumOuts (c.selProducers i sel) E := by
  unfold selIn Circuit.readR Circuit.readG Circuit.selProducers Circuit.sumOuts
  cases sel.red <;> cases sel.green <;> simp

theorem read_isolated (c : Circuit) (E : Nat → SigMap) (hE : EmitsOK c E) (i : Nat) (sel : Sel) (s : Sig) (e : Nat)
    (h : c.isolated i sel s e = true) :
    get (selIn sel (c.readR E i) (c.readG E i)) s = get (E e) s := by
  rw [selIn_eq_sumOuts, get_sumOuts]
  unfold Circuit.isolated at h
  exact sum_filter_single _ (fun p => get (E p) s) (fun p => c.mayEmit p s) e (fun p hp => hE p s hp) (eq_of_beq h)

/-! ## static emission bounds hold in every fixpoint -/

/-- an overridden entity is a single-signal constant combinator that emits nothing but its signal, or a declared
source (a circuit-connected container: any contents) -/
def InputsOK (c : Circuit) (inp : Inputs) : Prop :=
  ∀ i m, inp i = some m →
    (c.sources.contains i = true ∧ ∃ cd, c.kind i = .controlled cd) ∨
    (∃ t lit, c.kind i = .const [(t, lit)] ∧ ∀ s, s ≠ t → get m s = 0)

theorem contains_false_not_mem (l : List Sig) (s : Sig) (h : l.contains s = false) : s ∉ l := by
  intro hm
  have : l.contains s = true := List.contains_iff_mem.mpr hm
  rw [this] at h; cases h

theorem get_outs_zero (outs : List DOut) (r g : SigMap) (s : Sig)
    (hall : outs.all (fun o => match o.sig with | .sig _ => true | _ => false) = true)
    (hs : s ∉ outs.filterMap (fun o => match o.sig with | .sig t => some t | _ => none)) :
    get ((outs.map (fun o => o.emit r g none)).flatten) s = 0 := by
  induction outs with
  | nil => rfl
  | cons o outs ih =>
    simp only [List.all_cons, Bool.and_eq_true] at hall
    simp only [List.map_cons, List.flatten_cons, get_append]
    cases hsig : o.sig with
    | sig t =>
      have hne : ¬ t = s := by
        intro e; apply hs; simp [List.filterMap_cons, hsig, e]
      have hs' : s ∉ outs.filterMap (fun o => match o.sig with | .sig t => some t | _ => none) := by
        intro hm; apply hs; simp [List.filterMap_cons, hsig]; right; simpa using hm
      rw [ih hall.2 hs']
      simp [DOut.emit, hsig, hne]
    | each => simp [hsig] at hall
    | anything => simp [hsig] at hall
    | everything => simp [hsig] at hall

theorem emits_evalEnt (c : Circuit) (inp : Inputs) (hinp : InputsOK c inp) (E : Nat → SigMap) (p : Nat) (s : Sig)
    (h : c.mayEmit p s = false) : get (c.evalEnt inp E p) s = 0 := by
  obtain ⟨hsrc, h⟩ := mayEmit_false c p s h
  unfold Circuit.evalEnt
  cases hi : inp p with
  | some m =>
    rcases hinp p m hi with ⟨hs, _⟩ | ⟨t, lit, hk, hm⟩
    · rw [hsrc] at hs; cases hs
    simp only [Kind.mayEmitB, hk, Kind.emitList, List.map_cons, List.map_nil] at h
    have : ¬ s = t := by intro e; subst e; simp at h
    exact hm s this
  | none =>
    simp only
    cases hk : c.kind p with
    | const m =>
      simp only [Kind.mayEmitB, hk, Kind.emitList] at h
      exact get_eq_zero_of_not_mem_keys m s (contains_false_not_mem _ s h)
    | arith cfg =>
      simp only [Kind.mayEmitB, hk, Kind.emitList] at h
      split at h
      · rename_i l heq
        split at heq
        · cases heq
        · rename_i he
          have hf : cfg.first.isEach = false := by
            cases hx : cfg.first.isEach <;> simp_all
          have hs2 : cfg.second.isEach = false := by
            cases hx : cfg.second.isEach <;> simp_all
          split at heq
          · rename_i t ho
            injection heq with hl
            subst hl
            have : ¬ t = s := by intro e; subst e; simp at h
            show get (evalArith cfg _ _) s = 0
            rw [get_evalArith_scalar cfg t hf hs2 ho]
            simp [this]
          · rename_i ho
            show get (evalArith cfg _ _) s = 0
            simp [evalArith, ho]
          · cases heq
      · cases h
    | decider cfg =>
      simp only [Kind.mayEmitB, hk, Kind.emitList] at h
      split at h
      · rename_i l heq
        split at heq
        · cases heq
        · rename_i he
          split at heq
          · rename_i hall
            injection heq with hl
            subst hl
            show get (evalDecider cfg _ _) s = 0
            unfold evalDecider
            have he' : cfg.conds.any Cond.usesEach = false := by simpa using he
            simp only [he', Bool.false_eq_true, if_false]
            split
            · exact get_outs_zero cfg.outs _ _ s hall (contains_false_not_mem _ s h)
            · rfl
          · cases heq
      · cases h
    | controlled _ => rfl
    | pole => rfl
    | unsupported _ => rfl

theorem emitsOK_of_fixpoint (c : Circuit) (inp : Inputs) (hinp : InputsOK c inp) (E : Nat → SigMap)
    (hfix : ∀ i, c.evalEnt inp E i = E i) : EmitsOK c E := by
  intro p s h
  rw [← hfix p]
  exact emits_evalEnt c inp hinp E p s h

/-! ## the per-node soundness lemma -/

/-- what a binding claims about node `n` in state `E` -/
def Holds (E : Nat → SigMap) (nodes : Array CNode) (env : Env) (bind : Nat → Option Bind) (n : Nat) : Prop :=
  match bind n with
  | some (.ent e s) => get (E e) s = nodeVal nodes env n
  | some (.konst k) => nodeVal nodes env n = k
  | some (.sum es s) => get (Circuit.sumOuts es E) s = nodeVal nodes env n
  | some (.many es) => ∀ s, get (Circuit.sumOuts es E) s = get ((evalNodes nodes env).getD n []) s
  | none => True

/-- the two valuations agree: the constant combinator bound to an input node carries that input's value, the
container bound to an `entity.output` node reports that entity's contents, and nothing else is overridden -/
def InputsAgree (nodes : Array CNode) (bind : Nat → Option Bind) (inp : Inputs) (env : Env) : Prop :=
  (∀ n name ty v e s, nodes[n]? = some (.input name ty v) → bind n = some (.ent e s) →
      inp e = some [(s, (env.input name).getD v)]) ∧
  (∀ n e s, bind n = some (.ent e s) → (∀ name ty v, nodes[n]? ≠ some (.input name ty v)) → inp e = none) ∧
  (∀ e, inp e ≠ none →
      (∃ n name ty v s, n < nodes.size ∧ nodes[n]? = some (.input name ty v) ∧ bind n = some (.ent e s)) ∨
      (∃ n k, n < nodes.size ∧ nodes[n]? = some (.entOut k) ∧ bind n = some (.many [e])) ∨
      (∃ n m ty es, n < nodes.size ∧ nodes[n]? = some (.memRead m ty) ∧ bind n = some (.sum es ty) ∧ e ∈ es)) ∧
  (∀ n k e, nodes[n]? = some (.entOut k) → bind n = some (.many [e]) → inp e = some (env.entOut k)) ∧
  (∀ n m ty es, nodes[n]? = some (.memRead m ty) → bind n = some (.sum es ty) →
      (∀ e, e ∈ es → (inp e).isSome = true) ∧
      get (Circuit.sumOuts es (fun e => (inp e).getD [])) ty = env.mem m)

theorem kind_getD (nodes : Array CNode) (n : Nat) (nd : CNode) (h : nodes[n]? = some nd) :
    ∃ hn : n < nodes.size, nodes[n] = nd := by
  have hn : n < nodes.size := by
    apply Classical.byContradiction
    intro hc
    rw [Array.getElem?_eq_none (by omega)] at h
    cases h
  refine ⟨hn, ?_⟩
  rw [Array.getElem?_eq_getElem hn] at h
  injection h

/-- the context shared by all cases -/
structure Ctx where
  c : Circuit
  inp : Inputs
  E : Nat → SigMap
  nodes : Array CNode
  env : Env
  bind : Nat → Option Bind
  hfix : ∀ i, c.evalEnt inp E i = E i
  hinp : InputsOK c inp
  hagree : InputsAgree nodes bind inp env

namespace Ctx

theorem emits (x : Ctx) : EmitsOK x.c x.E := emitsOK_of_fixpoint x.c x.inp x.hinp x.E x.hfix

/-- value of a Core argument in the final evaluation -/
def av (x : Ctx) (a : Arg) : I32 := argVal x.nodes (evalNodes x.nodes x.env) a

/-- the output of a non-overridden entity in a fixpoint -/
theorem out_eq (x : Ctx) (e : Nat) (hno : x.inp e = none) :
    x.E e = (match x.c.kind e with
      | .const m => m
      | .arith cfg => evalArith cfg (x.c.readR x.E e) (x.c.readG x.E e)
      | .decider cfg => evalDecider cfg (x.c.readR x.E e) (x.c.readG x.E e)
      | _ => []) := by
  rw [← x.hfix e]
  unfold Circuit.evalEnt
  rw [hno]
  rfl

theorem inp_none_of_arith (x : Ctx) (e : Nat) (cfg : ArithCfg) (hk : x.c.kind e = .arith cfg) : x.inp e = none := by
  cases h : x.inp e with
  | none => rfl
  | some m =>
    rcases x.hinp e m h with ⟨_, cd, hk'⟩ | ⟨t, lit, hk', _⟩
    · rw [hk] at hk'; cases hk'
    · rw [hk] at hk'; cases hk'

theorem inp_none_of_decider (x : Ctx) (e : Nat) (cfg : DeciderCfg) (hk : x.c.kind e = .decider cfg) : x.inp e = none := by
  cases h : x.inp e with
  | none => rfl
  | some m =>
    rcases x.hinp e m h with ⟨_, cd, hk'⟩ | ⟨t, lit, hk', _⟩
    · rw [hk] at hk'; cases hk'
    · rw [hk] at hk'; cases hk'

theorem inp_none_of_notInput (x : Ctx) (p : Nat) (h : notInputEnt x.nodes x.bind p = true) : x.inp p = none := by
  cases hi : x.inp p with
  | none => rfl
  | some m' =>
    exfalso
    unfold notInputEnt at h
    rw [List.all_eq_true] at h
    rcases x.hagree.2.2.1 p (by rw [hi]; simp) with ⟨n, name, ty, v, s, hn, hnode, hb⟩ | ⟨n, k, hn, hnode, hb⟩ |
        ⟨n, m, ty, es, hn, hnode, hb, hmem⟩
    · have := h n (List.mem_range.mpr hn)
      rw [hnode, hb] at this
      simp at this
    · have := h n (List.mem_range.mpr hn)
      rw [hnode, hb] at this
      simp at this
    · have := h n (List.mem_range.mpr hn)
      rw [hnode, hb] at this
      simp at this
      exact this hmem

end Ctx

theorem soleProducer_isolated (c : Circuit) (i : Nat) (sel : Sel) (s : Sig) (p : Nat)
    (h : c.soleProducer i sel s = some p) : c.isolated i sel s p = true := by
  unfold Circuit.soleProducer at h
  unfold Circuit.isolated
  split at h
  · rename_i e heq
    injection h with h
    subst h
    rw [heq]
    simp
  · cases h

/-! ## wire sums over sets of producers -/

theorem get_sumOuts_cons (p : Nat) (ps : List Nat) (E : Nat → SigMap) (s : Sig) :
    get (Circuit.sumOuts (p :: ps) E) s = get (E p) s + get (Circuit.sumOuts ps E) s := by
  simp [Circuit.sumOuts]

theorem get_sumOuts_append (a b : List Nat) (E : Nat → SigMap) (s : Sig) :
    get (Circuit.sumOuts (a ++ b) E) s = get (Circuit.sumOuts a E) s + get (Circuit.sumOuts b E) s := by
  simp [Circuit.sumOuts]

theorem get_sumOuts_perm (E : Nat → SigMap) (s : Sig) {l1 l2 : List Nat} (h : l1.Perm l2) :
    get (Circuit.sumOuts l1 E) s = get (Circuit.sumOuts l2 E) s := by
  induction h with
  | nil => rfl
  | cons x _ ih => simp only [get_sumOuts_cons, ih]
  | swap x y l =>
    simp only [get_sumOuts_cons]
    rw [← BitVec.add_assoc, ← BitVec.add_assoc, BitVec.add_comm (get (E y) s)]
  | trans _ _ ih1 ih2 => rw [ih1, ih2]

theorem get_sumOuts_filter (E : Nat → SigMap) (s : Sig) (keep : Nat → Bool) (ps : List Nat)
    (hz : ∀ p, keep p = false → get (E p) s = 0) :
    get (Circuit.sumOuts (ps.filter keep) E) s = get (Circuit.sumOuts ps E) s := by
  induction ps with
  | nil => rfl
  | cons p ps ih =>
    by_cases hk : keep p = true
    · rw [List.filter_cons_of_pos hk]
      simp only [get_sumOuts_cons, ih]
    · have hk' : keep p = false := by simpa using hk
      rw [List.filter_cons_of_neg (by simp [hk'])]
      simp only [get_sumOuts_cons, ih, hz p hk']
      simp

theorem silent_zero (c : Circuit) (E : Nat → SigMap) (hE : EmitsOK c E) (p : Nat) (s : Sig)
    (h : (!c.silentEnt p) = false) : get (E p) s = 0 := by
  apply hE
  have hs : c.silentEnt p = true := by simpa using h
  unfold Circuit.silentEnt at hs
  unfold Circuit.mayEmit
  split at hs
  · rename_i heq
    rw [heq]
    simp
  · cases hs

/-- a selection that carries `es` reads, on every signal, the wire-sum of `es` -/
theorem carries_sound (c : Circuit) (E : Nat → SigMap) (hE : EmitsOK c E) (i : Nat) (sel : Sel) (es : List Nat)
    (h : c.carries i sel es = true) (s : Sig) :
    get (selIn sel (c.readR E i) (c.readG E i)) s = get (Circuit.sumOuts es E) s := by
  unfold Circuit.carries at h
  have hp := List.isPerm_iff.mp h
  rw [selIn_eq_sumOuts,
    ← get_sumOuts_filter E s (fun p => !c.silentEnt p) (c.selProducers i sel) (fun p hp => silent_zero c E hE p s hp),
    ← get_sumOuts_filter E s (fun p => !c.silentEnt p) es (fun p hp => silent_zero c E hE p s hp)]
  exact get_sumOuts_perm E s hp

theorem readsSum_sound (c : Circuit) (E : Nat → SigMap) (hE : EmitsOK c E) (i : Nat) (sel : Sel) (s : Sig) (es : List Nat)
    (h : c.readsSum i sel s es = true) :
    get (selIn sel (c.readR E i) (c.readG E i)) s = get (Circuit.sumOuts es E) s := by
  unfold Circuit.readsSum at h
  have hp := List.isPerm_iff.mp h
  rw [selIn_eq_sumOuts,
    ← get_sumOuts_filter E s (fun p => c.mayEmit p s) (c.selProducers i sel) (fun p hp => hE p s hp),
    ← get_sumOuts_filter E s (fun p => c.mayEmit p s) es (fun p hp => hE p s hp)]
  exact get_sumOuts_perm E s hp

theorem get_sumOuts_single (E : Nat → SigMap) (e : Nat) (s : Sig) : get (Circuit.sumOuts [e] E) s = get (E e) s := by
  simp [Circuit.sumOuts]

theorem matchOperand_sound (x : Ctx) (i : Nat) (o : Operand) (a : Arg) (n : Nat)
    (hbelow : argBelow n a = true) (ih : ∀ m, m < n → Holds x.E x.nodes x.env x.bind m)
    (h : matchOperand x.c x.nodes x.bind i o a = true) :
    o.val (x.c.readR x.E i) (x.c.readG x.E i) = x.av a := by
  unfold Ctx.av
  cases o with
  | const k =>
    cases a with
    | int k' =>
      simp only [matchOperand, beq_iff_eq] at h
      simp [Operand.val, argVal, h]
    | node m =>
      simp only [matchOperand, beq_iff_eq] at h
      have hm : m < n := by simpa [argBelow] using hbelow
      have := ih m hm
      unfold Holds at this
      rw [h] at this
      simp only [Operand.val]
      exact this.symm
  | ref r sel =>
    cases r with
    | sig s =>
      cases a with
      | int k =>
        simp only [matchOperand] at h
        cases hsp : x.c.soleProducer i sel s with
        | none => simp [hsp] at h
        | some p =>
          simp only [hsp, Bool.and_eq_true] at h
          obtain ⟨hkind, hni⟩ := h
          have hno := x.inp_none_of_notInput p hni
          cases hk : x.c.kind p with
          | const m =>
            rw [hk] at hkind
            match m, hkind with
            | [(t, v)], hkind =>
              simp only [Bool.and_eq_true, beq_iff_eq] at hkind
              obtain ⟨ht, hv⟩ := hkind
              subst ht; subst hv
              simp only [Operand.val, argVal]
              rw [read_isolated x.c x.E x.emits i sel t p (soleProducer_isolated _ _ _ _ _ hsp), x.out_eq p hno, hk]
              simp
          | _ => rw [hk] at hkind; simp at hkind
      | node m =>
        simp only [matchOperand] at h
        have hm : m < n := by simpa [argBelow] using hbelow
        cases hb : x.bind m with
        | none => simp [hb] at h
        | some b =>
          cases b with
          | konst k => simp [hb] at h
          | many es => simp [hb] at h
          | sum es s' =>
            simp only [hb, Bool.and_eq_true, beq_iff_eq] at h
            obtain ⟨hs, hrd⟩ := h
            subst hs
            have := ih m hm
            unfold Holds at this
            rw [hb] at this
            simp only [Operand.val]
            rw [readsSum_sound x.c x.E x.emits i sel s es hrd]
            exact this
          | ent e s' =>
            simp only [hb, Bool.and_eq_true, beq_iff_eq] at h
            obtain ⟨hs, hiso⟩ := h
            subst hs
            have := ih m hm
            unfold Holds at this
            rw [hb] at this
            simp only [Operand.val]
            rw [read_isolated x.c x.E x.emits i sel s e hiso]
            exact this
    | each => cases a <;> simp [matchOperand] at h
    | anything => cases a <;> simp [matchOperand] at h
    | everything => cases a <;> simp [matchOperand] at h

theorem matchOperand_plain (c : Circuit) (nodes : Array CNode) (bind : Nat → Option Bind) (i : Nat) (o : Operand) (a : Arg)
    (h : matchOperand c nodes bind i o a = true) : o.isPlain = true := by
  cases o with
  | const k => rfl
  | ref r sel => cases r <;> cases a <;> simp_all [matchOperand, Operand.isPlain]

theorem opIs_plain (c : Circuit) (nodes : Array CNode) (bind : Nat → Option Bind) (rec : Nat → Sig → Bool)
    (v : VExpr) (i : Nat) (o : Operand) (h : opIs c nodes bind rec v i o = true) : o.isPlain = true := by
  cases v with
  | arg a => exact matchOperand_plain c nodes bind i o a (by simpa [opIs] using h)
  | _ =>
    cases o with
    | const k => rfl
    | ref r sel => cases r <;> simp_all [opIs, lookThrough, Operand.isPlain]

theorem opIs_sound (x : Ctx) (n : Nat) (ih : ∀ m, m < n → Holds x.E x.nodes x.env x.bind m)
    (rec : Nat → Sig → Bool) (v : VExpr) (i : Nat) (o : Operand)
    (hrec : ∀ p t, rec p t = true → get (x.E p) t = v.val x.av)
    (hunder : v.under n = true)
    (h : opIs x.c x.nodes x.bind rec v i o = true) :
    o.val (x.c.readR x.E i) (x.c.readG x.E i) = v.val x.av := by
  have look : lookThrough x.c rec i o = true →
      o.val (x.c.readR x.E i) (x.c.readG x.E i) = v.val x.av := by
    intro h
    unfold lookThrough at h
    cases o with
    | const k => simp at h
    | ref r sel =>
      cases r with
      | sig t =>
        simp only at h
        cases hsp : x.c.soleProducer i sel t with
        | none => simp [hsp] at h
        | some p =>
          simp only [hsp] at h
          simp only [Operand.val]
          rw [read_isolated x.c x.E x.emits i sel t p (soleProducer_isolated _ _ _ _ _ hsp)]
          exact hrec p t h
      | each => simp at h
      | anything => simp at h
      | everything => simp at h
  cases v with
  | arg a =>
    simp only [opIs] at h
    simp only [VExpr.val]
    exact matchOperand_sound x i o a n (by simpa [VExpr.under] using hunder) ih h
  | alu op y z => exact look (by simpa [opIs] using h)
  | cmpB op y z => exact look (by simpa [opIs] using h)
  | gate op y z w => exact look (by simpa [opIs] using h)
  | allB cs => exact look (by simpa [opIs] using h)
  | anyB cs => exact look (by simpa [opIs] using h)

/-! ## decider rows -/

theorem cond_eval_plain (cd : Cond) (r g : SigMap) (hp : cd.first.isPlain = true) (hc : cd.usesEach = false) :
    cd.eval r g none = cmp cd.op (cd.first.val r g) (cd.second.val r g) := by
  have hrhs : cd.rhs r g none = cd.second.val r g := by
    unfold Cond.rhs
    split <;> simp_all
  unfold Cond.eval
  rw [hrhs]
  cases hfst : cd.first with
  | const k => simp [Operand.val]
  | ref rf sel =>
    cases rf with
    | sig sg => simp [Operand.val]
    | each => rw [hfst] at hp; simp [Operand.isPlain] at hp
    | anything => rw [hfst] at hp; simp [Operand.isPlain] at hp
    | everything => rw [hfst] at hp; simp [Operand.isPlain] at hp

theorem go_and (r g : SigMap) : ∀ (cs : List Cond) (cur : Bool), cs.all (fun cd => cd.isAnd) = true →
    evalConds.go r g none cs cur = (cur && cs.all (fun cd => cd.eval r g none)) := by
  intro cs
  induction cs with
  | nil => intro cur _; simp [evalConds.go]
  | cons cd rest ih =>
    intro cur h
    simp only [List.all_cons, Bool.and_eq_true] at h
    simp only [evalConds.go, h.1, if_true, List.all_cons]
    rw [ih _ h.2, Bool.and_assoc]

theorem go_or (r g : SigMap) : ∀ (cs : List Cond) (cur : Bool), cs.all (fun cd => !cd.isAnd) = true →
    evalConds.go r g none cs cur = (cur || cs.any (fun cd => cd.eval r g none)) := by
  intro cs
  induction cs with
  | nil => intro cur _; simp [evalConds.go]
  | cons cd rest ih =>
    intro cur h
    simp only [List.all_cons, Bool.and_eq_true, Bool.not_eq_true'] at h
    simp only [evalConds.go, h.1, Bool.false_eq_true, if_false, List.any_cons]
    rw [ih _ (by simpa using h.2)]

theorem evalConds_and (cs : List Cond) (r g : SigMap) (hne : cs ≠ []) (h : cs.tail.all (fun cd => cd.isAnd) = true) :
    evalConds cs r g none = cs.all (fun cd => cd.eval r g none) := by
  cases cs with
  | nil => exact absurd rfl hne
  | cons cd rest =>
    simp only [List.tail_cons] at h
    simp only [evalConds, List.all_cons]
    exact go_and r g rest _ h

theorem evalConds_or (cs : List Cond) (r g : SigMap) (hne : cs ≠ []) (h : cs.tail.all (fun cd => !cd.isAnd) = true) :
    evalConds cs r g none = cs.any (fun cd => cd.eval r g none) := by
  cases cs with
  | nil => exact absurd rfl hne
  | cons cd rest =>
    simp only [List.tail_cons] at h
    simp only [evalConds, List.any_cons]
    exact go_or r g rest _ h

/-- a decider without `each` rows and with one plain output -/
theorem get_evalDecider_out1 (conds : List Cond) (o : DOut) (t : Sig) (hc : conds.any Cond.usesEach = false)
    (ho : o.sig = .sig t) (r g : SigMap) (s : Sig) :
    get (evalDecider { conds := conds, outs := [o] } r g) s =
      if evalConds conds r g none then (if t = s then (if o.copy then get (selIn o.sel r g) t else o.const) else 0) else 0 := by
  simp only [evalDecider, hc, Bool.false_eq_true, if_false]
  by_cases h : evalConds conds r g none
  · simp [h, DOut.emit, ho]
  · simp [h]

theorem cmp_mirror (op : CmpOp) (a b : I32) : cmp op.mirror b a = cmp op a b := by
  cases op <;> simp [CmpOp.mirror, cmp]
  · exact Bool.beq_comm
  · simp [bne, Bool.beq_comm (a := b)]

theorem condsMatch_sound (x : Ctx) (n e : Nat) (ih : ∀ m, m < n → Holds x.E x.nodes x.env x.bind m) :
    ∀ (conds : List Cond) (cs : List (CmpOp × Arg × Arg)),
      cs.all (fun (_, a, b) => argBelow n a && argBelow n b) = true →
      condsMatch x.c x.nodes x.bind e conds cs = true →
      conds.any Cond.usesEach = false ∧
      conds.map (fun cd => cd.eval (x.c.readR x.E e) (x.c.readG x.E e) none) =
        cs.map (fun (op, a, b) => cmp op (x.av a) (x.av b)) := by
  intro conds
  induction conds with
  | nil =>
    intro cs _ h
    cases cs with
    | nil => simp
    | cons _ _ => simp [condsMatch] at h
  | cons cd rest ihc =>
    intro cs hb h
    cases cs with
    | nil => simp [condsMatch] at h
    | cons c1 cs' =>
      obtain ⟨op, a, b⟩ := c1
      simp only [condsMatch, Bool.and_eq_true, Bool.or_eq_true, Bool.not_eq_true', beq_iff_eq] at h
      obtain ⟨⟨hu, hrow⟩, hrest⟩ := h
      simp only [List.all_cons, Bool.and_eq_true] at hb
      obtain ⟨⟨hba, hbb⟩, hb'⟩ := hb
      obtain ⟨hu', hmap⟩ := ihc cs' hb' hrest
      refine ⟨by simp [hu, hu'], ?_⟩
      simp only [List.map_cons, hmap]
      congr 1
      rcases hrow with ⟨⟨hop, h1⟩, h2⟩ | ⟨⟨hop, h1⟩, h2⟩
      · rw [cond_eval_plain cd _ _ (matchOperand_plain _ _ _ _ _ _ h1) hu,
          matchOperand_sound x e cd.first a n hba ih h1, matchOperand_sound x e cd.second b n hbb ih h2, hop]
      · rw [cond_eval_plain cd _ _ (matchOperand_plain _ _ _ _ _ _ h1) hu,
          matchOperand_sound x e cd.first b n hbb ih h1, matchOperand_sound x e cd.second a n hba ih h2, hop, cmp_mirror]

theorem all_map_eq {α β} (l1 : List α) (l2 : List β) (f : α → Bool) (g : β → Bool) (h : l1.map f = l2.map g) :
    l1.all f = l2.all g := by
  have : l1.all f = (l1.map f).all id := by simp [List.all_map]
  rw [this, h]; simp [List.all_map]

theorem any_map_eq {α β} (l1 : List α) (l2 : List β) (f : α → Bool) (g : β → Bool) (h : l1.map f = l2.map g) :
    l1.any f = l2.any g := by
  have : l1.any f = (l1.map f).any id := by simp [List.any_map]
  rw [this, h]; simp [List.any_map]

theorem isConstOneOut_spec (o : DOut) (s : Sig) (h : isConstOneOut o s = true) :
    o.sig = .sig s ∧ o.copy = false ∧ o.const = 1 := by
  unfold isConstOneOut at h
  simp only [Bool.and_eq_true, Bool.not_eq_true', beq_iff_eq] at h
  obtain ⟨⟨hsig, hcopy⟩, hk⟩ := h
  refine ⟨?_, hcopy, hk⟩
  cases hos : o.sig <;> simp_all

theorem outIs_spec (o : Option SigRef) (s : Sig) (h : outIs o s = true) : o = some (.sig s) := by
  unfold outIs at h
  cases o with
  | none => simp at h
  | some r => cases r <;> simp_all

theorem dout_sig_eq (r : SigRef) (s : Sig)
    (h : (match r with | .sig t => t == s | _ => false) = true) : r = .sig s := by
  cases r <;> simp_all

theorem decider_shape (conds : List Cond) (outs : List DOut) (P : Cond → DOut → Bool)
    (h : (match conds, outs with | [cd], [o] => P cd o | _, _ => false) = true) :
    ∃ cd o, conds = [cd] ∧ outs = [o] ∧ P cd o = true := by
  match conds, outs, h with
  | [cd], [o], h => exact ⟨cd, o, rfl, rfl, h⟩
  | [], _, h => simp at h
  | _ :: _ :: _, _, h => simp at h
  | [_], [], h => simp at h
  | [_], _ :: _ :: _, h => simp at h

theorem outs_shape (outs : List DOut) (P : DOut → Bool)
    (h : (match outs with | [o] => P o | _ => false) = true) : ∃ o, outs = [o] ∧ P o = true := by
  match outs, h with
  | [o], h => exact ⟨o, rfl, h⟩
  | [], h => simp at h
  | _ :: _ :: _, h => simp at h

/-- the output row of a gating decider carries the value of `w` -/
theorem outValIs_sound (x : Ctx) (n : Nat) (ih : ∀ m, m < n → Holds x.E x.nodes x.env x.bind m)
    (e : Nat) (o : DOut) (s : Sig) (w : Arg) (huw : argBelow n w = true)
    (hv : outValIs x.c x.bind e o s w = true) :
    (if o.copy then get (selIn o.sel (x.c.readR x.E e) (x.c.readG x.E e)) s else o.const) = x.av w := by
  unfold outValIs at hv
  cases w with
  | int k =>
    simp only [Bool.and_eq_true, Bool.not_eq_true', beq_iff_eq] at hv
    simp [hv.1, hv.2, Ctx.av, argVal]
  | node m =>
    have hm : m < n := by simpa [argBelow] using huw
    have hh := ih m hm
    unfold Holds at hh
    simp only at hv
    cases hb : x.bind m with
    | none => simp [hb] at hv
    | some b =>
      cases b with
      | konst k =>
        rw [hb] at hh
        simp only [hb, Bool.and_eq_true, Bool.not_eq_true', beq_iff_eq] at hv
        simp only [hv.1, Bool.false_eq_true, if_false, hv.2]
        exact hh.symm
      | ent ev sv =>
        rw [hb] at hh
        simp only [hb, Bool.and_eq_true, beq_iff_eq] at hv
        obtain ⟨⟨hcopy, hsv⟩, hiso⟩ := hv
        subst hsv
        simp only [hcopy, if_true]
        rw [read_isolated x.c x.E x.emits e o.sel sv ev hiso]
        exact hh
      | sum es s' => simp [hb] at hv
      | many es => simp [hb] at hv

/-! ## an entity computes a value expression -/

theorem entIs_sound (x : Ctx) (n : Nat) (ih : ∀ m, m < n → Holds x.E x.nodes x.env x.bind m) :
    ∀ (v : VExpr) (e : Nat) (s : Sig), v.under n = true → entIs x.c x.nodes x.bind v e s = true →
      get (x.E e) s = v.val x.av := by
  intro v
  induction v with
  | arg a => intro e s _ h; simp [entIs] at h
  | alu op y z ihy ihz =>
    intro e s hu h
    simp only [VExpr.under, Bool.and_eq_true] at hu
    simp only [entIs] at h
    cases hk : x.c.kind e with
    | arith cfg =>
      simp only [hk, Bool.and_eq_true, Bool.not_eq_true', beq_iff_eq] at h
      obtain ⟨⟨⟨⟨⟨hop, hf⟩, hs⟩, hout⟩, h1⟩, h2⟩ := h
      rw [x.out_eq e (x.inp_none_of_arith e cfg hk), hk]
      show get (evalArith cfg _ _) s = _
      rw [get_evalArith_scalar cfg s hf hs (outIs_spec _ _ hout), if_pos rfl,
        opIs_sound x n ih _ y e cfg.first (fun p t hp => ihy p t hu.1 hp) hu.1 h1,
        opIs_sound x n ih _ z e cfg.second (fun p t hp => ihz p t hu.2 hp) hu.2 h2, hop]
      rfl
    | _ => simp [hk] at h
  | cmpB op y z ihy ihz =>
    intro e s hu h
    simp only [VExpr.under, Bool.and_eq_true] at hu
    simp only [entIs] at h
    cases hk : x.c.kind e with
    | decider cfg =>
      simp only [hk] at h
      obtain ⟨cd, o, hcs, hos, hP⟩ := decider_shape cfg.conds cfg.outs _ h
      simp only [Bool.and_eq_true, Bool.not_eq_true', beq_iff_eq] at hP
      obtain ⟨⟨⟨⟨hu', hop⟩, ho⟩, h1⟩, h2⟩ := hP
      obtain ⟨hsig, hcopy, hone⟩ := isConstOneOut_spec o s ho
      have hcfg : cfg = { conds := [cd], outs := [o] } := by cases cfg; simp_all
      rw [x.out_eq e (x.inp_none_of_decider e cfg hk), hk, hcfg]
      show get (evalDecider _ _ _) s = _
      rw [get_evalDecider_single cd o s hu' hsig, cond_eval_plain cd _ _ (opIs_plain _ _ _ _ _ _ _ h1) hu',
        opIs_sound x n ih _ y e cd.first (fun p t hp => ihy p t hu.1 hp) hu.1 h1,
        opIs_sound x n ih _ z e cd.second (fun p t hp => ihz p t hu.2 hp) hu.2 h2, hop]
      simp [VExpr.val, boolI, hcopy, hone]
    | _ => simp [hk] at h
  | gate op y z w ihy ihz =>
    intro e s hu h
    simp only [VExpr.under, Bool.and_eq_true] at hu
    obtain ⟨⟨huy, huz⟩, huw⟩ := hu
    simp only [entIs] at h
    cases hk : x.c.kind e with
    | decider cfg =>
      simp only [hk] at h
      obtain ⟨cd, o, hcs, hos, hP⟩ := decider_shape cfg.conds cfg.outs _ h
      simp only [Bool.and_eq_true, Bool.not_eq_true', beq_iff_eq] at hP
      obtain ⟨⟨⟨⟨⟨hu', hop⟩, h1⟩, h2⟩, hsig⟩, hv⟩ := hP
      have hsig' := dout_sig_eq _ _ hsig
      have hcfg : cfg = { conds := [cd], outs := [o] } := by cases cfg; simp_all
      have hval := outValIs_sound x n ih e o s w huw hv
      rw [x.out_eq e (x.inp_none_of_decider e cfg hk), hk, hcfg]
      show get (evalDecider _ _ _) s = _
      rw [get_evalDecider_single cd o s hu' hsig', cond_eval_plain cd _ _ (opIs_plain _ _ _ _ _ _ _ h1) hu',
        opIs_sound x n ih _ y e cd.first (fun p t hp => ihy p t huy hp) huy h1,
        opIs_sound x n ih _ z e cd.second (fun p t hp => ihz p t huz hp) huz h2, hop, if_pos rfl, hval]
      rfl
    | _ => simp [hk] at h
  | allB cs =>
    intro e s hu h
    simp only [VExpr.under] at hu
    simp only [entIs] at h
    cases hk : x.c.kind e with
    | decider cfg =>
      simp only [hk] at h
      obtain ⟨o, hos, hP⟩ := outs_shape cfg.outs _ h
      simp only [Bool.and_eq_true, Bool.not_eq_true'] at hP
      obtain ⟨⟨⟨ho, hne⟩, htail⟩, hm⟩ := hP
      obtain ⟨hsig, hcopy, hone⟩ := isConstOneOut_spec o s ho
      obtain ⟨hany, hmap⟩ := condsMatch_sound x n e ih cfg.conds cs hu hm
      have hcne : cfg.conds ≠ [] := by
        intro hc
        rw [hc] at hmap
        cases cs with
        | nil => simp at hne
        | cons _ _ => simp at hmap
      have hcfg : cfg = { conds := cfg.conds, outs := [o] } := by cases cfg; simp_all
      rw [x.out_eq e (x.inp_none_of_decider e cfg hk), hk, hcfg]
      show get (evalDecider _ _ _) s = _
      rw [get_evalDecider_out1 cfg.conds o s hany hsig, evalConds_and cfg.conds _ _ hcne htail,
        all_map_eq _ _ _ _ hmap]
      simp [VExpr.val, boolI, hcopy, hone]
    | _ => simp [hk] at h
  | anyB cs =>
    intro e s hu h
    simp only [VExpr.under] at hu
    simp only [entIs] at h
    cases hk : x.c.kind e with
    | decider cfg =>
      simp only [hk] at h
      obtain ⟨o, hos, hP⟩ := outs_shape cfg.outs _ h
      simp only [Bool.and_eq_true, Bool.not_eq_true'] at hP
      obtain ⟨⟨⟨ho, hne⟩, htail⟩, hm⟩ := hP
      obtain ⟨hsig, hcopy, hone⟩ := isConstOneOut_spec o s ho
      obtain ⟨hany, hmap⟩ := condsMatch_sound x n e ih cfg.conds cs hu hm
      have hcne : cfg.conds ≠ [] := by
        intro hc
        rw [hc] at hmap
        cases cs with
        | nil => simp at hne
        | cons _ _ => simp at hmap
      have hcfg : cfg = { conds := cfg.conds, outs := [o] } := by cases cfg; simp_all
      rw [x.out_eq e (x.inp_none_of_decider e cfg hk), hk, hcfg]
      show get (evalDecider _ _ _) s = _
      rw [get_evalDecider_out1 cfg.conds o s hany hsig, evalConds_or cfg.conds _ _ hcne htail,
        any_map_eq _ _ _ _ hmap]
      simp [VExpr.val, boolI, hcopy, hone]
    | _ => simp [hk] at h


/-! ## what a Core node denotes, in terms of its arguments -/

section NodeVal
variable (nodes : Array CNode) (env : Env)

local notation "AV" => fun a => argVal nodes (evalNodes nodes env) a

theorem nodeVal_arith (n : Nat) (hn : n < nodes.size) (op : ArithOp) (a b : Arg) (ty : Sig)
    (hnd : nodes[n] = .arith op a b ty) (ha : argBelow n a = true) (hb : argBelow n b = true) :
    nodeVal nodes env n = alu op (argVal nodes (evalNodes nodes env) a) (argVal nodes (evalNodes nodes env) b) := by
  rw [nodeVal_eq nodes env n hn ty (by rw [hnd]; rfl), hnd]
  simp [evalNode, argVal_prefix nodes env n (by omega) a ha, argVal_prefix nodes env n (by omega) b hb]

theorem nodeVal_cmp (n : Nat) (hn : n < nodes.size) (op : CmpOp) (a b : Arg) (ty : Sig)
    (hnd : nodes[n] = .cmp op a b ty) (ha : argBelow n a = true) (hb : argBelow n b = true) :
    nodeVal nodes env n = boolI (cmp op (argVal nodes (evalNodes nodes env) a) (argVal nodes (evalNodes nodes env) b)) := by
  rw [nodeVal_eq nodes env n hn ty (by rw [hnd]; rfl), hnd]
  simp [evalNode, argVal_prefix nodes env n (by omega) a ha, argVal_prefix nodes env n (by omega) b hb]

theorem nodeVal_land (n : Nat) (hn : n < nodes.size) (a b : Arg) (ty : Sig)
    (hnd : nodes[n] = .land a b ty) (ha : argBelow n a = true) (hb : argBelow n b = true) :
    nodeVal nodes env n =
      boolI (argVal nodes (evalNodes nodes env) a != 0 && argVal nodes (evalNodes nodes env) b != 0) := by
  rw [nodeVal_eq nodes env n hn ty (by rw [hnd]; rfl), hnd]
  simp [evalNode, argVal_prefix nodes env n (by omega) a ha, argVal_prefix nodes env n (by omega) b hb]

theorem nodeVal_lor (n : Nat) (hn : n < nodes.size) (a b : Arg) (ty : Sig)
    (hnd : nodes[n] = .lor a b ty) (ha : argBelow n a = true) (hb : argBelow n b = true) :
    nodeVal nodes env n =
      boolI (argVal nodes (evalNodes nodes env) a != 0 || argVal nodes (evalNodes nodes env) b != 0) := by
  rw [nodeVal_eq nodes env n hn ty (by rw [hnd]; rfl), hnd]
  simp [evalNode, argVal_prefix nodes env n (by omega) a ha, argVal_prefix nodes env n (by omega) b hb]

theorem nodeVal_lnot (n : Nat) (hn : n < nodes.size) (a : Arg) (ty : Sig)
    (hnd : nodes[n] = .lnot a ty) (ha : argBelow n a = true) :
    nodeVal nodes env n = boolI (argVal nodes (evalNodes nodes env) a == 0) := by
  rw [nodeVal_eq nodes env n hn ty (by rw [hnd]; rfl), hnd]
  simp [evalNode, argVal_prefix nodes env n (by omega) a ha]

theorem nodeVal_proj (n : Nat) (hn : n < nodes.size) (a : Arg) (ty : Sig)
    (hnd : nodes[n] = .proj a ty) (ha : argBelow n a = true) :
    nodeVal nodes env n = argVal nodes (evalNodes nodes env) a := by
  rw [nodeVal_eq nodes env n hn ty (by rw [hnd]; rfl), hnd]
  simp [evalNode, argVal_prefix nodes env n (by omega) a ha]

theorem nodeVal_gate (n : Nat) (hn : n < nodes.size) (op : CmpOp) (a b v : Arg) (ty : Sig)
    (hnd : nodes[n] = .gate op a b v ty) (ha : argBelow n a = true) (hb : argBelow n b = true) (hv : argBelow n v = true) :
    nodeVal nodes env n =
      if cmp op (argVal nodes (evalNodes nodes env) a) (argVal nodes (evalNodes nodes env) b)
      then argVal nodes (evalNodes nodes env) v else 0 := by
  rw [nodeVal_eq nodes env n hn ty (by rw [hnd]; rfl), hnd]
  simp [evalNode, argVal_prefix nodes env n (by omega) a ha, argVal_prefix nodes env n (by omega) b hb,
    argVal_prefix nodes env n (by omega) v hv]

end NodeVal

/-- values of boolean nodes are 0 or 1 -/
theorem bool_nodeValF (nodes : Array CNode) (env : Env) :
    ∀ (f m : Nat), isBoolNodeF nodes f m = true → nodeVal nodes env m = 0 ∨ nodeVal nodes env m = 1 := by
  intro f
  induction f with
  | zero => intro m h; simp [isBoolNodeF] at h
  | succ f ih =>
    intro m h
    unfold isBoolNodeF at h
    cases hnd : nodes[m]? with
    | none => simp [hnd] at h
    | some nd =>
      obtain ⟨hn, hnd'⟩ := kind_getD nodes m nd hnd
      have bb : ∀ bv : Bool, boolI bv = 0 ∨ boolI bv = 1 := by intro bv; cases bv <;> simp [boolI]
      -- a boolean argument below `m`
      have argB : ∀ a : Arg, (match a with
            | .int k => k == 0 || k == 1
            | .node p => decide (p < m) && isBoolNodeF nodes f p) = true →
          argBelow m a = true ∧ (argVal nodes (evalNodes nodes env) a = 0 ∨ argVal nodes (evalNodes nodes env) a = 1) := by
        intro a ha
        cases a with
        | int k =>
          simp only [Bool.or_eq_true, beq_iff_eq] at ha
          exact ⟨rfl, by simpa [argVal] using ha⟩
        | node p =>
          simp only [Bool.and_eq_true, decide_eq_true_eq] at ha
          exact ⟨by simp [argBelow, ha.1], ih p ha.2⟩
      rw [hnd] at h
      cases nd with
      | cmp op a b ty =>
        rw [nodeVal_eq nodes env m hn ty (by rw [hnd']; rfl), hnd']; simp only [evalNode, get_single, if_pos rfl]; simpa using bb _
      | land a b ty =>
        rw [nodeVal_eq nodes env m hn ty (by rw [hnd']; rfl), hnd']; simp only [evalNode, get_single, if_pos rfl]; simpa using bb _
      | lor a b ty =>
        rw [nodeVal_eq nodes env m hn ty (by rw [hnd']; rfl), hnd']; simp only [evalNode, get_single, if_pos rfl]; simpa using bb _
      | lnot a ty =>
        rw [nodeVal_eq nodes env m hn ty (by rw [hnd']; rfl), hnd']; simp only [evalNode, get_single, if_pos rfl]; simpa using bb _
      | gate op a b w ty =>
        cases w with
        | node q => simp at h
        | int k =>
          simp only [Bool.or_eq_true, beq_iff_eq] at h
          rw [nodeVal_eq nodes env m hn ty (by rw [hnd']; rfl), hnd']
          simp only [evalNode, get_single, if_pos rfl]
          have hk : argVal nodes (evalUpTo nodes env m) (.int k) = k := rfl
          rw [hk]
          generalize cmp op (argVal nodes (evalUpTo nodes env m) a) (argVal nodes (evalUpTo nodes env m) b) = cb
          cases cb
          · left; simp
          · simpa using h
      | const ty v =>
        simp only [Bool.or_eq_true, beq_iff_eq] at h
        rw [nodeVal_eq nodes env m hn ty (by rw [hnd']; rfl), hnd']
        simpa [evalNode] using h
      | arith op a b ty =>
        cases op with
        | mul =>
          simp only [Bool.and_eq_true] at h
          obtain ⟨ha1, ha2⟩ := argB a h.1
          obtain ⟨hb1, hb2⟩ := argB b h.2
          rw [nodeVal_eq nodes env m hn ty (by rw [hnd']; rfl), hnd']
          simp only [evalNode, get_single, if_pos rfl, argVal_prefix nodes env m (by omega) a ha1,
            argVal_prefix nodes env m (by omega) b hb1]
          rcases ha2 with e1 | e1 <;> rcases hb2 with e2 | e2 <;> rw [e1, e2] <;> decide
        | _ => simp at h
      | proj a ty =>
        obtain ⟨ha1, ha2⟩ := argB a h
        rw [nodeVal_eq nodes env m hn ty (by rw [hnd']; rfl), hnd']
        simp only [evalNode, get_single, if_pos rfl, argVal_prefix nodes env m (by omega) a ha1]
        exact ha2
      | _ => simp at h

theorem bool_nodeVal (nodes : Array CNode) (env : Env) (m : Nat) (h : isBoolNode nodes m = true) :
    nodeVal nodes env m = 0 ∨ nodeVal nodes env m = 1 :=
  bool_nodeValF nodes env (m + 1) m h

theorem bool_argVal (nodes : Array CNode) (env : Env) (a : Arg) (h : isBoolArg nodes a = true) :
    argVal nodes (evalNodes nodes env) a = 0 ∨ argVal nodes (evalNodes nodes env) a = 1 := by
  cases a with
  | int k =>
    simp only [isBoolArg, Bool.or_eq_true, beq_iff_eq] at h
    simpa [argVal] using h
  | node m => exact bool_nodeVal nodes env m h

@[simp] theorem boolI_ne_zero (b : Bool) : (boolI b != 0) = b := by cases b <;> decide
@[simp] theorem boolI_ne_zero' (b : Bool) : (boolI b != 0#32) = b := by cases b <;> decide

/-- a homogeneous chain denotes the conjunction / disjunction of its comparisons -/
theorem chain_sound (nodes : Array CNode) (env : Env) (isAnd : Bool) :
    ∀ (f m : Nat) (l : List (CmpOp × Arg × Arg)), chain nodes isAnd f m = some l → m < nodes.size →
      nodeVal nodes env m =
        boolI (if isAnd then l.all (fun (op, a, b) => cmp op (argVal nodes (evalNodes nodes env) a) (argVal nodes (evalNodes nodes env) b))
               else l.any (fun (op, a, b) => cmp op (argVal nodes (evalNodes nodes env) a) (argVal nodes (evalNodes nodes env) b))) := by
  intro f
  induction f with
  | zero => intro m l h; simp [chain] at h
  | succ f ih =>
    intro m l h hm
    have hnd : nodes[m]? = some nodes[m] := Array.getElem?_eq_getElem hm
    unfold chain at h
    rw [hnd] at h
    cases hk : nodes[m] with
    | cmp op a b ty =>
      rw [hk] at h
      simp only at h
      split at h
      · rename_i hb
        simp only [Bool.and_eq_true] at hb
        injection h with h
        subst h
        rw [nodeVal_cmp nodes env m hm op a b ty hk hb.1 hb.2]
        cases isAnd <;> simp
      · cases h
    | land a b ty =>
      rw [hk] at h
      cases a with
      | int _ => simp at h
      | node p =>
        cases b with
        | int _ => simp at h
        | node q =>
          simp only at h
          split at h
          · rename_i hc
            simp only [Bool.and_eq_true, decide_eq_true_eq] at hc
            obtain ⟨⟨hand, hp⟩, hq⟩ := hc
            subst hand
            cases h1 : chain nodes true f p with
            | none => simp [h1] at h
            | some l1 =>
              cases h2 : chain nodes true f q with
              | none => simp [h1, h2] at h
              | some l2 =>
                simp only [h1, h2] at h
                injection h with h
                subst h
                have e1 := ih p l1 h1 (by omega)
                have e2 := ih q l2 h2 (by omega)
                unfold nodeVal at e1 e2
                rw [nodeVal_land nodes env m hm (.node p) (.node q) ty hk (by simp [argBelow, hp]) (by simp [argBelow, hq]),
                  e1, e2]
                simp [boolI_ne_zero, List.all_append]
          · cases h
    | lor a b ty =>
      rw [hk] at h
      cases a with
      | int _ => simp at h
      | node p =>
        cases b with
        | int _ => simp at h
        | node q =>
          simp only at h
          split at h
          · rename_i hc
            simp only [Bool.and_eq_true, decide_eq_true_eq, Bool.not_eq_true'] at hc
            obtain ⟨⟨hand, hp⟩, hq⟩ := hc
            subst hand
            cases h1 : chain nodes false f p with
            | none => simp [h1] at h
            | some l1 =>
              cases h2 : chain nodes false f q with
              | none => simp [h1, h2] at h
              | some l2 =>
                simp only [h1, h2] at h
                injection h with h
                subst h
                have e1 := ih p l1 h1 (by omega)
                have e2 := ih q l2 h2 (by omega)
                unfold nodeVal at e1 e2
                rw [nodeVal_lor nodes env m hm (.node p) (.node q) ty hk (by simp [argBelow, hp]) (by simp [argBelow, hq]),
                  e1, e2]
                simp [boolI_ne_zero, List.any_append]
          · cases h
    | _ => rw [hk] at h; simp at h

theorem and_ne0 (a b : I32) : alu .mul (boolI (cmp .ne a 0)) (boolI (cmp .ne b 0)) = boolI (a != 0 && b != 0) := by
  have : ∀ p q : Bool, alu .mul (boolI p) (boolI q) = boolI (p && q) := by intro p q; cases p <;> cases q <;> decide
  simp only [cmp]
  exact this _ _

theorem or_ne0 (a b : I32) :
    boolI (cmp .gt (alu .add (boolI (cmp .ne a 0)) (boolI (cmp .ne b 0))) 0) = boolI (a != 0 || b != 0) := by
  have : ∀ p q : Bool, boolI (cmp .gt (alu .add (boolI p) (boolI q)) 0) = boolI (p || q) := by
    intro p q; cases p <;> cases q <;> decide
  simp only [cmp]
  exact this _ _

/-- every candidate lowering of node `m` denotes the node's value -/
theorem lowerings_sound (nodes : Array CNode) (env : Env) :
    ∀ (f m : Nat) (v : VExpr), v ∈ lowerings nodes f m → m < nodes.size →
      v.val (fun a => argVal nodes (evalNodes nodes env) a) = nodeVal nodes env m := by
  intro f
  induction f with
  | zero => intro m v h; simp [lowerings] at h
  | succ f ih =>
    intro m v h hm
    have hnd : nodes[m]? = some nodes[m] := Array.getElem?_eq_getElem hm
    unfold lowerings at h
    rw [hnd] at h
    simp only at h
    split at h
    · simp at h
    · rename_i hargs
      have hargs : nodes[m].argsBelow m = true := by simpa using hargs
      cases hk : nodes[m] with
      | arith op a b ty =>
        rw [hk] at h hargs
        simp only [CNode.argsBelow, Bool.and_eq_true] at hargs
        have hv := nodeVal_arith nodes env m hm op a b ty hk hargs.1 hargs.2
        simp only [List.mem_cons] at h
        rcases h with h | h
        · subst h; simp [VExpr.val, hv]
        · split at h
          · rename_i k
            split at h
            · rename_i hk0
              have hk0 : k = 0 := by simpa using hk0
              subst hk0
              simp only [List.mem_cons, List.not_mem_nil, or_false] at h
              subst h
              simp only [VExpr.val, hv, argVal]
              exact rule_neg _
            · simp at h
          · simp at h
      | cmp op a b ty =>
        rw [hk] at h hargs
        simp only [CNode.argsBelow, Bool.and_eq_true] at hargs
        simp only [List.mem_cons, List.not_mem_nil, or_false] at h
        rcases h with h | h
        · subst h
          simp [VExpr.val, nodeVal_cmp nodes env m hm op a b ty hk hargs.1 hargs.2]
        · subst h
          simp [VExpr.val, nodeVal_cmp nodes env m hm op a b ty hk hargs.1 hargs.2, cmp_mirror]
      | lnot a ty =>
        rw [hk] at h hargs
        simp only [CNode.argsBelow] at hargs
        simp only [List.mem_cons, List.not_mem_nil, or_false] at h
        subst h
        simp [VExpr.val, nodeVal_lnot nodes env m hm a ty hk hargs, cmp, argVal]
      | gate op a b w ty =>
        rw [hk] at h hargs
        simp only [CNode.argsBelow, Bool.and_eq_true] at hargs
        simp only [List.mem_cons, List.not_mem_nil, or_false] at h
        rcases h with h | h
        · subst h
          simp only [VExpr.val]
          rw [nodeVal_gate nodes env m hm op a b w ty hk hargs.1.1 hargs.1.2 hargs.2]
          split <;> rename_i hc <;> simp [hc]
        · subst h
          simp only [VExpr.val, cmp_mirror]
          rw [nodeVal_gate nodes env m hm op a b w ty hk hargs.1.1 hargs.1.2 hargs.2]
      | proj a ty =>
        rw [hk] at h hargs
        simp only [CNode.argsBelow] at hargs
        have hv := nodeVal_proj nodes env m hm a ty hk hargs
        simp only [List.mem_cons] at h
        rcases h with h | h
        · subst h; simp [VExpr.val, hv, alu, argVal]
        · cases a with
          | int k => simp at h
          | node p =>
            have hp : p < m := by simpa [argBelow] using hargs
            simp only at h
            rw [ih p v h (by omega), hv]
            rfl
      | land a b ty =>
        rw [hk] at h hargs
        simp only [CNode.argsBelow, Bool.and_eq_true] at hargs
        have hv := nodeVal_land nodes env m hm a b ty hk hargs.1 hargs.2
        simp only [List.mem_append] at h
        rcases h with (h | h) | h
        · split at h
          · rename_i hb
            simp only [Bool.and_eq_true] at hb
            simp only [List.mem_cons, List.not_mem_nil, or_false] at h
            subst h
            simp only [VExpr.val, hv]
            exact rule_and_bool _ _ (bool_argVal nodes env a hb.1) (bool_argVal nodes env b hb.2)
          · simp at h
        · simp only [List.mem_cons, List.not_mem_nil, or_false] at h
          subst h
          simp only [VExpr.val, ne0, hv, argVal]
          exact and_ne0 _ _
        · cases hc : chain nodes true (f + 1) m with
          | none => simp [hc] at h
          | some l =>
            simp only [hc, List.mem_cons, List.not_mem_nil, or_false] at h
            subst h
            have := chain_sound nodes env true (f + 1) m l hc hm
            simp only [if_true] at this
            simp only [VExpr.val, this]
      | lor a b ty =>
        rw [hk] at h hargs
        simp only [CNode.argsBelow, Bool.and_eq_true] at hargs
        have hv := nodeVal_lor nodes env m hm a b ty hk hargs.1 hargs.2
        simp only [List.mem_append] at h
        rcases h with (h | h) | h
        · split at h
          · rename_i hb
            simp only [Bool.and_eq_true] at hb
            simp only [List.mem_cons, List.not_mem_nil, or_false] at h
            subst h
            simp only [VExpr.val, hv, argVal]
            exact rule_or_bool _ _ (bool_argVal nodes env a hb.1) (bool_argVal nodes env b hb.2)
          · simp at h
        · simp only [List.mem_cons, List.not_mem_nil, or_false] at h
          subst h
          simp only [VExpr.val, ne0, hv, argVal]
          exact or_ne0 _ _
        · cases hc : chain nodes false (f + 1) m with
          | none => simp [hc] at h
          | some l =>
            simp only [hc, List.mem_cons, List.not_mem_nil, or_false] at h
            subst h
            have := chain_sound nodes env false (f + 1) m l hc hm
            simp only [Bool.false_eq_true, if_false] at this
            simp only [VExpr.val, this]
      | _ => rw [hk] at h; simp at h

/-! ## nodes without a combinator of their own: selections and additions folded into the wires -/

theorem nodeVal_select (nodes : Array CNode) (env : Env) (n : Nat) (hn : n < nodes.size) (b : Nat) (ty : Sig)
    (hnd : nodes[n] = .select b ty) (hb : b < n) :
    nodeVal nodes env n = get ((evalNodes nodes env).getD b []) ty := by
  rw [nodeVal_eq nodes env n hn ty (by rw [hnd]; rfl), hnd]
  simp [evalNode, evalUpTo_prefix nodes env n b hb (by omega)]

theorem scalarEnts_sound (x : Ctx) (n : Nat) (ih : ∀ m, m < n → Holds x.E x.nodes x.env x.bind m)
    (s : Sig) (a : Arg) (es : List Nat) (ha : argBelow n a = true) (h : scalarEnts x.bind s a = some es) :
    get (Circuit.sumOuts es x.E) s = x.av a := by
  unfold scalarEnts at h
  cases a with
  | int k => simp at h
  | node m =>
    have hm : m < n := by simpa [argBelow] using ha
    have hh := ih m hm
    unfold Holds at hh
    simp only at h
    cases hb : x.bind m with
    | none => simp [hb] at h
    | some b =>
      rw [hb] at hh h
      cases b with
      | konst k => simp at h
      | many es' => simp at h
      | ent e s' =>
        simp only at h
        split at h
        · rename_i hs
          have hs : s' = s := by simpa using hs
          subst hs
          injection h with h
          subst h
          rw [get_sumOuts_single]
          exact hh
        · cases h
      | sum es' s' =>
        simp only at h
        split at h
        · rename_i hs
          have hs : s' = s := by simpa using hs
          subst hs
          injection h with h
          subst h
          exact hh
        · cases h

theorem checkSum_sound (x : Ctx) (n : Nat) (hn : n < x.nodes.size) (es : List Nat) (s : Sig)
    (hbind : x.bind n = some (.sum es s))
    (ih : ∀ m, m < n → Holds x.E x.nodes x.env x.bind m)
    (h : checkSum x.bind n x.nodes[n] es s = true) : Holds x.E x.nodes x.env x.bind n := by
  unfold Holds
  rw [hbind]
  show get (Circuit.sumOuts es x.E) s = nodeVal x.nodes x.env n
  unfold checkSum at h
  cases hk : x.nodes[n] with
  | select b ty =>
    rw [hk] at h
    simp only [Bool.and_eq_true, decide_eq_true_eq, beq_iff_eq] at h
    obtain ⟨⟨hb, hty⟩, hm⟩ := h
    subst hty
    have hh := ih b hb
    unfold Holds at hh
    cases hbb : x.bind b with
    | none => simp [hbb] at hm
    | some bb =>
      rw [hbb] at hm hh
      cases bb with
      | many eb =>
        have : es = eb := by simpa using hm
        subst this
        rw [nodeVal_select x.nodes x.env n hn b ty hk hb]
        exact hh ty
      | _ => simp at hm
  | memRead m ty =>
    rw [hk] at h
    have hty : ty = s := by simpa using h
    subst hty
    have hnode : x.nodes[n]? = some (.memRead m ty) := by rw [Array.getElem?_eq_getElem hn, hk]
    obtain ⟨hov, hval⟩ := x.hagree.2.2.2.2 n m ty es hnode hbind
    have hE : ∀ e, e ∈ es → x.E e = (x.inp e).getD [] := by
      intro e he
      have := hov e he
      cases hi : x.inp e with
      | none => rw [hi] at this; cases this
      | some mm =>
        rw [← x.hfix e]; unfold Circuit.evalEnt; rw [hi]; rfl
    have hs : Circuit.sumOuts es x.E = Circuit.sumOuts es (fun e => (x.inp e).getD []) := by
      unfold Circuit.sumOuts
      congr 1
      apply List.map_congr_left
      intro e he
      exact hE e he
    rw [hs, hval, nodeVal_eq x.nodes x.env n hn ty (by rw [hk]; rfl), hk]
    simp [evalNode]
  | arith op a b ty =>
    rw [hk] at h
    cases op with
    | add =>
      simp only [Bool.and_eq_true] at h
      obtain ⟨⟨ha, hb⟩, hm⟩ := h
      cases h1 : scalarEnts x.bind s a with
      | none => simp [h1] at hm
      | some ea =>
        cases h2 : scalarEnts x.bind s b with
        | none => simp [h1, h2] at hm
        | some eb =>
          simp only [h1, h2, beq_iff_eq] at hm
          subst hm
          rw [get_sumOuts_append, scalarEnts_sound x n ih s a ea ha h1, scalarEnts_sound x n ih s b eb hb h2,
            nodeVal_arith x.nodes x.env n hn .add a b ty hk ha hb]
          rfl
    | _ => simp at h
  | _ => rw [hk] at h; simp at h

/-! ## `any(b)` / `all(b)` comparisons -/

theorem any_support_congr (m1 m2 : SigMap) (h : ∀ s, get m1 s = get m2 s) (P : I32 → Bool) :
    (support m1).any (fun s => P (get m1 s)) = (support m2).any (fun s => P (get m2 s)) := by
  apply Bool.eq_iff_iff.mpr
  simp only [List.any_eq_true, mem_support]
  constructor
  · rintro ⟨s, hs, hp⟩
    exact ⟨s, by rwa [← h s], by rwa [← h s]⟩
  · rintro ⟨s, hs, hp⟩
    exact ⟨s, by rwa [h s], by rwa [h s]⟩

theorem all_support_congr (m1 m2 : SigMap) (h : ∀ s, get m1 s = get m2 s) (P : I32 → Bool) :
    (support m1).all (fun s => P (get m1 s)) = (support m2).all (fun s => P (get m2 s)) := by
  apply Bool.eq_iff_iff.mpr
  simp only [List.all_eq_true, mem_support]
  constructor
  · intro hh s hs
    have := hh s (by rwa [h s])
    rwa [← h s]
  · intro hh s hs
    have := hh s (by rwa [← h s])
    rwa [h s]

theorem rhs_plain (cd : Cond) (r g : SigMap) (k : Option Sig) (hp : cd.second.isPlain = true) :
    cd.rhs r g k = cd.second.val r g := by
  unfold Cond.rhs
  cases hs : cd.second with
  | const v => cases k <;> simp
  | ref rf sel =>
    cases rf with
    | sig t => cases k <;> simp
    | each => simp_all [Operand.isPlain]
    | anything => simp_all [Operand.isPlain]
    | everything => simp_all [Operand.isPlain]

theorem plain_not_each (o : Operand) (hp : o.isPlain = true) : o.isEach = false := by
  cases o with
  | const v => rfl
  | ref rf sel => cases rf <;> simp_all [Operand.isPlain, Operand.isEach]

/-- the quantified value `any`/`all` compute over a bundle -/
def quantVal (isAny : Bool) (m : SigMap) (op : CmpOp) (k : I32) : Bool :=
  if isAny then (support m).any (fun t => cmp op (get m t) k) else (support m).all (fun t => cmp op (get m t) k)

theorem checkQuant_core (x : Ctx) (n : Nat) (ih : ∀ m, m < n → Holds x.E x.nodes x.env x.bind m)
    (isAny : Bool) (b : Nat) (op : CmpOp) (rhs : Arg) (out : Option Arg) (e : Nat) (s : Sig)
    (h : checkQuant x.c x.nodes x.bind n isAny b op rhs out e s = true) :
    b < n ∧ argBelow n rhs = true ∧ (∀ o, out = some o → argBelow n o = true) ∧
    get (x.E e) s =
      (if quantVal isAny ((evalNodes x.nodes x.env).getD b []) op (x.av rhs)
       then x.av (out.getD (.int 1)) else 0) := by
  unfold checkQuant at h
  simp only [Bool.and_eq_true, decide_eq_true_eq] at h
  obtain ⟨⟨⟨hb, hrhs⟩, hout⟩, hm⟩ := h
  have hout' : ∀ o, out = some o → argBelow n o = true := by
    intro o ho; subst ho; simpa using hout
  refine ⟨hb, hrhs, hout', ?_⟩
  cases hk : x.c.kind e with
  | decider cfg =>
    rw [hk] at hm
    cases hbb : x.bind b with
    | none => simp [hbb] at hm
    | some bb =>
      cases bb with
      | many eb =>
        simp only [hbb] at hm
        obtain ⟨cd, o, hcs, hos, hP⟩ := decider_shape cfg.conds cfg.outs _ hm
        simp only [Bool.and_eq_true, beq_iff_eq] at hP
        obtain ⟨⟨⟨⟨⟨hfirst, hop⟩, hplain⟩, hmo⟩, hsig⟩, hov⟩ := hP
        have hsig' := dout_sig_eq _ _ hsig
        have hcfg : cfg = { conds := [cd], outs := [o] } := by cases cfg; simp_all
        have hhb := ih b hb
        unfold Holds at hhb
        rw [hbb] at hhb
        have hw : argBelow n (out.getD (.int 1)) = true := by
          cases out with
          | none => rfl
          | some v => exact hout' v rfl
        have hval := outValIs_sound x n ih e o s _ hw hov
        have hsec := matchOperand_sound x e cd.second rhs n hrhs ih hmo
        have hne : cd.second.isEach = false := plain_not_each _ hplain
        rw [x.out_eq e (x.inp_none_of_decider e cfg hk), hk, hcfg]
        show get (evalDecider _ _ _) s = _
        cases hf : cd.first with
        | const v => rw [hf] at hfirst; simp at hfirst
        | ref rf sel =>
          rw [hf] at hfirst
          have hue : cd.usesEach = false := by
            unfold Cond.usesEach
            rw [hf, hne]
            cases rf <;> simp_all [Operand.isEach]
          rw [get_evalDecider_single cd o s hue hsig', if_pos rfl, hval]
          cases rf with
          | sig t => simp at hfirst
          | each => simp at hfirst
          | anything =>
            simp only [Bool.and_eq_true] at hfirst
            obtain ⟨hany, hcar⟩ := hfirst
            subst hany
            have hin := fun t => (carries_sound x.c x.E x.emits e sel eb hcar t).trans (hhb t)
            have : cd.eval (x.c.readR x.E e) (x.c.readG x.E e) none =
                quantVal true ((evalNodes x.nodes x.env).getD b []) op (x.av rhs) := by
              unfold Cond.eval quantVal
              rw [hf, rhs_plain cd _ _ _ hplain, hsec, hop]
              simp only [if_true]
              exact any_support_congr _ _ hin (fun v => cmp op v (x.av rhs))
            rw [this]
          | everything =>
            simp only [Bool.and_eq_true, Bool.not_eq_true'] at hfirst
            obtain ⟨hany, hcar⟩ := hfirst
            subst hany
            have hin := fun t => (carries_sound x.c x.E x.emits e sel eb hcar t).trans (hhb t)
            have : cd.eval (x.c.readR x.E e) (x.c.readG x.E e) none =
                quantVal false ((evalNodes x.nodes x.env).getD b []) op (x.av rhs) := by
              unfold Cond.eval quantVal
              rw [hf, rhs_plain cd _ _ _ hplain, hsec, hop]
              simp only [Bool.false_eq_true, if_false]
              exact all_support_congr _ _ hin (fun v => cmp op v (x.av rhs))
            rw [this]
      | _ => simp [hbb] at hm
  | _ => rw [hk] at hm; simp at hm

theorem sound_anyCmp (x : Ctx) (n e : Nat) (s : Sig) (hn : n < x.nodes.size) (b : Nat) (op : CmpOp) (rhs : Arg)
    (out : Option Arg) (ty : Sig) (hk : x.nodes[n] = .anyCmp b op rhs out ty)
    (hbind : x.bind n = some (.ent e s)) (ih : ∀ m, m < n → Holds x.E x.nodes x.env x.bind m)
    (h : checkQuant x.c x.nodes x.bind n true b op rhs out e s = true) : Holds x.E x.nodes x.env x.bind n := by
  unfold Holds
  rw [hbind]
  show get (x.E e) s = nodeVal x.nodes x.env n
  obtain ⟨hb, hrhs, hout, hval⟩ := checkQuant_core x n ih true b op rhs out e s h
  rw [hval, nodeVal_eq x.nodes x.env n hn ty (by rw [hk]; rfl), hk]
  simp only [evalNode, get_single, if_pos rfl, quantVal, if_true, Ctx.av,
    evalUpTo_prefix x.nodes x.env n b hb (by omega), argVal_prefix x.nodes x.env n (by omega) rhs hrhs]
  cases out with
  | none => simp [argVal]
  | some o => simp [argVal_prefix x.nodes x.env n (by omega) o (hout o rfl)]

theorem sound_allCmp (x : Ctx) (n e : Nat) (s : Sig) (hn : n < x.nodes.size) (b : Nat) (op : CmpOp) (rhs : Arg)
    (out : Option Arg) (ty : Sig) (hk : x.nodes[n] = .allCmp b op rhs out ty)
    (hbind : x.bind n = some (.ent e s)) (ih : ∀ m, m < n → Holds x.E x.nodes x.env x.bind m)
    (h : checkQuant x.c x.nodes x.bind n false b op rhs out e s = true) : Holds x.E x.nodes x.env x.bind n := by
  unfold Holds
  rw [hbind]
  show get (x.E e) s = nodeVal x.nodes x.env n
  obtain ⟨hb, hrhs, hout, hval⟩ := checkQuant_core x n ih false b op rhs out e s h
  rw [hval, nodeVal_eq x.nodes x.env n hn ty (by rw [hk]; rfl), hk]
  simp only [evalNode, get_single, if_pos rfl, quantVal, Bool.false_eq_true, if_false, Ctx.av,
    evalUpTo_prefix x.nodes x.env n b hb (by omega), argVal_prefix x.nodes x.env n (by omega) rhs hrhs]
  cases out with
  | none => simp [argVal]
  | some o => simp [argVal_prefix x.nodes x.env n (by omega) o (hout o rfl)]

/-! ## bundle nodes -/

theorem get_flatten_cond_nodup (l : List Sig) (hl : l.Nodup) (p : Sig → Bool) (f : Sig → I32) (s : Sig) :
    get ((l.map (fun k => if p k then [(k, f k)] else [])).flatten) s = if s ∈ l ∧ p s = true then f s else 0 := by
  induction l with
  | nil => simp
  | cons k l ih =>
    rw [List.nodup_cons] at hl
    simp only [List.map_cons, List.flatten_cons, get_append, ih hl.2, List.mem_cons]
    by_cases hks : k = s
    · subst hks
      by_cases hp : p k = true
      · simp [hp, hl.1]
      · simp [hp]
    · have : ¬ s = k := fun e => hks e.symm
      by_cases hp : p k = true
      · simp [hp, hks, this]
      · simp [hp, this]

/-- one `each` row with a plain right-hand side and one `each` output -/
theorem get_evalDecider_each1 (cd : Cond) (o : DOut) (sel : Sel) (hf : cd.first = .ref .each sel)
    (hp : cd.second.isPlain = true) (ho : o.sig = .each) (r g : SigMap) (s : Sig) :
    get (evalDecider { conds := [cd], outs := [o] } r g) s =
      if get (selIn sel r g) s ≠ 0 ∧ cmp cd.op (get (selIn sel r g) s) (cd.second.val r g) = true
      then (if o.copy then get (selIn o.sel r g) s else o.const) else 0 := by
  have hne := plain_not_each _ hp
  have hany : List.any [cd] Cond.usesEach = true := by simp [Cond.usesEach, hf, Operand.isEach]
  have hsels : cd.eachSels = [sel] := by
    unfold Cond.eachSels
    rw [hf]
    cases hs : cd.second with
    | const v => rfl
    | ref rf sl => cases rf <;> simp_all [Operand.isPlain]
  unfold evalDecider
  simp only [hany, if_true]
  have hdom : eachDomain [cd] r g = dedup (support (selIn sel r g)) := by
    simp [eachDomain, hsels]
  rw [hdom]
  have hbody : ∀ k, (if evalConds [cd] r g (some k) = true then (List.map (fun o => o.emit r g (some k)) [o]).flatten else []) =
      (if cmp cd.op (get (selIn sel r g) k) (cd.second.val r g) = true
       then [(k, if o.copy then get (selIn o.sel r g) k else o.const)] else []) := by
    intro k
    have he : evalConds [cd] r g (some k) = cmp cd.op (get (selIn sel r g) k) (cd.second.val r g) := by
      simp only [evalConds, evalConds.go, Cond.eval, hf, rhs_plain cd r g (some k) hp]
    rw [he]
    simp [DOut.emit, ho]
  simp only [hbody]
  rw [get_flatten_cond_nodup _ (nodup_dedup _)]
  simp only [mem_dedup, mem_support]

theorem get_evalNode_bfilter (nodes : Array CNode) (env : Env) (vals : Array SigMap) (op : CmpOp) (b : Nat) (k : Arg)
    (out : Option I32) (s : Sig) :
    get (evalNode nodes env vals (.bfilter op b k out)) s =
      if get (vals.getD b []) s ≠ 0 ∧ cmp op (get (vals.getD b []) s) (argVal nodes vals k) = true
      then (match out with | none => get (vals.getD b []) s | some c => c) else 0 := by
  simp only [evalNode]
  exact get_map_filter_support (vals.getD b []) (fun x => cmp op (get (vals.getD b []) x) (argVal nodes vals k))
    (fun x => match out with | none => get (vals.getD b []) x | some c => c) s

theorem evalNode_scalar_shape (nodes : Array CNode) (env : Env) (vals : Array SigMap) (nd : CNode) (ty : Sig)
    (h : nd.ty? = some ty) : ∃ w, evalNode nodes env vals nd = [(ty, w)] := by
  cases nd <;> simp [CNode.ty?] at h <;> subst h <;> exact ⟨_, rfl⟩

theorem partEnts_sound (x : Ctx) (n p : Nat) (hp : p < n) (hn : n ≤ x.nodes.size)
    (ih : ∀ m, m < n → Holds x.E x.nodes x.env x.bind m) (a : List Nat)
    (h : partEnts x.c x.nodes x.bind p = some a) (s : Sig) :
    get (Circuit.sumOuts a x.E) s = get ((evalNodes x.nodes x.env).getD p []) s := by
  have hps : p < x.nodes.size := by omega
  have hnd : x.nodes[p]? = some x.nodes[p] := Array.getElem?_eq_getElem hps
  have hh := ih p hp
  unfold Holds at hh
  unfold partEnts at h
  cases hb : x.bind p with
  | none => simp [hb] at h
  | some bb =>
    rw [hb] at h hh
    cases bb with
    | konst k => simp at h
    | sum es s' => simp at h
    | many es =>
      simp only [hnd] at h
      split at h
      · injection h with h
        subst h
        exact hh s
      · cases h
    | ent e s0 =>
      simp only [hnd] at h
      by_cases hc : (x.nodes[p].ty? == some s0 && x.c.emitsOnly e s0) = true
      · rw [if_pos hc] at h
        injection h with h
        subst h
        simp only [Bool.and_eq_true, beq_iff_eq] at hc
        obtain ⟨hty, hemit⟩ := hc
        obtain ⟨w, hw⟩ := evalNode_scalar_shape x.nodes x.env (evalUpTo x.nodes x.env p) x.nodes[p] s0 hty
        have hv : (evalNodes x.nodes x.env).getD p [] = [(s0, w)] := by
          rw [evalNodes_getD x.nodes x.env p hps, hw]
        have hnv : nodeVal x.nodes x.env p = w := by
          rw [nodeVal_eq x.nodes x.env p hps s0 hty, hw]
          simp
        rw [get_sumOuts_single, hv, get_single]
        by_cases hs : s0 = s
        · subst hs
          rw [if_pos rfl, hh, hnv]
        · rw [if_neg hs]
          apply x.emits
          unfold Circuit.emitsOnly at hemit
          unfold Circuit.mayEmit
          cases hl : x.c.emitListOf e with
          | none => rw [hl] at hemit; simp at hemit
          | some l =>
            rw [hl] at hemit
            simp only [List.all_eq_true, beq_iff_eq] at hemit
            simp only [List.contains_eq_mem, decide_eq_false_iff_not]
            intro hm
            exact hs (hemit s hm).symm
      · rw [if_neg hc] at h
        cases h

theorem partsEnts_sound (x : Ctx) (n : Nat) (hn : n ≤ x.nodes.size)
    (ih : ∀ m, m < n → Holds x.E x.nodes x.env x.bind m) :
    ∀ (parts : List Nat) (es : List Nat), partsEnts x.c x.nodes x.bind n parts = some es → ∀ s,
      get (Circuit.sumOuts es x.E) s =
        get ((parts.map (fun p => (evalUpTo x.nodes x.env n).getD p [])).flatten) s := by
  intro parts
  induction parts with
  | nil =>
    intro es h s
    simp only [partsEnts] at h
    injection h with h
    subst h
    rfl
  | cons p ps ihp =>
    intro es h s
    simp only [partsEnts] at h
    split at h
    · rename_i hp
      cases h1 : partEnts x.c x.nodes x.bind p with
      | none => simp [h1] at h
      | some a =>
        cases h2 : partsEnts x.c x.nodes x.bind n ps with
        | none => simp [h1, h2] at h
        | some b =>
          simp only [h1, h2] at h
          injection h with h
          subst h
          simp only [List.map_cons, List.flatten_cons, get_append, get_sumOuts_append]
          rw [partEnts_sound x n p hp hn ih a h1 s, ihp b h2 s, evalUpTo_prefix x.nodes x.env n p hp hn]
    · cases h

theorem get_perm (s : Sig) {m1 m2 : SigMap} (h : m1.Perm m2) : get m1 s = get m2 s := by
  induction h with
  | nil => rfl
  | cons x _ ih => obtain ⟨k, v⟩ := x; simp only [get_cons, ih]
  | swap x y l =>
    obtain ⟨k1, v1⟩ := x
    obtain ⟨k2, v2⟩ := y
    simp only [get_cons]
    rw [← BitVec.add_assoc, ← BitVec.add_assoc, BitVec.add_comm (if k2 = s then v2 else 0)]
  | trans _ _ ih1 ih2 => rw [ih1, ih2]

/-- a wire-sum splits along any predicate on its parts -/
theorem get_flatten_split (l : List Nat) (q : Nat → Bool) (f : Nat → SigMap) (s : Sig) :
    get ((l.map f).flatten) s =
      get (((l.filter q).map f).flatten) s + get (((l.filter (fun p => !q p)).map f).flatten) s := by
  induction l with
  | nil => simp
  | cons p l ih =>
    by_cases hq : q p = true
    · simp only [List.filter_cons, hq, Bool.not_true, Bool.false_eq_true, if_true, if_false,
        List.map_cons, List.flatten_cons, get_append, ih, BitVec.add_assoc]
    · have hq' : q p = false := by simpa using hq
      simp only [List.filter_cons, hq', Bool.not_false, Bool.false_eq_true, if_true, if_false,
        List.map_cons, List.flatten_cons, get_append, ih]
      rw [← BitVec.add_assoc, BitVec.add_comm (get (f p) s), BitVec.add_assoc]

theorem constPairs_sound (nodes : Array CNode) (env : Env) (n : Nat) (hn : n ≤ nodes.size) :
    ∀ (ps : List Nat) (K : SigMap), constPairs nodes n ps = some K → ∀ s,
      get ((ps.map (fun p => (evalUpTo nodes env n).getD p [])).flatten) s = get K s := by
  intro ps
  induction ps with
  | nil =>
    intro K h s
    simp only [constPairs] at h
    injection h with h
    subst h
    rfl
  | cons p ps ih =>
    intro K h s
    simp only [constPairs] at h
    split at h
    · rename_i hp
      have hps : p < nodes.size := by omega
      have hnd : nodes[p]? = some nodes[p] := Array.getElem?_eq_getElem hps
      rw [hnd] at h
      cases hk : nodes[p] with
      | const ty v =>
        rw [hk] at h
        cases hr : constPairs nodes n ps with
        | none => simp [hr] at h
        | some r =>
          simp only [hr] at h
          injection h with h
          subst h
          simp only [List.map_cons, List.flatten_cons, get_append, ih r hr s]
          rw [evalUpTo_prefix nodes env n p hp hn, evalNodes_getD nodes env p hps, hk]
          simp [evalNode]
      | _ => rw [hk] at h; simp at h
    · cases h

theorem constMaps_sound (x : Ctx) : ∀ (es : List Nat) (m : SigMap), constMaps x.c x.nodes x.bind es = some m → ∀ s,
    get (Circuit.sumOuts es x.E) s = get m s := by
  intro es
  induction es with
  | nil =>
    intro m h s
    simp only [constMaps] at h
    injection h with h
    subst h
    rfl
  | cons e es ih =>
    intro m h s
    simp only [constMaps] at h
    cases hk : x.c.kind e with
    | const me =>
      rw [hk] at h
      cases hr : constMaps x.c x.nodes x.bind es with
      | none => simp [hr] at h
      | some r =>
        simp only [hr] at h
        split at h
        · rename_i hni
          injection h with h
          subst h
          rw [get_sumOuts_cons, get_append, ih r hr s, x.out_eq e (x.inp_none_of_notInput e hni), hk]
        · cases h
    | _ => rw [hk] at h; simp at h

theorem checkMany_sound (x : Ctx) (n : Nat) (hn : n < x.nodes.size) (es : List Nat)
    (hbind : x.bind n = some (.many es))
    (ih : ∀ m, m < n → Holds x.E x.nodes x.env x.bind m)
    (h : checkMany x.c x.nodes x.bind n x.nodes[n] es = true) : Holds x.E x.nodes x.env x.bind n := by
  unfold Holds
  rw [hbind]
  show ∀ s, get (Circuit.sumOuts es x.E) s = get ((evalNodes x.nodes x.env).getD n []) s
  intro s
  rw [evalNodes_getD x.nodes x.env n hn]
  unfold checkMany at h
  cases hk : x.nodes[n] with
  | bmerge parts =>
    rw [hk] at h
    simp only at h
    unfold mergeOK at h
    cases hp : partsEnts x.c x.nodes x.bind n (parts.filter (hasEnts x.c x.nodes x.bind)) with
    | none => rw [hp] at h; cases h
    | some singles =>
      rw [hp] at h
      simp only at h
      cases hc : constPairs x.nodes n (parts.filter (fun p => !hasEnts x.c x.nodes x.bind p)) with
      | none => rw [hc] at h; cases h
      | some K =>
        rw [hc] at h
        simp only at h
        cases hm : constMaps x.c x.nodes x.bind (restOf singles es) with
        | none => rw [hm] at h; cases h
        | some mcat =>
          rw [hm] at h
          simp only [Bool.and_eq_true] at h
          obtain ⟨hperm, hes⟩ := h
          rw [get_sumOuts_perm x.E s (List.isPerm_iff.mp hes), get_sumOuts_append,
            partsEnts_sound x n (by omega) ih _ singles hp s,
            constMaps_sound x _ mcat hm s, get_perm s (List.isPerm_iff.mp hperm),
            ← constPairs_sound x.nodes x.env n (by omega) _ K hc s]
          simp only [evalNode]
          exact (get_flatten_split parts (hasEnts x.c x.nodes x.bind)
            (fun p => (evalUpTo x.nodes x.env n).getD p []) s).symm
  | beach op b k =>
    rw [hk] at h
    simp only [Bool.and_eq_true, decide_eq_true_eq] at h
    obtain ⟨⟨hb, hkb⟩, hm⟩ := h
    have hhb := ih b hb
    unfold Holds at hhb
    match es, hm with
    | [e], hm =>
      cases hbb : x.bind b with
      | none => simp [hbb] at hm
      | some bb =>
        cases bb with
        | many eb =>
          rw [hbb] at hhb
          simp only [hbb] at hm
          cases hkind : x.c.kind e with
          | arith cfg =>
            simp only [hkind, Bool.and_eq_true, beq_iff_eq] at hm
            obtain ⟨⟨⟨⟨hop, hfirst⟩, hout⟩, hplain⟩, hmo⟩ := hm
            cases hf : cfg.first with
            | const v => rw [hf] at hfirst; simp at hfirst
            | ref rf sel =>
              cases rf with
              | each =>
                rw [hf] at hfirst
                simp only at hfirst
                have ho : cfg.out = some .each := by
                  cases hco : cfg.out with
                  | none => rw [hco] at hout; simp at hout
                  | some r => cases r <;> simp_all
                rw [get_sumOuts_single, x.out_eq e (x.inp_none_of_arith e cfg hkind), hkind]
                show get (evalArith cfg _ _) s = _
                rw [get_evalArith_each cfg sel hf ho, get_evalNode_beach,
                  carries_sound x.c x.E x.emits e sel eb hfirst s, hhb s,
                  matchOperand_sound x e cfg.second k n hkb ih hmo, hop,
                  evalUpTo_prefix x.nodes x.env n b hb (by omega), argVal_prefix x.nodes x.env n (by omega) k hkb]
                rfl
              | _ => rw [hf] at hfirst; simp at hfirst
          | _ => simp [hkind] at hm
        | _ => simp [hbb] at hm
    | [], hm => simp at hm
    | _ :: _ :: _, hm => simp at hm
  | bfilter op b k out =>
    rw [hk] at h
    simp only [Bool.and_eq_true, decide_eq_true_eq] at h
    obtain ⟨⟨hb, hkb⟩, hm⟩ := h
    have hhb := ih b hb
    unfold Holds at hhb
    match es, hm with
    | [e], hm =>
      cases hbb : x.bind b with
      | none => simp [hbb] at hm
      | some bb =>
        cases bb with
        | many eb =>
          rw [hbb] at hhb
          simp only [hbb] at hm
          cases hkind : x.c.kind e with
          | decider cfg =>
            simp only [hkind] at hm
            obtain ⟨cd, o, hcs, hos, hP⟩ := decider_shape cfg.conds cfg.outs _ hm
            simp only [Bool.and_eq_true, beq_iff_eq] at hP
            obtain ⟨⟨⟨⟨⟨hop, hfirst⟩, hplain⟩, hmo⟩, hsig⟩, hov⟩ := hP
            have hcfg : cfg = { conds := [cd], outs := [o] } := by cases cfg; simp_all
            have hosig : o.sig = .each := by cases hs : o.sig <;> simp_all
            cases hf : cd.first with
            | const v => rw [hf] at hfirst; simp at hfirst
            | ref rf sel =>
              cases rf with
              | each =>
                rw [hf] at hfirst
                simp only at hfirst
                rw [get_sumOuts_single, x.out_eq e (x.inp_none_of_decider e cfg hkind), hkind, hcfg]
                show get (evalDecider _ _ _) s = _
                rw [get_evalDecider_each1 cd o sel hf hplain hosig, get_evalNode_bfilter,
                  carries_sound x.c x.E x.emits e sel eb hfirst s, hhb s,
                  matchOperand_sound x e cd.second k n hkb ih hmo, hop,
                  evalUpTo_prefix x.nodes x.env n b hb (by omega), argVal_prefix x.nodes x.env n (by omega) k hkb]
                cases out with
                | none =>
                  simp only [Bool.and_eq_true] at hov
                  rw [hov.1, if_pos rfl, carries_sound x.c x.E x.emits e o.sel eb hov.2 s, hhb s]
                  rfl
                | some c =>
                  simp only [Bool.and_eq_true, Bool.not_eq_true', beq_iff_eq] at hov
                  rw [hov.1, hov.2]
                  rfl
              | _ => rw [hf] at hfirst; simp at hfirst
          | _ => simp [hkind] at hm
        | _ => simp [hbb] at hm
    | [], hm => simp at hm
    | _ :: _ :: _, hm => simp at hm
  | entOut k =>
    rw [hk] at h
    match es, h with
    | [e], _ =>
      have hnode : x.nodes[n]? = some (.entOut k) := by rw [Array.getElem?_eq_getElem hn, hk]
      have hov := x.hagree.2.2.2.1 n k e hnode hbind
      have hE : x.E e = x.env.entOut k := by
        rw [← x.hfix e]; unfold Circuit.evalEnt; rw [hov]
      rw [get_sumOuts_single, hE]
      simp [evalNode]
    | [], h => simp at h
    | _ :: _ :: _, h => simp at h
  | bgate op a k b =>
    rw [hk] at h
    simp only [Bool.and_eq_true, decide_eq_true_eq] at h
    obtain ⟨⟨⟨hb, hab⟩, hkb⟩, hm⟩ := h
    have hhb := ih b hb
    unfold Holds at hhb
    match es, hm with
    | [e], hm =>
      cases hbb : x.bind b with
      | none => simp [hbb] at hm
      | some bb =>
        cases bb with
        | many eb =>
          rw [hbb] at hhb
          simp only [hbb] at hm
          cases hkind : x.c.kind e with
          | decider cfg =>
            simp only [hkind] at hm
            obtain ⟨cd, o, hcs, hos, hP⟩ := decider_shape cfg.conds cfg.outs _ hm
            simp only [Bool.and_eq_true, Bool.not_eq_true', beq_iff_eq] at hP
            obtain ⟨⟨⟨⟨⟨⟨⟨hue, hop⟩, hplain⟩, hm1⟩, hm2⟩, hsig⟩, hcopy⟩, hcar⟩ := hP
            have hcfg : cfg = { conds := [cd], outs := [o] } := by cases cfg; simp_all
            have hosig : o.sig = .everything := by cases hs : o.sig <;> simp_all
            rw [get_sumOuts_single, x.out_eq e (x.inp_none_of_decider e cfg hkind), hkind, hcfg]
            show get (evalDecider _ _ _) s = _
            refine rule_bundle_gate x.nodes x.env (evalUpTo x.nodes x.env n) cd o op a k b _ _ hue hosig hcopy ?_ ?_ s
            · rw [cond_eval_plain cd _ _ hplain hue, matchOperand_sound x e cd.first a n hab ih hm1,
                matchOperand_sound x e cd.second k n hkb ih hm2, hop,
                argVal_prefix x.nodes x.env n (by omega) a hab, argVal_prefix x.nodes x.env n (by omega) k hkb]
              rfl
            · intro t
              rw [carries_sound x.c x.E x.emits e o.sel eb hcar t, hhb t, evalUpTo_prefix x.nodes x.env n b hb (by omega)]
          | _ => simp [hkind] at hm
        | _ => simp [hbb] at hm
    | [], hm => simp at hm
    | _ :: _ :: _, hm => simp at hm
  | _ => rw [hk] at h; simp at h

/-! ## nodes the compiler may fold: all leaves are integer constants -/

theorem nodeVal_const (nodes : Array CNode) (env : Env) (n : Nat) (hn : n < nodes.size) (ty : Sig) (v : I32)
    (hnd : nodes[n] = .const ty v) : nodeVal nodes env n = v := by
  rw [nodeVal_eq nodes env n hn ty (by rw [hnd]; rfl), hnd]
  simp [evalNode]

/-- a node with constant leaves denotes its folded value, for every valuation -/
theorem constVal_sound (nodes : Array CNode) (env : Env) :
    ∀ (f n : Nat) (k : I32), constVal nodes f n = some k → n < nodes.size → nodeVal nodes env n = k := by
  intro f
  induction f with
  | zero => intro n k h; simp [constVal] at h
  | succ f ih =>
    intro n k h hn
    have hnd : nodes[n]? = some nodes[n] := Array.getElem?_eq_getElem hn
    -- the value of a constant-leaved argument
    have hav : ∀ (a : Arg) (v : I32),
        (match a with
          | .int k => some k
          | .node m => if m < n then constVal nodes f m else none) = some v →
        argBelow n a = true ∧ argVal nodes (evalNodes nodes env) a = v := by
      intro a v ha
      cases a with
      | int q => simp at ha; exact ⟨rfl, by simp [argVal, ha]⟩
      | node m =>
        simp only at ha
        split at ha
        · rename_i hm
          exact ⟨by simp [argBelow, hm], ih m v ha (by omega)⟩
        · cases ha
    unfold constVal at h
    rw [hnd] at h
    cases hk : nodes[n] with
    | const ty v =>
      rw [hk] at h
      simp only at h
      injection h with h
      subst h
      exact nodeVal_const nodes env n hn ty v hk
    | arith op a b ty =>
      rw [hk] at h
      simp only [Option.bind_eq_some_iff, Option.map_eq_some_iff] at h
      obtain ⟨xa, ha, xb, hb, hv⟩ := h
      obtain ⟨ha1, ha2⟩ := hav a xa ha
      obtain ⟨hb1, hb2⟩ := hav b xb hb
      rw [nodeVal_arith nodes env n hn op a b ty hk ha1 hb1, ha2, hb2, hv]
    | cmp op a b ty =>
      rw [hk] at h
      simp only [Option.bind_eq_some_iff, Option.map_eq_some_iff] at h
      obtain ⟨xa, ha, xb, hb, hv⟩ := h
      obtain ⟨ha1, ha2⟩ := hav a xa ha
      obtain ⟨hb1, hb2⟩ := hav b xb hb
      rw [nodeVal_cmp nodes env n hn op a b ty hk ha1 hb1, ha2, hb2, hv]
    | land a b ty =>
      rw [hk] at h
      simp only [Option.bind_eq_some_iff, Option.map_eq_some_iff] at h
      obtain ⟨xa, ha, xb, hb, hv⟩ := h
      obtain ⟨ha1, ha2⟩ := hav a xa ha
      obtain ⟨hb1, hb2⟩ := hav b xb hb
      rw [nodeVal_land nodes env n hn a b ty hk ha1 hb1, ha2, hb2, hv]
    | lor a b ty =>
      rw [hk] at h
      simp only [Option.bind_eq_some_iff, Option.map_eq_some_iff] at h
      obtain ⟨xa, ha, xb, hb, hv⟩ := h
      obtain ⟨ha1, ha2⟩ := hav a xa ha
      obtain ⟨hb1, hb2⟩ := hav b xb hb
      rw [nodeVal_lor nodes env n hn a b ty hk ha1 hb1, ha2, hb2, hv]
    | lnot a ty =>
      rw [hk] at h
      simp only [Option.map_eq_some_iff] at h
      obtain ⟨xa, ha, hv⟩ := h
      obtain ⟨ha1, ha2⟩ := hav a xa ha
      rw [nodeVal_lnot nodes env n hn a ty hk ha1, ha2, hv]
    | proj a ty =>
      rw [hk] at h
      simp only at h
      obtain ⟨ha1, ha2⟩ := hav a k h
      rw [nodeVal_proj nodes env n hn a ty hk ha1, ha2]
    | gate op a b w ty =>
      rw [hk] at h
      simp only [Option.bind_eq_some_iff, Option.map_eq_some_iff] at h
      obtain ⟨xa, ha, xb, hb, xw, hw, hv⟩ := h
      obtain ⟨ha1, ha2⟩ := hav a xa ha
      obtain ⟨hb1, hb2⟩ := hav b xb hb
      obtain ⟨hw1, hw2⟩ := hav w xw hw
      rw [nodeVal_gate nodes env n hn op a b w ty hk ha1 hb1 hw1, ha2, hb2, hw2, hv]
    | _ => rw [hk] at h; simp at h

/-! ## the per-node theorem and its closure over the program -/

theorem sound_input (x : Ctx) (n e : Nat) (s : Sig) (name ty : Sig) (v : I32)
    (hnode : x.nodes[n]? = some (.input name ty v)) (hbind : x.bind n = some (.ent e s)) :
    Holds x.E x.nodes x.env x.bind n := by
  obtain ⟨hn, hnd⟩ := kind_getD x.nodes n _ hnode
  unfold Holds
  rw [hbind]
  show get (x.E e) s = nodeVal x.nodes x.env n
  have hov := x.hagree.1 n name ty v e s hnode hbind
  have : x.E e = [(s, (x.env.input name).getD v)] := by
    rw [← x.hfix e]; unfold Circuit.evalEnt; rw [hov]
  rw [this, nodeVal_eq x.nodes x.env n hn ty (by rw [hnd]; rfl), hnd]
  simp [evalNode]

theorem sound_const_ent (x : Ctx) (n e : Nat) (s : Sig) (ty : Sig) (v : I32)
    (hnode : x.nodes[n]? = some (.const ty v)) (hbind : x.bind n = some (.ent e s))
    (hkind : x.c.kind e = .const [(s, v)]) :
    Holds x.E x.nodes x.env x.bind n := by
  obtain ⟨hn, hnd⟩ := kind_getD x.nodes n _ hnode
  unfold Holds
  rw [hbind]
  show get (x.E e) s = nodeVal x.nodes x.env n
  have hno : x.inp e = none := x.hagree.2.1 n e s hbind (by intro name ty' v' hh; rw [hnode] at hh; cases hh)
  rw [x.out_eq e hno, hkind, nodeVal_eq x.nodes x.env n hn ty (by rw [hnd]; rfl), hnd]
  simp [evalNode]

theorem sound_const_konst (x : Ctx) (n : Nat) (ty : Sig) (v : I32)
    (hnode : x.nodes[n]? = some (.const ty v)) (hbind : x.bind n = some (.konst v)) :
    Holds x.E x.nodes x.env x.bind n := by
  obtain ⟨hn, hnd⟩ := kind_getD x.nodes n _ hnode
  unfold Holds
  rw [hbind]
  show nodeVal x.nodes x.env n = v
  rw [nodeVal_eq x.nodes x.env n hn ty (by rw [hnd]; rfl), hnd]
  simp [evalNode]

/-- a node whose bound entity has the shape of one of its candidate lowerings -/
theorem sound_lowered (x : Ctx) (n e : Nat) (s : Sig) (hn : n < x.nodes.size)
    (hbind : x.bind n = some (.ent e s))
    (ih : ∀ m, m < n → Holds x.E x.nodes x.env x.bind m)
    (h : (lowerings x.nodes (n + 1) n).any (fun v => v.under n && entIs x.c x.nodes x.bind v e s) = true) :
    Holds x.E x.nodes x.env x.bind n := by
  unfold Holds
  rw [hbind]
  show get (x.E e) s = nodeVal x.nodes x.env n
  rw [List.any_eq_true] at h
  obtain ⟨v, hv, hp⟩ := h
  simp only [Bool.and_eq_true] at hp
  rw [entIs_sound x n ih v e s hp.1 hp.2]
  exact lowerings_sound x.nodes x.env (n + 1) n v hv hn

/-- a constant-leaved node folded into a constant combinator -/
theorem sound_folded (x : Ctx) (n e : Nat) (s : Sig) (hn : n < x.nodes.size)
    (hbind : x.bind n = some (.ent e s))
    (hni : ∀ name ty v, x.nodes[n]? ≠ some (.input name ty v))
    (h : foldedIs x.c x.nodes n e s = true) :
    Holds x.E x.nodes x.env x.bind n := by
  unfold Holds
  rw [hbind]
  show get (x.E e) s = nodeVal x.nodes x.env n
  have hno : x.inp e = none := x.hagree.2.1 n e s hbind hni
  unfold foldedIs at h
  cases hkind : x.c.kind e with
  | const m =>
    rw [hkind] at h
    cases hcv : constVal x.nodes (n + 1) n with
    | none =>
      rw [hcv] at h
      match m, h with
      | [], h => simp at h
      | [_], h => simp at h
      | _ :: _ :: _, h => simp at h
    | some k =>
      rw [hcv] at h
      match m, h, hkind with
      | [(t, v)], h, hkind =>
        simp only [Bool.and_eq_true, beq_iff_eq] at h
        obtain ⟨ht, hv⟩ := h
        subst ht; subst hv
        rw [x.out_eq e hno, hkind, constVal_sound x.nodes x.env (n + 1) n v hcv hn]
        simp
  | _ => rw [hkind] at h; simp at h

theorem checkNode_sound (x : Ctx) (n : Nat) (hn : n < x.nodes.size)
    (ih : ∀ m, m < n → Holds x.E x.nodes x.env x.bind m)
    (h : checkNode x.c x.nodes x.bind n = true) : Holds x.E x.nodes x.env x.bind n := by
  have hnd : x.nodes[n]? = some x.nodes[n] := Array.getElem?_eq_getElem hn
  unfold checkNode at h
  rw [hnd] at h
  cases hb : x.bind n with
  | none => unfold Holds; rw [hb]; trivial
  | some b =>
    cases b with
    | konst k =>
      rw [hb] at h
      simp only at h
      unfold Holds
      rw [hb]
      exact constVal_sound x.nodes x.env (n + 1) n k (by simpa using h) hn
    | ent e s =>
      rw [hb] at h
      simp only at h
      cases hk : x.nodes[n] with
      | input name ty v =>
        rw [hk] at hnd
        exact sound_input x n e s name ty v hnd hb
      | const ty v =>
        rw [hk] at h hnd
        simp only [checkEnt] at h
        cases hkind : x.c.kind e with
        | const m =>
          rw [hkind] at h
          match m, h, hkind with
          | [(t, v')], h, hkind =>
            simp only [Bool.and_eq_true, beq_iff_eq] at h
            obtain ⟨ht, hv⟩ := h
            subst ht; subst hv
            exact sound_const_ent x n e t ty v hnd hb hkind
        | _ => rw [hkind] at h; simp at h
      | anyCmp b op rhs out ty =>
        rw [hk] at h
        simp only [checkEnt] at h
        exact sound_anyCmp x n e s hn b op rhs out ty hk hb ih h
      | allCmp b op rhs out ty =>
        rw [hk] at h
        simp only [checkEnt] at h
        exact sound_allCmp x n e s hn b op rhs out ty hk hb ih h
      | _ =>
        rw [hk] at h
        simp only [checkEnt, Bool.or_eq_true] at h
        rcases h with h | h
        · exact sound_folded x n e s hn hb (by intro name ty v hh; rw [hnd] at hh; injection hh with hh; rw [hk] at hh; cases hh) h
        · exact sound_lowered x n e s hn hb ih h
    | sum es s =>
      rw [hb] at h
      simp only at h
      exact checkSum_sound x n hn es s hb ih h
    | many es =>
      rw [hb] at h
      simp only at h
      exact checkMany_sound x n hn es hb ih h

/-- **Matcher soundness.** If every node passes, every bound node reads its denotation in `E`. -/
theorem checkAll_sound (x : Ctx) (h : checkAll x.c x.nodes x.bind = true) :
    ∀ n, n < x.nodes.size → Holds x.E x.nodes x.env x.bind n := by
  intro n
  induction n using Nat.strongRecOn with
  | _ n ih =>
    intro hn
    unfold checkAll at h
    rw [List.all_eq_true] at h
    have hc := h n (List.mem_range.mpr hn)
    exact checkNode_sound x n hn (fun m hm => ih m hm (by omega)) hc

/-- the settled state of a ranked circuit, as a matcher context -/
def settledCtx (c : Circuit) (nodes : Array CNode) (bind : Nat → Option Bind) (rank : Nat → Nat)
    (hrank : c.checkRanked rank = true) (inp : Inputs) (env : Env) (hinp : InputsOK c inp)
    (hagree : InputsAgree nodes bind inp env) (T : Nat) (hT : ∀ i, rank i < T) : Ctx :=
  { c, inp, E := c.runF inp T, nodes, env, bind,
    hfix := Circuit.settled_fixpoint c inp rank (Circuit.checkRanked_sound c rank hrank) T hT, hinp, hagree }

/-- **C01, per program.** For a circuit with a rank certificate (M1) whose Core nodes all pass the matcher,
and for *every* valuation of the declared inputs (`inp` on the circuit side, `env` on the source side,
related by `InputsAgree`): from tick `T` on (any `T` above every rank), each bound node's entity carries,
on the bound signal, exactly the value the source denotes. -/
theorem scalar_end_to_end (c : Circuit) (nodes : Array CNode) (bind : Nat → Option Bind) (rank : Nat → Nat)
    (hrank : c.checkRanked rank = true) (hall : checkAll c nodes bind = true)
    (inp : Inputs) (env : Env) (hinp : InputsOK c inp) (hagree : InputsAgree nodes bind inp env)
    (T : Nat) (hT : ∀ i, rank i < T) (t : Nat) (ht : T ≤ t)
    (n e : Nat) (s : Sig) (hn : n < nodes.size) (hb : bind n = some (.ent e s)) :
    get (c.runF inp t e) s = nodeVal nodes env n := by
  have hr := Circuit.checkRanked_sound c rank hrank
  rw [Circuit.settled_stable c inp rank hr T hT t ht e]
  let x := settledCtx c nodes bind rank hrank inp env hinp hagree T hT
  have := checkAll_sound x hall n hn
  unfold Holds at this
  have hb' : x.bind n = some (.ent e s) := hb
  rw [hb'] at this
  exact this

theorem sumOuts_congr (es : List Nat) (E1 E2 : Nat → SigMap) (h : ∀ e, E1 e = E2 e) :
    Circuit.sumOuts es E1 = Circuit.sumOuts es E2 := by
  have : E1 = E2 := funext h
  rw [this]

/-- **C02, per program.** Same hypotheses; a bundle node bound to the producers `es`: from tick `T` on, the
wire-sum of their outputs is, signal by signal, the bundle the source denotes — no member missing, none
foreign, each with its own value. -/
theorem bundle_end_to_end (c : Circuit) (nodes : Array CNode) (bind : Nat → Option Bind) (rank : Nat → Nat)
    (hrank : c.checkRanked rank = true) (hall : checkAll c nodes bind = true)
    (inp : Inputs) (env : Env) (hinp : InputsOK c inp) (hagree : InputsAgree nodes bind inp env)
    (T : Nat) (hT : ∀ i, rank i < T) (t : Nat) (ht : T ≤ t)
    (n : Nat) (es : List Nat) (hn : n < nodes.size) (hb : bind n = some (.many es)) (s : Sig) :
    get (Circuit.sumOuts es (c.runF inp t)) s = get ((evalNodes nodes env).getD n []) s := by
  have hr := Circuit.checkRanked_sound c rank hrank
  rw [sumOuts_congr es _ _ (fun e => Circuit.settled_stable c inp rank hr T hT t ht e)]
  let x := settledCtx c nodes bind rank hrank inp env hinp hagree T hT
  have := checkAll_sound x hall n hn
  unfold Holds at this
  have hb' : x.bind n = some (.many es) := hb
  rw [hb'] at this
  exact this s

/-- a scalar that exists only on the wires (bundle selection, addition folded into a wire merge) -/
theorem wiresum_end_to_end (c : Circuit) (nodes : Array CNode) (bind : Nat → Option Bind) (rank : Nat → Nat)
    (hrank : c.checkRanked rank = true) (hall : checkAll c nodes bind = true)
    (inp : Inputs) (env : Env) (hinp : InputsOK c inp) (hagree : InputsAgree nodes bind inp env)
    (T : Nat) (hT : ∀ i, rank i < T) (t : Nat) (ht : T ≤ t)
    (n : Nat) (es : List Nat) (s : Sig) (hn : n < nodes.size) (hb : bind n = some (.sum es s)) :
    get (Circuit.sumOuts es (c.runF inp t)) s = nodeVal nodes env n := by
  have hr := Circuit.checkRanked_sound c rank hrank
  rw [sumOuts_congr es _ _ (fun e => Circuit.settled_stable c inp rank hr T hT t ht e)]
  let x := settledCtx c nodes bind rank hrank inp env hinp hagree T hT
  have := checkAll_sound x hall n hn
  unfold Holds at this
  have hb' : x.bind n = some (.sum es s) := hb
  rw [hb'] at this
  exact this

/-! ## circuit conditions of placed entities (C06) -/

theorem quantCond_sound (x : Ctx) (n : Nat) (hn : n ≤ x.nodes.size)
    (ih : ∀ m, m < n → Holds x.E x.nodes x.env x.bind m)
    (isAny : Bool) (b : Nat) (op : CmpOp) (rhs : Arg) (e : Nat) (cd : Cond)
    (h : quantCondOK x.c x.nodes x.bind n isAny b op rhs e cd = true) :
    b < n ∧ argBelow n rhs = true ∧
    cd.eval (x.c.readR x.E e) (x.c.readG x.E e) none =
      quantVal isAny ((evalNodes x.nodes x.env).getD b []) op (x.av rhs) := by
  unfold quantCondOK at h
  simp only [Bool.and_eq_true, decide_eq_true_eq, beq_iff_eq] at h
  obtain ⟨⟨⟨⟨⟨hb, hrhs⟩, hfirst⟩, hop⟩, hplain⟩, hmo⟩ := h
  refine ⟨hb, hrhs, ?_⟩
  have hhb := ih b hb
  unfold Holds at hhb
  have hsec := matchOperand_sound x e cd.second rhs n hrhs ih hmo
  cases hbb : x.bind b with
  | none => simp [hbb] at hfirst
  | some bb =>
    cases bb with
    | many eb =>
      rw [hbb] at hhb
      simp only [hbb] at hfirst
      cases hf : cd.first with
      | const v => rw [hf] at hfirst; simp at hfirst
      | ref rf sel =>
        rw [hf] at hfirst
        cases rf with
        | sig t => simp at hfirst
        | each => simp at hfirst
        | anything =>
          simp only [Bool.and_eq_true] at hfirst
          obtain ⟨hany, hcar⟩ := hfirst
          subst hany
          have hin := fun t => (carries_sound x.c x.E x.emits e sel eb hcar t).trans (hhb t)
          unfold Cond.eval quantVal
          rw [hf, rhs_plain cd _ _ _ hplain, hsec, hop]
          simp only [if_true]
          exact any_support_congr _ _ hin (fun v => cmp op v (x.av rhs))
        | everything =>
          simp only [Bool.and_eq_true, Bool.not_eq_true'] at hfirst
          obtain ⟨hany, hcar⟩ := hfirst
          subst hany
          have hin := fun t => (carries_sound x.c x.E x.emits e sel eb hcar t).trans (hhb t)
          unfold Cond.eval quantVal
          rw [hf, rhs_plain cd _ _ _ hplain, hsec, hop]
          simp only [Bool.false_eq_true, if_false]
          exact all_support_congr _ _ hin (fun v => cmp op v (x.av rhs))
    | _ => simp [hbb] at hfirst

theorem gt_boolI (b : Bool) : cmp .gt (boolI b) 0 = b := by cases b <;> decide

theorem gt_ite_one (b : Bool) : cmp .gt (if b = true then (1 : I32) else 0) 0 = b := by cases b <;> decide

/-- **C06.** A placed entity whose circuit condition passes `enableIs` is enabled exactly when the value the
program assigns to `.enable` is positive. -/
theorem condIs_sound (x : Ctx) (i : Nat) (cd : Cond) (op : CmpOp) (a b : Arg) (m : Nat)
    (ha : argBelow m a = true) (hb : argBelow m b = true)
    (ih : ∀ j, j < m → Holds x.E x.nodes x.env x.bind j)
    (h : condIs x.c x.nodes x.bind i cd op a b = true) :
    cd.eval (x.c.readR x.E i) (x.c.readG x.E i) none = cmp op (x.av a) (x.av b) := by
  unfold condIs at h
  simp only [Bool.and_eq_true, Bool.or_eq_true, Bool.not_eq_true', beq_iff_eq] at h
  obtain ⟨⟨hplain, hue⟩, h⟩ := h
  rw [cond_eval_plain cd _ _ hplain hue]
  rcases h with ⟨⟨hop, h1⟩, h2⟩ | ⟨⟨hop, h1⟩, h2⟩
  · rw [matchOperand_sound x i cd.first a m ha ih h1, matchOperand_sound x i cd.second b m hb ih h2, hop]
  · rw [matchOperand_sound x i cd.first b m hb ih h1, matchOperand_sound x i cd.second a m ha ih h2, hop, cmp_mirror]

theorem enable_sound (x : Ctx) (hall : ∀ m, m < x.nodes.size → Holds x.E x.nodes x.env x.bind m)
    (i : Nat) (w : Arg) (h : enableIs x.c x.nodes x.bind i w = true) :
    ∃ cd, x.c.kind i = .controlled (some cd) ∧
      evalEnabled (some cd) (x.c.readR x.E i) (x.c.readG x.E i) = cmp .gt (x.av w) 0 := by
  unfold enableIs at h
  simp only [Bool.and_eq_true] at h
  obtain ⟨hw, h⟩ := h
  cases hk : x.c.kind i with
  | controlled oc =>
    rw [hk] at h
    cases oc with
    | none => simp at h
    | some cd =>
      refine ⟨cd, rfl, ?_⟩
      simp only [evalEnabled]
      simp only [Bool.or_eq_true] at h
      rcases h with h | h
      · simp only [Bool.and_eq_true, Bool.not_eq_true', beq_iff_eq] at h
        obtain ⟨⟨⟨⟨hop, hplain⟩, hue⟩, hmo⟩, hsec⟩ := h
        have hs : cd.second = .const 0 := by
          cases hcs : cd.second with
          | const k => rw [hcs] at hsec; simp at hsec; rw [hsec]; rfl
          | ref _ _ => rw [hcs] at hsec; simp at hsec
        rw [cond_eval_plain cd _ _ hplain hue, matchOperand_sound x i cd.first w x.nodes.size hw hall hmo, hop, hs]
        rfl
      · cases w with
        | int k => simp at h
        | node m =>
          have hm : m < x.nodes.size := by simpa [argBelow] using hw
          have hnd : x.nodes[m]? = some x.nodes[m] := Array.getElem?_eq_getElem hm
          simp only [hnd] at h
          have hallm : ∀ j, j < m → Holds x.E x.nodes x.env x.bind j := fun j hj => hall j (by omega)
          cases hkm : x.nodes[m] with
          | cmp op a b ty =>
            rw [hkm] at h
            simp only [Bool.and_eq_true, Bool.not_eq_true', beq_iff_eq] at h
            obtain ⟨⟨ha, hb⟩, hci⟩ := h
            rw [condIs_sound x i cd op a b m ha hb hallm hci]
            show _ = cmp .gt (nodeVal x.nodes x.env m) 0
            rw [nodeVal_cmp x.nodes x.env m hm op a b ty hkm ha hb, gt_boolI]
            rfl
          | anyCmp bn op rhs out ty =>
            rw [hkm] at h
            cases out with
            | some o => simp at h
            | none =>
              simp only at h
              obtain ⟨hb, hrhs, hev⟩ := quantCond_sound x m (by omega) hallm true bn op rhs i cd h
              rw [hev]
              show _ = cmp .gt (nodeVal x.nodes x.env m) 0
              rw [nodeVal_eq x.nodes x.env m hm ty (by rw [hkm]; rfl), hkm]
              simp only [evalNode, get_single, if_pos rfl, quantVal, if_true, Ctx.av,
                evalUpTo_prefix x.nodes x.env m bn hb (by omega), argVal_prefix x.nodes x.env m (by omega) rhs hrhs]
              rw [gt_ite_one]
          | allCmp bn op rhs out ty =>
            rw [hkm] at h
            cases out with
            | some o => simp at h
            | none =>
              simp only at h
              obtain ⟨hb, hrhs, hev⟩ := quantCond_sound x m (by omega) hallm false bn op rhs i cd h
              rw [hev]
              show _ = cmp .gt (nodeVal x.nodes x.env m) 0
              rw [nodeVal_eq x.nodes x.env m hm ty (by rw [hkm]; rfl), hkm]
              simp only [evalNode, get_single, if_pos rfl, quantVal, Bool.false_eq_true, if_false, Ctx.av,
                evalUpTo_prefix x.nodes x.env m bn hb (by omega), argVal_prefix x.nodes x.env m (by omega) rhs hrhs]
              simp only [if_true]
              rw [gt_ite_one]
          | lnot a ty =>
            rw [hkm] at h
            simp only [Bool.and_eq_true, Bool.not_eq_true', beq_iff_eq] at h
            obtain ⟨⟨⟨⟨⟨ha, hop⟩, hplain⟩, hue⟩, h1⟩, hsec⟩ := h
            have hs : cd.second = .const 0 := by
              cases hcs : cd.second with
              | const k => rw [hcs] at hsec; simp at hsec; rw [hsec]; rfl
              | ref _ _ => rw [hcs] at hsec; simp at hsec
            rw [cond_eval_plain cd _ _ hplain hue, matchOperand_sound x i cd.first a m ha hallm h1, hop, hs]
            show _ = cmp .gt (nodeVal x.nodes x.env m) 0
            rw [nodeVal_lnot x.nodes x.env m hm a ty hkm ha, gt_boolI]
            simp [cmp, Operand.val, Ctx.av]
          | gate op a b w ty =>
            rw [hkm] at h
            cases w with
            | node q => simp at h
            | int k =>
              simp only [Bool.and_eq_true, Bool.not_eq_true', beq_iff_eq] at h
              obtain ⟨⟨⟨hk0, ha⟩, hb⟩, hci⟩ := h
              rw [condIs_sound x i cd op a b m ha hb hallm hci]
              show _ = cmp .gt (nodeVal x.nodes x.env m) 0
              rw [nodeVal_gate x.nodes x.env m hm op a b (.int k) ty hkm ha hb rfl]
              have hkv : argVal x.nodes (evalNodes x.nodes x.env) (.int k) = k := rfl
              rw [hkv]
              have hc : ∀ cb : Bool, cb = cmp .gt (if cb = true then k else 0) 0 := by
                intro cb
                cases cb
                · simp [cmp]
                · simpa using hk0.symm
              exact hc _
          | _ => rw [hkm] at h; simp at h
  | _ => rw [hk] at h; simp at h

/-- **C06, per program**: from tick `T` on, for every input valuation and all container contents -/
theorem enable_end_to_end (c : Circuit) (nodes : Array CNode) (bind : Nat → Option Bind) (rank : Nat → Nat)
    (hrank : c.checkRanked rank = true) (hall : checkAll c nodes bind = true)
    (inp : Inputs) (env : Env) (hinp : InputsOK c inp) (hagree : InputsAgree nodes bind inp env)
    (T : Nat) (hT : ∀ i, rank i < T) (t : Nat) (ht : T ≤ t)
    (i : Nat) (w : Arg) (hen : enableIs c nodes bind i w = true) :
    ∃ cd, c.kind i = .controlled (some cd) ∧
      evalEnabled (some cd) (c.readR (c.runF inp t) i) (c.readG (c.runF inp t) i) =
        cmp .gt (argVal nodes (evalNodes nodes env) w) 0 := by
  have hr := Circuit.checkRanked_sound c rank hrank
  let x := settledCtx c nodes bind rank hrank inp env hinp hagree T hT
  obtain ⟨cd, hk, hv⟩ := enable_sound x (checkAll_sound x hall) i w hen
  refine ⟨cd, hk, ?_⟩
  have : c.runF inp t = c.runF inp T := funext (Circuit.settled_stable c inp rank hr T hT t ht)
  rw [this]
  exact hv

/-! ## what the user sees: the anchor wired to a named result (C20) -/

theorem observe_eq_selIn (c : Circuit) (E : Nat → SigMap) (a : Nat) :
    c.observe E a = selIn RG (c.readR E a) (c.readG E a) := by
  simp [Circuit.observe, selIn, RG]

/-- an anchor that sees exactly the producer of a scalar result reads that result -/
theorem observed_scalar_end_to_end (c : Circuit) (nodes : Array CNode) (bind : Nat → Option Bind) (rank : Nat → Nat)
    (hrank : c.checkRanked rank = true) (hall : checkAll c nodes bind = true)
    (inp : Inputs) (env : Env) (hinp : InputsOK c inp) (hagree : InputsAgree nodes bind inp env)
    (T : Nat) (hT : ∀ i, rank i < T) (t : Nat) (ht : T ≤ t)
    (n e : Nat) (s : Sig) (hn : n < nodes.size) (hb : bind n = some (.ent e s))
    (a : Nat) (hobs : obsOK c a (.ent e s) = true) :
    get (c.observe (c.runF inp t) a) s = nodeVal nodes env n := by
  have hr := Circuit.checkRanked_sound c rank hrank
  have hE : EmitsOK c (c.runF inp t) := by
    apply emitsOK_of_fixpoint c inp hinp
    intro i
    have h1 := Circuit.settled_stable c inp rank hr T hT t ht
    have h2 := Circuit.settled_fixpoint c inp rank hr T hT
    have : c.runF inp t = c.runF inp T := funext h1
    rw [this]
    exact h2 i
  rw [observe_eq_selIn, read_isolated c _ hE a RG s e hobs]
  exact scalar_end_to_end c nodes bind rank hrank hall inp env hinp hagree T hT t ht n e s hn hb

/-- an anchor that sees exactly the producers of a bundle result reads that bundle: every member with its
value, nothing else -/
theorem observed_bundle_end_to_end (c : Circuit) (nodes : Array CNode) (bind : Nat → Option Bind) (rank : Nat → Nat)
    (hrank : c.checkRanked rank = true) (hall : checkAll c nodes bind = true)
    (inp : Inputs) (env : Env) (hinp : InputsOK c inp) (hagree : InputsAgree nodes bind inp env)
    (T : Nat) (hT : ∀ i, rank i < T) (t : Nat) (ht : T ≤ t)
    (n : Nat) (es : List Nat) (hn : n < nodes.size) (hb : bind n = some (.many es))
    (a : Nat) (hobs : obsOK c a (.many es) = true) (s : Sig) :
    get (c.observe (c.runF inp t) a) s = get ((evalNodes nodes env).getD n []) s := by
  have hr := Circuit.checkRanked_sound c rank hrank
  have hE : EmitsOK c (c.runF inp t) := by
    apply emitsOK_of_fixpoint c inp hinp
    intro i
    have h1 := Circuit.settled_stable c inp rank hr T hT t ht
    have h2 := Circuit.settled_fixpoint c inp rank hr T hT
    have : c.runF inp t = c.runF inp T := funext h1
    rw [this]
    exact h2 i
  rw [observe_eq_selIn, carries_sound c _ hE a RG es hobs s]
  exact bundle_end_to_end c nodes bind rank hrank hall inp env hinp hagree T hT t ht n es hn hb s

theorem observed_wiresum_end_to_end (c : Circuit) (nodes : Array CNode) (bind : Nat → Option Bind) (rank : Nat → Nat)
    (hrank : c.checkRanked rank = true) (hall : checkAll c nodes bind = true)
    (inp : Inputs) (env : Env) (hinp : InputsOK c inp) (hagree : InputsAgree nodes bind inp env)
    (T : Nat) (hT : ∀ i, rank i < T) (t : Nat) (ht : T ≤ t)
    (n : Nat) (es : List Nat) (s : Sig) (hn : n < nodes.size) (hb : bind n = some (.sum es s))
    (a : Nat) (hobs : obsOK c a (.sum es s) = true) :
    get (c.observe (c.runF inp t) a) s = nodeVal nodes env n := by
  have hr := Circuit.checkRanked_sound c rank hrank
  have hE : EmitsOK c (c.runF inp t) := by
    apply emitsOK_of_fixpoint c inp hinp
    intro i
    have h1 := Circuit.settled_stable c inp rank hr T hT t ht
    have h2 := Circuit.settled_fixpoint c inp rank hr T hT
    have : c.runF inp t = c.runF inp T := funext h1
    rw [this]
    exact h2 i
  rw [observe_eq_selIn, readsSum_sound c _ hE a RG s es hobs]
  exact wiresum_end_to_end c nodes bind rank hrank hall inp env hinp hagree T hT t ht n es s hn hb

/-! ## input histories: a stateless result depends on the present inputs only -/

/-- **C01 for histories.** Whatever state earlier input values left behind (`s0`), `T` ticks after the inputs took
their present values every bound scalar carries the value the source denotes for the *present* inputs. -/
theorem scalar_history_end_to_end (c : Circuit) (nodes : Array CNode) (bind : Nat → Option Bind) (rank : Nat → Nat)
    (hrank : c.checkRanked rank = true) (hall : checkAll c nodes bind = true)
    (inp : Inputs) (env : Env) (hinp : InputsOK c inp) (hagree : InputsAgree nodes bind inp env)
    (s0 : Nat → SigMap) (T : Nat) (hT : ∀ i, rank i < T) (t : Nat) (ht : T ≤ t)
    (n e : Nat) (s : Sig) (hn : n < nodes.size) (hb : bind n = some (.ent e s)) :
    get (c.runFrom inp s0 t e) s = nodeVal nodes env n := by
  rw [Circuit.history_independent c inp s0 rank (Circuit.checkRanked_sound c rank hrank) T hT t ht e]
  exact scalar_end_to_end c nodes bind rank hrank hall inp env hinp hagree T hT T (Nat.le_refl _) n e s hn hb

/-- **C02 for histories.** -/
theorem bundle_history_end_to_end (c : Circuit) (nodes : Array CNode) (bind : Nat → Option Bind) (rank : Nat → Nat)
    (hrank : c.checkRanked rank = true) (hall : checkAll c nodes bind = true)
    (inp : Inputs) (env : Env) (hinp : InputsOK c inp) (hagree : InputsAgree nodes bind inp env)
    (s0 : Nat → SigMap) (T : Nat) (hT : ∀ i, rank i < T) (t : Nat) (ht : T ≤ t)
    (n : Nat) (es : List Nat) (hn : n < nodes.size) (hb : bind n = some (.many es)) (s : Sig) :
    get (Circuit.sumOuts es (c.runFrom inp s0 t)) s = get ((evalNodes nodes env).getD n []) s := by
  rw [sumOuts_congr es _ _ (fun e => Circuit.history_independent c inp s0 rank (Circuit.checkRanked_sound c rank hrank) T hT t ht e)]
  exact bundle_end_to_end c nodes bind rank hrank hall inp env hinp hagree T hT T (Nat.le_refl _) n es hn hb s

end Facto
