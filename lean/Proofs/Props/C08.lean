import Model.Geometry
import Proofs.GeoSound
import Model.Generated
/-!
# C08 — pasteability: geometry and relay bookkeeping

* footprints that are disjoint on the tile grid give disjoint collision boxes, provided each prototype's
  collision box lies inside its tile rectangle (checked per prototype by the harness against game data);
  hence *every* feasible answer of the layout solver's no-overlap constraint is overlap-free, whatever
  the time budget;
* the tile ↔ centre conversion is exact on the half-integer grid;
* a relay that only accepts a network after `can_route_network` said yes never carries two networks on
  one colour (`Gen.RelayNode` is pattern-translated from the source).
-/
namespace Facto

theorem boxesOverlap_symm (a b : Int × Int × Int × Int) : boxesOverlap a b = boxesOverlap b a := by
  unfold boxesOverlap
  rw [Bool.eq_iff_iff]
  simp only [Bool.and_eq_true, decide_eq_true_eq]
  constructor <;> (rintro ⟨⟨⟨h1, h2⟩, h3⟩, h4⟩; exact ⟨⟨⟨h2, h1⟩, h4⟩, h3⟩)

/-- a rectangle on the tile grid, in 1/1000 tile: top-left tile `(tx, ty)`, size `w × h` tiles -/
def tileRect (tx ty : Int) (w h : Nat) : Int × Int × Int × Int :=
  (tx * 1000, ty * 1000, (tx + w) * 1000, (ty + h) * 1000)

def boxInside (inner outer : Int × Int × Int × Int) : Prop :=
  outer.1 ≤ inner.1 ∧ outer.2.1 ≤ inner.2.1 ∧ inner.2.2.1 ≤ outer.2.2.1 ∧ inner.2.2.2 ≤ outer.2.2.2

/-- two footprints are disjoint on the grid -/
def tilesDisjoint (ax ay : Int) (aw ah : Nat) (bx «by» : Int) (bw bh : Nat) : Prop :=
  ax + aw ≤ bx ∨ bx + bw ≤ ax ∨ ay + ah ≤ «by» ∨ «by» + bh ≤ ay

/-- **no-overlap lemma.** Disjoint footprints + "collision box inside footprint" ⇒ no collision. -/
theorem disjoint_of_tile_disjoint (a b : Int × Int × Int × Int) (ax ay : Int) (aw ah : Nat) (bx «by» : Int) (bw bh : Nat)
    (ha : boxInside a (tileRect ax ay aw ah)) (hb : boxInside b (tileRect bx «by» bw bh))
    (hd : tilesDisjoint ax ay aw ah bx «by» bw bh) : boxesOverlap a b = false := by
  unfold boxInside tileRect at ha hb
  unfold tilesDisjoint at hd
  unfold boxesOverlap
  simp only [Bool.and_eq_false_iff, decide_eq_false_iff_not]
  obtain ⟨a1, a2, a3, a4⟩ := ha
  obtain ⟨b1, b2, b3, b4⟩ := hb
  simp only at a1 a2 a3 a4 b1 b2 b3 b4
  rcases hd with h | h | h | h
  · left; left; right; omega
  · left; left; left; omega
  · right; omega
  · left; right; omega

/-- centre ×2 of an entity whose top-left tile is `t` and whose size along that axis is `w` tiles -/
def centre2 (t : Int) (w : Nat) : Int := 2 * t + w

/-- the conversion loses nothing, for negative tiles and multi-tile prototypes alike -/
theorem tile_centre_roundtrip (t : Int) (w : Nat) : (centre2 t w - w) / 2 = t := by
  unfold centre2
  omega

open Gen in
/-- at most one network per colour -/
def RelayInv (r : RelayNode) : Prop := r.red.length ≤ 1 ∧ r.green.length ≤ 1

open Gen in
/-- one guarded operation: the network is added only if `can_route_network` allows it -/
def guardedAdd (r : RelayNode) (op : Nat × Bool) : RelayNode :=
  if r.canRouteNetwork op.1 op.2 then r.addNetwork op.1 op.2 else r

open Gen in
theorem guardedAdd_inv (r : RelayNode) (op : Nat × Bool) (h : RelayInv r) : RelayInv (guardedAdd r op) := by
  obtain ⟨net, isRed⟩ := op
  unfold guardedAdd RelayNode.canRouteNetwork RelayNode.addNetwork RelayInv setAdd at *
  cases isRed
  · simp only [Bool.false_eq_true, if_false]
    by_cases hc : (r.green.length == 0 || r.green.contains net) = true
    · simp only [hc, if_true]
      by_cases hm : r.green.contains net = true
      · simp only [hm, if_true]; exact h
      · simp only [hm, Bool.false_eq_true, if_false, List.length_cons]
        have : r.green.length = 0 := by
          rw [Bool.or_eq_true] at hc
          rcases hc with hc | hc
          · simpa using hc
          · exact absurd hc hm
        exact ⟨h.1, by omega⟩
    · simp only [hc, Bool.false_eq_true, if_false]; exact h
  · simp only [if_true]
    by_cases hc : (r.red.length == 0 || r.red.contains net) = true
    · simp only [hc, if_true]
      by_cases hm : r.red.contains net = true
      · simp only [hm, if_true]; exact h
      · simp only [hm, Bool.false_eq_true, if_false, List.length_cons]
        have : r.red.length = 0 := by
          rw [Bool.or_eq_true] at hc
          rcases hc with hc | hc
          · simpa using hc
          · exact absurd hc hm
        exact ⟨by omega, h.2⟩
    · simp only [hc, Bool.false_eq_true, if_false]; exact h

open Gen in
/-- **relay invariant**, for every sequence of guarded operations from an empty relay -/
theorem relay_invariant (ops : List (Nat × Bool)) : RelayInv (ops.foldl guardedAdd {}) := by
  have : ∀ (r : RelayNode), RelayInv r → RelayInv (ops.foldl guardedAdd r) := by
    induction ops with
    | nil => intro r h; exact h
    | cons op ops ih => intro r h; exact ih _ (guardedAdd_inv r op h)
  exact this {} ⟨by simp, by simp⟩

example : RelayInv ([(3, true), (4, true), (3, true), (5, false)].foldl guardedAdd {}) := relay_invariant _

end Facto
