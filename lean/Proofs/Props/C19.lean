import Model.Canon
import Proofs.Settle
/-!
# C19 / M5 — behaviour is a function of the logical circuit

`Circuit` *is* the logical circuit: configured entities plus, per entity and colour, the producers on its
input network. Two blueprints that decode to the same `Circuit` behave identically for every input and
tick; entity positions never enter `toCircuit`.
-/
namespace Facto

/-- same kinds and same producer lists ⇒ same run, for all inputs and all ticks -/
theorem run_congr_of_same_circuit (c₁ c₂ : Circuit) (hk : c₁.kinds = c₂.kinds) (hr : c₁.prodR = c₂.prodR)
    (hg : c₁.prodG = c₂.prodG) (inp : Inputs) (t i : Nat) : c₁.runF inp t i = c₂.runF inp t i := by
  have hkind : ∀ j, c₁.kind j = c₂.kind j := by intro j; simp [Circuit.kind, hk]
  have hall : ∀ t, c₁.runF inp t = c₂.runF inp t := by
    intro t
    induction t with
    | zero => funext j; simp [Circuit.runF, hkind]
    | succ t ih =>
      funext j
      simp only [Circuit.runF, Circuit.evalEnt, Circuit.readR, Circuit.readG, hkind, hr, hg, ih]
  rw [hall t]

/-- moving entities (and renumbering is a relabelling of `number`) does not change the decoded circuit:
`toCircuit` and `canonical` never read `x2`, `y2` -/
theorem canonical_ignores_position (bp : Blueprint) (f : BpEntity → Int × Int) :
    (Blueprint.toCircuit { bp with ents := bp.ents.map (fun e => { e with x2 := (f e).1, y2 := (f e).2 }) }).kinds
      = (Blueprint.toCircuit bp).kinds := by
  simp [Blueprint.toCircuit, Array.map_map, Function.comp_def]

end Facto
