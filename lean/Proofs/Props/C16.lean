import Proofs.MatchSound
import Model.Elab
import Model.Generated
/-!
# C16 — a for loop equals its unrolling: the iteration values

`Gen.pyIterationValues` is `ForStmt.get_iteration_values` translated from the current source (its two
`while` loops become well-founded recursions whose termination proofs are obligations of the
generated file). `Facto.iterValues` is the specification the reference elaborator unrolls over.
-/
namespace Facto

theorem loop1_eq (stop step : Int) (h : (decide (step > (0 : Int))) = true) :
    ∀ (fuel : Nat) (i : Int), (stop - i).toNat ≤ fuel → Gen.pyIterLoop1 i stop step h = iterUp i stop step fuel := by
  have hs : 0 < step := by simpa using h
  intro fuel
  induction fuel with
  | zero =>
    intro i hf
    unfold Gen.pyIterLoop1 iterUp
    have : ¬ i < stop := by omega
    simp [this]
  | succ f ih =>
    intro i hf
    unfold Gen.pyIterLoop1 iterUp
    by_cases hc : i < stop
    · simp only [hc, dite_true, if_true]
      rw [ih (i + step) (by omega)]
    · simp [hc]

theorem loop2_eq (stop step : Int) (h : (decide (step < (0 : Int))) = true) :
    ∀ (fuel : Nat) (i : Int), (i - stop).toNat ≤ fuel → Gen.pyIterLoop2 i stop step h = iterDown i stop step fuel := by
  have hs : step < 0 := by simpa using h
  intro fuel
  induction fuel with
  | zero =>
    intro i hf
    unfold Gen.pyIterLoop2 iterDown
    have : ¬ i > stop := by omega
    simp [this]
  | succ f ih =>
    intro i hf
    unfold Gen.pyIterLoop2 iterDown
    by_cases hc : i > stop
    · simp only [hc, dite_true, if_true]
      rw [ih (i + step) (by omega)]
    · simp [hc]

/-- The code's iteration values are the specification's, for every start, stop and step
(including the default step, empty ranges, non-dividing steps and — vacuously — step 0). -/
theorem C16_iteration_values (start stop : Int) (step : Option Int) :
    Gen.pyIterationValues start stop step = iterValues start stop step := by
  unfold Gen.pyIterationValues iterValues
  cases step with
  | none =>
    by_cases hlt : start < stop
    · simp only [hlt, decide_true, if_true]
      simp [loop1_eq stop 1 (by decide) (stop - start).toNat start (Nat.le_refl _)]
    · simp only [hlt, decide_false]
      simp [loop2_eq stop (-1) (by decide) (start - stop).toNat start (Nat.le_refl _)]
  | some s =>
    simp only []
    by_cases h1 : s > 0
    · have hd : (decide (s > (0:Int))) = true := by simpa using h1
      simp only [hd, dite_true, h1, if_true]
      exact loop1_eq stop s hd _ start (Nat.le_refl _)
    · by_cases h2 : s < 0
      · have hd1 : ¬ (decide (s > (0:Int))) = true := by simpa using h1
        have hd2 : (decide (s < (0:Int))) = true := by simpa using h2
        simp only [hd1, dite_false, hd2, dite_true, h1, if_false, h2, if_true]
        exact loop2_eq stop s hd2 _ start (Nat.le_refl _)
      · have hd1 : ¬ (decide (s > (0:Int))) = true := by simpa using h1
        have hd2 : ¬ (decide (s < (0:Int))) = true := by simpa using h2
        simp [hd1, hd2, h1, h2]

/-- What the specification enumerates, ascending case: exactly `start + k·step` strictly before `stop`. -/
theorem mem_iterUp (stop step : Int) (hs : 0 < step) :
    ∀ (fuel : Nat) (i x : Int), (stop - i).toNat ≤ fuel →
      (x ∈ iterUp i stop step fuel ↔ ∃ k : Nat, x = i + step * k ∧ x < stop) := by
  intro fuel
  induction fuel with
  | zero =>
    intro i x hf
    unfold iterUp
    constructor
    · intro h; cases h
    · rintro ⟨k, hx, hlt⟩
      have : 0 ≤ step * (k : Int) := Int.mul_nonneg (by omega) (by omega)
      omega
  | succ f ih =>
    intro i x hf
    unfold iterUp
    by_cases hc : i < stop
    · simp only [hc, if_true, List.mem_cons]
      rw [ih (i + step) x (by omega)]
      constructor
      · rintro (h | ⟨k, hx, hlt⟩)
        · exact ⟨0, by simp [h], by omega⟩
        · exact ⟨k + 1, by rw [hx]; push_cast; rw [Int.mul_add]; omega, hlt⟩
      · rintro ⟨k, hx, hlt⟩
        cases k with
        | zero => left; simpa using hx
        | succ k => right; exact ⟨k, by rw [hx]; push_cast; rw [Int.mul_add]; omega, hlt⟩
    · simp only [hc, if_false]
      constructor
      · intro h; cases h
      · rintro ⟨k, hx, hlt⟩
        have : 0 ≤ step * (k : Int) := Int.mul_nonneg (by omega) (by omega)
        omega

/-- zero iterations exactly when the range is empty in the direction of the step -/
theorem iterValues_nil_of_empty (start stop : Int) (s : Int) (hs : 0 < s) (h : stop ≤ start) :
    iterValues start stop (some s) = [] := by
  unfold iterValues
  simp only [hs, if_true]
  have : (stop - start).toNat = 0 := by omega
  rw [this]; rfl

example : iterValues 0 5 (some 2) = [0, 2, 4] := by decide
example : iterValues 10 2 (some (-3)) = [10, 7, 4] := by decide
example : iterValues 3 3 none = [] := by decide
example : Gen.pyIterationValues 6 (-1) none = [6, 5, 4, 3, 2, 1, 0] := by rw [C16_iteration_values]; decide

end Facto
