import Proofs.Props.C14
import Proofs.MatchSound
import Proofs.EmbedSound
/-! C15 / C16: the reference elaborator *defines* a call as its substituted body with fresh copies and a loop as its
unrolling (Model/Elab.lean); the build is then validated against the resulting Core program by the verified
validator (`scalar_end_to_end`, `enable_end_to_end`), for all inputs. The theorem lists audited on every run are in
harness/props/c15.py and c16.py. -/
