import Proofs.MemSound
import Model.Int32
import Model.Generated
import Proofs.Memory
import Proofs.LatchExample
/-!
# C05 — latches: comparison inversion used for the inlined hold condition

`Gen.invertComparison` is `MemoryBuilder._invert_comparison`, translated from the current source.
The inlined latch holds while `NOT reset`; the compiler obtains `NOT (x op c)` by inverting `op`.
-/
namespace Facto

/-- The source-level comparison operators, as the lowering passes them. -/
def srcCmp : List String := ["<", "<=", ">", ">=", "==", "!="]

theorem C05_invert_correct (op : String) (h : op ∈ srcCmp) (c : Int) (x k : I32) :
    ∃ o o', CmpOp.ofString? op = some o ∧ CmpOp.ofString? (Gen.invertComparison op c).1 = some o' ∧
      cmp o' x k = !cmp o x k ∧ (Gen.invertComparison op c).2 = c := by
  simp only [srcCmp, List.mem_cons, List.mem_nil_iff, or_false] at h
  rcases h with h | h | h | h | h | h <;> subst h
  · exact ⟨.lt, .ge, rfl, rfl, by simp [cmp], rfl⟩
  · exact ⟨.le, .gt, rfl, rfl, by simp [cmp], rfl⟩
  · exact ⟨.gt, .le, rfl, rfl, by simp [cmp], rfl⟩
  · exact ⟨.ge, .lt, rfl, rfl, by simp [cmp], rfl⟩
  · exact ⟨.eq, .ne, rfl, rfl, by simp [cmp, bne], rfl⟩
  · exact ⟨.ne, .eq, rfl, rfl, by simp [cmp, bne], rfl⟩

/-- inversion is an involution on the operators -/
theorem C05_invert_involutive (op : String) (h : op ∈ srcCmp) (c : Int) :
    (Gen.invertComparison (Gen.invertComparison op c).1 c).1 = op := by
  simp only [srcCmp, List.mem_cons, List.mem_nil_iff, or_false] at h
  rcases h with h | h | h | h | h | h <;> subst h <;> simp [Gen.invertComparison]

end Facto
