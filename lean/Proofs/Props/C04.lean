import Proofs.MemExample
import Proofs.MemSound
import Proofs.Memory
/-! Property theorems of C04 live in the imported files; the list audited on every run is in harness/props/c04.py. -/
