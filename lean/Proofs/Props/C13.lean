import Proofs.Corollaries
import Proofs.MatchSound
import Proofs.EmbedSound
import Proofs.RenameEndToEnd
/-! C13: whatever signal an untyped scalar value is given, the source denotes the same (`retype_nodeVal`,
`retype_bundle`), and the build is validated against the source with the compiler's actual choice
(`scalar_end_to_end`, whose isolation premises are exactly "not a signal that already travels on the same wire").
Bundle members and selections are covered by equivariance under every injective renaming (`rename_evalNodes`,
`scalar_end_to_end_renamed`, `bundle_end_to_end_renamed`; the compiler's renaming is a composition of transpositions:
`swaps_injective`). The theorem list audited on every run is in harness/props/c13.py. -/
