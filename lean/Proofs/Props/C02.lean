import Proofs.Prune
import Proofs.Rules
import Proofs.MatchSound
/-! Property theorems of C02 live in the imported files; the list audited on every run is in harness/props/c02.py. -/
