import Proofs.Corollaries
import Proofs.MatchSound
import Proofs.EmbedSound
/-! C12: the joint build is validated against the joint source (`scalar_end_to_end` …), and the joint source
contains each program unchanged (`embed_sound`): so for accepted builds every output of P is, for all inputs,
what P alone denotes. The theorem list audited on every run is in harness/props/c12.py. -/
