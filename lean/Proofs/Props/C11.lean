import Proofs.MatchSound
import Proofs.Fold
/-!
# C11 — compile-time arithmetic equals run-time arithmetic

Theorems about the *translated* folders (`Gen.foldBinary` = `ConstantFolder.fold_binary_operation`,
`Gen.optFoldArith` / `Gen.optFoldCmp` = the IR optimiser's folders), regenerated from /repo on every
run. For each operator: for all 32-bit operands in the stated domain, truncating the folder's result
to 32 bits gives exactly what the combinator computes (`Facto.alu` / `Facto.cmp`).

Where the full statement is false on the pinned tree the negation is proved with a concrete witness
and the `_partial` theorem states the region on which agreement holds (finding F05: floor division
and Python modulo; F06 is *not* a disagreement after truncation: `+ - * << **` wrap correctly once
the value is truncated, the crash is in the exporter's range check — see DESIGN §5).
-/
namespace Facto
open Gen

private theorem toNat_of_nonneg (b : I32) (h : 0 ≤ b.toInt) : b.toInt.toNat = b.toNat := by
  rw [BitVec.toInt_eq_toNat_cond] at *
  split at h <;> omega

private theorem toInt_eq_toNat (b : I32) (h : 0 ≤ b.toInt) : b.toInt = (b.toNat : Int) := by
  rw [BitVec.toInt_eq_toNat_cond] at *
  split at h <;> omega

/-! ## lowering folder -/

theorem C11_fold_add (a b : I32) : (foldBinary "+" a.toInt b.toInt).map i32 = some (alu .add a b) := by
  simp [foldBinary, alu, i32_add, i32_toInt]

theorem C11_fold_sub (a b : I32) : (foldBinary "-" a.toInt b.toInt).map i32 = some (alu .sub a b) := by
  simp [foldBinary, alu, i32_sub, i32_toInt]

theorem C11_fold_mul (a b : I32) : (foldBinary "*" a.toInt b.toInt).map i32 = some (alu .mul a b) := by
  simp [foldBinary, alu, i32_mul, i32_toInt]

theorem C11_fold_and (a b : I32) : (foldBinary "AND" a.toInt b.toInt).map i32 = some (alu .and a b) := by
  simp [foldBinary, alu, i32_band]

theorem C11_fold_or (a b : I32) : (foldBinary "OR" a.toInt b.toInt).map i32 = some (alu .or a b) := by
  simp [foldBinary, alu, i32_bor]

theorem C11_fold_xor (a b : I32) : (foldBinary "XOR" a.toInt b.toInt).map i32 = some (alu .xor a b) := by
  simp [foldBinary, alu, i32_bxor]

/-- shift counts 0..31 (assumption A1 excludes the rest) -/
theorem C11_fold_shl (a b : I32) (h0 : 0 ≤ b.toInt) (h1 : b.toInt < 32) :
    (foldBinary "<<" a.toInt b.toInt).map i32 = some (alu .shl a b) := by
  have hb := toInt_eq_toNat b h0
  have hlt : b.toNat < 32 := by omega
  simp only [foldBinary, alu, shl32]
  simp
  have : ¬ (b.toInt < 0 ∨ 32 ≤ b.toInt) := by omega
  simp [this, i32_mask]
  rw [hb, i32_shl, Nat.mod_eq_of_lt hlt]

theorem C11_fold_shr (a b : I32) (h0 : 0 ≤ b.toInt) (h1 : b.toInt < 32) :
    (foldBinary ">>" a.toInt b.toInt).map i32 = some (alu .shr a b) := by
  have hb := toInt_eq_toNat b h0
  have hlt : b.toNat < 32 := by omega
  simp only [foldBinary, alu, sshr32]
  simp
  have : ¬ (b.toInt < 0 ∨ 32 ≤ b.toInt) := by omega
  simp [this]
  rw [hb, i32_shr, Nat.mod_eq_of_lt hlt]

/-- non-negative exponents (assumption A2 covers the rest: both sides give 0, see `C11_fold_pow_neg`) -/
theorem C11_fold_pow (a b : I32) (h0 : 0 ≤ b.toInt) :
    (foldBinary "**" a.toInt b.toInt).map i32 = some (alu .pow a b) := by
  have hn : ¬ b.toInt < 0 := by omega
  simp [foldBinary, alu, ipow_eq, hn, PyInt.pow, i32_pow, i32_toInt, toNat_of_nonneg b h0]

theorem C11_fold_pow_neg (a b : I32) (h0 : b.toInt < 0) :
    (foldBinary "**" a.toInt b.toInt).map i32 = some (alu .pow a b) := by
  simp [foldBinary, alu, ipow_eq, h0, i32]

theorem C11_fold_div_zero (a : I32) : (foldBinary "/" a.toInt (0 : I32).toInt).map i32 = some (alu .div a 0) := by
  simp [foldBinary, alu, sdiv0, i32]

theorem C11_fold_mod_zero (a : I32) : (foldBinary "%" a.toInt (0 : I32).toInt).map i32 = some (alu .mod a 0) := by
  simp [foldBinary, alu, srem0, i32]

/-- division agrees on a non-negative dividend and a positive divisor … -/
theorem C11_fold_div_partial (a b : I32) (ha : 0 ≤ a.toInt) (hb : 0 < b.toInt) :
    (foldBinary "/" a.toInt b.toInt).map i32 = some (alu .div a b) := by
  have hb0 : b ≠ 0 := by intro h; subst h; simp at hb
  have hbi : b.toInt ≠ 0 := by omega
  simp only [foldBinary, alu, sdiv0, PyInt.floordiv]
  simp [hbi]
  unfold i32
  apply BitVec.eq_of_toInt_eq
  split
  · rename_i h; exact absurd h hb0
  rw [BitVec.toInt_sdiv, BitVec.toInt_ofInt]
  congr 1
  rw [Int.fdiv_eq_ediv_of_nonneg _ (by omega), Int.tdiv_eq_ediv_of_nonneg ha]

/-- … and not in general: the folder floors, the combinator truncates (finding F05) -/
theorem C11_fold_div_not_total :
    ¬ ∀ a b : I32, (foldBinary "/" a.toInt b.toInt).map i32 = some (alu .div a b) := by
  intro h
  have := h (i32 (-7)) 2
  revert this; decide

theorem C11_fold_mod_partial (a b : I32) (ha : 0 ≤ a.toInt) (hb : 0 < b.toInt) :
    (foldBinary "%" a.toInt b.toInt).map i32 = some (alu .mod a b) := by
  have hb0 : b ≠ 0 := by intro h; subst h; simp at hb
  have hbi : b.toInt ≠ 0 := by omega
  simp only [foldBinary, alu, srem0, PyInt.mod]
  simp [hbi]
  unfold i32
  apply BitVec.eq_of_toInt_eq
  split
  · rename_i h; exact absurd h hb0
  rw [BitVec.toInt_srem, BitVec.toInt_ofInt]
  have h1 : Int.fmod a.toInt b.toInt = a.toInt % b.toInt := Int.fmod_eq_emod_of_nonneg _ (by omega)
  have h2 : Int.tmod a.toInt b.toInt = a.toInt % b.toInt := Int.tmod_eq_emod_of_nonneg ha
  rw [h1, h2]
  have hlt : a.toInt % b.toInt < b.toInt := Int.emod_lt_of_pos _ hb
  have hge : 0 ≤ a.toInt % b.toInt := Int.emod_nonneg _ hbi
  have hbl := @BitVec.toInt_lt 32 b
  apply Int.bmod_eq_of_le <;> omega

theorem C11_fold_mod_not_total :
    ¬ ∀ a b : I32, (foldBinary "%" a.toInt b.toInt).map i32 = some (alu .mod a b) := by
  intro h
  have := h (i32 (-7)) 2
  revert this; decide

/-! comparisons and logic fold to exactly the combinator's 0/1 -/

theorem C11_fold_lt (a b : I32) : foldBinary "<" a.toInt b.toInt = some (if cmp .lt a b then 1 else 0) := by
  simp [foldBinary, cmp, slt_iff]; split <;> rfl
theorem C11_fold_gt (a b : I32) : foldBinary ">" a.toInt b.toInt = some (if cmp .gt a b then 1 else 0) := by
  simp [foldBinary, cmp, slt_iff]; split <;> rfl
theorem C11_fold_le (a b : I32) : foldBinary "<=" a.toInt b.toInt = some (if cmp .le a b then 1 else 0) := by
  simp only [foldBinary, cmp, slt_iff]; simp; split <;> rfl
theorem C11_fold_ge (a b : I32) : foldBinary ">=" a.toInt b.toInt = some (if cmp .ge a b then 1 else 0) := by
  simp only [foldBinary, cmp, slt_iff]; simp; split <;> rfl
theorem C11_fold_eq (a b : I32) : foldBinary "==" a.toInt b.toInt = some (if cmp .eq a b then 1 else 0) := by
  simp [foldBinary, cmp, BitVec.toInt_inj]; split <;> rfl
theorem C11_fold_ne (a b : I32) : foldBinary "!=" a.toInt b.toInt = some (if cmp .ne a b then 1 else 0) := by
  simp [foldBinary, cmp, BitVec.toInt_inj]; split <;> rfl

/-! ## IR optimiser folders -/

theorem C11_opt_add (a b : I32) : (optFoldArith "+" a.toInt b.toInt).map i32 = some (alu .add a b) := by
  simp [optFoldArith, alu, i32_add, i32_toInt]
theorem C11_opt_sub (a b : I32) : (optFoldArith "-" a.toInt b.toInt).map i32 = some (alu .sub a b) := by
  simp [optFoldArith, alu, i32_sub, i32_toInt]
theorem C11_opt_mul (a b : I32) : (optFoldArith "*" a.toInt b.toInt).map i32 = some (alu .mul a b) := by
  simp [optFoldArith, alu, i32_mul, i32_toInt]
theorem C11_opt_and (a b : I32) : (optFoldArith "AND" a.toInt b.toInt).map i32 = some (alu .and a b) := by
  simp [optFoldArith, alu, i32_band]
theorem C11_opt_or (a b : I32) : (optFoldArith "OR" a.toInt b.toInt).map i32 = some (alu .or a b) := by
  simp [optFoldArith, alu, i32_bor]
theorem C11_opt_xor (a b : I32) : (optFoldArith "XOR" a.toInt b.toInt).map i32 = some (alu .xor a b) := by
  simp [optFoldArith, alu, i32_bxor]

theorem C11_opt_shl (a b : I32) (h0 : 0 ≤ b.toInt) (h1 : b.toInt < 32) :
    (optFoldArith "<<" a.toInt b.toInt).map i32 = some (alu .shl a b) := by
  have hb := toInt_eq_toNat b h0
  have hlt : b.toNat < 32 := by omega
  simp only [optFoldArith, alu, shl32]
  simp
  have : ¬ (b.toInt < 0 ∨ 32 ≤ b.toInt) := by omega
  simp [this, i32_mask]
  rw [hb, i32_shl, Nat.mod_eq_of_lt hlt]

theorem C11_opt_shr (a b : I32) (h0 : 0 ≤ b.toInt) (h1 : b.toInt < 32) :
    (optFoldArith ">>" a.toInt b.toInt).map i32 = some (alu .shr a b) := by
  have hb := toInt_eq_toNat b h0
  have hlt : b.toNat < 32 := by omega
  simp only [optFoldArith, alu, sshr32]
  simp
  have : ¬ (b.toInt < 0 ∨ 32 ≤ b.toInt) := by omega
  simp [this]
  rw [hb, i32_shr, Nat.mod_eq_of_lt hlt]

/-- the optimiser only folds what it can evaluate: whenever it answers for `/` on a non-negative
dividend and positive divisor the answer is the combinator's -/
theorem C11_opt_div_partial (a b : I32) (ha : 0 ≤ a.toInt) (hb : 0 < b.toInt) :
    (optFoldArith "/" a.toInt b.toInt).map i32 = some (alu .div a b) := by
  have hb0 : b ≠ 0 := by intro h; subst h; simp at hb
  have hbi : b.toInt ≠ 0 := by omega
  simp only [optFoldArith, alu, sdiv0, PyInt.floordiv]
  simp [hbi]
  unfold i32
  apply BitVec.eq_of_toInt_eq
  split
  · rename_i h; exact absurd h hb0
  rw [BitVec.toInt_sdiv, BitVec.toInt_ofInt]
  congr 1
  rw [Int.fdiv_eq_ediv_of_nonneg _ (by omega), Int.tdiv_eq_ediv_of_nonneg ha]

theorem C11_opt_div_not_total :
    ¬ ∀ a b : I32, b ≠ 0 → (optFoldArith "/" a.toInt b.toInt).map i32 = some (alu .div a b) := by
  intro h
  have := h (i32 (-7)) 2 (by decide)
  revert this; decide

theorem C11_opt_cmp_lt (a b : I32) : optFoldCmp "<" a.toInt b.toInt = some (cmp .lt a b) := by
  simp [optFoldCmp, cmp, slt_iff]
theorem C11_opt_cmp_gt (a b : I32) : optFoldCmp ">" a.toInt b.toInt = some (cmp .gt a b) := by
  simp [optFoldCmp, cmp, slt_iff]
private theorem toInt_beq (a b : I32) : (a.toInt == b.toInt) = (a == b) := by
  rw [Bool.eq_iff_iff]; simp [BitVec.toInt_inj]
theorem C11_opt_cmp_eq (a b : I32) : optFoldCmp "==" a.toInt b.toInt = some (cmp .eq a b) := by
  simp [optFoldCmp, cmp, toInt_beq]
theorem C11_opt_cmp_ne (a b : I32) : optFoldCmp "!=" a.toInt b.toInt = some (cmp .ne a b) := by
  simp only [optFoldCmp, cmp, bne, toInt_beq]; simp

/-! non-vacuity: the hypotheses of the partial theorems are met by concrete operands -/
example : (0 : Int) ≤ (i32 17).toInt ∧ (0 : Int) < (i32 5).toInt := by decide
example : (0 : Int) ≤ (i32 31).toInt ∧ (i32 31).toInt < 32 := by decide

end Facto
