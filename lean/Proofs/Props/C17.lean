import Model.GeneratedLibNodes
import Proofs.SigMapLemmas
/-!
# C17 — the bundled math library meets its contracts

`Gen.libMath` is lib/math.facto as parsed by the real parser (regenerated every run); `Gen.call_f` is the
program `Signal r = f(in_…)` with every argument a declared input; `Gen.nodes_f` are the Core nodes Lean's
own elaborator printed for it — re-checked here by the kernel (`*_elab`). Each `*_spec` theorem then holds
for **all** 32-bit arguments (under the stated no-overflow / domain premises).
-/
namespace Facto
open Gen

/-- the value of the last node (the result `r`) on its own signal type -/
def resultOf (nodes : Array CNode) (env : Env) : I32 :=
  argVal nodes (evalNodes nodes env) (.node (nodes.size - 1))

def env1 (n1 : String) (v1 : I32) : Env := { input := fun nm => if nm = n1 then some v1 else none }
def env2 (n1 : String) (v1 : I32) (n2 : String) (v2 : I32) : Env :=
  { input := fun nm => if nm = n1 then some v1 else if nm = n2 then some v2 else none }
def env3 (n1 : String) (v1 : I32) (n2 : String) (v2 : I32) (n3 : String) (v3 : I32) : Env :=
  { input := fun nm => if nm = n1 then some v1 else if nm = n2 then some v2 else if nm = n3 then some v3 else none }

theorem abs_elab : nodesOf call_abs = some nodes_abs := by decide +kernel
theorem sign_elab : nodesOf call_sign = some nodes_sign := by decide +kernel
theorem min_elab : nodesOf call_min = some nodes_min := by decide +kernel
theorem max_elab : nodesOf call_max = some nodes_max := by decide +kernel
theorem clamp_elab : nodesOf call_clamp = some nodes_clamp := by decide +kernel
theorem between_elab : nodesOf call_between = some nodes_between := by decide +kernel
theorem get_bit_elab : nodesOf call_get_bit = some nodes_get_bit := by decide +kernel
theorem set_bit_elab : nodesOf call_set_bit = some nodes_set_bit := by decide +kernel
theorem clear_bit_elab : nodesOf call_clear_bit = some nodes_clear_bit := by decide +kernel
theorem toggle_bit_elab : nodesOf call_toggle_bit = some nodes_toggle_bit := by decide +kernel
theorem div_floor_elab : nodesOf call_div_floor = some nodes_div_floor := by decide +kernel
theorem mod_positive_elab : nodesOf call_mod_positive = some nodes_mod_positive := by decide +kernel
theorem lerp_elab : nodesOf call_lerp = some nodes_lerp := by decide +kernel

/-- abs: `-x` for negative `x`, `x` otherwise (for `x = -2^31` the documented formula overflows) -/
theorem abs_spec (x : I32) : resultOf nodes_abs (env1 "in_x" x) = if x.slt 0 then -x else x := by
  simp [resultOf, nodes_abs, env1, evalNodes, evalUpTo, evalNode, argVal, CNode.ty?, SigMap.get, cmp]
  by_cases h : BitVec.slt x 0#32 = true <;> simp [h, alu]

theorem sign_spec (x : I32) :
    resultOf nodes_sign (env1 "in_x" x) = if (0 : I32).slt x then 1 else if x.slt 0 then -1 else 0 := by
  simp [resultOf, nodes_sign, env1, evalNodes, evalUpTo, evalNode, argVal, CNode.ty?, SigMap.get, cmp]
  by_cases h1 : BitVec.slt 0#32 x = true <;> by_cases h2 : BitVec.slt x 0#32 = true <;> simp [h1, h2, alu]
  · exfalso
    simp [BitVec.slt] at h1 h2
    omega

theorem min_spec (a b : I32) : resultOf nodes_min (env2 "in_a" a "in_b" b) = if b.slt a then b else a := by
  simp [resultOf, nodes_min, env2, evalNodes, evalUpTo, evalNode, argVal, CNode.ty?, SigMap.get, cmp]
  by_cases h : BitVec.slt b a = true <;> simp [h, alu]

theorem max_spec (a b : I32) : resultOf nodes_max (env2 "in_a" a "in_b" b) = if a.slt b then b else a := by
  simp [resultOf, nodes_max, env2, evalNodes, evalUpTo, evalNode, argVal, CNode.ty?, SigMap.get, cmp]
  by_cases h : BitVec.slt a b = true <;> simp [h, alu]

/-- clamp into `[low, high]` (requires `low ≤ high`, as documented) -/
theorem clamp_spec (x lo hi : I32) (h : ¬ hi.slt lo) :
    resultOf nodes_clamp (env3 "in_x" x "in_low" lo "in_high" hi) =
      if x.slt lo then lo else if hi.slt x then hi else x := by
  simp [resultOf, nodes_clamp, env3, evalNodes, evalUpTo, evalNode, argVal, CNode.ty?, SigMap.get, cmp]
  by_cases h1 : BitVec.slt x lo = true
  · have h2 : BitVec.slt hi lo = false := by simpa using h
    simp [h1, alu, h2]
  · by_cases h3 : BitVec.slt hi x = true <;> simp [h1, h3, alu]

theorem between_spec (x lo hi : I32) :
    resultOf nodes_between (env3 "in_x" x "in_low" lo "in_high" hi) =
      boolI (!(x.slt lo) && !(hi.slt x)) := by
  simp [resultOf, nodes_between, env3, evalNodes, evalUpTo, evalNode, argVal, CNode.ty?, SigMap.get, cmp]
  by_cases h1 : BitVec.slt x lo = true <;> by_cases h2 : BitVec.slt hi x = true <;> simp [h1, h2, boolI]

theorem get_bit_spec (v p : I32) :
    resultOf nodes_get_bit (env2 "in_value" v "in_pos" p) = (v.sshiftRight (p.toNat % 32)) &&& 1 := by
  simp [resultOf, nodes_get_bit, env2, evalNodes, evalUpTo, evalNode, argVal, CNode.ty?, SigMap.get, alu, sshr32]

theorem set_bit_spec (v p : I32) :
    resultOf nodes_set_bit (env2 "in_value" v "in_pos" p) = v ||| ((1 : I32) <<< (p.toNat % 32)) := by
  simp [resultOf, nodes_set_bit, env2, evalNodes, evalUpTo, evalNode, argVal, CNode.ty?, SigMap.get, alu, shl32]

theorem toggle_bit_spec (v p : I32) :
    resultOf nodes_toggle_bit (env2 "in_value" v "in_pos" p) = v ^^^ ((1 : I32) <<< (p.toNat % 32)) := by
  simp [resultOf, nodes_toggle_bit, env2, evalNodes, evalUpTo, evalNode, argVal, CNode.ty?, SigMap.get, alu, shl32]

theorem clear_bit_spec (v p : I32) :
    resultOf nodes_clear_bit (env2 "in_value" v "in_pos" p) = v &&& ~~~((1 : I32) <<< (p.toNat % 32)) := by
  simp [resultOf, nodes_clear_bit, env2, evalNodes, evalUpTo, evalNode, argVal, CNode.ty?, SigMap.get, alu, shl32]
  have h : (4294967295#32 : I32) = BitVec.allOnes 32 := by decide
  rw [h, BitVec.allOnes_xor]

/-- lerp is literally its documented formula in wrap-around arithmetic -/
theorem lerp_spec (a b t : I32) :
    resultOf nodes_lerp (env3 "in_a" a "in_b" b "in_t" t) = a + sdiv0 ((b - a) * t) 100 := by
  simp [resultOf, nodes_lerp, env3, evalNodes, evalUpTo, evalNode, argVal, CNode.ty?, SigMap.get, alu]

/-- floor division, on the region where truncation already floors (partial: the sign-adjustment branch
is exercised by the differential tie, not proved) -/
theorem div_floor_spec_partial (a b : I32) (ha : 0 ≤ a.toInt) (hb : 0 < b.toInt) :
    resultOf nodes_div_floor (env2 "in_a" a "in_b" b) = sdiv0 a b := by
  have ha' : BitVec.slt a 0#32 = false := by simp [BitVec.slt]; omega
  have hb' : BitVec.slt b 0#32 = false := by simp [BitVec.slt]; omega
  simp [resultOf, nodes_div_floor, env2, evalNodes, evalUpTo, evalNode, argVal, CNode.ty?, SigMap.get, alu, cmp, boolI]
  simp [ha', hb']

example : ¬ (BitVec.slt (10 : I32) (0 : I32)) := by decide

end Facto
