import Model.GeneratedLibNodes
import Proofs.SigMapLemmas
/-!
# C17 — the bundled math library meets its contracts

`Gen.libMath` is lib/math.facto as parsed by the real parser (regenerated every run); `Gen.call_f` is the
program `Signal r = f(in_…)` with every argument a declared input; `Gen.nodes_f` are the Core nodes Lean's
own elaborator printed for it — re-checked here by the kernel (`*_elab`). Each `*_spec` theorem then holds
for **all** 32-bit arguments (under the stated no-overflow / domain premises).
-/
namespace Facto
open Gen

/-- the value of the last node (the result `r`) on its own signal type -/
def resultOf (nodes : Array CNode) (env : Env) : I32 :=
  argVal nodes (evalNodes nodes env) (.node (nodes.size - 1))

def env1 (n1 : String) (v1 : I32) : Env := { input := fun nm => if nm = n1 then some v1 else none }
def env2 (n1 : String) (v1 : I32) (n2 : String) (v2 : I32) : Env :=
  { input := fun nm => if nm = n1 then some v1 else if nm = n2 then some v2 else none }
def env3 (n1 : String) (v1 : I32) (n2 : String) (v2 : I32) (n3 : String) (v3 : I32) : Env :=
  { input := fun nm => if nm = n1 then some v1 else if nm = n2 then some v2 else if nm = n3 then some v3 else none }

theorem abs_elab : nodesOf call_abs = some nodes_abs := by decide +kernel
theorem sign_elab : nodesOf call_sign = some nodes_sign := by decide +kernel
theorem min_elab : nodesOf call_min = some nodes_min := by decide +kernel
theorem max_elab : nodesOf call_max = some nodes_max := by decide +kernel
theorem clamp_elab : nodesOf call_clamp = some nodes_clamp := by decide +kernel
theorem between_elab : nodesOf call_between = some nodes_between := by decide +kernel
theorem get_bit_elab : nodesOf call_get_bit = some nodes_get_bit := by decide +kernel
theorem set_bit_elab : nodesOf call_set_bit = some nodes_set_bit := by decide +kernel
theorem clear_bit_elab : nodesOf call_clear_bit = some nodes_clear_bit := by decide +kernel
theorem toggle_bit_elab : nodesOf call_toggle_bit = some nodes_toggle_bit := by decide +kernel
theorem div_floor_elab : nodesOf call_div_floor = some nodes_div_floor := by decide +kernel
theorem mod_positive_elab : nodesOf call_mod_positive = some nodes_mod_positive := by decide +kernel
theorem lerp_elab : nodesOf call_lerp = some nodes_lerp := by decide +kernel

/-- abs: `-x` for negative `x`, `x` otherwise (for `x = -2^31` the documented formula overflows) -/
theorem abs_spec (x : I32) : resultOf nodes_abs (env1 "in_x" x) = if x.slt 0 then -x else x := by
  simp [resultOf, nodes_abs, env1, evalNodes, evalUpTo, evalNode, argVal, CNode.ty?, SigMap.get, cmp]
  by_cases h : BitVec.slt x 0#32 = true <;> simp [h, alu]

theorem sign_spec (x : I32) :
    resultOf nodes_sign (env1 "in_x" x) = if (0 : I32).slt x then 1 else if x.slt 0 then -1 else 0 := by
  simp [resultOf, nodes_sign, env1, evalNodes, evalUpTo, evalNode, argVal, CNode.ty?, SigMap.get, cmp]
  by_cases h1 : BitVec.slt 0#32 x = true <;> by_cases h2 : BitVec.slt x 0#32 = true <;> simp [h1, h2, alu]
  · exfalso
    simp [BitVec.slt] at h1 h2
    omega

theorem min_spec (a b : I32) : resultOf nodes_min (env2 "in_a" a "in_b" b) = if b.slt a then b else a := by
  simp [resultOf, nodes_min, env2, evalNodes, evalUpTo, evalNode, argVal, CNode.ty?, SigMap.get, cmp]
  by_cases h : BitVec.slt b a = true <;> simp [h, alu]

theorem max_spec (a b : I32) : resultOf nodes_max (env2 "in_a" a "in_b" b) = if a.slt b then b else a := by
  simp [resultOf, nodes_max, env2, evalNodes, evalUpTo, evalNode, argVal, CNode.ty?, SigMap.get, cmp]
  by_cases h : BitVec.slt a b = true <;> simp [h, alu]

/-- clamp into `[low, high]` (requires `low ≤ high`, as documented) -/
theorem clamp_spec (x lo hi : I32) (h : ¬ hi.slt lo) :
    resultOf nodes_clamp (env3 "in_x" x "in_low" lo "in_high" hi) =
      if x.slt lo then lo else if hi.slt x then hi else x := by
  simp [resultOf, nodes_clamp, env3, evalNodes, evalUpTo, evalNode, argVal, CNode.ty?, SigMap.get, cmp]
  by_cases h1 : BitVec.slt x lo = true
  · have h2 : BitVec.slt hi lo = false := by simpa using h
    simp [h1, alu, h2]
  · by_cases h3 : BitVec.slt hi x = true <;> simp [h1, h3, alu]

theorem between_spec (x lo hi : I32) :
    resultOf nodes_between (env3 "in_x" x "in_low" lo "in_high" hi) =
      boolI (!(x.slt lo) && !(hi.slt x)) := by
  simp [resultOf, nodes_between, env3, evalNodes, evalUpTo, evalNode, argVal, CNode.ty?, SigMap.get, cmp]
  by_cases h1 : BitVec.slt x lo = true <;> by_cases h2 : BitVec.slt hi x = true <;> simp [h1, h2, boolI]

theorem get_bit_spec (v p : I32) :
    resultOf nodes_get_bit (env2 "in_value" v "in_pos" p) = (v.sshiftRight (p.toNat % 32)) &&& 1 := by
  simp [resultOf, nodes_get_bit, env2, evalNodes, evalUpTo, evalNode, argVal, CNode.ty?, SigMap.get, alu, sshr32]

theorem set_bit_spec (v p : I32) :
    resultOf nodes_set_bit (env2 "in_value" v "in_pos" p) = v ||| ((1 : I32) <<< (p.toNat % 32)) := by
  simp [resultOf, nodes_set_bit, env2, evalNodes, evalUpTo, evalNode, argVal, CNode.ty?, SigMap.get, alu, shl32]

theorem toggle_bit_spec (v p : I32) :
    resultOf nodes_toggle_bit (env2 "in_value" v "in_pos" p) = v ^^^ ((1 : I32) <<< (p.toNat % 32)) := by
  simp [resultOf, nodes_toggle_bit, env2, evalNodes, evalUpTo, evalNode, argVal, CNode.ty?, SigMap.get, alu, shl32]

theorem clear_bit_spec (v p : I32) :
    resultOf nodes_clear_bit (env2 "in_value" v "in_pos" p) = v &&& ~~~((1 : I32) <<< (p.toNat % 32)) := by
  simp [resultOf, nodes_clear_bit, env2, evalNodes, evalUpTo, evalNode, argVal, CNode.ty?, SigMap.get, alu, shl32]
  have h : (4294967295#32 : I32) = BitVec.allOnes 32 := by decide
  rw [h, BitVec.allOnes_xor]

/-- lerp is literally its documented formula in wrap-around arithmetic -/
theorem lerp_spec (a b t : I32) :
    resultOf nodes_lerp (env3 "in_a" a "in_b" b "in_t" t) = a + sdiv0 ((b - a) * t) 100 := by
  simp [resultOf, nodes_lerp, env3, evalNodes, evalUpTo, evalNode, argVal, CNode.ty?, SigMap.get, alu]

/-- floor division, on the region where truncation already floors (partial: the sign-adjustment branch
is exercised by the differential tie, not proved) -/
theorem div_floor_spec_partial (a b : I32) (ha : 0 ≤ a.toInt) (hb : 0 < b.toInt) :
    resultOf nodes_div_floor (env2 "in_a" a "in_b" b) = sdiv0 a b := by
  have ha' : BitVec.slt a 0#32 = false := by simp [BitVec.slt]; omega
  have hb' : BitVec.slt b 0#32 = false := by simp [BitVec.slt]; omega
  simp [resultOf, nodes_div_floor, env2, evalNodes, evalUpTo, evalNode, argVal, CNode.ty?, SigMap.get, alu, cmp, boolI]
  simp [ha', hb']

example : ¬ (BitVec.slt (10 : I32) (0 : I32)) := by decide


/-! ## floor division and always-positive modulo: all arguments -/


theorem boolI_ne0 (x : Bool) : (boolI x != 0#32) = x := by cases x <;> decide
theorem boolI_xor_ne0 (x y : Bool) : (boolI x ^^^ boolI y != 0#32) = (x != y) := by cases x <;> cases y <;> decide
theorem boolI_toInt (x : Bool) : (boolI x).toInt = if x then 1 else 0 := by cases x <;> decide

theorem df_reduce (a b : I32) :
    resultOf nodes_div_floor (env2 "in_a" a "in_b" b) =
      sdiv0 a b - boolI ((srem0 a b != 0) && (a.slt 0 != b.slt 0)) := by
  simp [resultOf, nodes_div_floor, env2, evalNodes, evalUpTo, evalNode, argVal, CNode.ty?, SigMap.get, alu, cmp,
    boolI_ne0, boolI_xor_ne0]

/-- **floor division, all arguments** (divisor non-zero; `-2^31 / -1` excluded): the result is the floor quotient,
as a 32-bit value -/
theorem div_floor_spec (a b : I32) (hb : b ≠ 0) (hov : a ≠ BitVec.intMin 32 ∨ b ≠ -1#32) :
    (resultOf nodes_div_floor (env2 "in_a" a "in_b" b)).toInt = (a.toInt.fdiv b.toInt).bmod (2 ^ 32) := by
  rw [df_reduce]
  have hB : b.toInt ≠ 0 := by
    intro h; apply hb; apply BitVec.eq_of_toInt_eq; simpa using h
  simp only [sdiv0, srem0, hb, if_false]
  rw [BitVec.toInt_sub, BitVec.toInt_sdiv_of_ne_or_ne a b hov, boolI_toInt, Int.fdiv_eq_tdiv]
  congr 1
  congr 1
  -- the adjustment
  have hr : (a.srem b != (0 : I32)) = !decide (b.toInt ∣ a.toInt) := by
    have : (a.srem b = 0#32) ↔ b.toInt ∣ a.toInt := by
      rw [← BitVec.toInt_inj, BitVec.toInt_srem]
      simp only [BitVec.toInt_zero]
      exact (Int.dvd_iff_tmod_eq_zero).symm
    by_cases hd : b.toInt ∣ a.toInt
    · simp [hd, this.mpr hd]
    · have : ¬ a.srem b = 0#32 := fun h => hd (this.mp h)
      simp [hd, this]
  have ha : a.slt 0 = decide (a.toInt < 0) := by simp [BitVec.slt]
  have hbs : b.slt 0 = decide (b.toInt < 0) := by simp [BitVec.slt]
  rw [hr, ha, hbs]
  by_cases hd : b.toInt ∣ a.toInt
  · simp [hd]
  · simp only [hd, decide_false, Bool.not_false, Bool.true_and, if_false]
    by_cases h1 : 0 ≤ a.toInt <;> by_cases h2 : 0 ≤ b.toInt
    · have : ¬ a.toInt < 0 := by omega
      have : ¬ b.toInt < 0 := by omega
      simp [*]
    · have : ¬ a.toInt < 0 := by omega
      have : b.toInt < 0 := by omega
      simp [*]
    · have : a.toInt < 0 := by omega
      have : ¬ b.toInt < 0 := by omega
      have hs : b.toInt.sign = 1 := Int.sign_eq_one_of_pos (by omega)
      simp [*]
    · have : a.toInt < 0 := by omega
      have : b.toInt < 0 := by omega
      have hs : b.toInt.sign = -1 := Int.sign_eq_neg_one_of_neg (by omega)
      simp [*]



/-- **always-positive modulo, all arguments** (divisor non-zero): the result is the Euclidean remainder
`a mod |b|` (non-negative, like Python's `%` for positive `b`), as a 32-bit value -/
theorem mod_positive_spec (a b : I32) (hb : b ≠ 0) :
    (resultOf nodes_mod_positive (env2 "in_a" a "in_b" b)).toInt = (a.toInt % b.toInt).bmod (2 ^ 32) := by
  have hred : resultOf nodes_mod_positive (env2 "in_a" a "in_b" b) =
      ((if BitVec.slt (srem0 a b) 0#32 = false then srem0 a b else 0#32) +
        if BitVec.slt (srem0 a b) 0#32 = true then
          srem0 a b + ((if BitVec.slt b 0#32 = false then b else 0#32) + if BitVec.slt b 0#32 = true then -b else 0#32)
        else 0#32) := by
    simp [resultOf, nodes_mod_positive, env2, evalNodes, evalUpTo, evalNode, argVal, CNode.ty?, SigMap.get, alu, cmp]
  rw [hred]
  simp only [srem0, hb, if_false]
  have hR : (a.srem b).toInt = a.toInt.tmod b.toInt := BitVec.toInt_srem a b
  have hrs : BitVec.slt (a.srem b) 0#32 = decide (a.toInt.tmod b.toInt < 0) := by simp [BitVec.slt, hR]
  have hbs : BitVec.slt b 0#32 = decide (b.toInt < 0) := by simp [BitVec.slt]
  have hB : b.toInt ≠ 0 := by
    intro h; apply hb; apply BitVec.eq_of_toInt_eq; simpa using h
  -- when is the truncated remainder negative?
  have hneg : a.toInt.tmod b.toInt < 0 ↔ ¬ (0 ≤ a.toInt ∨ b.toInt ∣ a.toInt) := by
    constructor
    · intro h hc
      rcases hc with h0 | hd
      · have := Int.tmod_nonneg b.toInt h0; omega
      · have := Int.dvd_iff_tmod_eq_zero.mp hd; omega
    · intro h
      have h0 : a.toInt < 0 := by
        apply Classical.byContradiction; intro hc; exact h (Or.inl (by omega))
      have hd : ¬ b.toInt ∣ a.toInt := fun hd => h (Or.inr hd)
      have hle : a.toInt.tmod b.toInt ≤ 0 := by
        have := Int.tmod_nonneg b.toInt (show 0 ≤ -a.toInt by omega)
        rw [Int.neg_tmod] at this
        omega
      have hne : a.toInt.tmod b.toInt ≠ 0 := fun e => hd (Int.dvd_iff_tmod_eq_zero.mpr e)
      omega
  rw [Int.emod_eq_tmod]
  by_cases hr : a.toInt.tmod b.toInt < 0
  · have hc := hneg.mp hr
    simp only [hrs, hr, decide_true, Bool.true_eq_false, if_false, if_true, hc, hbs]
    by_cases hbn : b.toInt < 0
    · simp only [hbn, decide_true, Bool.true_eq_false, if_false, if_true, BitVec.zero_add]
      rw [BitVec.toInt_add, hR, BitVec.toInt_neg, Int.add_bmod_bmod]
      congr 1
      omega
    · simp only [hbn, decide_false, if_true, Bool.false_eq_true, if_false, BitVec.add_zero, BitVec.zero_add]
      rw [BitVec.toInt_add, hR]
      congr 1
      omega
  · have hc : (0 ≤ a.toInt ∨ b.toInt ∣ a.toInt) := by
      apply Classical.byContradiction; intro h; exact hr (hneg.mpr h)
    simp only [hrs, hr, decide_false, if_true, Bool.false_eq_true, if_false, BitVec.add_zero, hc]
    rw [hR]
    have hb1 : -(2:Int)^31 ≤ a.toInt.tmod b.toInt := by
      have := BitVec.le_toInt (a.srem b); rw [hR] at this; simpa using this
    have hb2 : a.toInt.tmod b.toInt < (2:Int)^31 := by
      have := @BitVec.toInt_lt 32 (a.srem b); rw [hR] at this; simpa using this
    have e0 : (((0 : Nat) : Int)) = 0 := rfl
    rw [e0, Int.add_zero, Int.bmod_eq_of_le (by omega) (by omega)]


end Facto
