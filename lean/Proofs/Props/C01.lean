import Proofs.Settle
import Proofs.Rules
/-! Property theorems of C01 live in the imported files; the list audited on every run is in harness/props/c01.py. -/
