import Proofs.Prune
import Proofs.Settle
import Proofs.Rules
import Proofs.MatchSound
import Proofs.MatchExample
import Proofs.Mirror
import Proofs.NetSound
/-! Property theorems of C01 live in the imported files; the list audited on every run is in harness/props/c01.py.
The per-program theorem is `Facto.scalar_end_to_end` (Proofs/MatchSound.lean); `Proofs/MatchExample.lean`
instantiates it on a concrete circuit (non-vacuity). -/
