import Proofs.Prune
import Proofs.MatchSound
import Proofs.Rules
import Proofs.Settle
/-! Property theorems of C06 live in the imported files; the list audited on every run is in harness/props/c06.py. -/
