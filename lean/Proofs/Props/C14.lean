import Model.Elab
/-!
# C14 — a violating construct is rejected wherever it occurs

`elabStmts` runs statements in sequence in the `StateT ES (Except ElabErr)` monad: the first error
aborts the program. Hence a construct that the reference elaborator rejects (in every state it can be
reached in) makes every program containing it be rejected, whatever precedes and follows it — at top
level and inside loop bodies (which are elaborated once per iteration value).
-/
namespace Facto

theorem elabStmts_cons (f : Nat) (st : SStmt) (rest : List SStmt) :
    elabStmts (f + 1) (st :: rest) = (do elabStmt f st; elabStmts f rest) := by
  rw [elabStmts]

theorem elabStmts_nil (f : Nat) : elabStmts (f + 1) [] = pure () := by
  rw [elabStmts]

/-- an error in the first statement is the error of the sequence -/
theorem elabStmts_cons_error (f : Nat) (st : SStmt) (rest : List SStmt) (s : ES) (e : ElabErr)
    (h : (elabStmt f st).run s = .error e) : (elabStmts (f + 1) (st :: rest)).run s = .error e := by
  rw [elabStmts_cons]
  simp only [StateT.run_bind, h]
  rfl

/-- a successful first statement hands its state to the rest -/
theorem elabStmts_cons_ok (f : Nat) (st : SStmt) (rest : List SStmt) (s s' : ES)
    (h : (elabStmt f st).run s = .ok ((), s')) :
    (elabStmts (f + 1) (st :: rest)).run s = (elabStmts f rest).run s' := by
  rw [elabStmts_cons]
  simp only [StateT.run_bind, h]
  rfl

/-- errors propagate through any successful prefix -/
theorem elabStmts_append_error (bad : SStmt) (post : List SStmt) (f : Nat)
    (hbad : ∀ s', ∃ e, (elabStmt f bad).run s' = .error e) :
    ∀ (pre : List SStmt) (s : ES), ∃ e, (elabStmts (f + pre.length + 1) (pre ++ bad :: post)).run s = .error e := by
  intro pre
  induction pre with
  | nil =>
    intro s
    obtain ⟨e, he⟩ := hbad s
    exact ⟨e, by simpa using elabStmts_cons_error f bad post s e he⟩
  | cons st pre ih =>
    intro s
    have hlen : f + (st :: pre).length + 1 = (f + pre.length + 1) + 1 := by simp; omega
    rw [hlen, List.cons_append]
    cases hst : (elabStmt (f + pre.length + 1) st).run s with
    | error e => exact ⟨e, elabStmts_cons_error _ st _ s e hst⟩
    | ok r =>
      obtain ⟨⟨⟩, s'⟩ := r
      rw [elabStmts_cons_ok _ st _ s s' hst]
      exact ih s'

/-- **C14.** A statement rejected in every state is rejected at any statement position of any
surrounding program (for every amount of elaboration fuel left when it is reached). -/
theorem C14_violation_anywhere_rejected (bad : SStmt) (pre post : List SStmt) (f : Nat)
    (hbad : ∀ s', ∃ e, (elabStmt f bad).run s' = .error e) (s : ES) :
    ∃ e, (elabStmts (f + pre.length + 1) (pre ++ bad :: post)).run s = .error e :=
  elabStmts_append_error bad post f hbad pre s

/-- … and inside a loop body: the first iteration already fails -/
theorem C14_violation_in_loop_rejected (bad : SStmt) (pre post : List SStmt) (f : Nat) (it : String)
    (v : I32) (vs : List I32)
    (hbad : ∀ s', ∃ e, (elabStmt f bad).run s' = .error e) (s : ES) :
    ∃ e, (elabIters (f + pre.length + 1 + 1) it (v :: vs) (pre ++ bad :: post)).run s = .error e := by
  rw [elabIters]
  obtain ⟨e, he⟩ := elabStmts_append_error bad post f hbad pre { s with scopes := [(it, Val.int v)] :: s.scopes }
  refine ⟨e, ?_⟩
  simp only [StateT.run_bind, bind, StateT.bind, get, getThe, MonadStateOf.get, StateT.get, pure, Except.pure, set,
    StateT.set, Except.bind, StateT.run] at he ⊢
  rw [he]

/-! ## non-vacuity: a reserved-signal literal is rejected in every state -/

theorem fail_run {α} (cls : ErrClass) (msg : String) (s : ES) :
    (fail cls msg : EM α).run s = .error { cls, msg, line := s.line } := rfl

theorem bind_run_error {α β} (a : EM α) (k : α → EM β) (s : ES) (e : ElabErr) (h : a.run s = .error e) :
    (a >>= k).run s = .error e := by
  simp only [StateT.run_bind, h]
  rfl

theorem bind_run_ok {α β} (a : EM α) (k : α → EM β) (s s' : ES) (x : α) (h : a.run s = .ok (x, s')) :
    (a >>= k).run s = (k x).run s' := by
  simp only [StateT.run_bind, h]
  rfl

theorem checkSignalName_reserved (s : ES) :
    ∃ e, (checkSignalName "signal-W").run s = .error e := by
  unfold checkSignalName
  simp only [show ("signal-W" == "signal-W") = true by decide, if_true]
  exact ⟨_, bind_run_error _ _ s _ (fail_run _ _ s)⟩

theorem resolveTy_reserved (s : ES) : ∃ e, (resolveTy (.name "signal-W")).run s = .error e := by
  obtain ⟨e, he⟩ := checkSignalName_reserved s
  exact ⟨e, by unfold resolveTy; exact bind_run_error _ _ s e he⟩

theorem reserved_literal_expr_rejected (f : Nat) (v : SExpr) (s : ES) :
    ∃ e, (elabExpr (f + 1) (.siglit (some (.name "signal-W")) v)).run s = .error e := by
  obtain ⟨e, he⟩ := resolveTy_reserved s
  refine ⟨e, ?_⟩
  rw [elabExpr]
  exact bind_run_error _ _ s e he

example : ∃ e, (elabExpr 1 (.siglit (some (.name "signal-W")) (.num 1))).run {} = .error e :=
  reserved_literal_expr_rejected 0 _ _

end Facto

namespace Facto

/-! ## more rule instances, each for every state the construct can be reached in -/

/-- a bare `any(b)` (no comparison) is refused, whatever `b` is -/
theorem bare_any_rejected (f : Nat) (b : SExpr) (s : ES) :
    ∃ e, (elabExpr (f + 1) (.any b)).run s = .error e ∧ e.cls = .bundleCmp := by
  refine ⟨{ cls := .bundleCmp, msg := "any() must be compared", line := s.line }, ?_, rfl⟩
  rw [elabExpr]
  exact fail_run _ _ s

theorem bare_all_rejected (f : Nat) (b : SExpr) (s : ES) :
    ∃ e, (elabExpr (f + 1) (.all b)).run s = .error e ∧ e.cls = .bundleCmp := by
  refine ⟨{ cls := .bundleCmp, msg := "all() must be compared", line := s.line }, ?_, rfl⟩
  rw [elabExpr]
  exact fail_run _ _ s

/-- calling a function that is not defined is refused -/
theorem undefined_function_rejected (f : Nat) (name : String) (args : List SExpr) (s : ES) (hname : name ≠ "place")
    (h : s.funcs.find? (·.name == name) = none) :
    ∃ e, (elabExpr (f + 1) (.call name args)).run s = .error e ∧ e.cls = .undefined := by
  refine ⟨{ cls := .undefined, msg := s!"undefined function '{name}'", line := s.line }, ?_, rfl⟩
  rw [elabExpr]
  simp only [StateT.run_bind, bind, StateT.bind, get, getThe, MonadStateOf.get, StateT.get, pure, Except.pure,
    Except.bind, StateT.run, h]
  · rfl
  · exact hname

/-- direct or indirect recursion: a call of a function that is already on the call stack is refused -/
theorem recursion_rejected (f : Nat) (name : String) (args : List SExpr) (s : ES) (fd : FuncDef) (hname : name ≠ "place")
    (hf : s.funcs.find? (·.name == name) = some fd) (hrec : s.callStack.contains name = true) :
    ∃ e, (elabExpr (f + 1) (.call name args)).run s = .error e ∧ e.cls = .recursion := by
  refine ⟨{ cls := .recursion, msg := s!"recursive call of '{name}'", line := s.line }, ?_, rfl⟩
  rw [elabExpr]
  simp only [StateT.run_bind, bind, StateT.bind, get, getThe, MonadStateOf.get, StateT.get, pure, Except.pure,
    Except.bind, StateT.run, hf, hrec, if_true]
  · rfl
  · exact hname

/-- an unsupported construct the parser could not classify is refused -/
theorem unknown_expr_rejected (f : Nat) (w : String) (s : ES) :
    ∃ e, (elabExpr (f + 1) (.unknown w)).run s = .error e := by
  refine ⟨{ cls := .unsupported, msg := s!"unsupported construct {w}", line := s.line }, ?_⟩
  rw [elabExpr]
  exact fail_run _ _ s

end Facto
