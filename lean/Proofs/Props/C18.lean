import Model.Geometry
import Proofs.GeoSound
/-!
# C18 — pole grids

* A row of poles at pitch `2·r` whose supply intervals have half-width `r` covers every point between the
  first and the last pole (1-D lemma), hence a rectangular grid covers its bounding box (2-D corollary):
  this is the geometric fact `add_power_pole_grid` relies on (pitch = 2 × supply radius).
* Connecting every pole to its nearest neighbours does **not** imply a single electric network: a
  counter-model with two far-apart pairs. The single-network clause of C18 is therefore *checked* on every
  printed blueprint (union–find over the copper wires in `Model/Geometry.lean`), not derived.
-/
namespace Facto

/-- poles at `x0, x0 + 2r, …, x0 + 2r·(n-1)`; each supplies `[p - r, p + r]` -/
def poleAt (x0 r : Int) (k : Nat) : Int := x0 + 2 * r * k

theorem grid_covers_1d (x0 r : Int) (hr : 0 < r) (n : Nat) (x : Int)
    (hlo : x0 - r ≤ x) (hhi : x ≤ poleAt x0 r n + r) :
    ∃ k : Nat, k ≤ n ∧ poleAt x0 r k - r ≤ x ∧ x ≤ poleAt x0 r k + r := by
  induction n with
  | zero => exact ⟨0, Nat.le_refl _, by simpa [poleAt] using hlo, by simpa [poleAt] using hhi⟩
  | succ n ih =>
    by_cases h : x ≤ poleAt x0 r n + r
    · obtain ⟨k, hk, h1, h2⟩ := ih h
      exact ⟨k, by omega, h1, h2⟩
    · refine ⟨n + 1, Nat.le_refl _, ?_, hhi⟩
      unfold poleAt at *
      push_cast at *
      have : 2 * r * ((n : Int) + 1) = 2 * r * n + 2 * r := by rw [Int.mul_add]; omega
      omega

/-- a rectangular grid of poles covers every point of its (supply-extended) bounding box -/
theorem grid_covers (x0 y0 r : Int) (hr : 0 < r) (nx ny : Nat) (x y : Int)
    (hx1 : x0 - r ≤ x) (hx2 : x ≤ poleAt x0 r nx + r) (hy1 : y0 - r ≤ y) (hy2 : y ≤ poleAt y0 r ny + r) :
    ∃ i j : Nat, i ≤ nx ∧ j ≤ ny ∧ poleAt x0 r i - r ≤ x ∧ x ≤ poleAt x0 r i + r ∧
      poleAt y0 r j - r ≤ y ∧ y ≤ poleAt y0 r j + r := by
  obtain ⟨i, hi, a1, a2⟩ := grid_covers_1d x0 r hr nx x hx1 hx2
  obtain ⟨j, hj, b1, b2⟩ := grid_covers_1d y0 r hr ny y hy1 hy2
  exact ⟨i, j, hi, hj, a1, a2, b1, b2⟩

/-- four poles on a line at 0, 1, 100, 101: each one's nearest neighbour is its partner -/
def farPairs : List Int := [0, 1, 100, 101]

def nearest (ps : List Int) (p : Int) : Int :=
  ((ps.filter (· != p)).foldl (fun best q => if (q - p).natAbs < (best - p).natAbs then q else best) (p + 1000000))

/-- "connect every pole to its nearest neighbour" leaves two islands -/
theorem nearest_neighbour_not_connected :
    (farPairs.map (nearest farPairs)) = [1, 0, 101, 100] := by decide

end Facto
