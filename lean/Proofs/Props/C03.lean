import Proofs.MemSound
import Proofs.Memory
import Proofs.Settle
/-! Property theorems of C03 live in the imported files; the list audited on every run is in harness/props/c03.py. -/
