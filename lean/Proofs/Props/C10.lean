import Proofs.Corollaries
/-! C10: the theorem list audited on every run is in harness/props/c10.py. -/
