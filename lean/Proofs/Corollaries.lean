import Proofs.Prune
import Proofs.EmbedSound
/-!
# Property-shaped corollaries of the per-program theorems

C10 (two builds of one source), C12 (a program alone and inside a joint program), C13 (a program and its retyped
twin): each is "both sides equal the same denotation".
-/
namespace Facto
open SigMap

/-- **C10.** Two builds (optimised / not optimised) of the same source that both pass the validator show the same
value for the same result, for every input valuation, from their settling ticks on — whatever entities and signals
the two builds use for it. -/
theorem two_builds_agree (nodes : Array CNode) (env : Env)
    (c1 c2 : Circuit) (bind1 bind2 : Nat → Option Bind) (rank1 rank2 : Nat → Nat)
    (hr1 : c1.checkRanked rank1 = true) (hr2 : c2.checkRanked rank2 = true)
    (ha1 : checkAll c1 nodes bind1 = true) (ha2 : checkAll c2 nodes bind2 = true)
    (inp1 inp2 : Inputs) (hi1 : InputsOK c1 inp1) (hi2 : InputsOK c2 inp2)
    (hg1 : InputsAgree nodes bind1 inp1 env) (hg2 : InputsAgree nodes bind2 inp2 env)
    (T : Nat) (hT1 : ∀ i, rank1 i < T) (hT2 : ∀ i, rank2 i < T) (t1 t2 : Nat) (ht1 : T ≤ t1) (ht2 : T ≤ t2)
    (n e1 e2 : Nat) (s1 s2 : Sig) (hn : n < nodes.size)
    (hb1 : bind1 n = some (.ent e1 s1)) (hb2 : bind2 n = some (.ent e2 s2)) :
    get (c1.runF inp1 t1 e1) s1 = get (c2.runF inp2 t2 e2) s2 := by
  rw [scalar_end_to_end c1 nodes bind1 rank1 hr1 ha1 inp1 env hi1 hg1 T hT1 t1 ht1 n e1 s1 hn hb1,
    scalar_end_to_end c2 nodes bind2 rank2 hr2 ha2 inp2 env hi2 hg2 T hT2 t2 ht2 n e2 s2 hn hb2]

/-- **C12.** `P` compiled alone (`cP`) and `P` inside the joint program `P'` (`cJ`): if `P` embeds in `P'`
(`embedsCheck` after retyping) and both builds pass the validator, every result of `P` shows the same value in both
builds, for all inputs. -/
theorem alone_and_joint_agree (P P2 P' : Array CNode) (ι μ ε : Nat → Nat)
    (hre : retypeCheck P P2 = true) (hem : embedsCheck ι μ ε P2 P' = true)
    (env env' : Env) (hrel : EnvRel μ ε env env')
    (cP cJ : Circuit) (bindP bindJ : Nat → Option Bind) (rankP rankJ : Nat → Nat)
    (hrP : cP.checkRanked rankP = true) (hrJ : cJ.checkRanked rankJ = true)
    (haP : checkAll cP P bindP = true) (haJ : checkAll cJ P' bindJ = true)
    (inpP inpJ : Inputs) (hiP : InputsOK cP inpP) (hiJ : InputsOK cJ inpJ)
    (hgP : InputsAgree P bindP inpP env) (hgJ : InputsAgree P' bindJ inpJ env')
    (T : Nat) (hTP : ∀ i, rankP i < T) (hTJ : ∀ i, rankJ i < T) (t1 t2 : Nat) (ht1 : T ≤ t1) (ht2 : T ≤ t2)
    (n eP eJ : Nat) (sP sJ : Sig) (hn : n < P.size) (hnJ : ι n < P'.size)
    (hbP : bindP n = some (.ent eP sP)) (hbJ : bindJ (ι n) = some (.ent eJ sJ)) :
    get (cP.runF inpP t1 eP) sP = get (cJ.runF inpJ t2 eJ) sJ := by
  rw [scalar_end_to_end cP P bindP rankP hrP haP inpP env hiP hgP T hTP t1 ht1 n eP sP hn hbP,
    scalar_end_to_end cJ P' bindJ rankJ hrJ haJ inpJ env' hiJ hgJ T hTJ t2 ht2 (ι n) eJ sJ hnJ hbJ,
    embed_retype_nodeVal ι μ ε P P2 P' hre hem env env' hrel n hn]

/-- **C13.** A program and the same program with other signal types on its scalar values (in particular: with a
fresh explicit type on every untyped value): both builds, if they pass the validator, show the same values. -/
theorem retyped_builds_agree (P P2 : Array CNode) (hre : retypeCheck P P2 = true) (env : Env)
    (c1 c2 : Circuit) (bind1 bind2 : Nat → Option Bind) (rank1 rank2 : Nat → Nat)
    (hr1 : c1.checkRanked rank1 = true) (hr2 : c2.checkRanked rank2 = true)
    (ha1 : checkAll c1 P bind1 = true) (ha2 : checkAll c2 P2 bind2 = true)
    (inp1 inp2 : Inputs) (hi1 : InputsOK c1 inp1) (hi2 : InputsOK c2 inp2)
    (hg1 : InputsAgree P bind1 inp1 env) (hg2 : InputsAgree P2 bind2 inp2 env)
    (T : Nat) (hT1 : ∀ i, rank1 i < T) (hT2 : ∀ i, rank2 i < T) (t1 t2 : Nat) (ht1 : T ≤ t1) (ht2 : T ≤ t2)
    (n e1 e2 : Nat) (s1 s2 : Sig) (hn : n < P.size)
    (hb1 : bind1 n = some (.ent e1 s1)) (hb2 : bind2 n = some (.ent e2 s2)) :
    get (c1.runF inp1 t1 e1) s1 = get (c2.runF inp2 t2 e2) s2 := by
  have hsz : P.size = P2.size := by
    unfold retypeCheck at hre
    simp only [Bool.and_eq_true, beq_iff_eq] at hre
    exact hre.1
  rw [scalar_end_to_end c1 P bind1 rank1 hr1 ha1 inp1 env hi1 hg1 T hT1 t1 ht1 n e1 s1 hn hb1,
    scalar_end_to_end c2 P2 bind2 rank2 hr2 ha2 inp2 env hi2 hg2 T hT2 t2 ht2 n e2 s2 (by omega) hb2,
    retype_nodeVal P P2 hre env n hn]

end Facto
