import Proofs.Congr
import Proofs.MemSound
/-!
# Pruning irrelevant producers

A compiler that lets sinks of one source share a network (finding F02) puts entities on each other's input networks
that have nothing to say there: they cannot emit any signal the reader reads. Such a producer is no dependency.
`Circuit.prune` removes it from the producer lists, and `prune_run` proves that the pruned circuit runs exactly like
the original, signal by signal, at every tick. The rank certificate (M1) and the validator can therefore work on the
pruned circuit; a circuit whose only cycles go through irrelevant producers still settles.
-/
namespace Facto
open SigMap

theorem prune_kind (c : Circuit) (i : Nat) : c.prune.kind i = c.kind i := rfl

theorem prune_readR (c : Circuit) (E : Nat → SigMap) (i : Nat) :
    c.prune.readR E i = Circuit.sumOuts ((c.prodR.getD i []).filter (c.relevant true i)) E := by
  unfold Circuit.readR Circuit.prune
  by_cases hi : i < c.prodR.size
  · simp [Array.getD_eq_getD_getElem?, hi]
  · simp [Array.getD_eq_getD_getElem?, hi]

theorem prune_readG (c : Circuit) (E : Nat → SigMap) (i : Nat) :
    c.prune.readG E i = Circuit.sumOuts ((c.prodG.getD i []).filter (c.relevant false i)) E := by
  unfold Circuit.readG Circuit.prune
  by_cases hi : i < c.prodG.size
  · simp [Array.getD_eq_getD_getElem?, hi]
  · simp [Array.getD_eq_getD_getElem?, hi]

/-- agreement on the signals of a list -/
def SEqOn (l : List Sig) (m m' : SigMap) : Prop := ∀ s, s ∈ l → get m s = get m' s

theorem selIn_get_congr (sel : Sel) (s : Sig) {r r' g g' : SigMap}
    (hr : sel.red = true → get r s = get r' s) (hg : sel.green = true → get g s = get g' s) :
    get (selIn sel r g) s = get (selIn sel r' g') s := by
  unfold selIn
  cases h1 : sel.red <;> cases h2 : sel.green <;> simp_all

theorem optAppend_some {a b : Option (List Sig)} {l : List Sig} (h : optAppend a b = some l) :
    ∃ la lb, a = some la ∧ b = some lb ∧ l = la ++ lb := by
  cases a <;> cases b <;> simp [optAppend] at h
  exact ⟨_, _, rfl, rfl, h.symm⟩

/-- an operand whose signals (per colour) lie in `lR` / `lG` reads the same from maps that agree there -/
theorem Operand.val_congr_on (o : Operand) (lR lG : List Sig) (la lb : List Sig)
    (hR : o.sigsOn true = some la) (hG : o.sigsOn false = some lb)
    (hsR : ∀ s, s ∈ la → s ∈ lR) (hsG : ∀ s, s ∈ lb → s ∈ lG)
    {r r' g g' : SigMap} (hr : SEqOn lR r r') (hg : SEqOn lG g g') : o.val r g = o.val r' g' := by
  cases o with
  | const k => rfl
  | ref rf sel =>
    cases rf with
    | sig s =>
      simp only [Operand.val]
      apply selIn_get_congr
      · intro hred
        apply hr s
        apply hsR
        simp only [Operand.sigsOn, Sel.has, if_true, hred] at hR
        injection hR with e; subst e; simp
      · intro hgreen
        apply hg s
        apply hsG
        simp only [Operand.sigsOn, Sel.has, Bool.false_eq_true, if_false, hgreen, if_true] at hG
        injection hG with e; subst e; simp
    | each => simp [Operand.sigsOn] at hR
    | anything => simp [Operand.sigsOn] at hR
    | everything => simp [Operand.sigsOn] at hR

theorem sigsOn_not_each (o : Operand) (red : Bool) (l : List Sig) (h : o.sigsOn red = some l) : o.isEach = false := by
  cases o with
  | const k => rfl
  | ref rf sel => cases rf <;> simp_all [Operand.sigsOn, Operand.isEach]

/-- the producers pruned from a colour of entity `i` contribute nothing on the signals `i` reads on that colour -/
theorem prune_reads (c : Circuit) (E : Nat → SigMap) (hE : EmitsOK c E) (i : Nat) (lR lG : List Sig)
    (hlR : (c.kind i).readSigsOn true = some lR) (hlG : (c.kind i).readSigsOn false = some lG) :
    SEqOn lR (c.readR E i) (c.prune.readR E i) ∧ SEqOn lG (c.readG E i) (c.prune.readG E i) := by
  have hz : ∀ (red : Bool) (l : List Sig), (c.kind i).readSigsOn red = some l →
      ∀ s, s ∈ l → ∀ p, c.relevant red i p = false → get (E p) s = 0 := by
    intro red l hl s hs p hp
    apply hE
    unfold Circuit.relevant at hp
    rw [hl] at hp
    simp only [List.any_eq_false] at hp
    have := hp s hs
    simpa using this
  constructor
  · intro s hs
    rw [prune_readR]
    exact (get_sumOuts_filter E s (c.relevant true i) _ (hz true lR hlR s hs)).symm
  · intro s hs
    rw [prune_readG]
    exact (get_sumOuts_filter E s (c.relevant false i) _ (hz false lG hlG s hs)).symm

theorem evalArith_congr_on (cfg : ArithCfg) (lR lG : List Sig)
    (hlR : (Kind.arith cfg).readSigsOn true = some lR) (hlG : (Kind.arith cfg).readSigsOn false = some lG)
    {r r' g g' : SigMap} (hr : SEqOn lR r r') (hg : SEqOn lG g g') : evalArith cfg r g = evalArith cfg r' g' := by
  simp only [Kind.readSigsOn] at hlR hlG
  obtain ⟨ra, rb, hr1, hr2, hrab⟩ := optAppend_some hlR
  obtain ⟨ga, gb, hg1, hg2, hgab⟩ := optAppend_some hlG
  subst hrab; subst hgab
  have hf := sigsOn_not_each _ _ _ hr1
  have hs := sigsOn_not_each _ _ _ hr2
  have v1 : cfg.first.val r g = cfg.first.val r' g' :=
    Operand.val_congr_on _ _ _ ra ga hr1 hg1 (fun s h => by simp [h]) (fun s h => by simp [h]) hr hg
  have v2 : cfg.second.val r g = cfg.second.val r' g' :=
    Operand.val_congr_on _ _ _ rb gb hr2 hg2 (fun s h => by simp [h]) (fun s h => by simp [h]) hr hg
  unfold evalArith
  cases cfg.out with
  | none => rfl
  | some out => simp only [hf, hs, Bool.false_eq_true, if_false, v1, v2]

theorem conds_sigs_mem (red : Bool) (conds : List Cond) (lc : List Sig)
    (h : conds.foldr (fun cd acc => optAppend (optAppend (cd.first.sigsOn red) (cd.second.sigsOn red)) acc) (some []) = some lc) :
    ∀ cd, cd ∈ conds → ∃ la lb, cd.first.sigsOn red = some la ∧ cd.second.sigsOn red = some lb ∧ (∀ s, s ∈ la ++ lb → s ∈ lc) := by
  induction conds generalizing lc with
  | nil => intro cd hcd; cases hcd
  | cons c0 rest ih =>
    simp only [List.foldr_cons] at h
    obtain ⟨l0, lr, h0, hr, hl⟩ := optAppend_some h
    obtain ⟨la, lb, ha, hb, hl0⟩ := optAppend_some h0
    subst hl; subst hl0
    intro cd hcd
    rcases List.mem_cons.mp hcd with e | hm
    · subst e
      exact ⟨la, lb, ha, hb, fun s hs => by
        simp only [List.mem_append] at hs ⊢
        rcases hs with h | h
        · exact Or.inl (Or.inl h)
        · exact Or.inl (Or.inr h)⟩
    · obtain ⟨la', lb', ha', hb', hsub⟩ := ih lr hr cd hm
      exact ⟨la', lb', ha', hb', fun s hs => by have := hsub s hs; simp [this]⟩

theorem outs_sigs_mem (red : Bool) (outs : List DOut) (lo : List Sig)
    (h : outs.foldr (fun o acc => optAppend (o.sigsOn red) acc) (some []) = some lo) :
    ∀ o, o ∈ outs → ∃ l, o.sigsOn red = some l ∧ ∀ s, s ∈ l → s ∈ lo := by
  induction outs generalizing lo with
  | nil => intro o ho; cases ho
  | cons o0 rest ih =>
    simp only [List.foldr_cons] at h
    obtain ⟨l0, lr, h0, hr, hl⟩ := optAppend_some h
    subst hl
    intro o ho
    rcases List.mem_cons.mp ho with e | hm
    · subst e
      exact ⟨l0, h0, fun s hs => by simp [hs]⟩
    · obtain ⟨l, hl, hsub⟩ := ih lr hr o hm
      exact ⟨l, hl, fun s hs => by have := hsub s hs; simp [this]⟩

theorem Cond.eval_congr_on (cd : Cond) (lR lG : List Sig) (ra rb ga gb : List Sig)
    (hra : cd.first.sigsOn true = some ra) (hrb : cd.second.sigsOn true = some rb)
    (hga : cd.first.sigsOn false = some ga) (hgb : cd.second.sigsOn false = some gb)
    (hsR : ∀ s, s ∈ ra ++ rb → s ∈ lR) (hsG : ∀ s, s ∈ ga ++ gb → s ∈ lG)
    {r r' g g' : SigMap} (hr : SEqOn lR r r') (hg : SEqOn lG g g') :
    cd.eval r g none = cd.eval r' g' none := by
  have v1 : cd.first.val r g = cd.first.val r' g' :=
    Operand.val_congr_on _ lR lG ra ga hra hga (fun s h => hsR s (by simp [h])) (fun s h => hsG s (by simp [h])) hr hg
  have v2 : cd.second.val r g = cd.second.val r' g' :=
    Operand.val_congr_on _ lR lG rb gb hrb hgb (fun s h => hsR s (by simp [h])) (fun s h => hsG s (by simp [h])) hr hg
  have hrhs : ∀ r g, cd.rhs r g none = cd.second.val r g := by
    intro r g
    unfold Cond.rhs
    split <;> simp_all
  unfold Cond.eval
  simp only [hrhs, v2]
  cases hf : cd.first with
  | const a => rfl
  | ref rf sel =>
    cases rf with
    | sig s =>
      rw [hf] at v1
      simp only [Operand.val] at v1
      simp only [v1]
    | each => simp [hf, Operand.sigsOn] at hra
    | anything => simp [hf, Operand.sigsOn] at hra
    | everything => simp [hf, Operand.sigsOn] at hra

theorem evalDecider_congr_on (cfg : DeciderCfg) (lR lG : List Sig)
    (hlR : (Kind.decider cfg).readSigsOn true = some lR) (hlG : (Kind.decider cfg).readSigsOn false = some lG)
    {r r' g g' : SigMap} (hr : SEqOn lR r r') (hg : SEqOn lG g g') : evalDecider cfg r g = evalDecider cfg r' g' := by
  simp only [Kind.readSigsOn] at hlR hlG
  obtain ⟨rc, ro, hrc, hro, hrab⟩ := optAppend_some hlR
  obtain ⟨gc, go, hgc, hgo, hgab⟩ := optAppend_some hlG
  subst hrab; subst hgab
  have hcR := conds_sigs_mem true cfg.conds rc hrc
  have hcG := conds_sigs_mem false cfg.conds gc hgc
  have hoR := outs_sigs_mem true cfg.outs ro hro
  have hoG := outs_sigs_mem false cfg.outs go hgo
  -- no row uses `each`
  have hne : cfg.conds.any Cond.usesEach = false := by
    rw [List.any_eq_false]
    intro cd hcd
    obtain ⟨la, lb, ha, hb, _⟩ := hcR cd hcd
    unfold Cond.usesEach
    simp [sigsOn_not_each _ _ _ ha, sigsOn_not_each _ _ _ hb]
  -- the rows evaluate alike
  have hev : ∀ cd, cd ∈ cfg.conds → cd.eval r g none = cd.eval r' g' none := by
    intro cd hcd
    obtain ⟨ra, rb, hra, hrb, hsR⟩ := hcR cd hcd
    obtain ⟨ga, gb, hga, hgb, hsG⟩ := hcG cd hcd
    exact Cond.eval_congr_on cd (rc ++ ro) (gc ++ go) ra rb ga gb hra hrb hga hgb
      (fun s hs => by have := hsR s hs; simp [this]) (fun s hs => by have := hsG s hs; simp [this]) hr hg
  have hgo' : ∀ (cs : List Cond), (∀ cd, cd ∈ cs → cd ∈ cfg.conds) → ∀ cur,
      evalConds.go r g none cs cur = evalConds.go r' g' none cs cur := by
    intro cs
    induction cs with
    | nil => intro _ cur; rfl
    | cons cd rest ih =>
      intro hsub cur
      simp only [evalConds.go, hev cd (hsub cd List.mem_cons_self)]
      rw [ih (fun x hx => hsub x (List.mem_cons_of_mem _ hx)), ih (fun x hx => hsub x (List.mem_cons_of_mem _ hx))]
  have hcs : evalConds cfg.conds r g none = evalConds cfg.conds r' g' none := by
    unfold evalConds
    cases hcc : cfg.conds with
    | nil => rfl
    | cons cd rest =>
      simp only
      rw [hev cd (by rw [hcc]; exact List.mem_cons_self)]
      exact hgo' rest (fun x hx => by rw [hcc]; exact List.mem_cons_of_mem _ hx) _
  -- the outputs copy alike
  have hemit : ∀ o, o ∈ cfg.outs → o.emit r g none = o.emit r' g' none := by
    intro o ho
    obtain ⟨lr, hlr, hsR⟩ := hoR o ho
    obtain ⟨lg, hlg, hsG⟩ := hoG o ho
    unfold DOut.emit
    cases hsig : o.sig with
    | sig s =>
      simp only
      cases hcopy : o.copy with
      | false => simp
      | true =>
        simp only [if_true]
        have : get (selIn o.sel r g) s = get (selIn o.sel r' g') s := by
          apply selIn_get_congr
          · intro hred
            apply hr s
            simp only [DOut.sigsOn, hsig, hcopy, Sel.has, if_true, hred, Bool.and_self] at hlr
            injection hlr with e; subst e
            have := hsR s (by simp); simp [this]
          · intro hgreen
            apply hg s
            simp only [DOut.sigsOn, hsig, hcopy, Sel.has, Bool.false_eq_true, if_false, hgreen, Bool.and_self, if_true] at hlg
            injection hlg with e; subst e
            have := hsG s (by simp); simp [this]
        rw [this]
    | each => simp [DOut.sigsOn, hsig] at hlr
    | anything => simp [DOut.sigsOn, hsig] at hlr
    | everything => simp [DOut.sigsOn, hsig] at hlr
  unfold evalDecider
  simp only [hne, Bool.false_eq_true, if_false, hcs]
  split
  · congr 1
    exact List.map_congr_left hemit
  · rfl

theorem optAppend_none {a b : Option (List Sig)} : optAppend a b = none ↔ a = none ∨ b = none := by
  cases a <;> cases b <;> simp [optAppend]

theorem Operand.sigsOn_none (o : Operand) (red red' : Bool) (h : o.sigsOn red = none) : o.sigsOn red' = none := by
  cases o with
  | const k => simp [Operand.sigsOn] at h
  | ref rf sel =>
    cases rf with
    | sig s => simp only [Operand.sigsOn] at h; split at h <;> cases h
    | _ => rfl

theorem DOut.sigsOn_none (o : DOut) (red red' : Bool) (h : o.sigsOn red = none) : o.sigsOn red' = none := by
  unfold DOut.sigsOn at h ⊢
  cases hs : o.sig with
  | sig s => rw [hs] at h; simp only at h; split at h <;> cases h
  | _ => rfl

theorem conds_fold_none (red red' : Bool) (conds : List Cond)
    (h : conds.foldr (fun cd acc => optAppend (optAppend (cd.first.sigsOn red) (cd.second.sigsOn red)) acc) (some []) = none) :
    conds.foldr (fun cd acc => optAppend (optAppend (cd.first.sigsOn red') (cd.second.sigsOn red')) acc) (some []) = none := by
  induction conds with
  | nil => simp at h
  | cons cd rest ih =>
    simp only [List.foldr_cons, optAppend_none] at h ⊢
    rcases h with (h | h) | h
    · exact Or.inl (Or.inl (Operand.sigsOn_none _ red red' h))
    · exact Or.inl (Or.inr (Operand.sigsOn_none _ red red' h))
    · exact Or.inr (ih h)

theorem outs_fold_none (red red' : Bool) (outs : List DOut)
    (h : outs.foldr (fun o acc => optAppend (o.sigsOn red) acc) (some []) = none) :
    outs.foldr (fun o acc => optAppend (o.sigsOn red') acc) (some []) = none := by
  induction outs with
  | nil => simp at h
  | cons o rest ih =>
    simp only [List.foldr_cons, optAppend_none] at h ⊢
    rcases h with h | h
    · exact Or.inl (DOut.sigsOn_none _ red red' h)
    · exact Or.inr (ih h)

/-- wildcard reading does not depend on the colour -/
theorem Kind.readSigsOn_none (k : Kind) (red red' : Bool) (h : k.readSigsOn red = none) : k.readSigsOn red' = none := by
  cases k with
  | arith cfg =>
    simp only [Kind.readSigsOn, optAppend_none] at h ⊢
    rcases h with h | h
    · exact Or.inl (Operand.sigsOn_none _ red red' h)
    · exact Or.inr (Operand.sigsOn_none _ red red' h)
  | decider cfg =>
    simp only [Kind.readSigsOn, optAppend_none] at h ⊢
    rcases h with h | h
    · exact Or.inl (conds_fold_none red red' _ h)
    · exact Or.inr (outs_fold_none red red' _ h)
  | controlled oc =>
    cases oc with
    | none => simp [Kind.readSigsOn] at h
    | some cd =>
      simp only [Kind.readSigsOn, optAppend_none] at h ⊢
      rcases h with h | h
      · exact Or.inl (Operand.sigsOn_none _ red red' h)
      · exact Or.inr (Operand.sigsOn_none _ red red' h)
  | _ => simp [Kind.readSigsOn] at h

/-- on a colour with a wildcard reader nothing is pruned -/
theorem prune_keepR (c : Circuit) (E : Nat → SigMap) (i : Nat) (hl : (c.kind i).readSigsOn true = none) :
    c.prune.readR E i = c.readR E i := by
  have hrel : ∀ p, c.relevant true i p = true := by intro p; simp [Circuit.relevant, hl]
  rw [prune_readR, List.filter_eq_self.mpr (fun p _ => hrel p)]; rfl

theorem prune_keepG (c : Circuit) (E : Nat → SigMap) (i : Nat) (hl : (c.kind i).readSigsOn false = none) :
    c.prune.readG E i = c.readG E i := by
  have hrel : ∀ p, c.relevant false i p = true := by intro p; simp [Circuit.relevant, hl]
  rw [prune_readG, List.filter_eq_self.mpr (fun p _ => hrel p)]; rfl

/-- one tick of an entity in the pruned circuit = one tick in the original, in any state that respects the static
emission bounds -/
theorem prune_evalEnt (c : Circuit) (inp : Inputs) (E : Nat → SigMap) (hE : EmitsOK c E) (i : Nat) :
    c.prune.evalEnt inp E i = c.evalEnt inp E i := by
  unfold Circuit.evalEnt
  cases inp i with
  | some m => rfl
  | none =>
    simp only [prune_kind]
    cases hk : c.kind i with
    | arith cfg =>
      cases hlR : (c.kind i).readSigsOn true with
      | none => rw [prune_keepR c E i hlR, prune_keepG c E i (Kind.readSigsOn_none _ true false hlR)]
      | some lR =>
        cases hlG : (c.kind i).readSigsOn false with
        | none => have := Kind.readSigsOn_none _ false true hlG; rw [hlR] at this; cases this
        | some lG =>
          obtain ⟨h1, h2⟩ := prune_reads c E hE i lR lG hlR hlG
          rw [hk] at hlR hlG
          exact (evalArith_congr_on cfg lR lG hlR hlG h1 h2).symm
    | decider cfg =>
      cases hlR : (c.kind i).readSigsOn true with
      | none => rw [prune_keepR c E i hlR, prune_keepG c E i (Kind.readSigsOn_none _ true false hlR)]
      | some lR =>
        cases hlG : (c.kind i).readSigsOn false with
        | none => have := Kind.readSigsOn_none _ false true hlG; rw [hlR] at this; cases this
        | some lG =>
          obtain ⟨h1, h2⟩ := prune_reads c E hE i lR lG hlR hlG
          rw [hk] at hlR hlG
          exact (evalDecider_congr_on cfg lR lG hlR hlG h1 h2).symm
    | _ => rfl

/-- the circuit condition of a controlled entity evaluates alike on the pruned and on the original networks -/
theorem prune_enabled (c : Circuit) (E : Nat → SigMap) (hE : EmitsOK c E) (i : Nat) (cd : Cond)
    (hk : c.kind i = .controlled (some cd)) (hplain : cd.usesEach = false) :
    evalEnabled (some cd) (c.prune.readR E i) (c.prune.readG E i) = evalEnabled (some cd) (c.readR E i) (c.readG E i) := by
  cases hlR : (c.kind i).readSigsOn true with
  | none => rw [prune_keepR c E i hlR, prune_keepG c E i (Kind.readSigsOn_none _ true false hlR)]
  | some lR =>
    cases hlG : (c.kind i).readSigsOn false with
    | none => have := Kind.readSigsOn_none _ false true hlG; rw [hlR] at this; cases this
    | some lG =>
      obtain ⟨h1, h2⟩ := prune_reads c E hE i lR lG hlR hlG
      rw [hk] at hlR hlG
      simp only [Kind.readSigsOn] at hlR hlG
      obtain ⟨ra, rb, hra, hrb, hrab⟩ := optAppend_some hlR
      obtain ⟨ga, gb, hga, hgb, hgab⟩ := optAppend_some hlG
      subst hrab; subst hgab
      simp only [evalEnabled]
      exact (Cond.eval_congr_on cd (ra ++ rb) (ga ++ gb) ra rb ga gb hra hrb hga hgb (fun s h => h) (fun s h => h) h1 h2).symm

/-- **The pruned circuit runs exactly like the original**, entity by entity, tick by tick. -/
theorem prune_run (c : Circuit) (inp : Inputs) (hinp : InputsOK c inp) :
    ∀ t i, c.prune.runF inp t i = c.runF inp t i := by
  intro t
  induction t with
  | zero => intro i; rfl
  | succ t ih =>
    intro i
    have heq : c.prune.runF inp t = c.runF inp t := funext ih
    simp only [Circuit.runF]
    rw [heq]
    exact prune_evalEnt c inp (c.runF inp t) (emitsOK_runF c inp hinp t) i

theorem prune_inputsOK (c : Circuit) (inp : Inputs) (h : InputsOK c inp) : InputsOK c.prune inp := h

/-- **C01 on the original circuit, validated on the pruned one.** -/
theorem scalar_end_to_end_pruned (c : Circuit) (nodes : Array CNode) (bind : Nat → Option Bind) (rank : Nat → Nat)
    (hrank : c.prune.checkRanked rank = true) (hall : checkAll c.prune nodes bind = true)
    (inp : Inputs) (env : Env) (hinp : InputsOK c inp) (hagree : InputsAgree nodes bind inp env)
    (T : Nat) (hT : ∀ i, rank i < T) (t : Nat) (ht : T ≤ t)
    (n e : Nat) (s : Sig) (hn : n < nodes.size) (hb : bind n = some (.ent e s)) :
    get (c.runF inp t e) s = nodeVal nodes env n := by
  rw [← prune_run c inp hinp t e]
  exact scalar_end_to_end c.prune nodes bind rank hrank hall inp env (prune_inputsOK c inp hinp) hagree T hT t ht n e s hn hb

/-- **C02 on the original circuit, validated on the pruned one.** -/
theorem bundle_end_to_end_pruned (c : Circuit) (nodes : Array CNode) (bind : Nat → Option Bind) (rank : Nat → Nat)
    (hrank : c.prune.checkRanked rank = true) (hall : checkAll c.prune nodes bind = true)
    (inp : Inputs) (env : Env) (hinp : InputsOK c inp) (hagree : InputsAgree nodes bind inp env)
    (T : Nat) (hT : ∀ i, rank i < T) (t : Nat) (ht : T ≤ t)
    (n : Nat) (es : List Nat) (hn : n < nodes.size) (hb : bind n = some (.many es)) (s : Sig) :
    get (Circuit.sumOuts es (c.runF inp t)) s = get ((evalNodes nodes env).getD n []) s := by
  rw [← sumOuts_congr es _ _ (fun e => prune_run c inp hinp t e)]
  exact bundle_end_to_end c.prune nodes bind rank hrank hall inp env (prune_inputsOK c inp hinp) hagree T hT t ht n es hn hb s

/-- the anchor-level form: validated on the pruned circuit, observed on the original one -/
theorem observed_scalar_end_to_end_pruned (c : Circuit) (nodes : Array CNode) (bind : Nat → Option Bind) (rank : Nat → Nat)
    (hrank : c.prune.checkRanked rank = true) (hall : checkAll c.prune nodes bind = true)
    (inp : Inputs) (env : Env) (hinp : InputsOK c inp) (hagree : InputsAgree nodes bind inp env)
    (T : Nat) (hT : ∀ i, rank i < T) (t : Nat) (ht : T ≤ t)
    (n e : Nat) (s : Sig) (hn : n < nodes.size) (hb : bind n = some (.ent e s))
    (a : Nat) (hobs : obsOK c a (.ent e s) = true) :
    get (c.observe (c.runF inp t) a) s = nodeVal nodes env n := by
  rw [observe_eq_selIn, read_isolated c _ (emitsOK_runF c inp hinp t) a RG s e hobs]
  exact scalar_end_to_end_pruned c nodes bind rank hrank hall inp env hinp hagree T hT t ht n e s hn hb

theorem observed_bundle_end_to_end_pruned (c : Circuit) (nodes : Array CNode) (bind : Nat → Option Bind) (rank : Nat → Nat)
    (hrank : c.prune.checkRanked rank = true) (hall : checkAll c.prune nodes bind = true)
    (inp : Inputs) (env : Env) (hinp : InputsOK c inp) (hagree : InputsAgree nodes bind inp env)
    (T : Nat) (hT : ∀ i, rank i < T) (t : Nat) (ht : T ≤ t)
    (n : Nat) (es : List Nat) (hn : n < nodes.size) (hb : bind n = some (.many es))
    (a : Nat) (hobs : obsOK c a (.many es) = true) (s : Sig) :
    get (c.observe (c.runF inp t) a) s = get ((evalNodes nodes env).getD n []) s := by
  rw [observe_eq_selIn, carries_sound c _ (emitsOK_runF c inp hinp t) a RG es hobs s]
  exact bundle_end_to_end_pruned c nodes bind rank hrank hall inp env hinp hagree T hT t ht n es hn hb s

end Facto

namespace Facto
open SigMap

/-! ## restriction to a producer-closed part -/

theorem restrict_kind (c : Circuit) (S : List Nat) (i : Nat) : (c.restrict S).kind i = c.kind i := rfl

theorem restrict_readR (c : Circuit) (S : List Nat) (E : Nat → SigMap) (i : Nat) (hi : S.contains i = true) :
    (c.restrict S).readR E i = c.readR E i := by
  unfold Circuit.readR Circuit.restrict
  by_cases hlt : i < c.prodR.size
  · simp [Array.getD_eq_getD_getElem?, hlt, List.contains_iff_mem.mp hi]
  · simp [Array.getD_eq_getD_getElem?, hlt]

theorem restrict_readG (c : Circuit) (S : List Nat) (E : Nat → SigMap) (i : Nat) (hi : S.contains i = true) :
    (c.restrict S).readG E i = c.readG E i := by
  unfold Circuit.readG Circuit.restrict
  by_cases hlt : i < c.prodG.size
  · simp [Array.getD_eq_getD_getElem?, hlt, List.contains_iff_mem.mp hi]
  · simp [Array.getD_eq_getD_getElem?, hlt]

theorem restrict_readR_list (c : Circuit) (S : List Nat) (i : Nat) (hi : S.contains i = true) :
    (c.restrict S).prodR.getD i [] = c.prodR.getD i [] := by
  unfold Circuit.restrict
  by_cases hlt : i < c.prodR.size
  · simp [Array.getD_eq_getD_getElem?, hlt, List.contains_iff_mem.mp hi]
  · simp [Array.getD_eq_getD_getElem?, hlt]

theorem restrict_readG_list (c : Circuit) (S : List Nat) (i : Nat) (hi : S.contains i = true) :
    (c.restrict S).prodG.getD i [] = c.prodG.getD i [] := by
  unfold Circuit.restrict
  by_cases hlt : i < c.prodG.size
  · simp [Array.getD_eq_getD_getElem?, hlt, List.contains_iff_mem.mp hi]
  · simp [Array.getD_eq_getD_getElem?, hlt]

theorem restrict_evalEnt (c : Circuit) (S : List Nat) (inp : Inputs) (E : Nat → SigMap) (i : Nat) (hi : S.contains i = true) :
    (c.restrict S).evalEnt inp E i = c.evalEnt inp E i := by
  unfold Circuit.evalEnt
  simp only [restrict_kind, restrict_readR c S E i hi, restrict_readG c S E i hi]

/-- **An entity's run is the run of the part it depends on.** -/
theorem restrict_run (c : Circuit) (S : List Nat) (hcl : c.closedUnder S = true) (inp : Inputs) :
    ∀ t i, S.contains i = true → (c.restrict S).runF inp t i = c.runF inp t i := by
  unfold Circuit.closedUnder at hcl
  rw [List.all_eq_true] at hcl
  intro t
  induction t with
  | zero => intro i _; rfl
  | succ t ih =>
    intro i hi
    simp only [Circuit.runF]
    rw [restrict_evalEnt c S inp _ i hi]
    apply Circuit.evalEnt_local
    intro p hri hp
    have hci := hcl i (List.contains_iff_mem.mp hi)
    simp only [hri, Bool.not_true, Bool.false_or, Bool.and_eq_true, List.all_eq_true] at hci
    rcases hp with hp | hp
    · exact ih p (hci.1 p hp)
    · exact ih p (hci.2 p hp)

/-- **C01 for the results whose dependency cone is acyclic**, whatever the rest of the circuit does: validated on the
pruned circuit restricted to a producer-closed set `S`, stated about the original run. -/
theorem scalar_end_to_end_cone (c : Circuit) (S : List Nat) (nodes : Array CNode) (bind : Nat → Option Bind) (rank : Nat → Nat)
    (hcl : c.prune.closedUnder S = true)
    (hrank : (c.prune.restrict S).checkRanked rank = true) (hall : checkAll (c.prune.restrict S) nodes bind = true)
    (inp : Inputs) (env : Env) (hinp : InputsOK c inp) (hagree : InputsAgree nodes bind inp env)
    (T : Nat) (hT : ∀ i, rank i < T) (t : Nat) (ht : T ≤ t)
    (n e : Nat) (s : Sig) (hn : n < nodes.size) (hb : bind n = some (.ent e s)) (he : S.contains e = true) :
    get (c.runF inp t e) s = nodeVal nodes env n := by
  rw [← prune_run c inp hinp t e, ← restrict_run c.prune S hcl inp t e he]
  exact scalar_end_to_end (c.prune.restrict S) nodes bind rank hrank hall inp env hinp hagree T hT t ht n e s hn hb

theorem bundle_end_to_end_cone (c : Circuit) (S : List Nat) (nodes : Array CNode) (bind : Nat → Option Bind) (rank : Nat → Nat)
    (hcl : c.prune.closedUnder S = true)
    (hrank : (c.prune.restrict S).checkRanked rank = true) (hall : checkAll (c.prune.restrict S) nodes bind = true)
    (inp : Inputs) (env : Env) (hinp : InputsOK c inp) (hagree : InputsAgree nodes bind inp env)
    (T : Nat) (hT : ∀ i, rank i < T) (t : Nat) (ht : T ≤ t)
    (n : Nat) (es : List Nat) (hn : n < nodes.size) (hb : bind n = some (.many es))
    (hes : ∀ e, e ∈ es → S.contains e = true) (s : Sig) :
    get (Circuit.sumOuts es (c.runF inp t)) s = get ((evalNodes nodes env).getD n []) s := by
  have e1 : Circuit.sumOuts es (c.runF inp t) = Circuit.sumOuts es ((c.prune.restrict S).runF inp t) := by
    unfold Circuit.sumOuts
    congr 1
    apply List.map_congr_left
    intro e he
    rw [restrict_run c.prune S hcl inp t e (hes e he), prune_run c inp hinp t e]
  rw [e1]
  exact bundle_end_to_end (c.prune.restrict S) nodes bind rank hrank hall inp env hinp hagree T hT t ht n es hn hb s


/-- **C06 validated on the pruned circuit**, stated about the original run -/
theorem enable_end_to_end_pruned (c : Circuit) (nodes : Array CNode) (bind : Nat → Option Bind) (rank : Nat → Nat)
    (hrank : c.prune.checkRanked rank = true) (hall : checkAll c.prune nodes bind = true)
    (inp : Inputs) (env : Env) (hinp : InputsOK c inp) (hagree : InputsAgree nodes bind inp env)
    (T : Nat) (hT : ∀ i, rank i < T) (t : Nat) (ht : T ≤ t)
    (i : Nat) (w : Arg) (hen : enableIs c.prune nodes bind i w = true) :
    ∃ cd, c.kind i = .controlled (some cd) ∧
      (cd.usesEach = false →
        evalEnabled (some cd) (c.readR (c.runF inp t) i) (c.readG (c.runF inp t) i) =
          cmp .gt (argVal nodes (evalNodes nodes env) w) 0) := by
  obtain ⟨cd, hk, hv⟩ := enable_end_to_end c.prune nodes bind rank hrank hall inp env hinp hagree T hT t ht i w hen
  refine ⟨cd, hk, ?_⟩
  intro hue
  have hrun : c.prune.runF inp t = c.runF inp t := funext (prune_run c inp hinp t)
  rw [hrun] at hv
  rw [← prune_enabled c (c.runF inp t) (emitsOK_runF c inp hinp t) i cd hk hue]
  exact hv

end Facto
