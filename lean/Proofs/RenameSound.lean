import Model.Rename
import Proofs.SigMapLemmas
/-!
# Equivariance of the denotation under injective renaming of signal names (C13, M3)

`rename_evalNodes`: for an injective `ρ`, evaluating the renamed program on the renamed free inputs gives, node by
node, the renamed signal maps. Consequences: scalar values do not change at all (`rename_nodeVal`), bundle values
change their names only (`rename_bundle`), and what a memory cell holds next is the same (`rename_next`).
`swaps_injective`: every composition of transpositions is injective — the renaming the compiler performs when it gives
untyped values fresh Factorio signals is of that form.
-/
namespace Facto
open SigMap

section
variable (ρ : Sig → Sig) (hρ : Function.Injective ρ)

@[simp] theorem renameSigs_nil : renameSigs ρ [] = [] := rfl

theorem renameSigs_append (a b : SigMap) : renameSigs ρ (a ++ b) = renameSigs ρ a ++ renameSigs ρ b := by
  simp [renameSigs]

theorem renameSigs_map {α : Type} (l : List α) (f : α → Sig × I32) :
    renameSigs ρ (l.map f) = l.map (fun x => (ρ (f x).1, (f x).2)) := by
  simp [renameSigs, List.map_map, Function.comp_def]

theorem renameSigs_flatten (ms : List SigMap) : renameSigs ρ ms.flatten = (ms.map (renameSigs ρ)).flatten := by
  induction ms with
  | nil => rfl
  | cons m rest ih => simp [renameSigs_append, ih]

include hρ in
theorem get_renameSigs (m : SigMap) (s : Sig) : get (renameSigs ρ m) (ρ s) = get m s := by
  induction m with
  | nil => rfl
  | cons kv rest ih =>
    obtain ⟨k, v⟩ := kv
    show get ((ρ k, v) :: renameSigs ρ rest) (ρ s) = get ((k, v) :: rest) s
    rw [get_cons, get_cons, ih]
    by_cases h : k = s
    · subst h; simp
    · have : ρ k ≠ ρ s := fun e => h (hρ e)
      simp [h, this]

include hρ in
theorem filter_ne_map (l : List Sig) (k : Sig) :
    (l.map ρ).filter (fun x => x != ρ k) = (l.filter (fun x => x != k)).map ρ := by
  induction l with
  | nil => rfl
  | cons a rest ih =>
    by_cases h : a = k
    · subst h; simp [ih]
    · have : ρ a ≠ ρ k := fun e => h (hρ e)
      simp [h, this, ih]

include hρ in
theorem dedup_map (l : List Sig) : dedup (l.map ρ) = (dedup l).map ρ := by
  induction l with
  | nil => rfl
  | cons k rest ih =>
    show ρ k :: (dedup (rest.map ρ)).filter (fun x => x != ρ k) = ρ k :: ((dedup rest).filter (fun x => x != k)).map ρ
    rw [ih, filter_ne_map ρ hρ]

include hρ in
theorem keys_renameSigs (m : SigMap) : keys (renameSigs ρ m) = (keys m).map ρ := by
  unfold keys
  have : (renameSigs ρ m).map Prod.fst = (m.map Prod.fst).map ρ := by
    simp [renameSigs, List.map_map, Function.comp_def]
  rw [this, dedup_map ρ hρ]

include hρ in
theorem support_renameSigs (m : SigMap) : support (renameSigs ρ m) = (support m).map ρ := by
  unfold support
  rw [keys_renameSigs ρ hρ, List.filter_map]
  congr 1
  apply List.filter_congr
  intro k _
  simp [Function.comp_def, get_renameSigs ρ hρ]

/-- the renamed program -/
def renameNodes (P : Array CNode) : Array CNode := P.map (CNode.rename ρ)

theorem rename_ty (nd : CNode) : (nd.rename ρ).ty? = nd.ty?.map ρ := by
  cases nd <;> rfl

theorem getD_map_renameSigs (vals : Array SigMap) (i : Nat) :
    (vals.map (renameSigs ρ)).getD i [] = renameSigs ρ (vals.getD i []) := by
  by_cases h : i < vals.size
  · simp [Array.getD, h]
  · simp [Array.getD, h]

include hρ in
theorem argVal_rename (P : Array CNode) (vals : Array SigMap) (hsz : vals.size ≤ P.size) (a : Arg) :
    argVal (renameNodes ρ P) (vals.map (renameSigs ρ)) a = argVal P vals a := by
  cases a with
  | int k => rfl
  | node i =>
    simp only [argVal]
    rw [getD_map_renameSigs]
    by_cases h : i < P.size
    · have e1 : (renameNodes ρ P).getD i (.const "" 0) = (P.getD i (.const "" 0)).rename ρ := by
        simp [renameNodes, Array.getD, h]
      rw [e1, rename_ty]
      cases hty : (P.getD i (.const "" 0)).ty? with
      | none => rfl
      | some ty => simp only [Option.map_some]; exact get_renameSigs ρ hρ _ ty
    · have e1 : (renameNodes ρ P).getD i (.const "" 0) = .const "" 0 := by
        simp [renameNodes, Array.getD, h]
      have e2 : P.getD i (.const "" 0) = .const "" 0 := by simp [Array.getD, h]
      have e3 : vals.getD i [] = [] := by
        have : ¬ i < vals.size := by omega
        simp [Array.getD, this]
      rw [e1, e2, e3]
      rfl

include hρ in
/-- one node: the renamed node on renamed values denotes the renamed map -/
theorem evalNode_rename (P : Array CNode) (env : Env) (vals : Array SigMap) (hsz : vals.size ≤ P.size) (nd : CNode) :
    evalNode (renameNodes ρ P) (env.rename ρ) (vals.map (renameSigs ρ)) (nd.rename ρ) =
      renameSigs ρ (evalNode P env vals nd) := by
  have hav : ∀ a, argVal (renameNodes ρ P) (vals.map (renameSigs ρ)) a = argVal P vals a :=
    argVal_rename ρ hρ P vals hsz
  have hbv : ∀ i, (vals.map (renameSigs ρ)).getD i [] = renameSigs ρ (vals.getD i []) := getD_map_renameSigs ρ vals
  have hg : ∀ (m : SigMap) s, get (renameSigs ρ m) (ρ s) = get m s := get_renameSigs ρ hρ
  cases nd with
  | input name ty v => simp [evalNode, CNode.rename, renameSigs, Env.rename]
  | const ty v => simp [evalNode, CNode.rename, renameSigs]
  | arith op a b ty => simp [evalNode, CNode.rename, renameSigs, hav]
  | cmp op a b ty => simp [evalNode, CNode.rename, renameSigs, hav]
  | gate op a b v ty => simp [evalNode, CNode.rename, renameSigs, hav]
  | land a b ty => simp [evalNode, CNode.rename, renameSigs, hav]
  | lor a b ty => simp [evalNode, CNode.rename, renameSigs, hav]
  | lnot a ty => simp [evalNode, CNode.rename, renameSigs, hav]
  | proj a ty => simp [evalNode, CNode.rename, renameSigs, hav]
  | memRead m ty => simp [evalNode, CNode.rename, renameSigs, Env.rename]
  | entRead e p ty => simp [evalNode, CNode.rename, renameSigs, Env.rename]
  | select b ty =>
    simp only [evalNode, CNode.rename, hbv, hg]
    rfl
  | anyCmp b op rhs out ty =>
    simp only [evalNode, CNode.rename, hbv, hav, support_renameSigs ρ hρ, List.any_map, Function.comp_def, hg]
    rfl
  | allCmp b op rhs out ty =>
    simp only [evalNode, CNode.rename, hbv, hav, support_renameSigs ρ hρ, List.all_map, Function.comp_def, hg]
    rfl
  | bmerge parts =>
    simp only [evalNode, CNode.rename, renameSigs_flatten, List.map_map]
    congr 1
    apply List.map_congr_left
    intro i _
    exact hbv i
  | beach op b k =>
    simp only [evalNode, CNode.rename, hbv, hav, support_renameSigs ρ hρ, List.map_map, renameSigs_map]
    apply List.map_congr_left
    intro s _
    simp [Function.comp_def, hg]
  | bfilter op b k out =>
    simp only [evalNode, CNode.rename, hbv, hav, support_renameSigs ρ hρ, List.filter_map, List.map_map, renameSigs_map]
    have hf : (fun s => cmp op (get (renameSigs ρ (vals.getD b [])) s) (argVal P vals k)) ∘ ρ =
        fun s => cmp op (get (vals.getD b []) s) (argVal P vals k) := by
      funext s
      simp [Function.comp_def, hg]
    rw [hf]
    apply List.map_congr_left
    intro s _
    cases out <;> simp [Function.comp_def, hg]
  | bgate op a k b =>
    simp only [evalNode, CNode.rename, hbv, hav]
    split <;> rfl
  | entOut e => simp [evalNode, CNode.rename, Env.rename]

theorem evalUpTo_size_le (P : Array CNode) (env : Env) (k : Nat) : (evalUpTo P env k).size ≤ P.size ∧ (evalUpTo P env k).size ≤ k := by
  induction k with
  | zero => simp [evalUpTo]
  | succ k ih =>
    unfold evalUpTo
    cases h : P[k]? with
    | none => simp only [h]; exact ⟨ih.1, by omega⟩
    | some nd =>
      simp only [h, Array.size_push]
      have hk : k < P.size := by
        rcases Nat.lt_or_ge k P.size with h' | h'
        · exact h'
        · rw [Array.getElem?_eq_none h'] at h; cases h
      have h1 := ih.1
      have h2 := ih.2
      exact ⟨by omega, by omega⟩

include hρ in
/-- **Equivariance.** All nodes at once. -/
theorem rename_evalUpTo (P : Array CNode) (env : Env) (k : Nat) :
    evalUpTo (renameNodes ρ P) (env.rename ρ) k = (evalUpTo P env k).map (renameSigs ρ) := by
  induction k with
  | zero => simp [evalUpTo]
  | succ k ih =>
    unfold evalUpTo
    have hget : (renameNodes ρ P)[k]? = (P[k]?).map (CNode.rename ρ) := by simp [renameNodes]
    rw [hget, ih]
    cases h : P[k]? with
    | none => simp
    | some nd =>
      simp only [Option.map_some, Array.map_push]
      rw [evalNode_rename ρ hρ P env _ (evalUpTo_size_le P env k).1 nd]

include hρ in
theorem rename_evalNodes (P : Array CNode) (env : Env) :
    evalNodes (renameNodes ρ P) (env.rename ρ) = (evalNodes P env).map (renameSigs ρ) := by
  unfold evalNodes
  have : (renameNodes ρ P).size = P.size := by simp [renameNodes]
  rw [this]
  exact rename_evalUpTo ρ hρ P env P.size

include hρ in
/-- every bundle node denotes the renamed bundle -/
theorem rename_bundle (P : Array CNode) (env : Env) (n : Nat) :
    (evalNodes (renameNodes ρ P) (env.rename ρ)).getD n [] = renameSigs ρ ((evalNodes P env).getD n []) := by
  rw [rename_evalNodes ρ hρ, getD_map_renameSigs]

include hρ in
/-- **C13, source half, in full**: the value of every argument (a scalar node on its own signal) is the same in the
renamed program — whatever names are chosen, as long as different names stay different. -/
theorem rename_argVal (P : Array CNode) (env : Env) (a : Arg) :
    argVal (renameNodes ρ P) (evalNodes (renameNodes ρ P) (env.rename ρ)) a = argVal P (evalNodes P env) a := by
  rw [rename_evalNodes ρ hρ]
  apply argVal_rename ρ hρ
  unfold evalNodes
  exact (evalUpTo_size_le P env P.size).1

include hρ in
/-- what a memory cell holds next (C03–C05) is the same in the renamed program: the write rules read scalars only -/
theorem rename_next (P : Array CNode) (env : Env) (w : WriteRule) (cur : I32) :
    w.next (renameNodes ρ P) (evalNodes (renameNodes ρ P) (env.rename ρ)) cur = w.next P (evalNodes P env) cur := by
  cases w with
  | always d => simp only [WriteRule.next, rename_argVal ρ hρ]
  | gated d en => simp only [WriteRule.next, rename_argVal ρ hρ]
  | latch v s r p => simp only [WriteRule.next, rename_argVal ρ hρ]

end

/-! ## the renamings the compiler performs are injective -/

theorem swapSig_involutive (a b : Sig) (s : Sig) : swapSig a b (swapSig a b s) = s := by
  unfold swapSig
  by_cases h1 : s = a
  · subst h1
    by_cases h2 : b = s
    · subst h2; simp
    · simp [h2]
  · by_cases h2 : s = b
    · subst h2; simp [h1]
    · simp [h1, h2]

theorem swapSig_injective (a b : Sig) : Function.Injective (swapSig a b) := by
  intro x y h
  have := congrArg (swapSig a b) h
  rwa [swapSig_involutive, swapSig_involutive] at this

theorem swaps_injective (l : List (Sig × Sig)) : Function.Injective (swaps l) := by
  induction l with
  | nil => exact fun _ _ h => h
  | cons p rest ih =>
    obtain ⟨a, b⟩ := p
    exact ih.comp (swapSig_injective a b)

/-- the transposition of an unused target: the name `a` becomes `b`, and nothing else that occurs changes -/
theorem swapSig_apply_left (a b : Sig) : swapSig a b a = b := by simp [swapSig]

theorem swapSig_apply_other (a b s : Sig) (h1 : s ≠ a) (h2 : s ≠ b) : swapSig a b s = s := by simp [swapSig, h1, h2]

end Facto
