import Model.Blueprint
/-!
# Canonical form of the logical circuit of a printed blueprint (C19, C07)

What the properties observe is a function of the configured entities and of the partition of their
connectors into networks (M5). The canonical form forgets positions, entity numbers, relay / power poles
(transparent to networks) and wire order: a sorted list of entity labels (configuration + description) and,
per network, the sorted list of (label, connector).
-/
open Lean
namespace Facto

def selStr (s : Sel) : String := (if s.red then "R" else "") ++ (if s.green then "G" else "")

def sigRefStr : SigRef → String
  | .sig s => s | .each => "@each" | .anything => "@any" | .everything => "@all"

def operandStr : Operand → String
  | .const k => s!"#{k.toInt}"
  | .ref r sel => s!"{sigRefStr r}/{selStr sel}"

def condStr (c : Cond) : String :=
  s!"{if c.isAnd then "&" else "|"}{operandStr c.first}{c.op.toString}{operandStr c.second}"

def kindStr : Kind → String
  | .const m => "const{" ++ ", ".intercalate ((SigMap.sorted m).map (fun (k, v) => s!"{k}={v}")) ++ "}"
  | .arith c => s!"arith[{operandStr c.first} {c.op.toString} {operandStr c.second} -> {(c.out.map sigRefStr).getD "-"}]"
  | .decider c => "decider[" ++ " ".intercalate (c.conds.map condStr) ++ " => " ++
      " ".intercalate (c.outs.map (fun o => s!"{sigRefStr o.sig}:{if o.copy then "copy/" ++ selStr o.sel else toString o.const.toInt}")) ++ "]"
  | .controlled none => "entity"
  | .controlled (some c) => s!"entity[{condStr c}]"
  | .pole => "pole"
  | .unsupported w => s!"unsupported[{w}]"

def entityLabel (e : BpEntity) : String := s!"{e.name}|{kindStr e.kind}|{e.description}"

def canonical (bp : Blueprint) : Json :=
  let n := bp.ents.size
  let comp := bp.components
  let isPole (i : Nat) : Bool := match (bp.ents.getD i default).kind with | .pole => true | _ => false
  let labels := (List.range n).filter (fun i => !isPole i) |>.map (fun i => entityLabel (bp.ents.getD i default))
  -- networks: group non-pole connector slots by component; keep only networks with ≥ 2 non-pole connectors
  let slots := (List.range (4 * n)).filter (fun x => !isPole (x / 4))
  let roots := (slots.map (fun x => comp.getD x x)).eraseDups
  let nets := roots.filterMap (fun r =>
    let members := slots.filter (fun x => comp.getD x x == r)
    if members.length < 2 then none
    else some ((members.map (fun x => s!"{entityLabel (bp.ents.getD (x / 4) default)}#{x % 4 + 1}")).mergeSort (· ≤ ·)))
  let netStrs := (nets.map (fun m => " ~ ".intercalate m)).mergeSort (· ≤ ·)
  Json.mkObj [("entities", Json.arr ((labels.mergeSort (· ≤ ·)).map Json.str).toArray),
              ("networks", Json.arr (netStrs.map Json.str).toArray)]

end Facto
