import Lean.Data.Json
import Model.Circuit
/-!
# Decoding printed blueprint JSON into the model (Appendix B of DESIGN.md)

Factorio's import defaults are applied here: `operation "*"`, comparator `"<"`, both networks
selected, `copy_count_from_input` true, output constant 1, `compare_type "or"`.
Wires `[n1, c1, n2, c2]` with connector ids 1 in/red, 2 in/green, 3 out/red, 4 out/green
(entities with one connection point use 1/2 for both roles), 5/6 copper.
-/
open Lean
namespace Facto

structure BpEntity where
  number : Nat
  name : String
  /-- centre position ×2 (exact, the half-integer grid) -/
  x2 : Int
  y2 : Int
  direction : Nat
  kind : Kind
  description : String
  raw : Json
  deriving Inhabited

structure BpWire where
  e1 : Nat
  c1 : Nat
  e2 : Nat
  c2 : Nat
  deriving Repr, Inhabited, BEq

structure Blueprint where
  ents : Array BpEntity
  wires : Array BpWire
  deriving Inhabited

def jget? (j : Json) (k : String) : Option Json := (j.getObjVal? k).toOption
def jstr? (j : Json) (k : String) : Option String := (jget? j k).bind (fun v => v.getStr?.toOption)
def jint? (j : Json) (k : String) : Option Int := (jget? j k).bind (fun v => v.getInt?.toOption)
def jnat? (j : Json) (k : String) : Option Nat := (jget? j k).bind (fun v => v.getNat?.toOption)
def jbool? (j : Json) (k : String) : Option Bool := (jget? j k).bind (fun v => v.getBool?.toOption)
def jarr (j : Json) (k : String) : Array Json :=
  match (jget? j k).bind (fun v => v.getArr?.toOption) with
  | some a => a
  | none => #[]

/-- A JSON number on the half-integer grid, times two; `none` if it is not on the grid. -/
def jtimes2? (j : Json) : Option Int :=
  match j with
  | .num n =>
    -- n = mantissa * 10^-exponent
    let m2 := n.mantissa * 2
    let d : Int := (10 : Int) ^ n.exponent
    if m2 % d == 0 then some (m2 / d) else none
  | _ => none

def isCombinator (name : String) : Bool :=
  name == "arithmetic-combinator" || name == "decider-combinator" || name == "selector-combinator"

def isPoleName (name : String) : Bool :=
  name == "small-electric-pole" || name == "medium-electric-pole" || name == "big-electric-pole"
    || name == "substation"

def parseSel (j : Option Json) : Sel :=
  match j with
  | none => {}
  | some j => { red := (jbool? j "red").getD true, green := (jbool? j "green").getD true }

def parseSigRef (name : String) : SigRef :=
  if name == "signal-each" then .each
  else if name == "signal-anything" then .anything
  else if name == "signal-everything" then .everything
  else .sig name

/-- operand from `<p>_signal` / `<p>_constant` / `<p>_signal_networks` -/
def parseOperand (j : Json) (sigKey constKey netKey : String) : Operand :=
  match jget? j sigKey with
  | some s =>
    match jstr? s "name" with
    | some nm => .ref (parseSigRef nm) (parseSel (jget? j netKey))
    | none => .const (i32 ((jint? j constKey).getD 0))
  | none => .const (i32 ((jint? j constKey).getD 0))

def parseArith (cb : Json) : Kind :=
  let ac := (jget? cb "arithmetic_conditions").getD (Json.mkObj [])
  match ArithOp.ofString? ((jstr? ac "operation").getD "*") with
  | none => .unsupported s!"arithmetic operation {(jstr? ac "operation").getD "?"}"
  | some op =>
    let first := parseOperand ac "first_signal" "first_constant" "first_signal_networks"
    let second := parseOperand ac "second_signal" "second_constant" "second_signal_networks"
    let out := (jget? ac "output_signal").bind (fun s => jstr? s "name") |>.map parseSigRef
    if first.isEach && second.isEach then .unsupported "each on both operands"
    else .arith { first, second, op, out }

def parseCond (j : Json) : Option Cond :=
  match CmpOp.ofString? ((jstr? j "comparator").getD "<") with
  | none => none
  | some c =>
    match jget? j "first_signal" with
    | none => none
    | some _ =>
      some { first := parseOperand j "first_signal" "first_constant" "first_signal_networks"
             op := c
             second := parseOperand j "second_signal" "constant" "second_signal_networks"
             isAnd := (jstr? j "compare_type").getD "or" == "and" }

def parseDOut (j : Json) : Option DOut :=
  match (jget? j "signal").bind (fun s => jstr? s "name") with
  | none => none
  | some nm =>
    some { sig := parseSigRef nm
           copy := (jbool? j "copy_count_from_input").getD true
           const := i32 ((jint? j "constant").getD 1)
           sel := parseSel (jget? j "networks") }

def parseDecider (cb : Json) : Kind :=
  let dc := (jget? cb "decider_conditions").getD (Json.mkObj [])
  let cs := (jarr dc "conditions").toList.map parseCond
  let os := (jarr dc "outputs").toList.map parseDOut
  if cs.any Option.isNone then .unsupported "decider condition without first signal / comparator"
  else if os.any Option.isNone then .unsupported "decider output without signal"
  else .decider { conds := cs.filterMap id, outs := os.filterMap id }

def parseConst (cb : Json) : Kind :=
  if (jbool? cb "is_on").getD true == false then .const []
  else
    let secs := jarr ((jget? cb "sections").getD (Json.mkObj [])) "sections"
    let m : SigMap := secs.toList.flatMap (fun s =>
      if (jbool? s "active").getD true == false then [] else
      (jarr s "filters").toList.filterMap (fun f =>
        match jstr? f "name" with
        | some nm => some (nm, i32 ((jint? f "count").getD 0))
        | none => none))
    .const m

/-- Pumps and power switches have no `circuit_enabled` flag in the 2.0 format: a circuit condition,
when present, always applies. -/
def alwaysConditional (name : String) : Bool :=
  name == "pump" || name == "offshore-pump" || name == "power-switch"

def parseControlled (name : String) (cb : Json) : Kind :=
  if (jbool? cb "circuit_enabled").getD (alwaysConditional name && (jget? cb "circuit_condition").isSome) then
    match jget? cb "circuit_condition" with
    | some cc =>
      match parseCond cc with
      | some c => .controlled (some c)
      | none => .unsupported "circuit condition without first signal"
    | none => .controlled (some { first := .const 0, op := .lt, second := .const 0, isAnd := false })
  else .controlled none

def parseEntity (j : Json) : Except String BpEntity := do
  let number ← (jnat? j "entity_number").elim (.error "entity without number") .ok
  let name ← (jstr? j "name").elim (.error "entity without name") .ok
  let pos := (jget? j "position").getD (Json.mkObj [])
  let x2 ← ((jget? pos "x").bind jtimes2?).elim (.error s!"entity {number}: x not on the half-integer grid") .ok
  let y2 ← ((jget? pos "y").bind jtimes2?).elim (.error s!"entity {number}: y not on the half-integer grid") .ok
  let cb := (jget? j "control_behavior").getD (Json.mkObj [])
  let kind :=
    if name == "constant-combinator" then parseConst cb
    else if name == "arithmetic-combinator" then parseArith cb
    else if name == "decider-combinator" then parseDecider cb
    else if name == "selector-combinator" then .unsupported "selector combinator"
    else if isPoleName name then .pole
    else parseControlled name cb
  return { number, name, x2, y2, direction := (jnat? j "direction").getD 0, kind,
           description := (jstr? j "player_description").getD "", raw := j }

def parseWire (j : Json) : Except String BpWire :=
  match j.getArr? with
  | .ok a =>
    if a.size == 4 then
      match a[0]!.getNat?, a[1]!.getNat?, a[2]!.getNat?, a[3]!.getNat? with
      | .ok e1, .ok c1, .ok e2, .ok c2 => .ok { e1, c1, e2, c2 }
      | _, _, _, _ => .error "wire with non-numeric field"
    else .error "wire of wrong arity"
  | .error _ => .error "wire is not an array"

def parseBlueprint (j : Json) : Except String Blueprint := do
  let bp := (jget? j "blueprint").getD j
  let ents ← (jarr bp "entities").mapM parseEntity
  let wires ← (jarr bp "wires").mapM parseWire
  return { ents, wires }

/-! ## Wires → networks -/

/-- Union–find over connector slots `4 * idx + (c - 1)`; `find` is fuel-bounded by the size. -/
def ufFind (par : Array Nat) (x : Nat) : Nat :=
  let rec go (fuel x : Nat) : Nat :=
    match fuel with
    | 0 => x
    | f + 1 => let p := par.getD x x; if p == x then x else go f p
  go par.size x

def ufUnion (par : Array Nat) (a b : Nat) : Array Nat :=
  let ra := ufFind par a
  let rb := ufFind par b
  if ra == rb then par else par.setIfInBounds ra rb

namespace Blueprint

/-- index (0-based position in `ents`) of an entity number -/
def indexOf (bp : Blueprint) (num : Nat) : Option Nat :=
  bp.ents.findIdx? (fun e => e.number == num)

def slot (idx conn : Nat) : Nat := 4 * idx + (conn - 1)

/-- circuit wires only (connector ids 1..4), with indices resolved; wires naming a missing entity
are dropped here and reported by the structural check -/
def circuitEdges (bp : Blueprint) : List (Nat × Nat) :=
  bp.wires.toList.filterMap (fun w =>
    if 1 ≤ w.c1 && w.c1 ≤ 4 && 1 ≤ w.c2 && w.c2 ≤ 4 then
      match bp.indexOf w.e1, bp.indexOf w.e2 with
      | some i, some j => some (slot i w.c1, slot j w.c2)
      | _, _ => none
    else none)

def components (bp : Blueprint) : Array Nat :=
  let par0 : Array Nat := Array.range (4 * bp.ents.size)
  let par := bp.circuitEdges.foldl (fun p (a, b) => ufUnion p a b) par0
  (Array.range (4 * bp.ents.size)).map (ufFind par)

/-- component id of a connector slot (the slot itself outside the table) -/
def compOf (bp : Blueprint) (x : Nat) : Nat := bp.components.getD x x

/-- run-time certificate for the union–find result: both ends of every circuit wire carry the same id.
With `components_sound` (Proofs/NetSound.lean) this makes the ids *exactly* the connected components. -/
def componentsClosed (bp : Blueprint) : Bool :=
  bp.circuitEdges.all (fun ab => bp.compOf ab.1 == bp.compOf ab.2)

/-- output connector of an entity for a colour (1 = red, 2 = green) -/
def outConn (e : BpEntity) (colour : Nat) : Nat := if isCombinator e.name then colour + 2 else colour

/-- the producers on entity `i`'s input network of colour `c` (1 red, 2 green): non-pole entities whose
colour-`c` output connector carries the same component id -/
def prodOf (bp : Blueprint) (c i : Nat) : List Nat :=
  (List.range bp.ents.size).filter (fun j =>
    match bp.ents[j]? with
    | some e => (match e.kind with | .pole => false | _ => true) &&
        bp.components.getD (slot j (outConn e c)) (4 * bp.ents.size) == bp.components.getD (slot i c) 0
    | none => false)

def toCircuit (bp : Blueprint) : Circuit :=
  let n := bp.ents.size
  { kinds := bp.ents.map (·.kind), prodR := (Array.range n).map (prodOf bp 1), prodG := (Array.range n).map (prodOf bp 2) }

end Blueprint
end Facto
