import Model.SigMap
/-!
# Spec layer: Factorio 2.0 circuit-network semantics (logical circuits)

A logical circuit is a finite list of configured entities plus, for every entity and wire
colour, the list of entities whose *output* connector lies on the same network as the entity's
*input* connector of that colour (`prodR`, `prodG`). Everything the properties observe is a
function of this data (M5): positions, relay poles, entity numbers and the particular spanning
tree of wires are not part of it.

One tick: every combinator reads the sum of the outputs its producers had at the previous tick
and computes its new output (one tick of latency); constant combinators and free sources emit
their contents at every tick; all combinator outputs start empty (A3).
-/
namespace Facto

structure Sel where
  red : Bool := true
  green : Bool := true
  deriving DecidableEq, Repr, Inhabited

inductive SigRef
  | sig (s : Sig)
  | each
  | anything
  | everything
  deriving DecidableEq, Repr, Inhabited

inductive Operand
  | const (k : I32)
  | ref (r : SigRef) (sel : Sel)
  deriving Repr, Inhabited

structure ArithCfg where
  first : Operand
  second : Operand
  op : ArithOp
  out : Option SigRef
  deriving Repr, Inhabited

structure Cond where
  first : Operand
  op : CmpOp
  second : Operand
  /-- `compare_type = "and"`: this row is AND-ed to the previous one (ignored for the first row). -/
  isAnd : Bool
  deriving Repr, Inhabited

structure DOut where
  sig : SigRef
  copy : Bool
  const : I32
  sel : Sel
  deriving Repr, Inhabited

structure DeciderCfg where
  conds : List Cond
  outs : List DOut
  deriving Repr, Inhabited

inductive Kind
  /-- constant combinator with its (enabled) sections flattened -/
  | const (m : SigMap)
  | arith (c : ArithCfg)
  | decider (c : DeciderCfg)
  /-- circuit-controllable entity: only its enable condition is modelled -/
  | controlled (cond : Option Cond)
  /-- power pole / relay: no behaviour, transparent to networks -/
  | pole
  /-- an entity whose configuration the model does not cover -/
  | unsupported (why : String)
  deriving Repr, Inhabited

structure Circuit where
  kinds : Array Kind
  /-- producers on the red / green input network of each entity (entity indices) -/
  prodR : Array (List Nat)
  prodG : Array (List Nat)
  /-- entities read through `.output` (chests, tanks, …): their contents are free inputs -/
  sources : List Nat := []
  deriving Inhabited

/-- Free inputs: an entity listed here emits the given map instead of what its configuration says
(input constants whose value is quantified over; chest / tank contents). -/
abbrev Inputs := Nat → Option SigMap

namespace Circuit

def n (c : Circuit) : Nat := c.kinds.size
def kind (c : Circuit) (i : Nat) : Kind := c.kinds.getD i (.unsupported "out of range")

def sumOuts (ps : List Nat) (prev : Nat → SigMap) : SigMap := (ps.map prev).flatten

def readR (c : Circuit) (prev : Nat → SigMap) (i : Nat) : SigMap := sumOuts (c.prodR.getD i []) prev
def readG (c : Circuit) (prev : Nat → SigMap) (i : Nat) : SigMap := sumOuts (c.prodG.getD i []) prev

end Circuit

/-- The part of the input a selection sees. -/
def selIn (sel : Sel) (r g : SigMap) : SigMap :=
  (if sel.red then r else []) ++ (if sel.green then g else [])

/-- Value of a non-wildcard operand. Wildcards are handled by the combinator semantics. -/
def Operand.val (o : Operand) (r g : SigMap) : I32 :=
  match o with
  | .const k => k
  | .ref (.sig s) sel => (selIn sel r g).get s
  | .ref _ _ => 0

def Operand.isEach : Operand → Bool
  | .ref .each _ => true
  | _ => false

def Operand.sel : Operand → Sel
  | .ref _ s => s
  | .const _ => {}

/-- Arithmetic combinator. `each` may be the first operand (what the compiler emits); with an
`each` output the result is member-wise, with a plain output the member results are summed. -/
def evalArith (c : ArithCfg) (r g : SigMap) : SigMap :=
  match c.out with
  | none => []
  | some out =>
    if c.first.isEach then
      let inp := selIn c.first.sel r g
      let b := c.second.val r g
      let res := (SigMap.support inp).map (fun k => (k, alu c.op (inp.get k) b))
      match out with
      | .each => res
      | .sig s => [(s, (res.map Prod.snd).foldl (· + ·) 0)]
      | _ => []
    else if c.second.isEach then
      let inp := selIn c.second.sel r g
      let a := c.first.val r g
      let res := (SigMap.support inp).map (fun k => (k, alu c.op a (inp.get k)))
      match out with
      | .each => res
      | .sig s => [(s, (res.map Prod.snd).foldl (· + ·) 0)]
      | _ => []
    else
      match out with
      | .sig s => [(s, alu c.op (c.first.val r g) (c.second.val r g))]
      | _ => []

/-- Right-hand side of a condition for the `each` binding `k` (if any). -/
def Cond.rhs (cd : Cond) (r g : SigMap) (k : Option Sig) : I32 :=
  match cd.second, k with
  | .ref .each sel, some k => (selIn sel r g).get k
  | o, _ => o.val r g

/-- One condition row; `everything` holds vacuously on an empty input, `anything` fails (A5). -/
def Cond.eval (cd : Cond) (r g : SigMap) (k : Option Sig) : Bool :=
  let b := cd.rhs r g k
  match cd.first with
  | .const a => Facto.cmp cd.op a b
  | .ref (.sig s) sel => Facto.cmp cd.op ((selIn sel r g).get s) b
  | .ref .each sel =>
    match k with
    | some k => Facto.cmp cd.op ((selIn sel r g).get k) b
    | none => false
  | .ref .everything sel =>
    let inp := selIn sel r g
    (SigMap.support inp).all (fun s => Facto.cmp cd.op (inp.get s) b)
  | .ref .anything sel =>
    let inp := selIn sel r g
    (SigMap.support inp).any (fun s => Facto.cmp cd.op (inp.get s) b)

/-- Rows are an OR of AND-groups (A4): a row tagged `and` extends the current group. -/
def evalConds (cs : List Cond) (r g : SigMap) (k : Option Sig) : Bool :=
  let rec go (cs : List Cond) (cur : Bool) : Bool :=
    match cs with
    | [] => cur
    | cd :: rest =>
      if cd.isAnd then go rest (cur && cd.eval r g k)
      else cur || go rest (cd.eval r g k)
  match cs with
  | [] => false
  | cd :: rest => go rest (cd.eval r g k)

def Cond.usesEach (cd : Cond) : Bool := cd.first.isEach || cd.second.isEach

def DOut.emit (o : DOut) (r g : SigMap) (k : Option Sig) : SigMap :=
  let inp := selIn o.sel r g
  match o.sig with
  | .sig s => [(s, if o.copy then inp.get s else o.const)]
  | .each =>
    match k with
    | some k => [(k, if o.copy then inp.get k else o.const)]
    | none => []
  | .everything => (SigMap.support inp).map (fun s => (s, if o.copy then inp.get s else o.const))
  | .anything => []

/-- the network selections of the `each` operands of a row -/
def Cond.eachSels (cd : Cond) : List Sel :=
  (match cd.first with | .ref .each s => [s] | _ => []) ++ (match cd.second with | .ref .each s => [s] | _ => [])

/-- the signals `each` ranges over in a decider (A7): those present on the networks that the rows' `each`
operands select, each once -/
def eachDomain (conds : List Cond) (r g : SigMap) : List Sig :=
  SigMap.dedup ((conds.flatMap Cond.eachSels).flatMap (fun sel => SigMap.support (selIn sel r g)))

/-- Decider combinator. With `each` in a condition the rows are evaluated once per signal of
`eachDomain` and the outputs are emitted for every passing signal. -/
def evalDecider (c : DeciderCfg) (r g : SigMap) : SigMap :=
  if c.conds.any Cond.usesEach then
    ((eachDomain c.conds r g).map (fun k =>
      if evalConds c.conds r g (some k) then (c.outs.map (fun o => o.emit r g (some k))).flatten else [])).flatten
  else if evalConds c.conds r g none then (c.outs.map (fun o => o.emit r g none)).flatten
  else []

/-- Is a circuit-controlled entity enabled? (no condition: always) -/
def evalEnabled (cond : Option Cond) (r g : SigMap) : Bool :=
  match cond with
  | none => true
  | some cd => cd.eval r g none

namespace Circuit

/-- New output of entity `i` given everybody's previous output. -/
def evalEnt (c : Circuit) (inp : Inputs) (prev : Nat → SigMap) (i : Nat) : SigMap :=
  match inp i with
  | some m => m
  | none =>
    match c.kind i with
    | .const m => m
    | .arith cfg => evalArith cfg (c.readR prev i) (c.readG prev i)
    | .decider cfg => evalDecider cfg (c.readR prev i) (c.readG prev i)
    | _ => []

/-- Specification-level run (function states). -/
def runF (c : Circuit) (inp : Inputs) : Nat → Nat → SigMap
  | 0 => fun i => match inp i with
      | some m => m
      | none => match c.kind i with
        | .const m => m
        | _ => []
  | t + 1 => fun i => c.evalEnt inp (c.runF inp t) i

/-- Executable run (array states, normalised maps). -/
def initA (c : Circuit) (inp : Inputs) : Array SigMap :=
  (Array.range c.n).map (fun i => SigMap.norm (c.runF inp 0 i))

def stepA (c : Circuit) (inp : Inputs) (prev : Array SigMap) : Array SigMap :=
  (Array.range c.n).map (fun i => SigMap.norm (c.evalEnt inp (fun p => prev.getD p []) i))

def runA (c : Circuit) (inp : Inputs) : Nat → Array SigMap
  | 0 => c.initA inp
  | t + 1 => c.stepA inp (c.runA inp t)

/-- What an observer attached to entity `i`'s input connectors sees (both colours). -/
def observe (c : Circuit) (outs : Nat → SigMap) (i : Nat) : SigMap :=
  c.readR outs i ++ c.readG outs i

/-- only combinators compute their output from their input networks -/
def readsInputs : Kind → Bool
  | .arith _ => true
  | .decider _ => true
  | _ => false

/-- every producer on either input network of a combinator `i` has a smaller rank -/
def Ranked (c : Circuit) (rank : Nat → Nat) : Prop :=
  ∀ i p, readsInputs (c.kind i) = true → (p ∈ c.prodR.getD i [] ∨ p ∈ c.prodG.getD i []) → rank p < rank i

/-- executable certificate check for `Ranked` on the entities of the circuit -/
def checkRanked (c : Circuit) (rank : Nat → Nat) : Bool :=
  (List.range (max c.prodR.size c.prodG.size)).all (fun i =>
    !readsInputs (c.kind i) ||
    ((c.prodR.getD i []).all (fun p => rank p < rank i) && (c.prodG.getD i []).all (fun p => rank p < rank i)))


end Circuit
end Facto
