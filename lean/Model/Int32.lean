/-!
# Spec layer: Factorio 2.0 signal arithmetic

32-bit signed two's-complement values (`BitVec 32`) and the arithmetic / comparison
operations of the arithmetic and decider combinators.

Assumptions recorded in DESIGN §3.1:
* A1 — shift counts: Factorio masks the count to 5 bits (`b &&& 31`).
* A2 — `^` with a negative exponent yields 0 (the compiler folds it to 0 as well;
  every theorem that depends on it states so).
-/
namespace Facto

abbrev I32 := BitVec 32

inductive ArithOp
  | add | sub | mul | div | mod | pow | shl | shr | and | or | xor
  deriving DecidableEq, Repr, Inhabited

inductive CmpOp
  | lt | gt | eq | ge | le | ne
  deriving DecidableEq, Repr, Inhabited

/-- Division truncating toward zero; 0 when the divisor is 0. -/
def sdiv0 (a b : I32) : I32 := if b = 0 then 0 else a.sdiv b
/-- Remainder with the sign of the dividend; 0 when the divisor is 0. -/
def srem0 (a b : I32) : I32 := if b = 0 then 0 else a.srem b

/-- square-and-multiply; `fuel` bounds the number of exponent bits (32 suffice for a 32-bit exponent) -/
def powLoop (base acc : I32) (n : Nat) : Nat → I32
  | 0 => acc
  | f + 1 => if n = 0 then acc else powLoop (base * base) (if n % 2 = 1 then acc * base else acc) (n / 2) f

/-- Wrapping power (`powLoop a 1 n 32 = a ^ n`, theorem `Facto.powLoop_eq`); 0 for negative exponents (A2). -/
def ipow (a b : I32) : I32 := if b.toInt < 0 then 0 else powLoop a 1 b.toNat 32

def shl32 (a b : I32) : I32 := a <<< (b.toNat % 32)
def sshr32 (a b : I32) : I32 := a.sshiftRight (b.toNat % 32)

def alu : ArithOp → I32 → I32 → I32
  | .add, a, b => a + b
  | .sub, a, b => a - b
  | .mul, a, b => a * b
  | .div, a, b => sdiv0 a b
  | .mod, a, b => srem0 a b
  | .pow, a, b => ipow a b
  | .shl, a, b => shl32 a b
  | .shr, a, b => sshr32 a b
  | .and, a, b => a &&& b
  | .or,  a, b => a ||| b
  | .xor, a, b => a ^^^ b

def cmp : CmpOp → I32 → I32 → Bool
  | .lt, a, b => a.slt b
  | .gt, a, b => b.slt a
  | .eq, a, b => a == b
  | .ge, a, b => !(a.slt b)
  | .le, a, b => !(b.slt a)
  | .ne, a, b => a != b

/-- `a op b` is `b op.mirror a` -/
def CmpOp.mirror : CmpOp → CmpOp
  | .lt => .gt | .gt => .lt | .le => .ge | .ge => .le | .eq => .eq | .ne => .ne

def i32 (k : Int) : I32 := BitVec.ofInt 32 k

def ArithOp.ofString? : String → Option ArithOp
  | "+" => some .add | "-" => some .sub | "*" => some .mul | "/" => some .div
  | "%" => some .mod | "^" => some .pow | "**" => some .pow | "<<" => some .shl | ">>" => some .shr
  | "AND" => some .and | "OR" => some .or | "XOR" => some .xor
  | _ => none

def CmpOp.ofString? : String → Option CmpOp
  | "<" => some .lt | ">" => some .gt | "=" => some .eq | "==" => some .eq
  | "≥" => some .ge | ">=" => some .ge | "≤" => some .le | "<=" => some .le
  | "≠" => some .ne | "!=" => some .ne
  | _ => none

def ArithOp.toString : ArithOp → String
  | .add => "+" | .sub => "-" | .mul => "*" | .div => "/" | .mod => "%" | .pow => "^"
  | .shl => "<<" | .shr => ">>" | .and => "AND" | .or => "OR" | .xor => "XOR"

def CmpOp.toString : CmpOp → String
  | .lt => "<" | .gt => ">" | .eq => "=" | .ge => ">=" | .le => "<=" | .ne => "!="

end Facto
