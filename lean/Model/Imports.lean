/-!
# `preprocess_imports` (dsl_compiler/src/parsing/preprocessor.py), hand model

Textual inclusion over an abstract file system: `import "f";` lines are replaced by the (recursively
expanded) text of the first existing candidate `dir/f` where `dir` ranges over the importing file's
directory followed by the search path; a file that was already included is skipped. Paths are the
normalised absolute paths the harness passes in (symlinks and `..` are outside the model).
-/
namespace Facto

structure FS where
  files : List (String × String)
  deriving Repr, Inhabited

def FS.read (fs : FS) (p : String) : Option String := fs.files.lookup p

def dirOf (p : String) : String :=
  let parts := p.splitOn "/"
  "/".intercalate parts.dropLast

def joinPath (d rel : String) : String :=
  let rel := if rel.startsWith "./" then (rel.drop 2).toString else rel
  if d == "" || d == "." then rel else if d.endsWith "/" then d ++ rel else d ++ "/" ++ rel

/-- `Path(import).with_suffix(".facto")` when the suffix is not already `.facto` -/
def withFactoSuffix (p : String) : String :=
  if p.endsWith ".facto" then p
  else
    let parts := p.splitOn "/"
    let last := parts.getLast?.getD ""
    let stem := match (last.splitOn ".") with
      | [] => last
      | [x] => x
      | xs => if last.startsWith "." && xs.length == 2 then last else ".".intercalate xs.dropLast
    "/".intercalate (parts.dropLast ++ [stem ++ ".facto"])

def resolveImport (fs : FS) (search : List String) (base : Option String) (imp : String) : Option String :=
  ((base.toList ++ search).map (fun d => joinPath d imp)).find? (fun c => (fs.read c).isSome)

/-- the path inside `import "…";` if the stripped line has that form -/
def importLine? (line : String) : Option String :=
  let s := line.trimAscii.toString
  if s.startsWith "import \"" && s.endsWith "\";" && s.length ≥ 10 then some ((s.drop 8).dropEnd 2).toString else none

structure ExpandResult where
  text : String
  processed : List String
  /-- a resolution failure (`FileNotFoundError`) or fuel exhaustion -/
  error : Option String := none
  deriving Repr, Inhabited

/-- `fuel` bounds the import nesting depth; every recursive call adds a new file to `processed`, so
`fs.files.length + 1` always suffices -/
def expand (fs : FS) (search : List String) : Nat → String → Option String → List String → ExpandResult
  | 0, _, _, processed => { text := "", processed, error := some "fuel" }
  | fuel + 1, src, base, processed =>
    let lines := src.splitOn "\n"
    let (out, processed, err) := lines.foldl (fun (acc : List String × List String × Option String) line =>
      let (out, processed, err) := acc
      if err.isSome then acc else
      match importLine? line with
      | none => (out ++ [line], processed, none)
      | some raw =>
        let imp := withFactoSuffix raw
        match resolveImport fs search base imp with
        | none => (out, processed, some s!"Import file not found: {imp}")
        | some path =>
          if processed.contains path then (out ++ [s!"# Skipped circular import: {imp}"], processed, none)
          else
            let content := (fs.read path).getD ""
            let r := expand fs search fuel content (some (dirOf path)) (path :: processed)
            (out ++ [s!"# --- Imported from {path} ---", r.text, s!"# --- End import {path} ---"], r.processed, r.error))
      ([], processed, none)
    { text := "\n".intercalate out, processed, error := err }

end Facto
