/-!
# Python integer operations used by the translated functions (trusted shim, DESIGN §2)

Python `int` is Lean `Int`. `//` is `Int.fdiv`, `%` is `Int.fmod`; `**` with a non-negative exponent is
`Int.pow`; `<<`/`>>` are multiplication by / floor division by a power of two. `& | ^` are computed
through 64-bit two's complement, which equals Python's result whenever both operands fit in 64 bits —
every theorem's operand domain (int32, and int32 shifted by < 32) does. The harness validates this
shim against CPython on seeded operand pairs on every run.
-/
namespace PyInt

def floordiv (a b : Int) : Int := Int.fdiv a b
def mod (a b : Int) : Int := Int.fmod a b
def pow (a b : Int) : Int := if b < 0 then 0 else a ^ b.toNat
def shl (a b : Int) : Int := a * (2 : Int) ^ b.toNat
def shr (a b : Int) : Int := a >>> b.toNat
def band (a b : Int) : Int := ((BitVec.ofInt 64 a) &&& (BitVec.ofInt 64 b)).toInt
def bor (a b : Int) : Int := ((BitVec.ofInt 64 a) ||| (BitVec.ofInt 64 b)).toInt
def bxor (a b : Int) : Int := ((BitVec.ofInt 64 a) ^^^ (BitVec.ofInt 64 b)).toInt
def abs (a : Int) : Int := if a < 0 then -a else a
def boolToInt (b : Bool) : Int := if b then 1 else 0

/-- `int(text, base)` for the digits of a literal (no sign, no prefix); `none` on a bad digit -/
def digitVal (c : Char) : Option Nat :=
  if '0' ≤ c ∧ c ≤ '9' then some (c.toNat - '0'.toNat)
  else if 'a' ≤ c ∧ c ≤ 'z' then some (c.toNat - 'a'.toNat + 10)
  else if 'A' ≤ c ∧ c ≤ 'Z' then some (c.toNat - 'A'.toNat + 10)
  else none

def parseDigits (base : Nat) (cs : List Char) : Option Nat :=
  cs.foldl (fun acc c =>
    match acc, digitVal c with
    | some a, some d => if d < base then some (a * base + d) else none
    | _, _ => none) (if cs.isEmpty then none else some 0)

/-- `int(text, base)` for text with an optional sign and, for bases 16 / 8 / 2, the matching prefix -/
def parseInt (text : String) (base : Nat) : Option Int :=
  let cs := text.toList
  let (neg, cs) := match cs with
    | '-' :: r => (true, r)
    | '+' :: r => (false, r)
    | r => (false, r)
  let cs := match base, cs with
    | 16, '0' :: 'x' :: r => r
    | 16, '0' :: 'X' :: r => r
    | 8, '0' :: 'o' :: r => r
    | 8, '0' :: 'O' :: r => r
    | 2, '0' :: 'b' :: r => r
    | 2, '0' :: 'B' :: r => r
    | _, r => r
  (parseDigits base cs).map (fun n => if neg then -(Int.ofNat n) else Int.ofNat n)

end PyInt
