import Lean.Data.Json
import Model.Int32
/-!
# Spec layer: the Facto surface syntax, exactly as the real parser's transformer builds it.

The harness serialises the AST objects of `dsl_compiler.src.ast` to JSON (`harness/facto_dump.py`,
`ast_json`); this file decodes that JSON. Nothing here interprets the program.
-/
open Lean
namespace Facto

/-- a type position: a string literal / name, or `obj.type` -/
inductive TyRef
  | name (s : String)
  | typeOf (obj : String)
  deriving Repr, Inhabited, BEq

/-- range bound of a `for`: literal or the name of an `int` variable -/
inductive Bound
  | lit (v : Int)
  | var (name : String)
  deriving Repr, Inhabited, BEq

inductive SExpr
  | num (v : Int)
  | str (s : String)
  | ident (name : String)
  | bin (op : String) (l r : SExpr)
  | un (op : String) (e : SExpr)
  | call (name : String) (args : List SExpr)
  | read (mem : String)
  | write (mem : String) (value : SExpr) (when_ set_ reset_ : Option SExpr) (setPriority : Bool)
  | proj (e : SExpr) (ty : TyRef)
  | siglit (ty : Option TyRef) (v : SExpr)
  | prop (obj prop : String)
  | outspec (cond out : SExpr)
  | bundle (elems : List SExpr)
  | select (b : SExpr) (ty : String)
  | any (b : SExpr)
  | all (b : SExpr)
  | entOut (ent : String)
  | dict (entries : List (String × SExpr))
  | unknown (what : String)
  deriving Repr, Inhabited

inductive LVal
  | ident (name : String)
  | prop (obj prop : String)
  deriving Repr, Inhabited

inductive SStmt
  | decl (ty name : String) (value : SExpr) (line : Nat)
  | assign (target : LVal) (value : SExpr) (line : Nat)
  | memDecl (name : String) (sig : Option String) (line : Nat)
  | exprStmt (e : SExpr) (line : Nat)
  | ret (e : SExpr) (line : Nat)
  | func (name : String) (params : List (String × String)) (body : List SStmt) (line : Nat)
  | forRange (it : String) (start stop : Bound) (step : Option Bound) (body : List SStmt) (line : Nat)
  | forList (it : String) (values : List Int) (body : List SStmt) (line : Nat)
  | import_ (path : String) (line : Nat)
  | unknown (what : String)
  deriving Repr, Inhabited

abbrev Program := List SStmt

/-! ## JSON decoding -/

private def jg (j : Json) (k : String) : Option Json := (j.getObjVal? k).toOption
private def js (j : Json) (k : String) : String := ((jg j k).bind (·.getStr?.toOption)).getD ""
private def jn (j : Json) (k : String) : Nat := ((jg j k).bind (·.getNat?.toOption)).getD 0
private def ji (j : Json) (k : String) : Int := ((jg j k).bind (·.getInt?.toOption)).getD 0
private def ja (j : Json) (k : String) : List Json :=
  match (jg j k).bind (·.getArr?.toOption) with
  | some a => a.toList
  | none => []

def decodeTyRef (j : Json) : Option TyRef :=
  match j with
  | .str s => some (.name s)
  | .null => none
  | j => if js j "k" == "TypeOf" then some (.typeOf (js j "obj")) else none

def decodeBound (j : Option Json) : Option Bound :=
  match j with
  | some (.str s) => some (.var s)
  | some (.num n) => some (.lit n.mantissa)
  | _ => none

partial def decodeExpr (j : Json) : SExpr :=
  let opt (k : String) : Option SExpr :=
    match jg j k with
    | some .null => none
    | some v => some (decodeExpr v)
    | none => none
  match js j "k" with
  | "Num" => .num (ji j "v")
  | "Str" => .str (js j "v")
  | "Id" => .ident (js j "name")
  | "Bin" => .bin (js j "op") (decodeExpr ((jg j "l").getD .null)) (decodeExpr ((jg j "r").getD .null))
  | "Un" => .un (js j "op") (decodeExpr ((jg j "e").getD .null))
  | "Call" => .call (js j "name") ((ja j "args").map decodeExpr)
  | "Read" => .read (js j "mem")
  | "Write" => .write (js j "mem") (decodeExpr ((jg j "value").getD .null)) (opt "when") (opt "set") (opt "reset")
      (((jg j "set_priority").bind (·.getBool?.toOption)).getD true)
  | "Proj" =>
    match decodeTyRef ((jg j "ty").getD .null) with
    | some t => .proj (decodeExpr ((jg j "e").getD .null)) t
    | none => .unknown "projection target"
  | "SigLit" => .siglit (decodeTyRef ((jg j "ty").getD .null)) (decodeExpr ((jg j "v").getD .null))
  | "Prop" => .prop (js j "obj") (js j "prop")
  | "OutSpec" => .outspec (decodeExpr ((jg j "cond").getD .null)) (decodeExpr ((jg j "out").getD .null))
  | "Bundle" => .bundle ((ja j "elems").map decodeExpr)
  | "Select" => .select (decodeExpr ((jg j "b").getD .null)) (js j "ty")
  | "Any" => .any (decodeExpr ((jg j "b").getD .null))
  | "All" => .all (decodeExpr ((jg j "b").getD .null))
  | "EntOut" => .entOut (js j "ent")
  | "TypeOf" => .unknown "bare type access"
  | "Dict" => .dict ((ja j "entries").map (fun kv =>
      match kv.getArr? with
      | .ok a => (((a[0]?).bind (·.getStr?.toOption)).getD "", decodeExpr ((a[1]?).getD .null))
      | .error _ => ("", .unknown "dict entry")))
  | k => .unknown k

def decodeLVal (j : Json) : LVal :=
  match js j "k" with
  | "LProp" => .prop (js j "obj") (js j "prop")
  | _ => .ident (js j "name")

partial def decodeStmt (j : Json) : SStmt :=
  let line := jn j "line"
  match js j "k" with
  | "Decl" => .decl (js j "ty") (js j "name") (decodeExpr ((jg j "value").getD .null)) line
  | "Assign" => .assign (decodeLVal ((jg j "target").getD .null)) (decodeExpr ((jg j "value").getD .null)) line
  | "MemDecl" => .memDecl (js j "name") ((jg j "sig").bind (·.getStr?.toOption)) line
  | "ExprStmt" => .exprStmt (decodeExpr ((jg j "expr").getD .null)) line
  | "Return" => .ret (decodeExpr ((jg j "expr").getD .null)) line
  | "Func" => .func (js j "name") ((ja j "params").map (fun p => (js p "ty", js p "name")))
      ((ja j "body").map decodeStmt) line
  | "For" =>
    match jg j "values" with
    | some (.arr vs) => .forList (js j "it") (vs.toList.map (fun v => (v.getInt?.toOption).getD 0))
        ((ja j "body").map decodeStmt) line
    | _ =>
      match decodeBound (jg j "start"), decodeBound (jg j "stop") with
      | some a, some b => .forRange (js j "it") a b (decodeBound (jg j "step")) ((ja j "body").map decodeStmt) line
      | _, _ => .unknown "for bounds"
  | "Import" => .import_ (js j "path") line
  | k => .unknown k

def decodeProgram (j : Json) : Program := (ja j "body").map decodeStmt

end Facto
