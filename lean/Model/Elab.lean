import Model.Source
import Model.Core
/-!
# Spec layer: reference elaborator `elab : Program → Except ElabErr CoreProg`

The documented static semantics of Facto: lexical scopes, immutable names, function calls by
substitution with a fresh copy of everything the body declares (C15), loops by unrolling over
`iterValues` (C16), compile-time integers evaluated with *run-time* arithmetic (C11), the
result-type rules of LANGUAGE_SPEC (int⊕int = int, signal⊕int = signal, left operand wins), and
the static rules of C14. Fuel makes every definition structurally recursive; `elabProgram` supplies
more fuel than any accepted program can use (recursion is rejected, loops are finite).
-/
namespace Facto

inductive ErrClass
  | syntax | undefined | redefined | immutable | kind | arity | recursion
  | bundleDup | bundleOp | bundleCmp | selectAbsent | unknownSignal | reserved
  | memType | memDoubleWrite | zeroStep | outspec
  /-- the program is outside the fragment the model covers (never a verdict about the compiler) -/
  | unsupported
  | fuel
  deriving Repr, BEq, DecidableEq, Inhabited

def ErrClass.toString : ErrClass → String
  | .syntax => "syntax" | .undefined => "undefined" | .redefined => "redefined"
  | .immutable => "immutable" | .kind => "kind" | .arity => "arity" | .recursion => "recursion"
  | .bundleDup => "bundleDup" | .bundleOp => "bundleOp" | .bundleCmp => "bundleCmp"
  | .selectAbsent => "selectAbsent" | .unknownSignal => "unknownSignal" | .reserved => "reserved"
  | .memType => "memType" | .memDoubleWrite => "memDoubleWrite" | .zeroStep => "zeroStep"
  | .outspec => "outspec" | .unsupported => "unsupported" | .fuel => "fuel"

structure ElabErr where
  cls : ErrClass
  msg : String
  line : Nat
  deriving Repr, Inhabited

inductive Val
  | int (k : I32)
  | sig (node : Nat) (ty : Sig)
  | bundle (node : Nat) (tys : Option (List Sig))
  | entity (id : Nat)
  | mem (id : Nat)
  | str (s : String)
  | dict (entries : List (String × String))
  | void
  deriving Repr, Inhabited

structure FuncDef where
  name : String
  params : List (String × String)
  body : List SStmt
  deriving Inhabited

abbrev Frame := List (String × Val)

structure ES where
  prog : CoreProg := {}
  nextImpl : Nat := 1
  /-- innermost frame first; the last frame is the global one -/
  scopes : List Frame := [[]]
  funcs : List FuncDef := []
  callStack : List String := []
  retVal : Option Val := none
  line : Nat := 0
  /-- valid Factorio signal names (`none`: do not check) -/
  known : Option (List String) := none
  deriving Inhabited

abbrev EM := StateT ES (Except ElabErr)

def fail {α} (cls : ErrClass) (msg : String) : EM α := do
  let s ← get
  throw { cls, msg, line := s.line }

def pushNode (nd : CNode) : EM Nat := do
  let s ← get
  let i := s.prog.nodes.size
  set { s with prog := { s.prog with nodes := s.prog.nodes.push nd } }
  return i

def freshImpl : EM Sig := do
  let s ← get
  set { s with nextImpl := s.nextImpl + 1 }
  return s!"__v{s.nextImpl}"

def lookupIn : List Frame → String → Option Val
  | [], _ => none
  | f :: fs, x => match f.lookup x with
    | some v => some v
    | none => lookupIn fs x

def lookup? (x : String) : EM (Option Val) := do
  return lookupIn (← get).scopes x

def markConsumed (x : String) : EM Unit :=
  modify (fun s => { s with prog := { s.prog with consumed := x :: s.prog.consumed } })

def define (x : String) (v : Val) : EM Unit := do
  let s ← get
  match s.scopes with
  | [] => set { s with scopes := [[(x, v)]] }
  | f :: fs =>
    if (f.lookup x).isSome then fail .redefined s!"'{x}' is already defined in this scope"
    else set { s with scopes := ((x, v) :: f) :: fs }

def rebind (x : String) (v : Val) : EM Unit := do
  let s ← get
  let rec go : List Frame → List Frame
    | [] => []
    | f :: fs => if (f.lookup x).isSome then ((x, v) :: f.filter (·.1 != x)) :: fs else f :: go fs
  set { s with scopes := go s.scopes }

def checkSignalName (nm : String) : EM Unit := do
  if nm == "signal-W" then fail .reserved "signal-W is reserved for memory write enables"
  if nm == "signal-each" || nm == "signal-anything" || nm == "signal-everything" then
    fail .unknownSignal s!"wildcard signal '{nm}' cannot be used as a type"
  match (← get).known with
  | some ks => if ks.contains nm then pure () else fail .unknownSignal s!"unknown signal '{nm}'"
  | none => pure ()

def resolveTy (t : TyRef) : EM Sig := do
  match t with
  | .name s =>
    -- a bare NAME in a type position may be a variable whose type is meant? the grammar allows it;
    -- the documented form is a string literal
    checkSignalName s
    return s
  | .typeOf obj =>
    match ← lookup? obj with
    | some (.sig _ ty) => markConsumed obj; return ty
    | some _ => fail .kind s!"'{obj}.type' needs a signal"
    | none => fail .undefined s!"undefined variable '{obj}'"

def isCmpOp (op : String) : Bool := op == "==" || op == "!=" || op == "<" || op == "<=" || op == ">" || op == ">="
def isLogicOp (op : String) : Bool := op == "&&" || op == "||"

def foldInt (op : String) (a b : I32) : Option I32 :=
  match ArithOp.ofString? op with
  | some o => some (alu o a b)
  | none =>
    match CmpOp.ofString? op with
    | some c => some (boolI (cmp c a b))
    | none =>
      if op == "&&" then some (boolI (a != 0 && b != 0))
      else if op == "||" then some (boolI (a != 0 || b != 0))
      else none

/-- The values a range iterator takes (C16): `start, start+step, …` strictly before `stop`. -/
def iterUp (i stop step : Int) (fuel : Nat) : List Int :=
  match fuel with
  | 0 => []
  | f + 1 => if i < stop then i :: iterUp (i + step) stop step f else []

def iterDown (i stop step : Int) (fuel : Nat) : List Int :=
  match fuel with
  | 0 => []
  | f + 1 => if i > stop then i :: iterDown (i + step) stop step f else []

def iterValues (start stop : Int) (step : Option Int) : List Int :=
  let st := match step with
    | some s => s
    | none => if start < stop then 1 else -1
  if st > 0 then iterUp start stop st (stop - start).toNat
  else if st < 0 then iterDown start stop st (start - stop).toNat
  else []

def argOf (v : Val) : EM Arg :=
  match v with
  | .int k => pure (.int k)
  | .sig n _ => pure (.node n)
  | _ => fail .kind "a signal or integer value is required here"

def tyOfScalar (l r : Val) : EM Sig :=
  match l, r with
  | .sig _ t, _ => pure t
  | _, .sig _ t => pure t
  | _, _ => fail .kind "a signal operand is required here"

/-- A "virtual channel": virtual signal names and compiler-allocated implicit types. -/
def isVirtualChannel (ty : Sig) : Bool := ty.startsWith "signal-" || ty.startsWith "__"

/-- Result type of a comparison: comparison results live on a virtual channel — the left operand's
type if it is one, else the right operand's, else a fresh implicit type. (LANGUAGE_SPEC says "the
left operand's type"; the implementation refines this for item/fluid-typed operands, and the model
follows the implementation: see DESIGN §3.1, documentation discrepancy D1.) -/
def cmpResultTy (l r : Val) : EM Sig :=
  match l, r with
  | .sig _ t, .sig _ u => if isVirtualChannel t then pure t else if isVirtualChannel u then pure u else freshImpl
  | .sig _ t, _ => if isVirtualChannel t then pure t else freshImpl
  | _, .sig _ u => if isVirtualChannel u then pure u else freshImpl
  | _, _ => fail .kind "a signal operand is required here"

def memCell (id : Nat) : EM MemCell := do
  return (← get).prog.mems.getD id default

def setMemCell (id : Nat) (c : MemCell) : EM Unit :=
  modify (fun s => { s with prog := { s.prog with mems := s.prog.mems.setIfInBounds id c } })

def memTy (id : Nat) : EM Sig := do
  let c ← memCell id
  match c.ty with
  | some t => return t
  | none =>
    let t ← freshImpl
    setMemCell id { c with ty := some t }
    return t

def dictString : SExpr → String
  | .num v => toString v
  | .str s => s
  | .siglit _ (.num v) => toString v
  | .dict es => "{" ++ ", ".intercalate (es.map (fun (k, _) => k)) ++ "}"
  | _ => "?"

def withLine {α} (line : Nat) (m : EM α) : EM α := do
  if line != 0 then modify (fun s => { s with line := line })
  m

mutual

def elabExpr (fuel : Nat) (e : SExpr) : EM Val :=
  match fuel with
  | 0 => fail .fuel "out of fuel"
  | fuel + 1 =>
  match e with
  | .num v => pure (.int (i32 v))
  | .str s => pure (.str s)
  | .ident x => do
    match ← lookup? x with
    | some v => markConsumed x; pure v
    | none => fail .undefined s!"undefined variable '{x}'"
  | .siglit none v => elabExpr fuel v
  | .siglit (some t) v => do
    let ty ← resolveTy t
    match ← elabExpr fuel v with
    | .int k => let n ← pushNode (.const ty k); pure (.sig n ty)
    | _ => fail .unsupported "signal literal whose value is not a compile-time integer"
  | .un op e => do
    let v ← elabExpr fuel e
    match op, v with
    | "+", v => pure v
    | "-", .int k => pure (.int (0 - k))
    | "-", .sig n ty => let i ← pushNode (.arith .sub (.int 0) (.node n) ty); pure (.sig i ty)
    | "!", .int k => pure (.int (boolI (k == 0)))
    | "!", .sig n ty => let i ← pushNode (.lnot (.node n) ty); pure (.sig i ty)
    | _, _ => fail .kind s!"unary '{op}' needs a signal or integer"
  | .bin op l r => do
    -- any(...) / all(...) comparisons
    match l with
    | .any b => elabAnyAll fuel true b op r none
    | .all b => elabAnyAll fuel false b op r none
    | _ =>
    let lv ← elabExpr fuel l
    let rv ← elabExpr fuel r
    match lv, rv with
    | .int a, .int b =>
      match foldInt op a b with
      | some k => pure (.int k)
      | none => fail .unsupported s!"operator '{op}'"
    | .bundle bn tys, rv =>
      match rv with
      | .bundle _ _ => fail .bundleOp "Bundle OP Bundle is not supported"
      | _ =>
        if isCmpOp op then fail .bundleCmp "a bundle comparison needs any()/all() or an output specifier"
        else match ArithOp.ofString? op with
          | some o => do
            let k ← argOf rv
            let i ← pushNode (.beach o bn k)
            pure (.bundle i tys)
          | none => fail .bundleOp s!"operator '{op}' is not defined on bundles"
    | _, .bundle _ _ => fail .bundleOp "bundle operations need the bundle on the left and a scalar on the right"
    | lv, rv => do
      let ty ← tyOfScalar lv rv
      let a ← argOf lv
      let b ← argOf rv
      match ArithOp.ofString? op with
      | some o => let i ← pushNode (.arith o a b ty); pure (.sig i ty)
      | none =>
        match CmpOp.ofString? op with
        | some c => do
          let cty ← cmpResultTy lv rv
          let i ← pushNode (.cmp c a b cty); pure (.sig i cty)
        | none =>
          if op == "&&" then do let i ← pushNode (.land a b ty); pure (.sig i ty)
          else if op == "||" then do let i ← pushNode (.lor a b ty); pure (.sig i ty)
          else fail .unsupported s!"operator '{op}'"
  | .proj e t => do
    let ty ← resolveTy t
    match ← elabExpr fuel e with
    | .int k => let n ← pushNode (.const ty k); pure (.sig n ty)
    | .sig n ty0 =>
      if ty0 == ty then pure (.sig n ty)
      else do let i ← pushNode (.proj (.node n) ty); pure (.sig i ty)
    | .bundle _ _ => fail .unsupported "projection of a bundle"
    | _ => fail .kind "projection needs a signal or integer"
  | .outspec cond out => do
    match cond with
    | .bin op l r =>
      if !isCmpOp op then fail .outspec "the expression before ':' must be a comparison" else
      match l with
      | .any b => elabAnyAll fuel true b op r (some out)
      | .all b => elabAnyAll fuel false b op r (some out)
      | _ =>
        let some c := CmpOp.ofString? op | fail .outspec "comparison expected"
        let lv ← elabExpr fuel l
        let rv ← elabExpr fuel r
        let ov ← elabExpr fuel out
        match lv with
        | .bundle bn tys =>
          let k ← argOf rv
          match ov with
          | .bundle on _ =>
            if on == bn then do let i ← pushNode (.bfilter c bn k none); pure (.bundle i tys)
            else fail .unsupported "bundle filter whose output is a different bundle"
          | .int cst => do let i ← pushNode (.bfilter c bn k (some cst)); pure (.bundle i tys)
          | _ => fail .unsupported "bundle filter with a signal output"
        | _ =>
          let a ← argOf lv
          let b ← argOf rv
          match ov with
          | .bundle on tys => do let i ← pushNode (.bgate c a b on); pure (.bundle i tys)
          | .sig n ty => do let i ← pushNode (.gate c a b (.node n) ty); pure (.sig i ty)
          | .int k => do
            match lv, rv with
            | .int x, .int y => pure (.int (if cmp c x y then k else 0))
            | _, _ =>
              -- integer output: the value lives on the comparison's left operand type
              let ty ← match lv with
                | .sig _ t => pure t
                | _ => freshImpl
              let i ← pushNode (.gate c a b (.int k) ty); pure (.sig i ty)
          | _ => fail .kind "output value must be a signal, bundle or integer"
    | _ => fail .outspec "the expression before ':' must be a comparison"
  | .bundle elems => do
    let rec go (fuel : Nat) (es : List SExpr) (parts : List Nat) (tys : Option (List Sig)) : EM (List Nat × Option (List Sig)) :=
      match fuel, es with
      | _, [] => pure (parts.reverse, tys)
      | 0, _ => fail .fuel "out of fuel"
      | f + 1, e :: rest => do
        match ← elabExpr f e with
        | .sig n ty =>
          match tys with
          | some ts => if ts.contains ty then fail .bundleDup s!"duplicate signal type '{ty}' in bundle"
                       else go f rest (n :: parts) (some (ts ++ [ty]))
          | none => go f rest (n :: parts) none
        | .bundle n bt =>
          match tys, bt with
          | some ts, some bs =>
            if bs.any ts.contains then fail .bundleDup "duplicate signal type in bundle"
            else go f rest (n :: parts) (some (ts ++ bs))
          | _, _ => go f rest (n :: parts) none
        | _ => fail .kind "bundle elements must be signals or bundles"
    let (parts, tys) ← go fuel elems [] (some [])
    let i ← pushNode (.bmerge parts)
    pure (.bundle i tys)
  | .select b ty => do
    match ← elabExpr fuel b with
    | .bundle bn tys =>
      match tys with
      | some ts => if !ts.contains ty then fail .selectAbsent s!"bundle has no member '{ty}'"
      | none => checkSignalName ty
      let i ← pushNode (.select bn ty)
      pure (.sig i ty)
    | _ => fail .kind "selection needs a bundle"
  | .any _ => fail .bundleCmp "any() must be compared"
  | .all _ => fail .bundleCmp "all() must be compared"
  | .entOut ent => do
    match ← lookup? ent with
    | some (.entity id) => markConsumed ent; let i ← pushNode (.entOut id); pure (.bundle i none)
    | some _ => fail .kind s!"'{ent}' is not an entity"
    | none => fail .undefined s!"undefined entity '{ent}'"
  | .prop obj p => do
    match ← lookup? obj with
    | some (.entity id) =>
      markConsumed obj
      if p == "output" then do let i ← pushNode (.entOut id); pure (.bundle i none)
      else do
        let ty ← freshImpl
        let i ← pushNode (.entRead id p ty); pure (.sig i ty)
    | some _ => fail .kind s!"'{obj}' is not an entity"
    | none => fail .undefined s!"undefined entity '{obj}'"
  | .read m => do
    match ← lookup? m with
    | some (.mem id) =>
      markConsumed m
      let ty ← memTy id
      let i ← pushNode (.memRead id ty)
      pure (.sig i ty)
    | some _ => fail .kind s!"'{m}' is not a memory"
    | none => fail .undefined s!"undefined memory '{m}'"
  | .write m value when_ set_ reset_ setPrio => do
    match ← lookup? m with
    | some (.mem id) =>
      markConsumed m
      let v ← elabExpr fuel value
      let cell ← memCell id
      if !cell.writes.isEmpty then fail .memDoubleWrite s!"memory '{m}' is written twice"
      -- type agreement with the declared type
      match v, cell.ty with
      | .sig _ ty, some mt => if ty != mt then fail .memType s!"memory '{m}' expects '{mt}' but the write provides '{ty}'"
      | .sig _ ty, none => setMemCell id { cell with ty := some ty }
      | .int _, _ => pure ()
      | _, _ => fail .kind "a memory stores a signal or integer value"
      let data ← argOf v
      let rule ← match when_, set_, reset_ with
        | none, none, none => pure (WriteRule.always data)
        | some w, _, _ => do
          let wv ← elabExpr fuel w
          pure (WriteRule.gated data (← argOf wv))
        | none, some s, some r => do
          let sv ← elabExpr fuel s
          let rv ← elabExpr fuel r
          pure (WriteRule.latch data (← argOf sv) (← argOf rv) setPrio)
        | _, _, _ => fail .arity "a latch write needs both set= and reset="
      let cell ← memCell id
      setMemCell id { cell with writes := cell.writes ++ [rule] }
      pure .void
    | some _ => fail .kind s!"'{m}' is not a memory"
    | none => fail .undefined s!"undefined memory '{m}'"
  | .dict es => pure (.dict (es.map (fun (k, v) => (k, dictString v))))
  | .call "place" args => do
    match args with
    | .str proto :: rest =>
      let (xe, ye, pe) := match rest with
        | [x, y] => (some x, some y, none)
        | [x, y, p] => (some x, some y, some p)
        | _ => (none, none, none)
      let xv ← match xe with | some x => elabExpr fuel x | none => pure .void
      let yv ← match ye with | some y => elabExpr fuel y | none => pure .void
      let props ← match pe with
        | some p => do match ← elabExpr fuel p with
          | .dict es => pure es
          | _ => fail .kind "place(): properties must be a dictionary"
        | none => pure []
      let pos := match xv, yv with
        | .int x, .int y => some (x.toInt, y.toInt)
        | _, _ => none
      let s ← get
      let id := s.prog.ents.size
      set { s with prog := { s.prog with ents := s.prog.ents.push { proto, pos, props, writes := [], line := s.line } } }
      pure (.entity id)
    | _ => fail .arity "place(prototype, x, y, [properties])"
  | .call f args => do
    let s ← get
    match s.funcs.find? (·.name == f) with
    | none => fail .undefined s!"undefined function '{f}'"
    | some fd =>
      if s.callStack.contains f then fail .recursion s!"recursive call of '{f}'"
      if fd.params.length != args.length then
        fail .arity s!"'{f}' expects {fd.params.length} arguments, got {args.length}"
      -- arguments are evaluated in the caller's scope
      let rec bind (fuel : Nat) (ps : List (String × String)) (as : List SExpr) (acc : Frame) : EM Frame :=
        match fuel, ps, as with
        | _, [], _ => pure acc
        | _, _, [] => pure acc
        | 0, _, _ => fail .fuel "out of fuel"
        | fu + 1, (pty, pname) :: ps, a :: as => do
          let v ← elabExpr fu a
          let v' ← match pty, v with
            | "int", .int k => pure (Val.int k)
            -- int <-> Signal coercion at call sites: a signal argument for an int parameter is a signal in the body
            | "int", .sig n ty => pure (Val.sig n ty)
            | "int", _ => fail .kind s!"parameter '{pname}' of '{f}' needs an integer"
            | "Signal", .sig n ty => pure (Val.sig n ty)
            | "Signal", .int k => do
              let ty ← freshImpl
              let n ← pushNode (.const ty k)
              pure (Val.sig n ty)
            | "Signal", _ => fail .kind s!"parameter '{pname}' of '{f}' needs a signal"
            | "Entity", .entity id => pure (Val.entity id)
            | "Entity", _ => fail .kind s!"parameter '{pname}' of '{f}' needs an entity"
            | _, v => pure v
          bind fu ps as ((pname, v') :: acc)
      let frame ← bind fuel fd.params args []
      let s ← get
      let saved := s.scopes
      let savedRet := s.retVal
      let global := match saved.getLast? with | some g => [g] | none => []
      set { s with scopes := frame :: global, callStack := f :: s.callStack, retVal := none }
      elabStmts fuel fd.body
      let s' ← get
      let ret := s'.retVal.getD .void
      -- the callee's frame disappears; the global frame keeps what the callee did to it
      let global' := match s'.scopes.getLast? with | some g => [g] | none => []
      set { s' with scopes := if saved.length ≤ 1 then global' else saved.dropLast ++ global',
                    callStack := s.callStack, retVal := savedRet }
      pure ret
  | .unknown w => fail .unsupported s!"unsupported construct {w}"

/-- `any(b) op r [: out]` / `all(b) op r [: out]` -/
def elabAnyAll (fuel : Nat) (isAny : Bool) (b : SExpr) (op : String) (r : SExpr) (out : Option SExpr) : EM Val :=
  match fuel with
  | 0 => fail .fuel "out of fuel"
  | fuel + 1 => do
    let some c := CmpOp.ofString? op | fail .bundleCmp "any()/all() must be compared"
    match ← elabExpr fuel b with
    | .bundle bn _ =>
      let rv ← elabExpr fuel r
      let k ← argOf rv
      let (o, ty) ← match out with
        | none => do let t ← freshImpl; pure (none, t)
        | some oe => do
          match ← elabExpr fuel oe with
          | .sig n ty => pure (some (Arg.node n), ty)
          | .int v => do let t ← freshImpl; pure (some (Arg.int v), t)
          | _ => fail .unsupported "any()/all() with a bundle output"
      let i ← pushNode (if isAny then .anyCmp bn c k o ty else .allCmp bn c k o ty)
      pure (.sig i ty)
    | _ => fail .kind "any()/all() need a bundle"

def elabStmt (fuel : Nat) (st : SStmt) : EM Unit :=
  match fuel with
  | 0 => fail .fuel "out of fuel"
  | fuel + 1 =>
  match st with
  | .decl ty name value line => withLine line do
    let before := (← get).prog.nodes.size
    let v ← elabExpr fuel value
    let top := (← get).scopes.length == 1 && (← get).callStack.isEmpty
    let v' ← match ty, v with
      | "int", .int k => pure (Val.int k)
      | "int", _ => fail .kind s!"'{name}' is declared int but its value is not a compile-time integer"
      | "Signal", .int k => do
        let t ← freshImpl
        let n ← pushNode (.input name t k)
        pure (Val.sig n t)
      | "Signal", .sig n t => do
        -- a declaration whose value is a constant is a named input of the program
        let s ← get
        match s.prog.nodes[n]? with
        | some (.const ct cv) =>
          if n ≥ before then
            set { s with prog := { s.prog with nodes := s.prog.nodes.setIfInBounds n (.input name ct cv) } }
        | _ => pure ()
        pure (Val.sig n t)
      | "Signal", _ => fail .kind s!"'{name}' is declared Signal but its value is not a signal"
      | "Bundle", .bundle n ts => pure (Val.bundle n ts)
      | "Bundle", .sig n t => pure (Val.bundle n (some [t]))
      | "Bundle", _ => fail .kind s!"'{name}' is declared Bundle but its value is not a bundle"
      | "Entity", .entity id => pure (Val.entity id)
      | "Entity", _ => fail .kind s!"'{name}' is declared Entity but its value is not an entity"
      | _, v => pure v
    define name v'
    match v' with
    | .sig n _ => modify (fun s => { s with prog := { s.prog with named := s.prog.named.push { name, node := n, isBundle := false, line, topLevel := top } } })
    | .bundle n _ => modify (fun s => { s with prog := { s.prog with named := s.prog.named.push { name, node := n, isBundle := true, line, topLevel := top } } })
    | _ => pure ()
  | .assign (.ident x) value line => withLine line do
    match ← lookup? x with
    | none =>
      match value with
      | .call "place" _ => do
        let v ← elabExpr fuel value
        define x v
      | _ => fail .undefined s!"undefined variable '{x}'"
    | some (.entity _) => do
      let v ← elabExpr fuel value
      match v with
      | .entity _ => rebind x v
      | _ => fail .kind s!"'{x}' is an entity"
    | some _ => fail .immutable s!"cannot assign to immutable '{x}'"
  | .assign (.prop obj p) value line => withLine line do
    match ← lookup? obj with
    | some (.entity id) =>
      markConsumed obj
      let v ← elabExpr fuel value
      let a ← argOf v
      modify (fun s =>
        let e := s.prog.ents.getD id default
        { s with prog := { s.prog with ents := s.prog.ents.setIfInBounds id { e with writes := e.writes ++ [{ prop := p, value := a }] } } })
    | some _ => fail .kind s!"cannot access property '{p}' on non-entity '{obj}'"
    | none => fail .undefined s!"undefined entity '{obj}'"
  | .memDecl name sig line => withLine line do
    match sig with
    | some t => checkSignalName t
    | none => pure ()
    let s ← get
    let id := s.prog.mems.size
    set { s with prog := { s.prog with mems := s.prog.mems.push { name, ty := sig, writes := [], line } } }
    define name (.mem id)
  | .exprStmt e line => withLine line do
    let _ ← elabExpr fuel e
    pure ()
  | .ret e line => withLine line do
    let v ← elabExpr fuel e
    modify (fun s => { s with retVal := some v })
  | .func name params body line => withLine line do
    let s ← get
    if (s.funcs.any (·.name == name)) || (lookupIn s.scopes name).isSome then
      fail .redefined s!"'{name}' is already defined"
    set { s with funcs := { name, params, body } :: s.funcs }
  | .forList it values body line => withLine line do
    elabIters fuel it (values.map i32) body
  | .forRange it start stop step body line => withLine line do
    let res (b : Bound) : EM Int := match b with
      | .lit v => pure v
      | .var x => do
        match ← lookup? x with
        | some (.int k) => markConsumed x; pure k.toInt
        | some _ => fail .kind s!"for-loop bound '{x}' must be an int"
        | none => fail .undefined s!"undefined variable '{x}'"
    let a ← res start
    let b ← res stop
    let st ← match step with
      | some s => do let v ← res s; pure (some v)
      | none => pure none
    if st == some 0 then fail .zeroStep "for loop step cannot be zero"
    elabIters fuel it ((iterValues a b st).map i32) body
  | .import_ path line => withLine line (fail .undefined s!"import '{path}' was not resolved")
  | .unknown w => fail .unsupported s!"unsupported statement {w}"

def elabIters (fuel : Nat) (it : String) (vals : List I32) (body : List SStmt) : EM Unit :=
  match fuel with
  | 0 => fail .fuel "out of fuel"
  | fuel + 1 =>
  match vals with
  | [] => pure ()
  | v :: rest => do
    let s ← get
    set { s with scopes := [(it, Val.int v)] :: s.scopes }
    elabStmts fuel body
    -- the iteration's own frame (iterator and body-local names) disappears; re-bindings of outer
    -- entity variables made by the body persist
    modify (fun s' => { s' with scopes := s'.scopes.drop 1 })
    elabIters fuel it rest body

def elabStmts (fuel : Nat) (sts : List SStmt) : EM Unit :=
  match fuel with
  | 0 => fail .fuel "out of fuel"
  | fuel + 1 =>
  match sts with
  | [] => pure ()
  | st :: rest => do
    elabStmt fuel st
    elabStmts fuel rest

end

def elabProgram (p : Program) (known : Option (List String) := none) (fuel : Nat := 100000) :
    Except ElabErr CoreProg :=
  match (elabStmts fuel p).run { known } with
  | .ok (_, s) => .ok s.prog
  | .error e => .error e

end Facto
