import Model.Core
/-!
# Renaming signal names (C13)

`CNode.rename ρ` gives every signal name written in a node the name `ρ` of it: the type of a scalar node and the
selected member of `bundle["t"]`. `Env.rename ρ` does the same to what entities report. For an *injective* `ρ` the
denotation is equivariant (`Proofs/RenameSound.lean`): renaming the program and its free inputs renames the values of
bundle nodes and leaves the values of scalar nodes alone. The compiler's choice of Factorio signals for untyped values
is such a `ρ` (a composition of transpositions, `swaps`), so nothing a program denotes depends on that choice.
-/
namespace Facto

/-- a signal map with every name replaced -/
def renameSigs (ρ : Sig → Sig) (m : SigMap) : SigMap := m.map (fun kv => (ρ kv.1, kv.2))

def CNode.rename (ρ : Sig → Sig) : CNode → CNode
  | .input name ty v => .input name (ρ ty) v
  | .const ty v => .const (ρ ty) v
  | .arith op a b ty => .arith op a b (ρ ty)
  | .cmp op a b ty => .cmp op a b (ρ ty)
  | .gate op a b v ty => .gate op a b v (ρ ty)
  | .land a b ty => .land a b (ρ ty)
  | .lor a b ty => .lor a b (ρ ty)
  | .lnot a ty => .lnot a (ρ ty)
  | .proj a ty => .proj a (ρ ty)
  | .memRead m ty => .memRead m (ρ ty)
  | .select b ty => .select b (ρ ty)
  | .anyCmp b op rhs out ty => .anyCmp b op rhs out (ρ ty)
  | .allCmp b op rhs out ty => .allCmp b op rhs out (ρ ty)
  | .entRead e p ty => .entRead e p (ρ ty)
  | .bmerge parts => .bmerge parts
  | .beach op b k => .beach op b k
  | .bfilter op b k out => .bfilter op b k out
  | .bgate op a k b => .bgate op a k b
  | .entOut e => .entOut e

def Env.rename (ρ : Sig → Sig) (env : Env) : Env :=
  { env with entOut := fun e => renameSigs ρ (env.entOut e) }

/-- the transposition of two names -/
def swapSig (a b : Sig) : Sig → Sig := fun s => if s = a then b else if s = b then a else s

/-- a composition of transpositions: the first pair is applied first -/
def swaps : List (Sig × Sig) → Sig → Sig
  | [] => id
  | (a, b) :: rest => swaps rest ∘ swapSig a b

end Facto
