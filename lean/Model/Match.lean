import Model.Circuit
import Model.Core
/-!
# `Lowers` + `Wired` for the scalar fragment: a per-node checker whose acceptance is a theorem

A *binding* says where the value of a Core node lives in the circuit: on signal `s` of entity `e`'s
output, or nowhere because it is a compile-time constant `k` that consumers carry as a constant operand.
`checkNode` looks at one Core node, the combinator bound to it and the *actual* producers on that
combinator's input networks; `Proofs/MatchSound.lean` proves that if every node passes, then at every
fixpoint of the circuit (M1: the settled state) every bound node reads exactly its denotation — for all
values of the declared inputs.
-/
namespace Facto

inductive Bind
  | ent (e : Nat) (s : Sig)
  | konst (k : I32)
  deriving Repr, Inhabited, DecidableEq

/-- signals an entity's output may carry; `none` = no static bound (wildcard outputs) -/
def Kind.emitList : Kind → Option (List Sig)
  | .const m => some (m.map Prod.fst)
  | .arith c =>
    if c.first.isEach || c.second.isEach then none
    else match c.out with
      | some (.sig s) => some [s]
      | none => some []
      | some _ => none
  | .decider c =>
    if c.conds.any Cond.usesEach then none
    else if c.outs.all (fun o => match o.sig with | .sig _ => true | _ => false) then
      some (c.outs.filterMap (fun o => match o.sig with | .sig s => some s | _ => none))
    else none
  | .controlled _ => some []
  | .pole => some []
  | .unsupported _ => some []

def Kind.mayEmitB (k : Kind) (s : Sig) : Bool :=
  match k.emitList with
  | some l => l.contains s
  | none => true

/-- the producers visible to a selection at entity `i` -/
def Circuit.selProducers (c : Circuit) (i : Nat) (sel : Sel) : List Nat :=
  (if sel.red then c.prodR.getD i [] else []) ++ (if sel.green then c.prodG.getD i [] else [])

/-- exactly one visible producer may emit `s`, and it is `e` -/
def Circuit.isolated (c : Circuit) (i : Nat) (sel : Sel) (s : Sig) (e : Nat) : Bool :=
  (c.selProducers i sel).filter (fun p => (c.kind p).mayEmitB s) == [e]

/-- does operand `o` of entity `i` denote argument `a`? -/
def matchOperand (c : Circuit) (bind : Nat → Option Bind) (i : Nat) (o : Operand) (a : Arg) : Bool :=
  match o, a with
  | .const k, .int k' => k == k'
  | .const k, .node m => bind m == some (.konst k)
  | .ref (.sig s) sel, .node m =>
    match bind m with
    | some (.ent e s') => s == s' && c.isolated i sel s e
    | _ => false
  | _, _ => false

/-- nodes whose value is always 0 or 1 -/
def isBoolNode (nodes : Array CNode) (m : Nat) : Bool :=
  match nodes[m]? with
  | some (.cmp ..) | some (.land ..) | some (.lor ..) | some (.lnot ..) => true
  | _ => false

def isBoolArg (nodes : Array CNode) : Arg → Bool
  | .int k => k == 0 || k == 1
  | .node m => isBoolNode nodes m

def argBelow (n : Nat) : Arg → Bool
  | .int _ => true
  | .node m => m < n

/-- the single plain output of a decider that emits the constant 1 on `s` -/
def isConstOneOut (o : DOut) (s : Sig) : Bool :=
  (match o.sig with | .sig t => t == s | _ => false) && !o.copy && o.const == 1

def checkNode (c : Circuit) (nodes : Array CNode) (bind : Nat → Option Bind) (n : Nat) : Bool :=
  match nodes[n]?, bind n with
  | none, _ => true
  | some _, none => true                       -- unbound nodes claim nothing
  | some nd, some (.konst k) =>
    match nd with
    | .const _ v => v == k
    | _ => false
  | some nd, some (.ent e s) =>
    match nd, c.kind e with
    | .input _ ty _, .const m => ty == ty && (match m with | [(t, _)] => t == s | _ => false)
    | .const _ v, .const m => (match m with | [(t, v')] => t == s && v == v' | _ => false)
    | .arith op a b _, .arith cfg =>
      argBelow n a && argBelow n b && cfg.op == op && !cfg.first.isEach && !cfg.second.isEach &&
        (match cfg.out with | some (.sig t) => t == s | _ => false) &&
        matchOperand c bind e cfg.first a && matchOperand c bind e cfg.second b
    | .proj a _, .arith cfg =>
      argBelow n a && cfg.op == .add && !cfg.first.isEach && !cfg.second.isEach &&
        (match cfg.out with | some (.sig t) => t == s | _ => false) &&
        matchOperand c bind e cfg.first a && (match cfg.second with | .const k => k == 0 | _ => false)
    | .cmp op a b _, .decider cfg =>
      argBelow n a && argBelow n b &&
      (match cfg.conds, cfg.outs with
       | [cd], [o] => !cd.usesEach && cd.op == op && isConstOneOut o s &&
           matchOperand c bind e cd.first a && matchOperand c bind e cd.second b
       | _, _ => false)
    | .lnot a _, .decider cfg =>
      argBelow n a &&
      (match cfg.conds, cfg.outs with
       | [cd], [o] => !cd.usesEach && cd.op == .eq && isConstOneOut o s &&
           matchOperand c bind e cd.first a && (match cd.second with | .const k => k == 0 | _ => false)
       | _, _ => false)
    | .gate op a b v _, .decider cfg =>
      argBelow n a && argBelow n b && argBelow n v &&
      (match cfg.conds, cfg.outs with
       | [cd], [o] => !cd.usesEach && cd.op == op &&
           matchOperand c bind e cd.first a && matchOperand c bind e cd.second b &&
           (match o.sig with | .sig t => t == s | _ => false) &&
           (match v with
            | .int k => !o.copy && o.const == k
            | .node m =>
              (match bind m with
               | some (.ent ev sv) => o.copy && sv == s && c.isolated e o.sel s ev
               | some (.konst k) => !o.copy && o.const == k
               | none => false))
       | _, _ => false)
    | .land a b _, .arith cfg =>
      -- boolean shortcut: a * b on 0/1 operands
      argBelow n a && argBelow n b && isBoolArg nodes a && isBoolArg nodes b &&
        cfg.op == .mul && !cfg.first.isEach && !cfg.second.isEach &&
        (match cfg.out with | some (.sig t) => t == s | _ => false) &&
        matchOperand c bind e cfg.first a && matchOperand c bind e cfg.second b
    | _, _ => false

def checkAll (c : Circuit) (nodes : Array CNode) (bind : Nat → Option Bind) : Bool :=
  (List.range nodes.size).all (checkNode c nodes bind)

end Facto

namespace Facto

/-! ## binding discovery (untrusted: whatever it proposes is validated by `checkAll`) -/

/-- the unique visible producer that may emit `s`, if there is exactly one -/
def Circuit.soleProducer (c : Circuit) (i : Nat) (sel : Sel) (s : Sig) : Option Nat :=
  match (c.selProducers i sel).filter (fun p => (c.kind p).mayEmitB s) with
  | [e] => some e
  | _ => none

def proposeOperand (c : Circuit) (i : Nat) (o : Operand) (a : Arg) : Option (Nat × Bind) :=
  match o, a with
  | .const k, .node m => some (m, .konst k)
  | .ref (.sig s) sel, .node m => (c.soleProducer i sel s).map (fun e => (m, .ent e s))
  | _, _ => none

def setBind (b : Array (Option Bind)) (p : Option (Nat × Bind)) : Array (Option Bind) :=
  match p with
  | some (m, v) => if (b.getD m none).isNone then b.setIfInBounds m (some v) else b
  | none => b

/-- propagate bindings from consumers to their operands, last node first -/
def inferBindings (c : Circuit) (nodes : Array CNode) (roots : List (Nat × Bind)) : Array (Option Bind) :=
  let b0 : Array (Option Bind) := roots.foldl (fun b r => setBind b (some r)) (Array.replicate nodes.size none)
  (List.range nodes.size).reverse.foldl (fun b n =>
    match nodes[n]?, b.getD n none with
    | some nd, some (.ent e _) =>
      match nd, c.kind e with
      | .arith _ x y _, .arith cfg => setBind (setBind b (proposeOperand c e cfg.first x)) (proposeOperand c e cfg.second y)
      | .land x y _, .arith cfg => setBind (setBind b (proposeOperand c e cfg.first x)) (proposeOperand c e cfg.second y)
      | .proj x _, .arith cfg => setBind b (proposeOperand c e cfg.first x)
      | .cmp _ x y _, .decider cfg =>
        (match cfg.conds with
         | [cd] => setBind (setBind b (proposeOperand c e cd.first x)) (proposeOperand c e cd.second y)
         | _ => b)
      | .lnot x _, .decider cfg =>
        (match cfg.conds with
         | [cd] => setBind b (proposeOperand c e cd.first x)
         | _ => b)
      | .gate _ x y v _, .decider cfg =>
        (match cfg.conds, cfg.outs with
         | [cd], [o] =>
           let b := setBind (setBind b (proposeOperand c e cd.first x)) (proposeOperand c e cd.second y)
           (match v, o.sig with
            | .node m, .sig s =>
              if o.copy then setBind b ((c.soleProducer e o.sel s).map (fun ev => (m, .ent ev s)))
              else setBind b (some (m, .konst o.const))
            | _, _ => b)
         | _, _ => b)
      | _, _ => b
    | _, _ => b) b0

/-- longest-path rank certificate (untrusted; validated by `checkRanked`) -/
def computeRank (c : Circuit) : Nat → Nat :=
  let n := c.n
  let step (r : Array Nat) : Array Nat :=
    (Array.range n).map (fun i =>
      let ps := c.prodR.getD i [] ++ c.prodG.getD i []
      -- an entity does not wait for itself when it only *observes* (constant combinators, lamps)
      let isComb := match c.kind i with | .arith _ => true | .decider _ => true | _ => false
      if isComb then (ps.foldl (fun acc p => max acc (r.getD p 0 + 1)) 0) else 0)
  let r := (List.range (n + 1)).foldl (fun r _ => step r) (Array.replicate n 0)
  fun i => r.getD i 0

end Facto
