import Model.Circuit
import Model.Core
/-!
# `Lowers` + `Wired` for the scalar fragment: a per-node checker whose acceptance is a theorem

A *binding* says where the value of a Core node lives in the circuit: on signal `s` of entity `e`'s
output, or nowhere because it is a compile-time constant `k` that consumers carry as a constant operand.
`checkNode` looks at one Core node, the combinator bound to it and the *actual* producers on that
combinator's input networks; `Proofs/MatchSound.lean` proves that if every node passes, then at every
fixpoint of the circuit (M1: the settled state) every bound node reads exactly its denotation — for all
values of the declared inputs.
-/
namespace Facto

inductive Bind
  | ent (e : Nat) (s : Sig)
  | konst (k : I32)
  /-- a scalar that exists only as the wire-sum, on `s`, of the outputs of `es` (bundle selection, wire merge) -/
  | sum (es : List Nat) (s : Sig)
  /-- a bundle: the wire-sum (all signals) of the outputs of `es` -/
  | many (es : List Nat)
  deriving Repr, Inhabited, DecidableEq

/-- signals an entity's output may carry; `none` = no static bound (wildcard outputs) -/
def Kind.emitList : Kind → Option (List Sig)
  | .const m => some (m.map Prod.fst)
  | .arith c =>
    if c.first.isEach || c.second.isEach then none
    else match c.out with
      | some (.sig s) => some [s]
      | none => some []
      | some _ => none
  | .decider c =>
    if c.conds.any Cond.usesEach then none
    else if c.outs.all (fun o => match o.sig with | .sig _ => true | _ => false) then
      some (c.outs.filterMap (fun o => match o.sig with | .sig s => some s | _ => none))
    else none
  | .controlled _ => some []
  | .pole => some []
  | .unsupported _ => some []

/-- what entity `p` of the circuit may emit: a declared source may emit anything -/
def Circuit.emitListOf (c : Circuit) (p : Nat) : Option (List Sig) :=
  if c.sources.contains p then none else (c.kind p).emitList

def Circuit.mayEmit (c : Circuit) (p : Nat) (s : Sig) : Bool :=
  match c.emitListOf p with
  | some l => l.contains s
  | none => true

/-- entities that never emit anything (anchors, poles, lamps) -/
def Circuit.silentEnt (c : Circuit) (p : Nat) : Bool :=
  match c.emitListOf p with
  | some [] => true
  | _ => false

/-- entities that can emit no signal other than `s` -/
def Circuit.emitsOnly (c : Circuit) (p : Nat) (s : Sig) : Bool :=
  match c.emitListOf p with
  | some l => l.all (· == s)
  | none => false

/-! ## pruning: producers that cannot emit anything an entity reads do not influence it -/

def Sel.has (sel : Sel) (red : Bool) : Bool := if red then sel.red else sel.green

/-- the signals an operand reads on one colour (`none`: a wildcard, i.e. everything) -/
def Operand.sigsOn (red : Bool) : Operand → Option (List Sig)
  | .const _ => some []
  | .ref (.sig s) sel => if sel.has red then some [s] else some []
  | .ref _ _ => none

def optAppend : Option (List Sig) → Option (List Sig) → Option (List Sig)
  | some a, some b => some (a ++ b)
  | _, _ => none

def DOut.sigsOn (red : Bool) (o : DOut) : Option (List Sig) :=
  match o.sig with
  | .sig s => if o.copy && o.sel.has red then some [s] else some []
  | _ => none

/-- the signals whose values on the red (`red`) / green input network can influence what an entity emits
(`none`: all of them) -/
def Kind.readSigsOn (red : Bool) : Kind → Option (List Sig)
  | .arith cfg => optAppend (cfg.first.sigsOn red) (cfg.second.sigsOn red)
  | .decider cfg =>
    optAppend
      (cfg.conds.foldr (fun cd acc => optAppend (optAppend (cd.first.sigsOn red) (cd.second.sigsOn red)) acc) (some []))
      (cfg.outs.foldr (fun o acc => optAppend (o.sigsOn red) acc) (some []))
  | .controlled (some cd) => optAppend (cd.first.sigsOn red) (cd.second.sigsOn red)
  | _ => some []

/-- producer `p` on the red / green input network of entity `i` matters to it: it may emit one of the signals `i`
reads on that colour -/
def Circuit.relevant (c : Circuit) (red : Bool) (i p : Nat) : Bool :=
  match (c.kind i).readSigsOn red with
  | none => true
  | some l => l.any (fun s => c.mayEmit p s)

/-- the same circuit with, on every input network of every entity, only the producers that matter to it -/
def Circuit.prune (c : Circuit) : Circuit :=
  { c with
    prodR := (Array.range c.prodR.size).map (fun i => (c.prodR.getD i []).filter (c.relevant true i))
    prodG := (Array.range c.prodG.size).map (fun i => (c.prodG.getD i []).filter (c.relevant false i)) }

/-- the circuit with the producer lists of the entities outside `S` emptied: what is left is the part `S` depends on -/
def Circuit.restrict (c : Circuit) (S : List Nat) : Circuit :=
  { c with
    prodR := (Array.range c.prodR.size).map (fun i => if S.contains i then c.prodR.getD i [] else [])
    prodG := (Array.range c.prodG.size).map (fun i => if S.contains i then c.prodG.getD i [] else []) }

/-- every producer of an entity of `S` is in `S` -/
def Circuit.closedUnder (c : Circuit) (S : List Nat) : Bool :=
  S.all (fun i => !Circuit.readsInputs (c.kind i) ||
    ((c.prodR.getD i []).all S.contains && (c.prodG.getD i []).all S.contains))

/-- the producers visible to a selection at entity `i` -/
def Circuit.selProducers (c : Circuit) (i : Nat) (sel : Sel) : List Nat :=
  (if sel.red then c.prodR.getD i [] else []) ++ (if sel.green then c.prodG.getD i [] else [])

/-- exactly one visible producer may emit `s`, and it is `e` -/
def Circuit.isolated (c : Circuit) (i : Nat) (sel : Sel) (s : Sig) (e : Nat) : Bool :=
  (c.selProducers i sel).filter (fun p => c.mayEmit p s) == [e]

/-- the unique visible producer that may emit `s`, if there is exactly one -/
def Circuit.soleProducer (c : Circuit) (i : Nat) (sel : Sel) (s : Sig) : Option Nat :=
  match (c.selProducers i sel).filter (fun p => c.mayEmit p s) with
  | [e] => some e
  | _ => none

/-- the selection `sel` of entity `i` sees exactly the entities `es` (silent ones aside): a wildcard operand
reading it ranges over exactly the wire-sum of `es` -/
def Circuit.carries (c : Circuit) (i : Nat) (sel : Sel) (es : List Nat) : Bool :=
  ((c.selProducers i sel).filter (fun p => !c.silentEnt p)).isPerm (es.filter (fun p => !c.silentEnt p))

/-- on signal `s`, the selection `sel` of entity `i` sees exactly the entities `es` -/
def Circuit.readsSum (c : Circuit) (i : Nat) (sel : Sel) (s : Sig) (es : List Nat) : Bool :=
  ((c.selProducers i sel).filter (fun p => c.mayEmit p s)).isPerm (es.filter (fun p => c.mayEmit p s))

/-- entity `p` is neither the combinator of a declared input nor a container read through `.output`
(so what it emits is not varied) -/
def notInputEnt (nodes : Array CNode) (bind : Nat → Option Bind) (p : Nat) : Bool :=
  (List.range nodes.size).all (fun n =>
    match nodes[n]?, bind n with
    | some (.input ..), some (.ent e _) => e != p
    | some (.entOut _), some (.many es) => !es.contains p
    | some (.memRead ..), some (.sum es _) => !es.contains p
    | _, _ => true)

/-- does operand `o` of entity `i` denote argument `a`? -/
def matchOperand (c : Circuit) (nodes : Array CNode) (bind : Nat → Option Bind) (i : Nat) (o : Operand) (a : Arg) : Bool :=
  match o, a with
  | .const k, .int k' => k == k'
  | .const k, .node m => bind m == some (.konst k)
  | .ref (.sig s) sel, .node m =>
    match bind m with
    | some (.ent e s') => s == s' && c.isolated i sel s e
    | some (.sum es s') => s == s' && c.readsSum i sel s es
    | _ => false
  | .ref (.sig s) sel, .int k =>
    -- an integer literal materialised as its own constant combinator
    match c.soleProducer i sel s with
    | some p => (match c.kind p with | .const [(t, v)] => t == s && v == k | _ => false) && notInputEnt nodes bind p
    | none => false
  | _, _ => false

/-- a constant or one named signal -/
def Operand.isPlain : Operand → Bool
  | .const _ => true
  | .ref (.sig _) _ => true
  | _ => false

/-- nodes whose value is always 0 or 1: comparisons and logical results, `(cond) : 0/1`, constants 0/1, and products and
projections of such (what the compiler's `_is_boolean_producer` recognises, with the constant of `(cond) : k` checked) -/
def isBoolNodeF (nodes : Array CNode) : Nat → Nat → Bool
  | 0, _ => false
  | f + 1, m =>
    let argOK : Arg → Bool := fun a =>
      match a with
      | .int k => k == 0 || k == 1
      | .node p => decide (p < m) && isBoolNodeF nodes f p
    match nodes[m]? with
    | some (.cmp ..) | some (.land ..) | some (.lor ..) | some (.lnot ..) => true
    | some (.gate _ _ _ (.int k) _) => k == 0 || k == 1
    | some (.const _ v) => v == 0 || v == 1
    | some (.arith .mul a b _) => argOK a && argOK b
    | some (.proj a _) => argOK a
    | _ => false

def isBoolNode (nodes : Array CNode) (m : Nat) : Bool := isBoolNodeF nodes (m + 1) m

def isBoolArg (nodes : Array CNode) : Arg → Bool
  | .int k => k == 0 || k == 1
  | .node m => isBoolNode nodes m

def argBelow (n : Nat) : Arg → Bool
  | .int _ => true
  | .node m => m < n

/-- the single plain output of a decider that emits the constant 1 on `s` -/
def isConstOneOut (o : DOut) (s : Sig) : Bool :=
  (match o.sig with | .sig t => t == s | _ => false) && !o.copy && o.const == 1

/-! ## value expressions: what one combinator (or a small tree of them) computes from Core arguments -/

inductive VExpr
  | arg (a : Arg)
  | alu (op : ArithOp) (x y : VExpr)
  /-- `1` if the comparison holds, else `0` -/
  | cmpB (op : CmpOp) (x y : VExpr)
  /-- `v` if the comparison holds, else `0` -/
  | gate (op : CmpOp) (x y : VExpr) (v : Arg)
  /-- one decider with all rows AND-ed / OR-ed -/
  | allB (cs : List (CmpOp × Arg × Arg))
  | anyB (cs : List (CmpOp × Arg × Arg))
  deriving Repr, Inhabited

def VExpr.val (av : Arg → I32) : VExpr → I32
  | .arg a => av a
  | .alu op x y => Facto.alu op (x.val av) (y.val av)
  | .cmpB op x y => boolI (Facto.cmp op (x.val av) (y.val av))
  | .gate op x y v => if Facto.cmp op (x.val av) (y.val av) then av v else 0
  | .allB cs => boolI (cs.all (fun (op, a, b) => Facto.cmp op (av a) (av b)))
  | .anyB cs => boolI (cs.any (fun (op, a, b) => Facto.cmp op (av a) (av b)))

def VExpr.under (n : Nat) : VExpr → Bool
  | .arg a => argBelow n a
  | .alu _ x y => x.under n && y.under n
  | .cmpB _ x y => x.under n && y.under n
  | .gate _ x y v => x.under n && y.under n && argBelow n v
  | .allB cs => cs.all (fun (_, a, b) => argBelow n a && argBelow n b)
  | .anyB cs => cs.all (fun (_, a, b) => argBelow n a && argBelow n b)

/-- operand `o` of entity `i` denotes `x`: directly (a bound node / constant), or through the only
producer of that signal, which must itself compute `x` (`rec`) -/
def lookThrough (c : Circuit) (rec : Nat → Sig → Bool) (i : Nat) (o : Operand) : Bool :=
  match o with
  | .ref (.sig t) sel =>
    match c.soleProducer i sel t with
    | some p => rec p t
    | none => false
  | _ => false

def opIs (c : Circuit) (nodes : Array CNode) (bind : Nat → Option Bind) (rec : Nat → Sig → Bool)
    (x : VExpr) (i : Nat) (o : Operand) : Bool :=
  match x with
  | .arg a => matchOperand c nodes bind i o a
  | _ => lookThrough c rec i o

def outIs (o : Option SigRef) (s : Sig) : Bool :=
  match o with | some (.sig t) => t == s | _ => false

/-- the value of a node all of whose leaves are integer constants (what the compiler may fold) -/
def constVal (nodes : Array CNode) : Nat → Nat → Option I32
  | 0, _ => none
  | f + 1, n =>
    let av : Arg → Option I32 := fun a =>
      match a with
      | .int k => some k
      | .node m => if m < n then constVal nodes f m else none
    match nodes[n]? with
    | some (.const _ v) => some v
    | some (.arith op a b _) => (av a).bind (fun x => (av b).map (fun y => alu op x y))
    | some (.cmp op a b _) => (av a).bind (fun x => (av b).map (fun y => boolI (Facto.cmp op x y)))
    | some (.land a b _) => (av a).bind (fun x => (av b).map (fun y => boolI (x != 0 && y != 0)))
    | some (.lor a b _) => (av a).bind (fun x => (av b).map (fun y => boolI (x != 0 || y != 0)))
    | some (.lnot a _) => (av a).map (fun x => boolI (x == 0))
    | some (.proj a _) => av a
    | some (.gate op a b v _) =>
      (av a).bind (fun x => (av b).bind (fun y => (av v).map (fun w => if Facto.cmp op x y then w else 0)))
    | _ => none

/-- the single output `o` of decider `e` carries the value of `v` on `s` whenever it fires -/
def outValIs (c : Circuit) (bind : Nat → Option Bind) (e : Nat) (o : DOut) (s : Sig) (v : Arg) : Bool :=
  match v with
  | .int k => !o.copy && o.const == k
  | .node m =>
    match bind m with
    | some (.ent ev sv) => o.copy && sv == s && c.isolated e o.sel s ev
    | some (.konst k) => !o.copy && o.const == k
    | _ => false

def condsMatch (c : Circuit) (nodes : Array CNode) (bind : Nat → Option Bind) (e : Nat) :
    List Cond → List (CmpOp × Arg × Arg) → Bool
  | [], [] => true
  | cd :: cds, (op, a, b) :: rest =>
    !cd.usesEach &&
      ((cd.op == op && matchOperand c nodes bind e cd.first a && matchOperand c nodes bind e cd.second b) ||
       -- the row written the other way round (`k op x` is emitted as `x op.mirror k`)
       (cd.op == op.mirror && matchOperand c nodes bind e cd.first b && matchOperand c nodes bind e cd.second a)) &&
      condsMatch c nodes bind e cds rest
  | _, _ => false

/-- entity `e` computes `x` on signal `s` -/
def entIs (c : Circuit) (nodes : Array CNode) (bind : Nat → Option Bind) : VExpr → Nat → Sig → Bool
  | .arg _, _, _ => false
  | .alu op x y, e, s =>
    match c.kind e with
    | .arith cfg =>
      cfg.op == op && !cfg.first.isEach && !cfg.second.isEach && outIs cfg.out s &&
        opIs c nodes bind (entIs c nodes bind x) x e cfg.first && opIs c nodes bind (entIs c nodes bind y) y e cfg.second
    | _ => false
  | .cmpB op x y, e, s =>
    match c.kind e with
    | .decider cfg =>
      (match cfg.conds, cfg.outs with
       | [cd], [o] => !cd.usesEach && cd.op == op && isConstOneOut o s &&
           opIs c nodes bind (entIs c nodes bind x) x e cd.first && opIs c nodes bind (entIs c nodes bind y) y e cd.second
       | _, _ => false)
    | _ => false
  | .gate op x y v, e, s =>
    match c.kind e with
    | .decider cfg =>
      (match cfg.conds, cfg.outs with
       | [cd], [o] => !cd.usesEach && cd.op == op &&
           opIs c nodes bind (entIs c nodes bind x) x e cd.first && opIs c nodes bind (entIs c nodes bind y) y e cd.second &&
           (match o.sig with | .sig t => t == s | _ => false) &&
           outValIs c bind e o s v
       | _, _ => false)
    | _ => false
  | .allB cs, e, s =>
    match c.kind e with
    | .decider cfg =>
      (match cfg.outs with
       | [o] => isConstOneOut o s && !cs.isEmpty && cfg.conds.tail.all (fun cd => cd.isAnd) && condsMatch c nodes bind e cfg.conds cs
       | _ => false)
    | _ => false
  | .anyB cs, e, s =>
    match c.kind e with
    | .decider cfg =>
      (match cfg.outs with
       | [o] => isConstOneOut o s && !cs.isEmpty && cfg.conds.tail.all (fun cd => !cd.isAnd) && condsMatch c nodes bind e cfg.conds cs
       | _ => false)
    | _ => false

/-! ## what a Core node may be lowered to -/

def CNode.argsBelow (n : Nat) : CNode → Bool
  | .arith _ a b _ | .cmp _ a b _ | .land a b _ | .lor a b _ => argBelow n a && argBelow n b
  | .gate _ a b v _ => argBelow n a && argBelow n b && argBelow n v
  | .lnot a _ | .proj a _ => argBelow n a
  | _ => true

def ne0 (a : Arg) : VExpr := .cmpB .ne (.arg a) (.arg (.int 0))

/-- the comparisons of a homogeneous `&&` (`isAnd`) / `||` chain rooted at node `m` -/
def chain (nodes : Array CNode) (isAnd : Bool) : Nat → Nat → Option (List (CmpOp × Arg × Arg))
  | 0, _ => none
  | f + 1, m =>
    match nodes[m]? with
    | some (.cmp op x y _) => if argBelow m x && argBelow m y then some [(op, x, y)] else none
    | some (.land (.node p) (.node q) _) =>
      if isAnd && p < m && q < m then
        match chain nodes isAnd f p, chain nodes isAnd f q with
        | some l1, some l2 => some (l1 ++ l2)
        | _, _ => none
      else none
    | some (.lor (.node p) (.node q) _) =>
      if !isAnd && p < m && q < m then
        match chain nodes isAnd f p, chain nodes isAnd f q with
        | some l1, some l2 => some (l1 ++ l2)
        | _, _ => none
      else none
    | _ => none

/-- candidate lowerings of node `m` (every candidate denotes the node's value: `lowerings_sound`) -/
def lowerings (nodes : Array CNode) : Nat → Nat → List VExpr
  | 0, _ => []
  | f + 1, m =>
    match nodes[m]? with
    | none => []
    | some nd =>
      if !nd.argsBelow m then [] else
      match nd with
      | .arith op a b _ =>
        VExpr.alu op (.arg a) (.arg b) ::
          (match op, a with
           | .sub, .int k => if k == 0 then [VExpr.alu .mul (.arg b) (.arg (.int (i32 (-1))))] else []
           | _, _ => [])
      | .cmp op a b _ => [.cmpB op (.arg a) (.arg b), .cmpB op.mirror (.arg b) (.arg a)]
      | .lnot a _ => [.cmpB .eq (.arg a) (.arg (.int 0))]
      | .gate op a b v _ => [.gate op (.arg a) (.arg b) v, .gate op.mirror (.arg b) (.arg a) v]
      | .proj a _ =>
        VExpr.alu .add (.arg a) (.arg (.int 0)) ::
          (match a with
           | .node p => lowerings nodes f p
           | .int _ => [])
      | .land a b _ =>
        (if isBoolArg nodes a && isBoolArg nodes b then [VExpr.alu .mul (.arg a) (.arg b)] else []) ++
        [VExpr.alu .mul (ne0 a) (ne0 b)] ++
        (match chain nodes true (f + 1) m with | some l => [VExpr.allB l] | none => [])
      | .lor a b _ =>
        (if isBoolArg nodes a && isBoolArg nodes b then [VExpr.cmpB .gt (.alu .add (.arg a) (.arg b)) (.arg (.int 0))] else []) ++
        [VExpr.cmpB .gt (.alu .add (ne0 a) (ne0 b)) (.arg (.int 0))] ++
        (match chain nodes false (f + 1) m with | some l => [VExpr.anyB l] | none => [])
      | _ => []

/-- `any(b) op rhs [: out]` / `all(b) op rhs [: out]` as one decider with an `anything` / `everything` row -/
def checkQuant (c : Circuit) (nodes : Array CNode) (bind : Nat → Option Bind) (n : Nat) (isAny : Bool)
    (b : Nat) (op : CmpOp) (rhs : Arg) (out : Option Arg) (e : Nat) (s : Sig) : Bool :=
  decide (b < n) && argBelow n rhs && (match out with | some o => argBelow n o | none => true) &&
  match c.kind e, bind b with
  | .decider cfg, some (.many eb) =>
    (match cfg.conds, cfg.outs with
     | [cd], [o] =>
       (match cd.first with
        | .ref .anything sel => isAny && c.carries e sel eb
        | .ref .everything sel => !isAny && c.carries e sel eb
        | _ => false) &&
       cd.op == op && cd.second.isPlain && matchOperand c nodes bind e cd.second rhs &&
       (match o.sig with | .sig t => t == s | _ => false) &&
       outValIs c bind e o s (out.getD (.int 1))
     | _, _ => false)
  | _, _ => false

/-- constant folding: node `n` has constant leaves only and entity `e` is the constant combinator holding its value -/
def foldedIs (c : Circuit) (nodes : Array CNode) (n e : Nat) (s : Sig) : Bool :=
  match c.kind e, constVal nodes (n + 1) n with
  | .const [(t, v)], some k => t == s && v == k
  | _, _ => false

/-- node `nd` (at index `n`) is computed by entity `e` on signal `s` -/
def checkEnt (c : Circuit) (nodes : Array CNode) (bind : Nat → Option Bind) (n : Nat) (nd : CNode) (e : Nat) (s : Sig) : Bool :=
  match nd with
  | .input _ _ _ => (match c.kind e with | .const [(t, _)] => t == s | _ => false)
  | .const _ v => (match c.kind e with | .const [(t, v')] => t == s && v == v' | _ => false)
  | .anyCmp b op rhs out _ => checkQuant c nodes bind n true b op rhs out e s
  | .allCmp b op rhs out _ => checkQuant c nodes bind n false b op rhs out e s
  | _ => foldedIs c nodes n e s || (lowerings nodes (n + 1) n).any (fun x => x.under n && entIs c nodes bind x e s)

/-- the entities whose wire-sum on `s` is scalar node `m` -/
def scalarEnts (bind : Nat → Option Bind) (s : Sig) (a : Arg) : Option (List Nat) :=
  match a with
  | .int _ => none
  | .node m =>
    match bind m with
    | some (.ent e s') => if s' == s then some [e] else none
    | some (.sum es s') => if s' == s then some es else none
    | _ => none

/-- scalar node `nd` exists only as a wire-sum: a bundle selection, or an addition folded into the wires -/
def checkSum (bind : Nat → Option Bind) (n : Nat) (nd : CNode) (es : List Nat) (s : Sig) : Bool :=
  match nd with
  | .memRead _ ty => ty == s      -- the cell's current content is, by definition, what its gates emit (InputsAgree)
  | .select b ty => decide (b < n) && ty == s && (match bind b with | some (.many eb) => es == eb | _ => false)
  | .arith .add a b _ =>
    argBelow n a && argBelow n b &&
    (match scalarEnts bind s a, scalarEnts bind s b with
     | some ea, some eb => es == ea ++ eb
     | _, _ => false)
  | _ => false

/-- the entities whose wire-sum is part `p` of a bundle literal: a bundle, or a scalar whose combinator emits
nothing but that scalar's own signal -/
def partEnts (c : Circuit) (nodes : Array CNode) (bind : Nat → Option Bind) (p : Nat) : Option (List Nat) :=
  match bind p with
  | some (.many es) => (match nodes[p]? with | some nd => if nd.ty?.isNone then some es else none | none => none)
  | some (.ent e s) =>
    (match nodes[p]? with
     | some nd => if nd.ty? == some s && c.emitsOnly e s then some [e] else none
     | none => none)
  | _ => none

def partsEnts (c : Circuit) (nodes : Array CNode) (bind : Nat → Option Bind) (n : Nat) : List Nat → Option (List Nat)
  | [] => some []
  | p :: ps =>
    if p < n then
      match partEnts c nodes bind p, partsEnts c nodes bind n ps with
      | some a, some b => some (a ++ b)
      | _, _ => none
    else none

/-- the `(type, value)` pairs of the literal parts `ps` (all must be constants below `n`) -/
def constPairs (nodes : Array CNode) (n : Nat) : List Nat → Option SigMap
  | [] => some []
  | p :: ps =>
    if p < n then
      match nodes[p]?, constPairs nodes n ps with
      | some (.const ty v), some r => some ((ty, v) :: r)
      | _, _ => none
    else none

/-- the concatenated contents of constant combinators `es` (none of them a declared input) -/
def constMaps (c : Circuit) (nodes : Array CNode) (bind : Nat → Option Bind) : List Nat → Option SigMap
  | [] => some []
  | e :: es =>
    match c.kind e, constMaps c nodes bind es with
    | .const m, some r => if notInputEnt nodes bind e then some (m ++ r) else none
    | _, _ => none

def hasEnts (c : Circuit) (nodes : Array CNode) (bind : Nat → Option Bind) (p : Nat) : Bool :=
  (partEnts c nodes bind p).isSome

def restOf (singles es : List Nat) : List Nat := es.filter (fun e => !singles.contains e)

/-- a bundle literal is the wire-sum of `es`: the parts with entities of their own, plus inline literals that
share constant combinators (the rest of `es`, whose contents are exactly those literals) -/
def mergeOK (c : Circuit) (nodes : Array CNode) (bind : Nat → Option Bind) (n : Nat) (parts es : List Nat) : Bool :=
  match partsEnts c nodes bind n (parts.filter (hasEnts c nodes bind)) with
  | none => false
  | some singles =>
    match constPairs nodes n (parts.filter (fun p => !hasEnts c nodes bind p)) with
    | none => false
    | some K =>
      match constMaps c nodes bind (restOf singles es) with
      | none => false
      | some mcat => mcat.isPerm K && es.isPerm (singles ++ restOf singles es)

def RG : Sel := { red := true, green := true }

/-- bundle node `nd` is the wire-sum of the outputs of `es` -/
def checkMany (c : Circuit) (nodes : Array CNode) (bind : Nat → Option Bind) (n : Nat) (nd : CNode) (es : List Nat) : Bool :=
  match nd with
  | .bmerge parts => mergeOK c nodes bind n parts es
  | .beach op b k =>
    decide (b < n) && argBelow n k &&
    (match es, bind b with
     | [e], some (.many eb) =>
       (match c.kind e with
        | .arith cfg =>
          cfg.op == op && (match cfg.first with | .ref .each sel => c.carries e sel eb | _ => false) &&
          (match cfg.out with | some .each => true | _ => false) &&
          cfg.second.isPlain && matchOperand c nodes bind e cfg.second k
        | _ => false)
     | _, _ => false)
  | .bfilter op b k out =>
    decide (b < n) && argBelow n k &&
    (match es, bind b with
     | [e], some (.many eb) =>
       (match c.kind e with
        | .decider cfg =>
          (match cfg.conds, cfg.outs with
           | [cd], [o] =>
             cd.op == op && (match cd.first with | .ref .each sel => c.carries e sel eb | _ => false) &&
             cd.second.isPlain && matchOperand c nodes bind e cd.second k &&
             (match o.sig with | .each => true | _ => false) &&
             (match out with
              | none => o.copy && c.carries e o.sel eb
              | some k' => !o.copy && o.const == k')
           | _, _ => false)
        | _ => false)
     | _, _ => false)
  | .entOut _ => (match es with | [e] => c.sources.contains e | _ => false)
  | .bgate op a k b =>
    decide (b < n) && argBelow n a && argBelow n k &&
    (match es, bind b with
     | [e], some (.many eb) =>
       (match c.kind e with
        | .decider cfg =>
          (match cfg.conds, cfg.outs with
           | [cd], [o] =>
             !cd.usesEach && cd.op == op && cd.first.isPlain &&
             matchOperand c nodes bind e cd.first a && matchOperand c nodes bind e cd.second k &&
             (match o.sig with | .everything => true | _ => false) && o.copy && c.carries e o.sel eb
           | _, _ => false)
        | _ => false)
     | _, _ => false)
  | _ => false

def checkNode (c : Circuit) (nodes : Array CNode) (bind : Nat → Option Bind) (n : Nat) : Bool :=
  match nodes[n]?, bind n with
  | none, _ => true
  | some _, none => true                       -- unbound nodes claim nothing
  | some _, some (.konst k) => constVal nodes (n + 1) n == some k
  | some nd, some (.ent e s) => checkEnt c nodes bind n nd e s
  | some nd, some (.sum es s) => checkSum bind n nd es s
  | some nd, some (.many es) => checkMany c nodes bind n nd es

/-- an `any(b) op rhs` / `all(b) op rhs` row `cd` of entity `e` -/
def quantCondOK (c : Circuit) (nodes : Array CNode) (bind : Nat → Option Bind) (n : Nat) (isAny : Bool)
    (b : Nat) (op : CmpOp) (rhs : Arg) (e : Nat) (cd : Cond) : Bool :=
  decide (b < n) && argBelow n rhs &&
  (match bind b with
   | some (.many eb) =>
     (match cd.first with
      | .ref .anything sel => isAny && c.carries e sel eb
      | .ref .everything sel => !isAny && c.carries e sel eb
      | _ => false)
   | _ => false) &&
  cd.op == op && cd.second.isPlain && matchOperand c nodes bind e cd.second rhs

/-- condition `cd` of entity `i` is `a op b`, written either way round -/
def condIs (c : Circuit) (nodes : Array CNode) (bind : Nat → Option Bind) (i : Nat) (cd : Cond) (op : CmpOp) (a b : Arg) : Bool :=
  cd.first.isPlain && !cd.usesEach &&
  ((cd.op == op && matchOperand c nodes bind i cd.first a && matchOperand c nodes bind i cd.second b) ||
   (cd.op == op.mirror && matchOperand c nodes bind i cd.first b && matchOperand c nodes bind i cd.second a))

/-- the circuit condition of the controlled entity `i` holds exactly when the value of `w` is positive:
either the condition is `w > 0` on the wire carrying `w`, or `w` is a comparison inlined into the entity -/
def enableIs (c : Circuit) (nodes : Array CNode) (bind : Nat → Option Bind) (i : Nat) (w : Arg) : Bool :=
  argBelow nodes.size w &&
  match c.kind i with
  | .controlled (some cd) =>
    (cd.op == .gt && cd.first.isPlain && !cd.usesEach && matchOperand c nodes bind i cd.first w &&
      (match cd.second with | .const k => k == 0 | _ => false)) ||
    (match w with
     | .node m =>
       (match nodes[m]? with
        | some (.cmp op a b _) =>
          argBelow m a && argBelow m b && condIs c nodes bind i cd op a b
        | some (.anyCmp bn op rhs none _) => quantCondOK c nodes bind m true bn op rhs i cd
        | some (.allCmp bn op rhs none _) => quantCondOK c nodes bind m false bn op rhs i cd
        | some (.lnot a _) =>
          argBelow m a && cd.op == .eq && cd.first.isPlain && !cd.usesEach &&
            matchOperand c nodes bind i cd.first a && (match cd.second with | .const k => k == 0 | _ => false)
        | some (.gate op a b (.int k) _) =>
          -- `(a op b) : k` with a positive constant is positive exactly when the comparison holds
          Facto.cmp .gt k 0 && argBelow m a && argBelow m b && condIs c nodes bind i cd op a b
        | _ => false)
     | _ => false)
  | _ => false

/-- what an observer wired to entity `a` (an anchor: both colours of its input) reads is the value the binding
`b` speaks about -/
def obsOK (c : Circuit) (a : Nat) : Bind → Bool
  | .ent e s => c.isolated a RG s e
  | .sum es s => c.readsSum a RG s es
  | .many es => c.carries a RG es
  | .konst _ => false

def checkAll (c : Circuit) (nodes : Array CNode) (bind : Nat → Option Bind) : Bool :=
  (List.range nodes.size).all (checkNode c nodes bind)

end Facto

namespace Facto

/-! ## binding discovery (untrusted: whatever it proposes is validated by `checkAll`) -/

/-- could entity kind `k` be the lowering of node `m`? (a shallow filter that keeps wrong guesses out) -/
def plausible (nodes : Array CNode) (m : Nat) (k : Kind) : Bool :=
  match nodes[m]?, k with
  | some (.input ..), .const _ => true
  | some (.const ..), .const _ => true
  | some (.arith op _ _ _), .arith cfg => cfg.op == op || (op == .sub && cfg.op == .mul)
  | some (.proj ..), .arith _ => true
  | some (.proj ..), .decider _ => true
  | some (.cmp op _ _ _), .decider cfg => (match cfg.conds with | [cd] => cd.op == op || cd.op == op.mirror | _ => false)
  | some (.lnot ..), .decider cfg => (match cfg.conds with | [cd] => cd.op == .eq | _ => false)
  | some (.gate op _ _ _ _), .decider cfg => (match cfg.conds with | [cd] => cd.op == op || cd.op == op.mirror | _ => false)
  | some (.land ..), .arith cfg => cfg.op == .mul
  | some (.land ..), .decider cfg => cfg.conds.length ≥ 2
  | some (.lor ..), .decider cfg => (match cfg.conds with | [cd] => cd.op == .gt | _ => true)
  | some (.anyCmp ..), .decider _ => true
  | some (.allCmp ..), .decider _ => true
  | _, _ => false

abbrev Props := List (Nat × Bind)

def Circuit.loud (c : Circuit) (i : Nat) (sel : Sel) : List Nat :=
  (c.selProducers i sel).filter (fun p => !c.silentEnt p)


def proposeArg (c : Circuit) (nodes : Array CNode) (i : Nat) (o : Operand) (a : Arg) : Option Props :=
  match a, o with
  | .int k, .const k' => if k == k' then some [] else none
  | .int _, .ref (.sig _) _ => some []
  | .node m, .const k => if constVal nodes (m + 1) m == some k then some [(m, .konst k)] else none
  | .node m, .ref (.sig t) sel =>
    (match nodes[m]? with
     | some (.select b _) => some [(b, .many (c.loud i sel))]   -- the selection itself is bound in the forward pass
     | _ =>
       match c.soleProducer i sel t with
       | some p => if plausible nodes m (c.kind p) then some [(m, .ent p t)] else none
       | none => some [])
  | _, _ => none

def proposeOp (c : Circuit) (nodes : Array CNode) (rec : Nat → Sig → Option Props) (x : VExpr) (i : Nat) (o : Operand) : Option Props :=
  match x with
  | .arg a => proposeArg c nodes i o a
  | _ =>
    match o with
    | .ref (.sig t) sel => (match c.soleProducer i sel t with | some p => rec p t | none => none)
    | _ => none

def proposeConds (c : Circuit) (nodes : Array CNode) (e : Nat) : List Cond → List (CmpOp × Arg × Arg) → Option Props
  | [], [] => some []
  | cd :: cds, (op, a, b) :: rest =>
    let straight : Option Props := if cd.op == op then do
        let p1 ← proposeArg c nodes e cd.first a
        let p2 ← proposeArg c nodes e cd.second b
        pure (p1 ++ p2)
      else none
    let row : Option Props := match straight with
      | some p => some p
      | none => if cd.op == op.mirror then do
          let p1 ← proposeArg c nodes e cd.first b
          let p2 ← proposeArg c nodes e cd.second a
          pure (p1 ++ p2)
        else none
    do
      let p ← row
      let p3 ← proposeConds c nodes e cds rest
      pure (p ++ p3)
  | _, _ => none

/-- if entity `e` has the shape of `x`, the bindings its leaves would need -/
def proposeLeaves (c : Circuit) (nodes : Array CNode) : VExpr → Nat → Sig → Option Props
  | .arg _, _, _ => none
  | .alu op x y, e, s =>
    match c.kind e with
    | .arith cfg =>
      if cfg.op == op && outIs cfg.out s then do
        let p1 ← proposeOp c nodes (proposeLeaves c nodes x) x e cfg.first
        let p2 ← proposeOp c nodes (proposeLeaves c nodes y) y e cfg.second
        pure (p1 ++ p2)
      else none
    | _ => none
  | .cmpB op x y, e, s =>
    match c.kind e with
    | .decider cfg =>
      (match cfg.conds, cfg.outs with
       | [cd], [o] =>
         if cd.op == op && isConstOneOut o s then do
           let p1 ← proposeOp c nodes (proposeLeaves c nodes x) x e cd.first
           let p2 ← proposeOp c nodes (proposeLeaves c nodes y) y e cd.second
           pure (p1 ++ p2)
         else none
       | _, _ => none)
    | _ => none
  | .gate op x y v, e, s =>
    match c.kind e with
    | .decider cfg =>
      (match cfg.conds, cfg.outs with
       | [cd], [o] =>
         if cd.op == op && (match o.sig with | .sig t => t == s | _ => false) then do
           let p1 ← proposeOp c nodes (proposeLeaves c nodes x) x e cd.first
           let p2 ← proposeOp c nodes (proposeLeaves c nodes y) y e cd.second
           let p3 : Props := match v with
             | .node m =>
               if o.copy then (match c.soleProducer e o.sel s with | some ev => [(m, .ent ev s)] | none => [])
               else [(m, .konst o.const)]
             | .int _ => []
           pure (p1 ++ p2 ++ p3)
         else none
       | _, _ => none)
    | _ => none
  | .allB cs, e, _ =>
    match c.kind e with
    | .decider cfg => if cfg.conds.length ≥ 2 then proposeConds c nodes e cfg.conds cs else none
    | _ => none
  | .anyB cs, e, _ =>
    match c.kind e with
    | .decider cfg => if cfg.conds.length ≥ 2 then proposeConds c nodes e cfg.conds cs else none
    | _ => none

def setBind (b : Array (Option Bind)) (p : Nat × Bind) : Array (Option Bind) :=
  if (b.getD p.1 none).isNone then b.setIfInBounds p.1 (some p.2) else b

def proposeOut (c : Circuit) (e : Nat) (o : DOut) (s : Sig) (v : Option Arg) : Props :=
  match v with
  | some (.node m) =>
    if o.copy then (match c.soleProducer e o.sel s with | some ev => [(m, .ent ev s)] | none => [])
    else [(m, .konst o.const)]
  | _ => []

/-- proposals a bound bundle consumer makes for its operands -/
def proposeBundle (c : Circuit) (nodes : Array CNode) (nd : CNode) (e : Nat) (s : Sig) : Props :=
  match nd, c.kind e with
  | .beach _ b k, .arith cfg =>
    (match cfg.first with | .ref .each sel => [(b, Bind.many (c.loud e sel))] | _ => []) ++
      ((proposeArg c nodes e cfg.second k).getD [])
  | .bfilter _ b k _, .decider cfg =>
    (match cfg.conds with
     | [cd] => (match cd.first with | .ref .each sel => [(b, Bind.many (c.loud e sel))] | _ => []) ++
         ((proposeArg c nodes e cd.second k).getD [])
     | _ => [])
  | .bgate _ a k b, .decider cfg =>
    (match cfg.conds, cfg.outs with
     | [cd], [o] => [(b, Bind.many (c.loud e o.sel))] ++ ((proposeArg c nodes e cd.first a).getD []) ++
         ((proposeArg c nodes e cd.second k).getD [])
     | _, _ => [])
  | .anyCmp b _ rhs out _, .decider cfg =>
    (match cfg.conds, cfg.outs with
     | [cd], [o] => (match cd.first with | .ref _ sel => [(b, Bind.many (c.loud e sel))] | _ => []) ++
         ((proposeArg c nodes e cd.second rhs).getD []) ++ proposeOut c e o s out
     | _, _ => [])
  | .allCmp b _ rhs out _, .decider cfg =>
    (match cfg.conds, cfg.outs with
     | [cd], [o] => (match cd.first with | .ref _ sel => [(b, Bind.many (c.loud e sel))] | _ => []) ++
         ((proposeArg c nodes e cd.second rhs).getD []) ++ proposeOut c e o s out
     | _, _ => [])
  | _, _ => []

/-- a bundle literal known to be the wire-sum of `es`: give each scalar part the one entity of `es` that emits
exactly that part's signal -/
def proposeParts (c : Circuit) (nodes : Array CNode) (parts : List Nat) (es : List Nat) : Props :=
  let scalars : Props := parts.filterMap (fun p =>
    match (nodes[p]? : Option CNode) with
    | some nd =>
      (match nd.ty? with
       | some ty =>
         (match es.filter (fun e => c.emitListOf e == some [ty]) with
          | [e] => some (p, Bind.ent e ty)
          | _ => none)
       | none => none)
    | none => none)
  -- one nested bundle: it is whatever the scalar parts leave over
  let used : List Nat := scalars.filterMap (fun (_, b) => match b with | .ent e _ => some e | _ => none)
  let bundles := parts.filter (fun p => match (nodes[p]? : Option CNode) with | some nd => nd.ty?.isNone | none => false)
  match bundles with
  | [p] => scalars ++ [(p, Bind.many (es.filter (fun e => !used.contains e)))]
  | _ => scalars

/-- what the circuit condition of entity `i` suggests about the nodes behind the enable value `w` -/
def proposeEnable (c : Circuit) (nodes : Array CNode) (i : Nat) (w : Arg) : Props :=
  match c.kind i with
  | .controlled (some cd) =>
    let direct : Option Props :=
      if cd.op == .gt && (match cd.second with | .const k => k == 0 | _ => false) then proposeArg c nodes i cd.first w else none
    let inlined : Props :=
      match w with
      | .node m =>
        (match (nodes[m]? : Option CNode) with
         | some (.cmp op a b _) =>
           if cd.op == op && (proposeArg c nodes i cd.first a).isSome && (proposeArg c nodes i cd.second b).isSome then
             ((proposeArg c nodes i cd.first a).getD []) ++ ((proposeArg c nodes i cd.second b).getD [])
           else if cd.op == op.mirror then ((proposeArg c nodes i cd.first b).getD []) ++ ((proposeArg c nodes i cd.second a).getD [])
           else []
         | some (.anyCmp bn _ rhs none _) =>
           (match cd.first with | .ref _ sel => [(bn, Bind.many (c.loud i sel))] | _ => []) ++ ((proposeArg c nodes i cd.second rhs).getD [])
         | some (.allCmp bn _ rhs none _) =>
           (match cd.first with | .ref _ sel => [(bn, Bind.many (c.loud i sel))] | _ => []) ++ ((proposeArg c nodes i cd.second rhs).getD [])
         | some (.lnot a _) =>
           if cd.op == .eq && (match cd.second with | .const k => k == 0 | _ => false) then (proposeArg c nodes i cd.first a).getD [] else []
         | some (.gate op a b (.int _) _) =>
           if cd.op == op && (proposeArg c nodes i cd.first a).isSome && (proposeArg c nodes i cd.second b).isSome then
             ((proposeArg c nodes i cd.first a).getD []) ++ ((proposeArg c nodes i cd.second b).getD [])
           else if cd.op == op.mirror then ((proposeArg c nodes i cd.first b).getD []) ++ ((proposeArg c nodes i cd.second a).getD [])
           else []
         | _ => [])
      | _ => []
    -- an inlined comparison wins when its shape fits (the value node then has no combinator)
    if inlined.isEmpty then direct.getD [] else inlined
  | _ => []

/-- propagate bindings from consumers to their operands, last node first: for each bound node take the
first candidate lowering whose shape the bound entity has; then, first node first, give the nodes that have no
combinator of their own (bundle literals, selections, additions folded into wires) the wire-sum of their parts -/
def inferBindings (c : Circuit) (nodes : Array CNode) (roots : List (Nat × Bind)) (enables : List (Nat × Arg) := []) :
    Array (Option Bind) :=
  let b00 : Array (Option Bind) := roots.foldl setBind (Array.replicate nodes.size none)
  let b0 := enables.foldl (fun b (i, w) => (proposeEnable c nodes i w).foldl setBind b) b00
  let b1 := (List.range nodes.size).reverse.foldl (fun b n =>
    match nodes[n]?, b.getD n none with
    | some nd, some (.ent e s) =>
      (match (lowerings nodes (n + 1) n).findSome? (fun x => proposeLeaves c nodes x e s) with
       | some ps => ps.foldl setBind b
       | none => (proposeBundle c nodes nd e s).foldl setBind b)
    | some (.bmerge parts), some (.many es) => (proposeParts c nodes parts es).foldl setBind b
    | some nd, some (.many [e]) => (proposeBundle c nodes nd e "").foldl setBind b
    | _, _ => b) b0
  (List.range nodes.size).foldl (fun b n =>
    let bf : Nat → Option Bind := fun m => b.getD m none
    match (nodes[n]? : Option CNode), (b.getD n none : Option Bind) with
    | some (.bmerge parts), none =>
      (match partsEnts c nodes bf n parts with
       | some es => b.setIfInBounds n (some (.many es))
       | none => b)
    | some (.bmerge parts), some (.many es) =>
      -- a consumer proposed the visible producers: keep them if they are the parts, else take the parts
      (match partsEnts c nodes bf n parts with
       | some es' => if es'.isPerm es then b else b.setIfInBounds n (some (.many es'))
       | none => b)
    | some (.select bn ty), none =>
      (match bf bn with
       | some (.many eb) => b.setIfInBounds n (some (.sum eb ty))
       | _ => b)
    | some (.arith .add x y ty), none =>
      (match scalarEnts bf ty x, scalarEnts bf ty y with
       | some ea, some eb => b.setIfInBounds n (some (.sum (ea ++ eb) ty))
       | _, _ => b)
    | _, _ => b) b1

/-- entities whose longest-path rank stabilises: they neither lie on a cycle nor depend on one (untrusted; validated
by `closedUnder` and `checkRanked` on the restricted circuit) -/
def stableEnts (c : Circuit) : List Nat :=
  let n := c.n
  let step (r : Array Nat) : Array Nat :=
    (Array.range n).map (fun i =>
      let ps := c.prodR.getD i [] ++ c.prodG.getD i []
      let isComb := match c.kind i with | .arith _ => true | .decider _ => true | _ => false
      if isComb then (ps.foldl (fun acc p => max acc (r.getD p 0 + 1)) 0) else 0)
  let r1 := (List.range (n + 1)).foldl (fun r _ => step r) (Array.replicate n 0)
  let r2 := (List.range (n + 1)).foldl (fun r _ => step r) r1
  (List.range n).filter (fun i => r1.getD i 0 == r2.getD i 0)

/-- longest-path rank certificate (untrusted; validated by `checkRanked`) -/
def computeRank (c : Circuit) : Nat → Nat :=
  let n := c.n
  let step (r : Array Nat) : Array Nat :=
    (Array.range n).map (fun i =>
      let ps := c.prodR.getD i [] ++ c.prodG.getD i []
      -- an entity does not wait for itself when it only *observes* (constant combinators, lamps)
      let isComb := match c.kind i with | .arith _ => true | .decider _ => true | _ => false
      if isComb then (ps.foldl (fun acc p => max acc (r.getD p 0 + 1)) 0) else 0)
  let r := (List.range (n + 1)).foldl (fun r _ => step r) (Array.replicate n 0)
  fun i => r.getD i 0

end Facto
