import Model.Blueprint
/-!
# `Realizes`, geometric half: can the printed blueprint be pasted? (C08, C09, C18)

Exact integer arithmetic: printed centres are on the half-integer grid (×2 in `BpEntity`), prototype
lengths come in 1/1000 tile, so everything is compared in 1/1000 tile (`centre * 500`), distances squared.
-/
open Lean
namespace Facto

structure Proto where
  name : String
  /-- collision box relative to the centre, 1/1000 tile: x1 y1 x2 y2 -/
  box : Int × Int × Int × Int
  tileW : Nat
  tileH : Nat
  circuitReach : Int
  isPole : Bool
  copperReach : Int
  supply : Int
  electric : Bool
  deriving Repr, Inhabited

def decodeProto (j : Json) : Proto :=
  let gi (o : Json) (k : String) : Int :=
    match (o.getObjVal? k).toOption with
    | some (.num n) => if n.exponent == 0 then n.mantissa else (n.mantissa / ((10 : Int) ^ n.exponent))
    | _ => 0
  let boxA := ((j.getObjVal? "box").toOption.bind (·.getArr?.toOption)).getD #[]
  let bi (i : Nat) : Int := match boxA[i]? with
    | some (.num n) => if n.exponent == 0 then n.mantissa else (n.mantissa / ((10 : Int) ^ n.exponent))
    | _ => 0
  let pole := (j.getObjVal? "pole").toOption
  { name := ((j.getObjVal? "name").toOption.bind (·.getStr?.toOption)).getD ""
    box := (bi 0, bi 1, bi 2, bi 3)
    tileW := (gi j "tile_w").toNat, tileH := (gi j "tile_h").toNat
    circuitReach := gi j "circuit_reach"
    isPole := pole.isSome
    copperReach := match pole with | some p => gi p "copper_reach" | none => 0
    supply := match pole with | some p => gi p "supply" | none => 0
    electric := ((j.getObjVal? "electric").toOption.bind (·.getBool?.toOption)).getD false }

/-- absolute box of entity `e` (1/1000 tile) -/
def absBox (e : BpEntity) (p : Proto) : Int × Int × Int × Int :=
  let cx := e.x2 * 500
  let cy := e.y2 * 500
  (cx + p.box.1, cy + p.box.2.1, cx + p.box.2.2.1, cy + p.box.2.2.2)

/-- boxes with a common interior point -/
def boxesOverlap (a b : Int × Int × Int × Int) : Bool :=
  a.1 < b.2.2.1 && b.1 < a.2.2.1 && a.2.1 < b.2.2.2 && b.2.1 < a.2.2.2

/-- boxes that share at least a point (supply coverage: "at least partly inside") -/
def boxesTouch (a b : Int × Int × Int × Int) : Bool :=
  a.1 ≤ b.2.2.1 && b.1 ≤ a.2.2.1 && a.2.1 ≤ b.2.2.2 && b.2.1 ≤ a.2.2.2

def dist2 (a b : BpEntity) : Int :=
  let dx := (a.x2 - b.x2) * 500
  let dy := (a.y2 - b.y2) * 500
  dx * dx + dy * dy

def maxConn (e : BpEntity) : Nat := if isCombinator e.name then 4 else 2

structure GeoReport where
  overlaps : List (Nat × Nat) := []
  /-- wire index and reason -/
  badWires : List (Nat × String) := []
  unpowered : List Nat := []
  poleComponents : Nat := 0
  nPoles : Nat := 0
  /-- two poles of different electric components that are within copper reach of each other -/
  connectable : List (Nat × Nat) := []
  /-- unpowered entities whose centre lies inside the bounding box of all poles -/
  unpoweredInside : List Nat := []
  /-- unpowered entities that no pole of the grid *as laid out before trimming* would have covered either -/
  unpoweredOffGrid : List Nat := []
  /-- … and of those, the ones whose centre lies inside the bounding box of that grid (a hole in the grid) -/
  unpoweredGridHole : List Nat := []
  longCopper : List Nat := []
  deriving Repr, Inhabited

/-- pairs `i < j` of entity indices whose collision boxes intersect -/
def overlapsOf (n : Nat) (boxes : Array (Int × Int × Int × Int)) : List (Nat × Nat) :=
  (List.range n).flatMap (fun i =>
    ((List.range n).filter (fun j => i < j && boxesOverlap (boxes.getD i default) (boxes.getD j default))).map (fun j => (i, j)))

/-- what is wrong with one wire, if anything -/
def wireFault (bp : Blueprint) (pr : Nat → Proto) (w : BpWire) : Option String :=
    match bp.indexOf w.e1, bp.indexOf w.e2 with
    | some i, some j =>
      let a := bp.ents.getD i default
      let b := bp.ents.getD j default
      let copper1 := w.c1 ≥ 5
      let copper2 := w.c2 ≥ 5
      if copper1 != copper2 then some "circuit connector wired to a copper connector"
      else if copper1 then
        let r := min (pr i).copperReach (pr j).copperReach
        if !((pr i).isPole || a.name == "power-switch") || !((pr j).isPole || b.name == "power-switch") then some "copper wire on an entity without a copper connector"
        else if dist2 a b > r * r then some "copper wire longer than the poles' reach"
        else none
      else if w.c1 == 0 || w.c2 == 0 || w.c1 > maxConn a || w.c2 > maxConn b then some "connector the entity does not have"
      else if w.c1 % 2 != w.c2 % 2 then some "wire joins a red and a green connector"
      else
        let r := min (pr i).circuitReach (pr j).circuitReach
        if dist2 a b > r * r then some s!"circuit wire longer than the reach of its endpoints ({dist2 a b} > {r * r})" else none
    | _, _ => some "wire endpoint is not an entity of the blueprint"

def badWiresOf (bp : Blueprint) (pr : Nat → Proto) : List (Nat × String) :=
  (List.range bp.wires.size).filterMap (fun k => (wireFault bp pr (bp.wires.getD k default)).map (fun r => (k, r)))

/-- supply area of pole `p` (1/1000 tile) -/
def supplyArea (bp : Blueprint) (pr : Nat → Proto) (p : Nat) : Int × Int × Int × Int :=
  let e := bp.ents.getD p default
  let s := (pr p).supply
  (e.x2 * 500 - s, e.y2 * 500 - s, e.x2 * 500 + s, e.y2 * 500 + s)

/-- electric entities whose collision box touches no pole's supply area -/
def unpoweredOf (n : Nat) (bp : Blueprint) (pr : Nat → Proto) (boxes : Array (Int × Int × Int × Int)) (poles : List Nat) : List Nat :=
  (List.range n).filter (fun i =>
    (pr i).electric && !(poles.any (fun p => boxesTouch (boxes.getD i default) (supplyArea bp pr p))))

/-- copper-wire edges between entity indices -/
def copperEdges (bp : Blueprint) : List (Nat × Nat) :=
  bp.wires.toList.filterMap (fun w =>
    if w.c1 ≥ 5 && w.c2 ≥ 5 then
      match bp.indexOf w.e1, bp.indexOf w.e2 with
      | some i, some j => some (i, j)
      | _, _ => none
    else none)

def copperPar (bp : Blueprint) : Array Nat :=
  (copperEdges bp).foldl (fun p (a, b) => ufUnion p a b) (Array.range bp.ents.size)

def geoCheck (bp : Blueprint) (protos : Array Proto) (checkPower : Bool)
    (grid : List (Int × Int) := []) (gridSupply : Int := 0) : GeoReport :=
  let n := bp.ents.size
  let pr (i : Nat) : Proto := protos.getD i default
  let boxes := (Array.range n).map (fun i => absBox (bp.ents.getD i default) (pr i))
  let overlaps := overlapsOf n boxes
  let badWires := badWiresOf bp pr
  let poles := (List.range n).filter (fun i => (pr i).isPole)
  let unpowered := if !checkPower then [] else unpoweredOf n bp pr boxes poles
  let par := copperPar bp
  let roots := (poles.map (ufFind par)).eraseDups
  let connectable := poles.flatMap (fun p => (poles.filter (fun q => p < q && ufFind par p != ufFind par q &&
      (let r := min (pr p).copperReach (pr q).copperReach
       dist2 (bp.ents.getD p default) (bp.ents.getD q default) ≤ r * r))).map (fun q => (p, q)))
  let px := poles.map (fun p => (bp.ents.getD p default).x2)
  let py := poles.map (fun p => (bp.ents.getD p default).y2)
  let minL (l : List Int) : Int := l.foldl min (l.headD 0)
  let maxL (l : List Int) : Int := l.foldl max (l.headD 0)
  let unpoweredInside := unpowered.filter (fun i =>
    let e := bp.ents.getD i default
    !poles.isEmpty && minL px ≤ e.x2 && e.x2 ≤ maxL px && minL py ≤ e.y2 && e.y2 ≤ maxL py)
  -- the grid before trimming: centres in 1/1000 tile
  let unpoweredOffGrid := unpowered.filter (fun i =>
    !(grid.any (fun (gx, gy) =>
      boxesTouch (boxes.getD i default) (gx - gridSupply, gy - gridSupply, gx + gridSupply, gy + gridSupply))))
  let gxs := grid.map (·.1)
  let gys := grid.map (·.2)
  let unpoweredGridHole := unpoweredOffGrid.filter (fun i =>
    let e := bp.ents.getD i default
    !grid.isEmpty && minL gxs ≤ e.x2 * 500 && e.x2 * 500 ≤ maxL gxs && minL gys ≤ e.y2 * 500 && e.y2 * 500 ≤ maxL gys)
  { overlaps, badWires, unpowered, poleComponents := roots.length, nPoles := poles.length, connectable, unpoweredInside,
    unpoweredOffGrid, unpoweredGridHole }

end Facto
