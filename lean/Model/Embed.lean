import Model.Core
/-!
# One Core program inside another

`embedsCheck ι μ ε P P'` : node `n` of `P` sits at index `ι n` of `P'` with all its references mapped the same
way (`μ` for memory cells, `ε` for entities). `Proofs/EmbedSound.lean` proves that then every node of `P` denotes
in `P'` what it denotes in `P` — for all inputs — which is the source-level half of C12 (a program compiled
together with an independent one), and of C15 / C16 (a call against its substituted body, a loop against its
unrolling) when the two elaborations are compared.
-/
namespace Facto

def Arg.mapIdx (ι : Nat → Nat) : Arg → Arg
  | .int k => .int k
  | .node i => .node (ι i)

def CNode.mapIdx (ι μ ε : Nat → Nat) : CNode → CNode
  | .input name ty v => .input name ty v
  | .const ty v => .const ty v
  | .arith op a b ty => .arith op (a.mapIdx ι) (b.mapIdx ι) ty
  | .cmp op a b ty => .cmp op (a.mapIdx ι) (b.mapIdx ι) ty
  | .gate op a b v ty => .gate op (a.mapIdx ι) (b.mapIdx ι) (v.mapIdx ι) ty
  | .land a b ty => .land (a.mapIdx ι) (b.mapIdx ι) ty
  | .lor a b ty => .lor (a.mapIdx ι) (b.mapIdx ι) ty
  | .lnot a ty => .lnot (a.mapIdx ι) ty
  | .proj a ty => .proj (a.mapIdx ι) ty
  | .memRead m ty => .memRead (μ m) ty
  | .select b ty => .select (ι b) ty
  | .anyCmp b op rhs out ty => .anyCmp (ι b) op (rhs.mapIdx ι) (out.map (Arg.mapIdx ι)) ty
  | .allCmp b op rhs out ty => .allCmp (ι b) op (rhs.mapIdx ι) (out.map (Arg.mapIdx ι)) ty
  | .entRead e p ty => .entRead (ε e) p ty
  | .bmerge parts => .bmerge (parts.map ι)
  | .beach op b k => .beach op (ι b) (k.mapIdx ι)
  | .bfilter op b k out => .bfilter op (ι b) (k.mapIdx ι) out
  | .bgate op a k b => .bgate op (a.mapIdx ι) (k.mapIdx ι) (ι b)
  | .entOut e => .entOut (ε e)

def Arg.refs : Arg → List Nat
  | .int _ => []
  | .node i => [i]

/-- the node indices a node refers to -/
def CNode.refs : CNode → List Nat
  | .arith _ a b _ | .cmp _ a b _ | .land a b _ | .lor a b _ => a.refs ++ b.refs
  | .gate _ a b v _ => a.refs ++ b.refs ++ v.refs
  | .lnot a _ | .proj a _ => a.refs
  | .select b _ => [b]
  | .anyCmp b _ rhs out _ | .allCmp b _ rhs out _ => b :: rhs.refs ++ (match out with | some o => o.refs | none => [])
  | .bmerge parts => parts
  | .beach _ b k => b :: k.refs
  | .bfilter _ b k _ => b :: k.refs
  | .bgate _ a k b => b :: a.refs ++ k.refs
  | _ => []

/-- node `n` of `P` is node `ι n` of `P'`, references mapped; references point backwards on both sides -/
def embedsCheck (ι μ ε : Nat → Nat) (P P' : Array CNode) : Bool :=
  (List.range P.size).all (fun n =>
    match P[n]? with
    | some nd =>
      decide (ι n < P'.size) && P'[ι n]? == some (nd.mapIdx ι μ ε) &&
        nd.refs.all (fun i => decide (i < n) && decide (ι i < ι n))
    | none => true)

/-! ## the same program with other signal types on its scalar values (C13) -/

/-- replace the output type of a scalar node (not of a bundle selection, whose type is the member selected) -/
def CNode.setTy (t : Sig) : CNode → CNode
  | .input name _ v => .input name t v
  | .const _ v => .const t v
  | .arith op a b _ => .arith op a b t
  | .cmp op a b _ => .cmp op a b t
  | .gate op a b v _ => .gate op a b v t
  | .land a b _ => .land a b t
  | .lor a b _ => .lor a b t
  | .lnot a _ => .lnot a t
  | .proj a _ => .proj a t
  | .memRead m _ => .memRead m t
  | .anyCmp b op rhs out _ => .anyCmp b op rhs out t
  | .allCmp b op rhs out _ => .allCmp b op rhs out t
  | .entRead e p _ => .entRead e p t
  | nd => nd

/-- references in bundle position: the whole signal map of the referred node is used -/
def CNode.brefs : CNode → List Nat
  | .select b _ => [b]
  | .anyCmp b _ _ _ _ | .allCmp b _ _ _ _ => [b]
  | .bmerge parts => parts
  | .beach _ b _ | .bfilter _ b _ _ | .bgate _ _ _ b => [b]
  | _ => []

/-- `P2` is `P` with other types on scalar nodes; a node used as a bundle (or as a member of a bundle literal)
keeps its type; references point backwards -/
def retypeCheck (P P2 : Array CNode) : Bool :=
  P.size == P2.size &&
  (List.range P.size).all (fun n =>
    match P[n]?, P2[n]? with
    | some a, some b =>
      (match a.ty?, b.ty? with
       | some _, some t2 => b == a.setTy t2
       | none, none => b == a
       | _, _ => false) &&
      a.refs.all (fun i => decide (i < n)) &&
      a.brefs.all (fun i => (P.getD i (.const "" 0)).ty? == (P2.getD i (.const "" 0)).ty?)
    | _, _ => false)

/-- `P` with the types of `P'` along `ι` (where the node at the image has the same shape) -/
def retypeAlong (ι : Nat → Nat) (P P' : Array CNode) : Array CNode :=
  (Array.range P.size).map (fun n =>
    let a := P.getD n (.const "" 0)
    match (P'.getD (ι n) (.const "" 0)).ty?, a.ty? with
    | some t', some _ => (match a with | .select .. => a | _ => a.setTy t')
    | _, _ => a)

/-! ## finding an embedding (untrusted; `embedsCheck` decides) -/

/-- cells of `P` to cells of `P'` by name, in order -/
def matchMems (P P' : CoreProg) : Nat → Nat :=
  let tbl : Array Nat := P.mems.map (fun cell => (P'.mems.findIdx? (fun c' => c'.name == cell.name)).getD 0)
  fun m => tbl.getD m m

/-- entities of `P` to entities of `P'`: same prototype, position and properties, in order -/
def matchEnts (P P' : CoreProg) : Nat → Nat :=
  let step := fun (acc : Array Nat × Nat) (e : EntSpec) =>
    let (tbl, from_) := acc
    let found := (List.range (P'.ents.size - from_)).findSome? (fun d =>
      match P'.ents[from_ + d]? with
      | some e' => if e'.proto == e.proto && e'.pos == e.pos && e'.props == e.props then some (from_ + d) else none
      | none => none)
    match found with
    | some j => (tbl.push j, j + 1)
    | none => (tbl.push 0, from_)
  let tbl := (P.ents.foldl step (#[], 0)).1
  fun e => tbl.getD e e

/-- greedy: node `n` of `P` goes to the first not yet used node of `P'` that equals it with references mapped -/
def findEmbedding (P P' : CoreProg) : (Nat → Nat) × (Nat → Nat) × (Nat → Nat) :=
  let μ := matchMems P P'
  let ε := matchEnts P P'
  let step := fun (acc : Array Nat × Nat) (nd : CNode) =>
    let (tbl, from_) := acc
    let ι : Nat → Nat := fun i => tbl.getD i 0
    let want := nd.mapIdx ι μ ε
    let found := (List.range (P'.nodes.size - from_)).findSome? (fun d =>
      match P'.nodes[from_ + d]? with
      | some nd' => if nd'.setTy "" == want.setTy "" then some (from_ + d) else none
      | none => none)
    match found with
    | some j => (tbl.push j, j + 1)
    | none => (tbl.push P'.nodes.size, from_)     -- no image: the check will fail at this node
  let tbl := (P.nodes.foldl step (#[], 0)).1
  (fun i => tbl.getD i 0, μ, ε)

end Facto
