import Model.Blueprint
import Model.Elab
/-!
# Failing-input search: run the decoded printed blueprint against the Core denotation

This is *not* what decides a property (the kernel-checked theorems and the static checkers do);
it produces concrete replays and cross-checks the checkers.
-/
open Lean
namespace Facto

/-- deterministic PRNG (64-bit LCG, high bits) -/
def lcg (s : UInt64) : UInt64 := s * 6364136223846793005 + 1442695040888963407

def boundary : List Int :=
  [0, 1, -1, 2, -2, 3, 5, 7, 10, -10, 100, 255, 256, 1000, -1000, 65535, 65536, 2147483647, -2147483648,
   2147483646, -2147483647, 1073741824, -1073741824, 46341, -46341]

/-- constants of the program and their neighbours: comparison thresholds are where behaviour changes -/
def programConstants (core : CoreProg) : List Int :=
  let args (nd : CNode) : List Arg := match nd with
    | .arith _ a b _ | .cmp _ a b _ | .land a b _ | .lor a b _ => [a, b]
    | .gate _ a b v _ => [a, b, v]
    | .lnot a _ | .proj a _ => [a]
    | .anyCmp _ _ r o _ | .allCmp _ _ r o _ => r :: o.toList
    | .beach _ _ k | .bfilter _ _ k _ => [k]
    | .bgate _ a k _ => [a, k]
    | _ => []
  let ks := core.nodes.toList.flatMap (fun nd => (args nd).filterMap (fun a => match a with | .int k => some k.toInt | _ => none))
  let ks := ks ++ core.nodes.toList.filterMap (fun nd => match nd with | .const _ v => some v.toInt | _ => none)
  (ks.flatMap (fun k => [k, k + 1, k - 1])).eraseDups

def pickWith (pool : List Int) (s : UInt64) : UInt64 × Int :=
  let s1 := lcg s
  let r := (s1 >>> 33).toNat
  let mode := r % 10
  let s2 := lcg s1
  let r2 := (s2 >>> 32).toNat
  if mode < 4 && !pool.isEmpty then (s2, pool.getD (r2 % pool.length) 0)
  else if mode < 5 then (s2, boundary.getD (r2 % boundary.length) 0)
  else if mode < 8 then (s2, (Int.ofNat (r2 % 41)) - 20)
  else if mode < 9 then (s2, (Int.ofNat (r2 % 2001)) - 1000)
  else (s2, (BitVec.ofNat 32 r2).toInt)

def pick (s : UInt64) : UInt64 × Int :=
  let s1 := lcg s
  let r := (s1 >>> 33).toNat
  let mode := r % 10
  let s2 := lcg s1
  let r2 := (s2 >>> 32).toNat
  if mode < 4 then (s2, boundary.getD (r2 % boundary.length) 0)
  else if mode < 7 then (s2, (Int.ofNat (r2 % 41)) - 20)
  else if mode < 8 then (s2, (Int.ofNat (r2 % 2001)) - 1000)
  else (s2, (BitVec.ofNat 32 r2).toInt)

structure InputBinding where
  name : String
  /-- blueprint entity index -/
  idx : Nat
  /-- the Factorio signal the constant combinator carries -/
  sig : Sig
  lit : I32
  deriving Repr, Inhabited

structure Observation where
  name : String
  /-- entity index of the anchor (observe its input networks) or of the producer (observe its output) -/
  idx : Nat
  atAnchor : Bool
  /-- `some s`: scalar on Factorio signal `s` whose Core type is `ty`; `none`: whole bundle -/
  sig : Option Sig
  node : Nat
  /-- `some a`: this observes a circuit-controlled entity, which must be enabled iff `a > 0` -/
  enable : Option Arg := none
  /-- `some m`: the producer is a constant of the final IR that the blueprint does not materialise (nothing reads it):
  the "observation" is the constant the compiler claims for this name -/
  claim : Option SigMap := none
  deriving Repr, Inhabited

/-- an entity read through `.output`: Core entity number and blueprint index -/
structure SourceBinding where
  ent : Nat
  idx : Nat
  deriving Repr, Inhabited

def contentPool : List Sig := ["iron-plate", "copper-plate", "coal", "signal-A", "water"]

/-- pseudo-random chest contents: a few pool signals with small non-negative counts -/
def genContents (s : UInt64) : UInt64 × SigMap :=
  contentPool.foldl (fun (st, acc) sg =>
    let s1 := lcg st
    let r := (s1 >>> 35).toNat
    if r % 3 == 0 then (s1, acc) else (s1, acc ++ [(sg, i32 (Int.ofNat (r % 300)))])) (s, [])

def showMap (m : List (Sig × Int)) : Json :=
  Json.mkObj (m.map (fun (k, v) => (k, Json.num (JsonNumber.fromInt v))))

/-- rename the Core-side signal types through the compiler's map for implicit types -/
def renameMap (ren : Sig → Sig) (m : SigMap) : SigMap := m.map (fun (k, v) => (ren k, v))

structure Mismatch where
  name : String
  valuation : List (String × Int)
  expected : List (Sig × Int)
  got : List (Sig × Int)
  tick : Nat

def Mismatch.toJson (m : Mismatch) : Json :=
  Json.mkObj [("name", m.name), ("valuation", showMap m.valuation), ("expected", showMap m.expected),
    ("got", showMap m.got), ("tick", m.tick)]

/-- compare one valuation; returns the mismatching observations -/
def compareOnce (core : CoreProg) (circ : Circuit) (inputs : List InputBinding) (obs : List Observation)
    (ren : Sig → Sig) (vals : List I32) (ticks : Nat) (srcs : List (SourceBinding × SigMap) := []) : List Mismatch :=
  let bind := inputs.zip vals
  let env : Env := { input := fun nm => (bind.find? (fun (b, _) => b.name == nm)).map (·.2),
                     entOut := fun e => ((srcs.find? (fun (b, _) => b.ent == e)).map (·.2)).getD [] }
  let inp : Inputs := fun i =>
    match (bind.find? (fun (b, _) => b.idx == i)).map (fun (b, v) => [(b.sig, v)]) with
    | some m => some m
    | none => (srcs.find? (fun (b, _) => b.idx == i)).map (·.2)
  let want := evalNodes core.nodes env
  let outs := circ.runA inp ticks
  let outs' := circ.stepA inp outs
  let f : Nat → SigMap := fun p => outs.getD p []
  let f' : Nat → SigMap := fun p => outs'.getD p []
  let contents : List (String × Int) := srcs.flatMap (fun (b, m) => (SigMap.sorted m).map (fun (k, v) => (s!"entity{b.ent}.{k}", v)))
  obs.filterMap (fun o =>
    let w := renameMap ren (want.getD o.node [])
    let seen (g : Nat → SigMap) : SigMap := match o.claim with
      | some m => m
      | none => if o.atAnchor then circ.observe g o.idx else g o.idx
    let (e, g, g') := match o.enable with
      | some a =>
        let expectOn := (argVal core.nodes want a).toInt > 0
        let cond := match circ.kind o.idx with | .controlled c => c | _ => none
        let on (h : Nat → SigMap) : Bool := evalEnabled cond (circ.readR h o.idx) (circ.readG h o.idx)
        ([("enabled", boolI expectOn)], [("enabled", boolI (on f))], [("enabled", boolI (on f'))])
      | none =>
      match o.sig with
      | some s => ([(s, w.get s)], [(s, (seen f).get s)], [(s, (seen f').get s)])
      | none => (w, seen f, seen f')
    let es := SigMap.sorted e
    let gs := SigMap.sorted g
    let gs' := SigMap.sorted g'
    if es == gs && es == gs' then none
    else some { name := o.name, valuation := bind.map (fun (b, v) => (b.name, v.toInt)) ++ contents, expected := es,
                got := if es == gs then gs' else gs, tick := ticks })

def genVals (seed : UInt64) (n : Nat) (pool : List Int := []) : UInt64 × List I32 :=
  (List.range n).foldl (fun (s, acc) _ => let (s', v) := pickWith pool s; (s', acc ++ [i32 v])) (seed, [])

/-- the search: literal values, all-zero, all-one, then `count` seeded valuations; stops at `maxReport` -/
def searchStateless (core : CoreProg) (circ : Circuit) (inputs : List InputBinding) (obs : List Observation)
    (ren : Sig → Sig) (seed : UInt64) (count ticks maxReport : Nat) (sources : List SourceBinding := []) : Nat × List Mismatch :=
  let pool := programConstants core
  let genSrcs (s : UInt64) : UInt64 × List (SourceBinding × SigMap) :=
    sources.foldl (fun (st, acc) b => let (st', m) := genContents st; (st', acc ++ [(b, m)])) (s, [])
  -- one input at a time pushed to the edges of the range and next to the program's own constants, the others at
  -- their literal values: where offsets wrap, signs flip and thresholds are crossed
  let edges : List I32 := [i32 (-2147483648), i32 (-2147483647), i32 (-2), i32 (-1), 0, 1, 2, i32 2147483643, i32 2147483646, i32 2147483647] ++
    (pool.take 6).flatMap (fun c => [i32 (c - 1), i32 c, i32 (c + 1)])
  let sweep : List (List I32) := (List.range inputs.length).flatMap (fun k =>
    edges.map (fun b => (List.range inputs.length).map (fun j =>
      if j == k then b else ((inputs[j]?).map (·.lit)).getD 0)))
  let fixed : List (List I32) :=
    [inputs.map (·.lit), inputs.map (fun _ => 0), inputs.map (fun _ => 1), inputs.map (fun _ => i32 (-1))] ++ sweep
  let rec go (fuel : Nat) (s : UInt64) (done : Nat) (acc : List Mismatch) : Nat × List Mismatch :=
    match fuel with
    | 0 => (done, acc)
    | f + 1 =>
      if acc.length ≥ maxReport then (done, acc) else
      let (s1, vs) := genVals s inputs.length pool
      let (s', cs) := genSrcs s1
      go f s' (done + 1) (acc ++ compareOnce core circ inputs obs ren vs ticks cs)
  let first := fixed.foldl (fun acc vs => if acc.length ≥ maxReport then acc else acc ++ compareOnce core circ inputs obs ren vs ticks (genSrcs (seed + 17)).2) []
  let (d, ms) := go count seed 0 first
  (d + fixed.length, ms.take maxReport)

end Facto

namespace Facto

/-! ## Stateful programs: quasi-static histories (C03, C05) and iteration (C04) -/

def runTicks (circ : Circuit) (inp : Inputs) (outs : Array SigMap) : Nat → Array SigMap
  | 0 => outs
  | t + 1 => runTicks circ inp (circ.stepA inp outs) t

/-- abstract next state of every cell after the inputs `env` were held until everything settled -/
def nextMem (core : CoreProg) (env : Env) : Nat → I32 :=
  let vals := evalNodes core.nodes env
  fun m =>
    match core.mems[m]? with
    | some cell =>
      match cell.writes with
      | [rule] => rule.next core.nodes vals (env.mem m)
      | _ => env.mem m
    | none => 0

structure HistMismatch where
  name : String
  step : Nat
  /-- per cell at the failing step: (cell, rule kind, previous value, data/value, enable/set, reset,
  enable/set at the previous step, reset at the previous step) -/
  cells : List (Nat × String × Int × Int × Int × Int × Int × Int) := []
  history : List (List (String × Int))
  expected : List (Sig × Int)
  got : List (Sig × Int)

def HistMismatch.toJson (m : HistMismatch) : Json :=
  Json.mkObj [("name", m.name), ("step", m.step),
    ("cells", Json.arr (m.cells.map (fun (c, k, p, d, e, r, pe, pr) => Json.mkObj [("cell", c), ("kind", k), ("prev", Json.num (JsonNumber.fromInt p)),
      ("data", Json.num (JsonNumber.fromInt d)), ("enable_or_set", Json.num (JsonNumber.fromInt e)), ("reset", Json.num (JsonNumber.fromInt r)),
      ("prev_enable_or_set", Json.num (JsonNumber.fromInt pe)), ("prev_reset", Json.num (JsonNumber.fromInt pr))])).toArray),
    ("history", Json.arr (m.history.map showMap).toArray),
    ("expected", showMap m.expected), ("got", showMap m.got)]

/-- One-input-at-a-time history; every step is held `hold` ticks. Cells whose rule is `always`
are excluded from the comparison (they never settle; see `iterateCheck`). -/
def searchHistory (core : CoreProg) (circ : Circuit) (inputs : List InputBinding) (obs : List Observation)
    (ren : Sig → Sig) (seed : UInt64) (steps hold : Nat) (cellProbe : List (Nat × List Nat × Sig) := []) : Nat × List HistMismatch :=
  let nIn := inputs.length
  let pool := programConstants core
  let rec go (fuel : Nat) (s : UInt64) (k : Nat) (vals : List I32) (mem : Nat → I32) (outs : Array SigMap)
      (hist : List (List (String × Int))) (prevInput : String → Option I32) : Nat × List HistMismatch :=
    match fuel with
    | 0 => (k, [])
    | f + 1 =>
      let bind := inputs.zip vals
      let inp : Inputs := fun i => (bind.find? (fun (b, _) => b.idx == i)).map (fun (b, v) => [(b.sig, v)])
      let env0 : Env := { input := fun nm => (bind.find? (fun (b, _) => b.name == nm)).map (·.2), mem }
      let mem' := nextMem core env0
      -- memoise the new state on the finite set of cells
      let memArr := (Array.range core.mems.size).map mem'
      let memF : Nat → I32 := fun m => memArr.getD m 0
      -- A single input change may reach a cell's data and its enable along paths of different latency:
      -- while the enable is still (or already) seen positive the gate may pass the *new* data for a tick.
      -- When a gated cell's enable falls in this step, the value it holds afterwards may therefore be the
      -- data under the new inputs as well; both outcomes satisfy C03 ("the last value written").
      let prevEnv : Env := { env0 with input := prevInput }
      let prevVals := evalNodes core.nodes prevEnv
      let newVals := evalNodes core.nodes env0
      let outs' := runTicks circ inp outs hold
      let g : Nat → SigMap := fun p => outs'.getD p []
      -- Power-on: the first step starts from the all-zero state, and while the zeros are still travelling a cell may
      -- see its enable positive and latch a transient. Pasting a blueprint is not an input history: the content the
      -- circuit holds once the first valuation has settled is accepted as the cell's initial content (only at step 0,
      -- only for cells whose place in the circuit is known, and only if the primary value does not fit).
      let probed (m : Nat) : List I32 :=
        if k != 0 then [] else
        match cellProbe.find? (fun (m', _, _) => m' == m) with
        | some (_, es, ty) => [es.foldl (fun acc e => acc + (g e).get ty) 0]
        | none => []
      -- per cell: the acceptable next values (primary first)
      let cands : List (List I32) := (List.range core.mems.size).map (fun m =>
        (match core.mems[m]? with
        | some cell =>
          match cell.writes with
          | [.gated d e] =>
            let wasOn := (argVal core.nodes prevVals e).toInt > 0
            let nowZero := (argVal core.nodes newVals e) == 0
            if wasOn && nowZero && argVal core.nodes newVals d != memF m then [memF m, argVal core.nodes newVals d] else [memF m]
          | _ => [memF m]
        | none => [memF m]) ++ (probed m).filter (fun v => v != memF m))
      -- all combinations (cells are few)
      let combos : List (List I32) := cands.foldr (fun opts acc => opts.flatMap (fun v => acc.map (fun rest => v :: rest))) [[]]
      let hist' := hist ++ [bind.map (fun (b, v) => (b.name, v.toInt))]
      let vals0 := newVals
      let av := fun a => (argVal core.nodes vals0 a).toInt
      let pv := fun a => (argVal core.nodes prevVals a).toInt
      let cellInfo : List (Nat × String × Int × Int × Int × Int × Int × Int) := (List.range core.mems.size).filterMap (fun m =>
        match core.mems[m]? with
        | some cell =>
          match cell.writes with
          | [.always d] => some (m, "always", (mem m).toInt, av d, 1, 0, 1, 0)
          | [.gated d e] => some (m, "gated", (mem m).toInt, av d, av e, 0, pv e, 0)
          | [.latch v st r p] => some (m, if p then "sr_latch" else "rs_latch", (mem m).toInt, av v, av st, av r, pv st, pv r)
          | _ => none
        | none => none)
      let compareWith (memX : Nat → I32) : List HistMismatch :=
        let env1 : Env := { env0 with mem := memX }
        let want := evalNodes core.nodes env1
        obs.filterMap (fun o =>
          let w := renameMap ren (want.getD o.node [])
          let seen : SigMap := match o.claim with
            | some m => m
            | none => if o.atAnchor then circ.observe g o.idx else g o.idx
          let (e, got) := match o.enable with
            | some a =>
              let expectOn := (argVal core.nodes want a).toInt > 0
              let cond := match circ.kind o.idx with | .controlled c => c | _ => none
              ([("enabled", boolI expectOn)], [("enabled", boolI (evalEnabled cond (circ.readR g o.idx) (circ.readG g o.idx)))])
            | none =>
            match o.sig with
            | some sg => ([(sg, w.get sg)], [(sg, seen.get sg)])
            | none => (w, seen)
          let es := SigMap.sorted e
          let gs := SigMap.sorted got
          if es == gs then none else some { name := o.name, step := k, cells := cellInfo, history := hist', expected := es, got := gs : HistMismatch })
      let bad0 := compareWith memF
      let tryCombo (c : List I32) : Option (Nat → I32) :=
        let f : Nat → I32 := fun m => c.getD m 0
        if (compareWith f).isEmpty then some f else none
      let altOk : Option (Nat → I32) := if bad0.isEmpty then none else (combos.take 16).findSome? tryCombo
      let (bad, memNext) := if bad0.isEmpty then (bad0, memF) else match altOk with
        | some f => ([], f)
        | none => (bad0, memF)
      if !bad.isEmpty then (k + 1, bad.take 2) else
      -- change one input
      let s1 := lcg s
      let which := if nIn == 0 then 0 else (s1 >>> 33).toNat % nIn
      let (s2, v) := pickWith pool s1
      -- small values make enables / thresholds toggle often
      let v' : Int := if (s2 >>> 40).toNat % 3 != 0 || pool.contains v then v else (v % 7)
      let vals' := vals.set which (i32 v')
      go f s2 (k + 1) vals' memNext outs' hist' env0.input
  go steps seed 0 (inputs.map (·.lit)) (fun _ => 0) (circ.initA (fun _ => none)) [] (fun _ => none)

/-- C04: for an `always` cell observed at `o`, find `L ∈ 1..maxL` with `value(t+L) = f(value t)` for all
`t < window`; returns the first `L` that works. `f` is the Core write rule with the cell bound to `x`. -/
def iterateCheck (core : CoreProg) (circ : Circuit) (inputs : List InputBinding) (cell : Nat) (o : Observation)
    (vals : List I32) (maxL window : Nat) : Option Nat × List Int :=
  let bind := inputs.zip vals
  let inp : Inputs := fun i => (bind.find? (fun (b, _) => b.idx == i)).map (fun (b, v) => [(b.sig, v)])
  let envOf (x : I32) : Env := { input := fun nm => (bind.find? (fun (b, _) => b.name == nm)).map (·.2), mem := fun m => if m == cell then x else 0 }
  let f (x : I32) : I32 := nextMem core (envOf x) cell
  let total := window + maxL + 1
  let trace : List I32 := ((List.range total).foldl (fun (acc : List I32 × Array SigMap) _ =>
      let outs := acc.2
      let g : Nat → SigMap := fun p => outs.getD p []
      let seen : SigMap := match o.claim with
        | some m => m
        | none => if o.atAnchor then circ.observe g o.idx else g o.idx
      let v := match o.sig with | some sg => seen.get sg | none => 0
      (acc.1 ++ [v], circ.stepA inp outs)) ([], circ.initA inp)).1
  let ok (L : Nat) : Bool := (List.range window).all (fun t => trace.getD (t + L) 0 == f (trace.getD t 0))
  (((List.range maxL).map (· + 1)).find? ok, (trace.take 24).map (·.toInt))

end Facto
