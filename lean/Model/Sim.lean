import Model.Blueprint
import Model.Elab
/-!
# Failing-input search: run the decoded printed blueprint against the Core denotation

This is *not* what decides a property (the kernel-checked theorems and the static checkers do);
it produces concrete replays and cross-checks the checkers.
-/
open Lean
namespace Facto

/-- deterministic PRNG (64-bit LCG, high bits) -/
def lcg (s : UInt64) : UInt64 := s * 6364136223846793005 + 1442695040888963407

def boundary : List Int :=
  [0, 1, -1, 2, -2, 3, 5, 7, 10, -10, 100, 255, 256, 1000, -1000, 65535, 65536, 2147483647, -2147483648,
   2147483646, -2147483647, 1073741824, -1073741824, 46341, -46341]

def pick (s : UInt64) : UInt64 × Int :=
  let s1 := lcg s
  let r := (s1 >>> 33).toNat
  let mode := r % 10
  let s2 := lcg s1
  let r2 := (s2 >>> 32).toNat
  if mode < 4 then (s2, boundary.getD (r2 % boundary.length) 0)
  else if mode < 7 then (s2, (Int.ofNat (r2 % 41)) - 20)
  else if mode < 8 then (s2, (Int.ofNat (r2 % 2001)) - 1000)
  else (s2, (BitVec.ofNat 32 r2).toInt)

structure InputBinding where
  name : String
  /-- blueprint entity index -/
  idx : Nat
  /-- the Factorio signal the constant combinator carries -/
  sig : Sig
  lit : I32
  deriving Repr, Inhabited

structure Observation where
  name : String
  /-- entity index of the anchor (observe its input networks) or of the producer (observe its output) -/
  idx : Nat
  atAnchor : Bool
  /-- `some s`: scalar on Factorio signal `s` whose Core type is `ty`; `none`: whole bundle -/
  sig : Option Sig
  node : Nat
  deriving Repr, Inhabited

def showMap (m : List (Sig × Int)) : Json :=
  Json.mkObj (m.map (fun (k, v) => (k, Json.num (JsonNumber.fromInt v))))

/-- rename the Core-side signal types through the compiler's map for implicit types -/
def renameMap (ren : Sig → Sig) (m : SigMap) : SigMap := m.map (fun (k, v) => (ren k, v))

structure Mismatch where
  name : String
  valuation : List (String × Int)
  expected : List (Sig × Int)
  got : List (Sig × Int)
  tick : Nat

def Mismatch.toJson (m : Mismatch) : Json :=
  Json.mkObj [("name", m.name), ("valuation", showMap m.valuation), ("expected", showMap m.expected),
    ("got", showMap m.got), ("tick", m.tick)]

/-- compare one valuation; returns the mismatching observations -/
def compareOnce (core : CoreProg) (circ : Circuit) (inputs : List InputBinding) (obs : List Observation)
    (ren : Sig → Sig) (vals : List I32) (ticks : Nat) : List Mismatch :=
  let bind := inputs.zip vals
  let env : Env := { input := fun nm => (bind.find? (fun (b, _) => b.name == nm)).map (·.2) }
  let inp : Inputs := fun i => (bind.find? (fun (b, _) => b.idx == i)).map (fun (b, v) => [(b.sig, v)])
  let want := evalNodes core.nodes env
  let outs := circ.runA inp ticks
  let outs' := circ.stepA inp outs
  let f : Nat → SigMap := fun p => outs.getD p []
  let f' : Nat → SigMap := fun p => outs'.getD p []
  obs.filterMap (fun o =>
    let w := renameMap ren (want.getD o.node [])
    let seen (g : Nat → SigMap) : SigMap := if o.atAnchor then circ.observe g o.idx else g o.idx
    let (e, g, g') := match o.sig with
      | some s => ([(s, w.get s)], [(s, (seen f).get s)], [(s, (seen f').get s)])
      | none => (w, seen f, seen f')
    let es := SigMap.sorted e
    let gs := SigMap.sorted g
    let gs' := SigMap.sorted g'
    if es == gs && es == gs' then none
    else some { name := o.name, valuation := bind.map (fun (b, v) => (b.name, v.toInt)), expected := es,
                got := if es == gs then gs' else gs, tick := ticks })

def genVals (seed : UInt64) (n : Nat) : UInt64 × List I32 :=
  (List.range n).foldl (fun (s, acc) _ => let (s', v) := pick s; (s', acc ++ [i32 v])) (seed, [])

/-- the search: literal values, all-zero, all-one, then `count` seeded valuations; stops at `maxReport` -/
def searchStateless (core : CoreProg) (circ : Circuit) (inputs : List InputBinding) (obs : List Observation)
    (ren : Sig → Sig) (seed : UInt64) (count ticks maxReport : Nat) : Nat × List Mismatch :=
  let fixed : List (List I32) :=
    [inputs.map (·.lit), inputs.map (fun _ => 0), inputs.map (fun _ => 1), inputs.map (fun _ => i32 (-1))]
  let rec go (fuel : Nat) (s : UInt64) (done : Nat) (acc : List Mismatch) : Nat × List Mismatch :=
    match fuel with
    | 0 => (done, acc)
    | f + 1 =>
      if acc.length ≥ maxReport then (done, acc) else
      let (s', vs) := genVals s inputs.length
      go f s' (done + 1) (acc ++ compareOnce core circ inputs obs ren vs ticks)
  let first := fixed.foldl (fun acc vs => if acc.length ≥ maxReport then acc else acc ++ compareOnce core circ inputs obs ren vs ticks) []
  let (d, ms) := go count seed 0 first
  (d + fixed.length, ms.take maxReport)

end Facto
