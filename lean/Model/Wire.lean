import Model.Blueprint
/-!
# `Wired`: operand isolation of the real circuit with respect to the planned dataflow edges

`intended i` lists the entities whose output entity `i` is *meant* to read (the compiler's logical
source→sink edges plus the wires it plans explicitly inside memory modules). The check computes,
for every entity, colour and signal it actually reads, the producers on that network that may emit
that signal; a producer outside `intended i` is an **intrusion**: the entity does not read what
the dataflow says (M2's premise fails).

Classification of an intrusion (DESIGN §5.1): it is the known finding F02 exactly when every
physical network is a union of planned edges (`justified`), i.e. any compiler that realises each
planned edge as a plain wire would produce the same merge. Anything else — a wire or relay that
bridges two planned networks, a planned edge with no wire — is a new violation.
-/
namespace Facto

inductive SigSet
  | all
  | of (l : List Sig)
  deriving Repr, Inhabited

def SigSet.inter (a b : SigSet) : Option Sig :=
  match a, b with
  | .all, .all => Option.some "*"
  | .all, .of (s :: _) => Option.some s
  | .of (s :: _), .all => Option.some s
  | .of l, .of m => l.find? (fun s => m.contains s)
  | _, _ => none

/-- signals an entity may ever emit (static over-approximation) -/
def Kind.mayEmit : Kind → SigSet
  | .const m => .of (m.map Prod.fst)
  | .arith c =>
    match c.out with
    | some (.sig s) => .of [s]
    | some _ => .all
    | none => .of []
  | .decider c =>
    if c.outs.all (fun o => match o.sig with | .sig _ => true | _ => false) then
      .of (c.outs.filterMap (fun o => match o.sig with | .sig s => some s | _ => none))
    else .all
  | .controlled _ => .all   -- chests, tanks …: contents are free inputs
  | .pole => .of []
  | .unsupported _ => .all

def selHas (sel : Sel) (colour : Nat) : Bool := if colour == 1 then sel.red else sel.green

def operandReads (o : Operand) (colour : Nat) : SigSet :=
  match o with
  | .const _ => .of []
  | .ref (.sig s) sel => if selHas sel colour then .of [s] else .of []
  | .ref _ sel => if selHas sel colour then .all else .of []

def SigSet.union (a b : SigSet) : SigSet :=
  match a, b with
  | .all, _ => .all
  | _, .all => .all
  | .of l, .of m => .of (l ++ m)

/-- signals an entity reads on the given colour -/
def Kind.reads (k : Kind) (colour : Nat) : SigSet :=
  match k with
  | .arith c => (operandReads c.first colour).union (operandReads c.second colour)
  | .decider c =>
    let cs := c.conds.foldl (fun acc cd => acc.union ((operandReads cd.first colour).union (operandReads cd.second colour))) (.of [])
    c.outs.foldl (fun acc o =>
      if o.copy && selHas o.sel colour then
        acc.union (match o.sig with | .sig s => .of [s] | _ => .all)
      else acc) cs
  | .controlled (some cd) => (operandReads cd.first colour).union (operandReads cd.second colour)
  | .const _ => .all   -- an anchor observes everything on its wire
  | _ => .of []

structure Intrusion where
  sink : Nat
  colour : Nat
  producer : Nat
  sig : Sig
  deriving Repr, Inhabited

structure WireReport where
  /-- (sink, colour, producer): a producer planned for a *scalar* operand of the sink is visible to one
  of its wildcard (each / anything / everything) operands -/
  pollution : List (Nat × Nat × Nat) := []
  /-- (sink, producer): a producer planned for the wildcard operand reaches the sink on both colours, both of which
  a wildcard operand or an `each` / `everything` copy output reads: its signals are counted twice -/
  doubled : List (Nat × Nat) := []
  /-- (sink, producer): a planned producer is connected only on a colour on which the sink reads none
  of the signals it may emit -/
  unselected : List (Nat × Nat) := []
  intrusions : List Intrusion
  /-- planned edges (source, sink) with no physical connection on either colour -/
  missing : List (Nat × Nat)
  /-- pairs of connector slots that share a physical network but no chain of planned edges -/
  unjustified : List (Nat × Nat)
  deriving Repr, Inhabited

def wireCheck (bp : Blueprint) (circ : Circuit) (intended0 : Array (List Nat)) (explicit : List (Nat × Nat))
    (anchors : List Nat) (sources : List Nat := []) (wild : List (Nat × List Nat) := []) : WireReport :=
  let n := bp.ents.size
  let comp := bp.components
  let slot := Blueprint.slot
  let outC (j colour : Nat) : Nat := match bp.ents[j]? with | some e => Blueprint.outConn e colour | none => colour
  -- a module partner of an intended producer (explicitly wired to it, outputs on one network) is intended too:
  -- the two gates of a memory cell drive the cell's network together
  let shareOut (s q : Nat) : Bool := [1, 2].any (fun c => comp.getD (slot s (outC s c)) 0 == comp.getD (slot q (outC q c)) 1)
  let intended : Array (List Nat) := intended0.map (fun l =>
    l ++ l.flatMap (fun s => explicit.filterMap (fun (a, b) =>
      if a == s && b != s && shareOut s b then some b else if b == s && a != s && shareOut s a then some a else none)))
  -- only entities read through `.output` emit anything; other circuit-controlled entities are pure sinks
  let emits (p : Nat) : SigSet := match circ.kind p with
    | .controlled _ => if sources.contains p then .all else .of []
    | k => k.mayEmit
  let isAnchor (i : Nat) : Bool := anchors.contains i
  let intrusions : List Intrusion := (List.range n).flatMap (fun i =>
    let k := circ.kind i
    -- only anchors among constant combinators observe their wire
    let skip := match k with | .const _ => !isAnchor i | .pole => true | _ => false
    if skip then [] else
    [1, 2].flatMap (fun colour =>
      let reads := k.reads colour
      let ps := if colour == 1 then circ.prodR.getD i [] else circ.prodG.getD i []
      ps.filterMap (fun p =>
        if p == i && (match k with | .const _ => true | _ => false) then none else
        if (intended.getD i []).contains p then none else
        match reads.inter (emits p) with
        | some s => some { sink := i, colour, producer := p, sig := s }
        | none => none)))
  let missing : List (Nat × Nat) := (List.range n).flatMap (fun i =>
    (intended0.getD i []).filterMap (fun s =>
      if (circ.prodR.getD i []).contains s || (circ.prodG.getD i []).contains s then none
      else if explicit.contains (s, i) || explicit.contains (i, s) then none
      else some (s, i)))
  -- justified connectivity
  let par0 : Array Nat := Array.range (4 * n)
  let par1 := (List.range n).foldl (fun par i =>
    (intended.getD i []).foldl (fun par s =>
      [1, 2].foldl (fun par colour =>
        let a := slot s (outC s colour)
        let b := slot i colour
        if comp.getD a 0 == comp.getD b 1 then ufUnion par a b else par) par) par) par0
  let par2 := explicit.foldl (fun par (a, b) =>
    [1, 2, 3, 4].foldl (fun par ca =>
      [1, 2, 3, 4].foldl (fun par cb =>
        let x := slot a ca
        let y := slot b cb
        if x != y && comp.getD x 0 == comp.getD y 1 then ufUnion par x y else par) par) par) par1
  let nonPole (j : Nat) : Bool := match bp.ents[j]? with | some e => !(isPoleName e.name) | none => false
  let slots := (List.range (4 * n)).filter (fun x => nonPole (x / 4))
  -- first slot of each physical component is its representative
  let unjustified := slots.filterMap (fun x =>
    let c := comp.getD x x
    match slots.find? (fun y => comp.getD y y == c) with
    | some r => if r != x && ufFind par2 r != ufFind par2 x then some (r, x) else none
    | none => none)
  let readsWild (k : Kind) (colour : Nat) : Bool := match k.reads colour with | .all => true | _ => false
  let pollution : List (Nat × Nat × Nat) := wild.flatMap (fun (i, ws) =>
    let k := circ.kind i
    [1, 2].flatMap (fun colour =>
      if !readsWild k colour then [] else
      let ps := if colour == 1 then circ.prodR.getD i [] else circ.prodG.getD i []
      ps.filterMap (fun p =>
        if ws.contains p then none
        else if (intended.getD i []).contains p then
          (match emits p with | .of [] => none | _ => some (i, colour, p))
        else none)))
  let unselected : List (Nat × Nat) := (List.range n).flatMap (fun i =>
    let k := circ.kind i
    let skip := match k with | .const _ => true | .pole => true | _ => false
    if skip then [] else
    (intended0.getD i []).filterMap (fun p =>
      let onR := (circ.prodR.getD i []).contains p
      let onG := (circ.prodG.getD i []).contains p
      if !onR && !onG then none else
      let seen (colour : Nat) : Bool := ((k.reads colour).inter (emits p)).isSome
      -- F18 is a *selection* disagreement: the sink does read the producer's signal, on the other colour only. A sink
      -- that reads none of it on either colour (e.g. an entity whose condition was dropped) is not that defect.
      if (onR && seen 1) || (onG && seen 2) then none else if seen 1 || seen 2 then some (i, p) else none))
  -- a producer planned for a wildcard operand must be visible on a colour that operand reads
  -- the selection of the wildcard *input* operand (an `each` operand of an arithmetic combinator, the wildcard left
  -- side of a decider row); for a gate that only copies (`everything` output) the selection of that output
  let wildSel (k : Kind) : Option Sel := match k with
    | .arith cfg =>
      (match cfg.first, cfg.second with
       | .ref .each s, _ => some s
       | _, .ref .each s => some s
       | _, _ => none)
    | .decider cfg =>
      (match cfg.conds.findSome? (fun cd => match cd.first with
          | .ref .each s => some s | .ref .anything s => some s | .ref .everything s => some s | _ => none) with
       | some s => some s
       | none => cfg.outs.findSome? (fun o => match o.sig with | .everything => some o.sel | .each => some o.sel | _ => none))
    | .controlled (some cd) =>
      (match cd.first with | .ref .anything s => some s | .ref .everything s => some s | _ => none)
    | _ => none
  let wildUnselected : List (Nat × Nat) := wild.flatMap (fun (i, ws) =>
    let k := circ.kind i
    ws.filterMap (fun p =>
      let ok := match wildSel k with
        | some sel => (sel.red && (circ.prodR.getD i []).contains p) || (sel.green && (circ.prodG.getD i []).contains p)
        | none => [1, 2].any (fun colour =>
            readsWild k colour && (if colour == 1 then circ.prodR.getD i [] else circ.prodG.getD i []).contains p)
      if ok then none else some (i, p)))
  let doubled : List (Nat × Nat) := wild.flatMap (fun (i, ws) =>
    let k := circ.kind i
    if readsWild k 1 && readsWild k 2 then
      (ws.filter (fun p => (circ.prodR.getD i []).contains p && (circ.prodG.getD i []).contains p)).map (fun p => (i, p))
    else [])
  { pollution, doubled, unselected := unselected ++ wildUnselected, intrusions, missing, unjustified }

end Facto
