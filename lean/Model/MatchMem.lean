import Model.Match
/-!
# Memory cells in the validator

A stateful circuit is not a DAG: a cell's gates feed themselves. The validator *cuts* the circuit at the
gates — they become declared sources whose present output is a free input — validates everything else with
`checkAll` on the cut circuit (which is ranked again), and checks the gates themselves against the template
of the write rule (`gatedCellIs`, …). `Proofs/MemSound.lean` then proves the one-tick law of the *uncut*
circuit: in any state that has settled around the present cell contents, the cell's next content is
`WriteRule.next` of the source semantics.
-/
namespace Facto

/-- the single signal a cut entity may emit -/
def Circuit.cutSig (c : Circuit) (i : Nat) : Option Sig :=
  match c.emitListOf i with
  | some [t] => some t
  | _ => none

/-- the circuit with the entities `cutL` turned into free inputs: each becomes a constant combinator on the one
signal it may emit, whose value is then overridden by the present output of the real entity -/
def Circuit.cut (c : Circuit) (cutL : List Nat) : Circuit :=
  { kinds := (Array.range c.kinds.size).map (fun i =>
      if cutL.contains i then (match c.cutSig i with | some t => Kind.const [(t, 0)] | none => c.kind i) else c.kind i)
    prodR := c.prodR
    prodG := c.prodG
    sources := c.sources }

def cutOK (c : Circuit) (cutL : List Nat) : Bool :=
  cutL.all (fun i => decide (i < c.kinds.size) && (c.cutSig i).isSome)

def isConst0 : Operand → Bool
  | .const k => k == 0
  | _ => false

def sigIs (r : SigRef) (ty : Sig) : Bool :=
  match r with
  | .sig t => t == ty
  | _ => false

/-- `a` carried over to another signal by `+ 0` -/
def projOf (a : Arg) : VExpr := .alu .add (.arg a) (.arg (.int 0))

/-- operand `o` of entity `e` denotes `a`, directly or through one `+ 0` combinator (a value projected onto the
reserved enable signal) -/
def operandIsArg (c : Circuit) (nodes : Array CNode) (bind : Nat → Option Bind) (e : Nat) (o : Operand) (a : Arg) : Bool :=
  matchOperand c nodes bind e o a || opIs c nodes bind (entIs c nodes bind (projOf a)) (projOf a) e o

/-- entities `ew` (write gate) and `eh` (hold gate) of the uncut circuit `c` form the cell written with
`write(d, when=en)`; operands are matched in the cut circuit `c'` -/
def gatedCellIs (c c' : Circuit) (nodes : Array CNode) (bind : Nat → Option Bind) (ew eh : Nat) (ty : Sig)
    (d en : Arg) : Bool :=
  argBelow nodes.size d && argBelow nodes.size en &&
  -- write gate: enable > 0 passes the data
  (match c.kind ew with
   | .decider cw =>
     (match cw.conds, cw.outs with
      | [cdw], [ow] =>
        cdw.op == .gt && !cdw.usesEach && operandIsArg c' nodes bind ew cdw.first en &&
          isConst0 cdw.second && sigIs ow.sig ty && outValIs c' bind ew ow ty d
      | _, _ => false)
   | _ => false) &&
  -- hold gate: enable = 0 passes the cell's own content
  (match c.kind eh with
   | .decider ch =>
     (match ch.conds, ch.outs with
      | [cdh], [oh] =>
        cdh.op == .eq && !cdh.usesEach && operandIsArg c' nodes bind eh cdh.first en &&
          isConst0 cdh.second && sigIs oh.sig ty && oh.copy && c'.readsSum eh oh.sel ty [ew, eh]
      | _, _ => false)
   | _ => false)

/-- abstract cell: enable > 0 takes the data, enable = 0 holds, enable < 0 closes both gates -/
def gatedNext (w d m : I32) : I32 := if w.toInt > 0 then d else if w = 0 then m else 0

/-! ## discovery (untrusted) -/

def readsW (cd : Cond) : Bool :=
  match cd.first with
  | .ref (.sig s) _ => s == "signal-W"
  | _ => false

/-- deciders gated by the reserved write-enable signal: `(op, output signal, index)` -/
def wGates (c : Circuit) : List (CmpOp × Sig × Nat) :=
  (List.range c.n).filterMap (fun i =>
    match c.kind i with
    | .decider cfg =>
      (match cfg.conds, cfg.outs with
       | [cd], [o] => if readsW cd then (match o.sig with | .sig t => some (cd.op, t, i) | _ => none) else none
       | _, _ => none)
    | _ => none)

/-- candidate (write gate, hold gate) pairs for a cell on signal `ty`: the hold gate's copy network sees the
write gate -/
def gatePairs (c : Circuit) (ty : Sig) : List (Nat × Nat) :=
  let gs := wGates c
  let ws := gs.filterMap (fun (op, t, i) => if op == .gt && t == ty then some i else none)
  let hs := gs.filterMap (fun (op, t, i) => if op == .eq && t == ty then some i else none)
  hs.flatMap (fun h => (ws.filter (fun w => (c.selProducers h RG).contains w)).map (fun w => (w, h)))

/-- bindings the gates of a cell suggest for its data and enable values -/
def proposeGated (c : Circuit) (nodes : Array CNode) (ew : Nat) (ty : Sig) (d en : Arg) : Props :=
  match c.kind ew with
  | .decider cw =>
    (match cw.conds, cw.outs with
     | [cdw], [ow] => ((proposeArg c nodes ew cdw.first en).getD []) ++
         ((proposeOp c nodes (proposeLeaves c nodes (projOf en)) (projOf en) ew cdw.first).getD []) ++ proposeOut c ew ow ty (some d)
     | _, _ => [])
  | _ => []

end Facto
