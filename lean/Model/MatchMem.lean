import Model.Match
/-!
# Memory cells in the validator

A stateful circuit is not a DAG: a cell's gates feed themselves. The validator *cuts* the circuit at the
gates — they become declared sources whose present output is a free input — validates everything else with
`checkAll` on the cut circuit (which is ranked again), and checks the gates themselves against the template
of the write rule (`gatedCellIs`, …). `Proofs/MemSound.lean` then proves the one-tick law of the *uncut*
circuit: in any state that has settled around the present cell contents, the cell's next content is
`WriteRule.next` of the source semantics.
-/
namespace Facto

/-- the single signal a cut entity may emit -/
def Circuit.cutSig (c : Circuit) (i : Nat) : Option Sig :=
  match c.emitListOf i with
  | some [t] => some t
  | _ => none

/-- the circuit with the entities `cutL` turned into free inputs: each becomes a constant combinator on the one
signal it may emit, whose value is then overridden by the present output of the real entity -/
def Circuit.cut (c : Circuit) (cutL : List Nat) : Circuit :=
  { kinds := (Array.range c.kinds.size).map (fun i =>
      if cutL.contains i then (match c.cutSig i with | some t => Kind.const [(t, 0)] | none => c.kind i) else c.kind i)
    prodR := c.prodR
    prodG := c.prodG
    sources := c.sources }

def cutOK (c : Circuit) (cutL : List Nat) : Bool :=
  cutL.all (fun i => decide (i < c.kinds.size) && (c.cutSig i).isSome)

def isConst0 : Operand → Bool
  | .const k => k == 0
  | _ => false

def sigIs (r : SigRef) (ty : Sig) : Bool :=
  match r with
  | .sig t => t == ty
  | _ => false

/-- `a` carried over to another signal by `+ 0` -/
def projOf (a : Arg) : VExpr := .alu .add (.arg a) (.arg (.int 0))

/-- operand `o` of entity `e` denotes `a`, directly or through one `+ 0` combinator (a value projected onto the
reserved enable signal) -/
def operandIsArg (c : Circuit) (nodes : Array CNode) (bind : Nat → Option Bind) (e : Nat) (o : Operand) (a : Arg) : Bool :=
  matchOperand c nodes bind e o a || opIs c nodes bind (entIs c nodes bind (projOf a)) (projOf a) e o

/-- entities `ew` (write gate) and `eh` (hold gate) of the uncut circuit `c` form the cell written with
`write(d, when=en)`; operands are matched in the cut circuit `c'` -/
def gatedCellIs (c c' : Circuit) (nodes : Array CNode) (bind : Nat → Option Bind) (ew eh : Nat) (ty : Sig)
    (d en : Arg) : Bool :=
  argBelow nodes.size d && argBelow nodes.size en &&
  -- write gate: enable > 0 passes the data
  (match c.kind ew with
   | .decider cw =>
     (match cw.conds, cw.outs with
      | [cdw], [ow] =>
        cdw.op == .gt && !cdw.usesEach && operandIsArg c' nodes bind ew cdw.first en &&
          isConst0 cdw.second && sigIs ow.sig ty && outValIs c' bind ew ow ty d
      | _, _ => false)
   | _ => false) &&
  -- hold gate: enable = 0 passes the cell's own content
  (match c.kind eh with
   | .decider ch =>
     (match ch.conds, ch.outs with
      | [cdh], [oh] =>
        cdh.op == .eq && !cdh.usesEach && operandIsArg c' nodes bind eh cdh.first en &&
          isConst0 cdh.second && sigIs oh.sig ty && oh.copy && c'.readsSum eh oh.sel ty [ew, eh]
      | _, _ => false)
   | _ => false)

/-- abstract cell: enable > 0 takes the data, enable = 0 holds, enable < 0 closes both gates -/
def gatedNext (w d m : I32) : I32 := if w.toInt > 0 then d else if w = 0 then m else 0

/-- operand `o` of entity `e` reads, on `s`, exactly the output of `prev` -/
def ringOperand (c : Circuit) (e : Nat) (s : Sig) (prev : Nat) (o : Operand) : Bool :=
  match o with
  | .ref (.sig t) sel => t == s && c.isolated e sel s prev
  | _ => false

/-! ## set/reset latches (C05), set priority, value 1 -/

def CmpOp.negate : CmpOp → CmpOp
  | .lt => .ge | .ge => .lt | .le => .gt | .gt => .le | .eq => .ne | .ne => .eq

/-- `a` carried over to another signal by `× 1` (the set remapper) -/
def mulOne (a : Arg) : VExpr := .alu .mul (.arg a) (.arg (.int 1))

/-- the feedback row: the latch's own output on `ty` is positive -/
def fbRow (c' : Circuit) (e : Nat) (ty : Sig) (cd : Cond) : Bool :=
  cd.op == .gt && isConst0 cd.second &&
  (match cd.first with
   | .ref (.sig t) sel => t == ty && c'.readsSum e sel ty [e]
   | _ => false)

/-- row `cd` of `e` holds exactly when the 0/1 value `a` is 1 (`pos`) / is 0: the flag read directly, through `+ 0`
or through `× 1`, compared with 0 -/
def flagRow (c' : Circuit) (nodes : Array CNode) (bind : Nat → Option Bind) (e : Nat) (cd : Cond) (a : Arg) (pos : Bool) : Bool :=
  isBoolArg nodes a && !cd.usesEach && isConst0 cd.second && cd.op == (if pos then .gt else .eq) &&
  (operandIsArg c' nodes bind e cd.first a ||
    opIs c' nodes bind (entIs c' nodes bind (mulOne a)) (mulOne a) e cd.first)

/-- row `cd` of `e` is the comparison `a` itself (`pos`) or its negation, inlined -/
def cmpRow (c' : Circuit) (nodes : Array CNode) (bind : Nat → Option Bind) (e : Nat) (cd : Cond) (a : Arg) (pos : Bool) : Bool :=
  match a with
  | .node m =>
    (match nodes[m]? with
     | some (.cmp op x y _) =>
       argBelow m x && argBelow m y && cd.op == (if pos then op else op.negate) && cd.first.isPlain && !cd.usesEach &&
         matchOperand c' nodes bind e cd.first x && matchOperand c' nodes bind e cd.second y
     | _ => false)
  | .int _ => false

def rowIs (c' : Circuit) (nodes : Array CNode) (bind : Nat → Option Bind) (e : Nat) (cd : Cond) (a : Arg) (pos : Bool) : Bool :=
  flagRow c' nodes bind e cd a pos || cmpRow c' nodes bind e cd a pos

/-- the rows of a set-priority latch: `(feedback AND NOT r) OR s`, or with the comparisons inlined
`s OR (feedback AND NOT r)` -/
def latchRowsSet (c' : Circuit) (nodes : Array CNode) (bind : Nat → Option Bind) (e : Nat) (ty : Sig) (s r : Arg)
    (conds : List Cond) : Bool :=
  match conds with
  | [c1, c2, c3] =>
    (fbRow c' e ty c1 && !c1.usesEach && c2.isAnd && rowIs c' nodes bind e c2 r false && !c3.isAnd && rowIs c' nodes bind e c3 s true) ||
    (rowIs c' nodes bind e c1 s true && !c2.isAnd && fbRow c' e ty c2 && !c2.usesEach && c3.isAnd && rowIs c' nodes bind e c3 r false)
  | _ => false

/-- the rows of a reset-priority latch: `(s AND NOT r) OR (feedback AND NOT r)` -/
def latchRowsReset (c' : Circuit) (nodes : Array CNode) (bind : Nat → Option Bind) (e : Nat) (ty : Sig) (s r : Arg)
    (conds : List Cond) : Bool :=
  match conds with
  | [c1, c2, c3, c4] =>
    rowIs c' nodes bind e c1 s true && c2.isAnd && rowIs c' nodes bind e c2 r false &&
      !c3.isAnd && fbRow c' e ty c3 && !c3.usesEach && c4.isAnd && rowIs c' nodes bind e c4 r false
  | _ => false

/-- decider `e` of the uncut circuit is the latch written with `write(1, set=s, reset=r)` (`setPrio`: set first) or
`write(1, reset=r, set=s)` (reset priority) -/
def latchIs (c c' : Circuit) (nodes : Array CNode) (bind : Nat → Option Bind) (e : Nat) (ty : Sig) (s r : Arg)
    (setPrio : Bool := true) : Bool :=
  argBelow nodes.size s && argBelow nodes.size r &&
  match c.kind e with
  | .decider cfg =>
    (match cfg.outs with | [o] => isConstOneOut o ty | _ => false) &&
    (if setPrio then latchRowsSet c' nodes bind e ty s r cfg.conds else latchRowsReset c' nodes bind e ty s r cfg.conds)
  | _ => false

/-- arithmetic combinator `m` multiplies the latch state shown by `e` with the constant `k` (the latch value) -/
def multIs (c : Circuit) (e m : Nat) (ty : Sig) (k : I32) : Bool :=
  match c.kind m with
  | .arith cfg =>
    cfg.op == .mul && !cfg.first.isEach && !cfg.second.isEach && outIs cfg.out ty &&
      ringOperand c m ty e cfg.first && (match cfg.second with | .const k' => k' == k | _ => false)
  | _ => false

/-- abstract latch with the declared priority on boolean set / reset -/
def latchNextB (setPrio : Bool) (on s r : Bool) : Bool :=
  if s && r then setPrio else if s then true else if r then false else on

/-! ## `m.write(f(m.read()))` folded into arithmetic feedback: one combinator that reads its own output -/

/-- the arithmetic combinator `e` of the uncut circuit computes `x op y` on `s` from operands matched in the cut
circuit (where `e` itself is the cell: an input) -/
def stepIsAlu (c c' : Circuit) (nodes : Array CNode) (bind : Nat → Option Bind) (op : ArithOp) (x y : VExpr)
    (e : Nat) (s : Sig) : Bool :=
  match c.kind e with
  | .arith cfg =>
    cfg.op == op && !cfg.first.isEach && !cfg.second.isEach && outIs cfg.out s &&
      opIs c' nodes bind (entIs c' nodes bind x) x e cfg.first && opIs c' nodes bind (entIs c' nodes bind y) y e cfg.second
  | _ => false

def stepIs (c c' : Circuit) (nodes : Array CNode) (bind : Nat → Option Bind) (v : VExpr) (e : Nat) (s : Sig) : Bool :=
  match v with
  | .alu op x y => stepIsAlu c c' nodes bind op x y e s
  | _ => false

/-- entity `e` is the cell written with `write(d)` where `d` is an arithmetic function of the cell's own value -/
def alwaysCellIs (c c' : Circuit) (nodes : Array CNode) (bind : Nat → Option Bind) (e : Nat) (ty : Sig) (d : Arg) : Bool :=
  match d with
  | .node m =>
    decide (m < nodes.size) &&
      (lowerings nodes (m + 1) m).any (fun v => v.under nodes.size && stepIs c c' nodes bind v e ty)
  | .int _ => false

/-! ## `m.write(f(m.read()))` folded into a ring of arithmetic combinators (C04, latency = ring length) -/

/-- the operand of a ring stage that is not on the ring: an integer constant, or a declared input `q` living in
the constant combinator `p` on signal `t` (time-invariant during a run) -/
inductive Side
  | int (k : I32)
  | inp (q p : Nat) (t : Sig)
  deriving Repr, Inhabited

/-- one ring stage: Core node `node` (arithmetic, one operand on the ring) computed by entity `ent` -/
structure RStage where
  node : Nat
  ent : Nat
  op : ArithOp
  ringFirst : Bool
  side : Side
  deriving Repr, Inhabited

def RStage.fn (st : RStage) (k x : I32) : I32 := if st.ringFirst then alu st.op x k else alu st.op k x

def Side.arg : Side → Arg
  | .int k => .int k
  | .inp q _ _ => .node q

/-- operand `o` of entity `e` is the side value -/
def sideOperand (c : Circuit) (nodes : Array CNode) (e : Nat) (n : Nat) (o : Operand) : Side → Bool
  | .int k => (match o with | .const k' => k' == k | _ => false)
  | .inp q p t =>
    decide (q < n) && (match nodes[q]? with | some (.input ..) => true | _ => false) &&
    (match c.kind p with | .const [(t', _)] => t' == t | _ => false) && ringOperand c e t p o

def ringStageOK (c : Circuit) (nodes : Array CNode) (s : Sig) (prevEnt : Nat) (prevArg : Arg) (st : RStage) : Bool :=
  argBelow st.node prevArg &&
  match nodes[st.node]?, c.kind st.ent with
  | some (.arith op a b _), .arith cfg =>
    op == st.op && cfg.op == op && !cfg.first.isEach && !cfg.second.isEach && outIs cfg.out s &&
      (if st.ringFirst then
         a == prevArg && b == st.side.arg && ringOperand c st.ent s prevEnt cfg.first && sideOperand c nodes st.ent st.node cfg.second st.side
       else
         b == prevArg && a == st.side.arg && ringOperand c st.ent s prevEnt cfg.second && sideOperand c nodes st.ent st.node cfg.first st.side)
  | _, _ => false

def ringOK (c : Circuit) (nodes : Array CNode) (s : Sig) : Nat → Arg → List RStage → Bool
  | _, _, [] => true
  | p, a, st :: rest => ringStageOK c nodes s p a st && ringOK c nodes s st.ent (.node st.node) rest

def chainVal (kOf : RStage → I32) (stages : List RStage) (x : I32) : I32 := stages.foldl (fun acc st => st.fn (kOf st) acc) x

def lastEnt : Nat → List RStage → Nat
  | p, [] => p
  | _, st :: rest => lastEnt st.ent rest

def lastArg : Arg → List RStage → Arg
  | a, [] => a
  | _, st :: rest => lastArg (.node st.node) rest

/-- the ring `stages` is cell `m` written with `write(d)`: it starts from a read of the cell and closes on its
own last stage -/
def ringCellIs (c : Circuit) (nodes : Array CNode) (s : Sig) (m readNode : Nat) (stages : List RStage) (d : Arg) : Bool :=
  !stages.isEmpty &&
  (match nodes[readNode]? with | some (.memRead m' _) => m' == m | _ => false) &&
  d == lastArg (.node readNode) stages &&
  ringOK c nodes s (lastEnt 0 stages) (.node readNode) stages

/-! ## discovery (untrusted) -/

def readsW (cd : Cond) : Bool :=
  match cd.first with
  | .ref (.sig s) _ => s == "signal-W"
  | _ => false

/-- deciders gated by the reserved write-enable signal: `(op, output signal, index)` -/
def wGates (c : Circuit) : List (CmpOp × Sig × Nat) :=
  (List.range c.n).filterMap (fun i =>
    match c.kind i with
    | .decider cfg =>
      (match cfg.conds, cfg.outs with
       | [cd], [o] => if readsW cd then (match o.sig with | .sig t => some (cd.op, t, i) | _ => none) else none
       | _, _ => none)
    | _ => none)

/-- candidate (write gate, hold gate) pairs for a cell on signal `ty`: the hold gate's copy network sees the
write gate -/
def gatePairs (c : Circuit) (ty : Sig) : List (Nat × Nat) :=
  let gs := wGates c
  let ws := gs.filterMap (fun (op, t, i) => if op == .gt && t == ty then some i else none)
  let hs := gs.filterMap (fun (op, t, i) => if op == .eq && t == ty then some i else none)
  hs.flatMap (fun h => (ws.filter (fun w => (c.selProducers h RG).contains w)).map (fun w => (w, h)))

/-- arithmetic combinators on signal `ty` that read their own output -/
def selfLoops (c : Circuit) (ty : Sig) : List Nat :=
  (List.range c.n).filter (fun i =>
    match c.kind i with
    | .arith cfg => outIs cfg.out ty && (c.selProducers i RG).contains i
    | _ => false)

/-- bindings a self-reading combinator suggests for the other operands of the written function -/
def proposeAlways (c : Circuit) (nodes : Array CNode) (e : Nat) (ty : Sig) (d : Arg) : Props :=
  match d with
  | .node m => ((lowerings nodes (m + 1) m).findSome? (fun x => proposeLeaves c nodes x e ty)).getD []
  | .int _ => []

/-- is node `q` a declared input? -/
def isInputNode (nodes : Array CNode) (q : Nat) : Bool :=
  match (nodes[q]? : Option CNode) with
  | some (.input ..) => true
  | _ => false

/-- the chain of arithmetic nodes from a read of the cell up to `a`: `(read node, stage specs in order)`;
a spec is `(node, op, ring operand first?, side argument)` -/
def chainNodes (nodes : Array CNode) : Nat → Arg → Option (Nat × List (Nat × ArithOp × Bool × Arg))
  | 0, _ => none
  | f + 1, .node n =>
    (match (nodes[n]? : Option CNode) with
     | some (.memRead _ _) => some (n, [])
     | some (.arith op (.node p) (.int k) _) => (chainNodes nodes f (.node p)).map (fun (r, l) => (r, l ++ [(n, op, true, .int k)]))
     | some (.arith op (.int k) (.node p) _) => (chainNodes nodes f (.node p)).map (fun (r, l) => (r, l ++ [(n, op, false, .int k)]))
     | some (.arith op (.node p) (.node q) _) =>
       if isInputNode nodes q then (chainNodes nodes f (.node p)).map (fun (r, l) => (r, l ++ [(n, op, true, .node q)]))
       else if isInputNode nodes p then (chainNodes nodes f (.node q)).map (fun (r, l) => (r, l ++ [(n, op, false, .node p)]))
       else none
     | _ => none)
  | _, .int _ => none

def prevEntOf (c : Circuit) (e : Nat) (s : Sig) (ringFirst : Bool) : Option Nat :=
  match c.kind e with
  | .arith cfg =>
    (match (if ringFirst then cfg.first else cfg.second) with
     | .ref (.sig t) sel => if t == s then c.soleProducer e sel s else none
     | _ => none)
  | _ => none

/-- the side of a stage as the circuit has it -/
def sideOf (c : Circuit) (e : Nat) (ringFirst : Bool) (a : Arg) : Option Side :=
  match a with
  | .int k => some (.int k)
  | .node q =>
    match c.kind e with
    | .arith cfg =>
      (match (if ringFirst then cfg.second else cfg.first) with
       | .ref (.sig t) sel => (c.soleProducer e sel t).map (fun p => Side.inp q p t)
       | _ => none)
    | _ => none

/-- walk the ring backwards from its last entity -/
def assignEnts (c : Circuit) (s : Sig) : List (Nat × ArithOp × Bool × Arg) → Nat → List RStage → Option (List RStage)
  | [], _, acc => some acc
  | (n, op, rf, sa) :: rest, cur, acc =>
    match prevEntOf c cur s rf, sideOf c cur rf sa with
    | some p, some side => assignEnts c s rest p ({ node := n, ent := cur, op, ringFirst := rf, side } :: acc)
    | _, _ => none

/-- find the ring computing `write(d)` of cell `m` on signal `s`: `(read node, stages)` -/
def discoverRing (c : Circuit) (nodes : Array CNode) (s : Sig) (m : Nat) (d : Arg) : Option (Nat × List RStage) :=
  match chainNodes nodes (nodes.size + 1) d with
  | some (r, specs) =>
    let cands := (List.range c.n).filter (fun i => match c.kind i with | .arith cfg => outIs cfg.out s | _ => false)
    cands.findSome? (fun ek =>
      match assignEnts c s specs.reverse ek [] with
      | some stages => if ringCellIs c nodes s m r stages d then some (r, stages) else none
      | none => none)
  | none => none

/-- deciders on `ty` with three (set priority) or four (reset priority) rows and a constant-1 output that read their
own output -/
def latchCands (c : Circuit) (ty : Sig) (rows : Nat := 3) : List Nat :=
  (List.range c.n).filter (fun i =>
    match c.kind i with
    | .decider cfg =>
      cfg.conds.length == rows && (match cfg.outs with | [o] => isConstOneOut o ty | _ => false) &&
        (c.selProducers i RG).contains i
    | _ => false)

/-- the multiplier behind latch `e`: `ty × k → ty`, reading only `e` -/
def multCands (c : Circuit) (e : Nat) (ty : Sig) (k : I32) : List Nat :=
  (List.range c.n).filter (fun m => multIs c e m ty k)

/-- bindings one row of a latch suggests for the set / reset value `a` -/
def proposeRow (c : Circuit) (nodes : Array CNode) (e : Nat) (cd : Cond) (a : Arg) : Props :=
  let inlined : Props :=
    match a with
    | .node m =>
      (match (nodes[m]? : Option CNode) with
       | some (.cmp op x y _) =>
         if cd.op == op || cd.op == op.negate then
           ((proposeArg c nodes e cd.first x).getD []) ++ ((proposeArg c nodes e cd.second y).getD [])
         else []
       | _ => [])
    | _ => []
  let flag : Props :=
    ((proposeArg c nodes e cd.first a).getD []) ++
    ((proposeOp c nodes (proposeLeaves c nodes (mulOne a)) (mulOne a) e cd.first).getD []) ++
    ((proposeOp c nodes (proposeLeaves c nodes (projOf a)) (projOf a) e cd.first).getD [])
  -- a flag compared with 0 has a constant 0 on the right; an inlined comparison usually does not read a 0/1 flag
  if isConst0 cd.second && !flag.isEmpty then flag ++ inlined else inlined ++ flag

def proposeLatch (c : Circuit) (nodes : Array CNode) (e : Nat) (ty : Sig) (s r : Arg) : Props :=
  match c.kind e with
  | .decider cfg =>
    (match cfg.conds with
     | [c1, c2, c3] =>
       let fbFirst := (match c1.first with | .ref (.sig t) _ => t == ty | _ => false) && c2.isAnd
       if fbFirst then proposeRow c nodes e c2 r ++ proposeRow c nodes e c3 s
       else proposeRow c nodes e c1 s ++ proposeRow c nodes e c3 r
     | [c1, c2, _, _] => proposeRow c nodes e c1 s ++ proposeRow c nodes e c2 r
     | _ => [])
  | _ => []

/-- bindings the gates of a cell suggest for its data and enable values -/
def proposeGated (c : Circuit) (nodes : Array CNode) (ew : Nat) (ty : Sig) (d en : Arg) : Props :=
  match c.kind ew with
  | .decider cw =>
    (match cw.conds, cw.outs with
     | [cdw], [ow] => ((proposeArg c nodes ew cdw.first en).getD []) ++
         ((proposeOp c nodes (proposeLeaves c nodes (projOf en)) (projOf en) ew cdw.first).getD []) ++ proposeOut c ew ow ty (some d)
     | _, _ => [])
  | _ => []

end Facto
