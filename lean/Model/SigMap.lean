import Model.Int32
/-!
# Signal maps

The contents of a wire: finitely many named signals with 32-bit values. A map is an association
list read through `get`, which *sums* the entries of one name, so that concatenation is the
wire-merge (pointwise wrapping sum) and no representation invariant is needed.
Zero-valued signals do not exist on a wire (A6): everything that enumerates signals goes
through `support`.
-/
namespace Facto

abbrev Sig := String
abbrev SigMap := List (Sig × I32)

namespace SigMap

def get : SigMap → Sig → I32
  | [], _ => 0
  | (k, v) :: m, s => (if k = s then v else 0) + get m s

/-- first occurrences, in order -/
def dedup : List Sig → List Sig
  | [] => []
  | k :: l => k :: (dedup l).filter (fun x => x != k)

def keys (m : SigMap) : List Sig := dedup (m.map Prod.fst)

/-- The signals present on the wire (non-zero total), each once, in first-occurrence order. -/
def support (m : SigMap) : List Sig := (keys m).filter (fun k => get m k != 0)

/-- Canonical form: one entry per present signal. -/
def norm (m : SigMap) : SigMap := (support m).map (fun k => (k, get m k))

def single (s : Sig) (v : I32) : SigMap := [(s, v)]

/-- Restrict to signals satisfying `p`. -/
def filterSig (m : SigMap) (p : Sig → Bool) : SigMap := m.filter (fun kv => p kv.1)

def sum (ms : List SigMap) : SigMap := ms.flatten

def sorted (m : SigMap) : List (Sig × Int) :=
  ((norm m).map (fun kv => (kv.1, kv.2.toInt))).mergeSort (fun a b => a.1 ≤ b.1)

end SigMap
end Facto
