import Model.SigMap
/-!
# Spec layer: Core programs and their denotation

A Core program is what a Facto program *means* once functions are inlined, loops unrolled and
compile-time integers evaluated (`Model/Elab.lean`): a list of dataflow nodes, each denoting a
signal map (a scalar node denotes the singleton of its signal type), memory cells with their
write rules, and placed entities with their circuit-driven properties.

`evalNodes` is the run-time meaning under the documented operator semantics with 32-bit
wrap-around arithmetic (`Facto.alu`, `Facto.cmp`): this is the right-hand side of C01/C02/C06.
-/
namespace Facto

inductive Arg
  | int (k : I32)
  | node (i : Nat)
  deriving Repr, Inhabited, DecidableEq

inductive CNode
  /-- a declared constant signal: a free input of the program (its literal value is `v`) -/
  | input (name : String) (ty : Sig) (v : I32)
  | const (ty : Sig) (v : I32)
  | arith (op : ArithOp) (a b : Arg) (ty : Sig)
  | cmp (op : CmpOp) (a b : Arg) (ty : Sig)
  /-- `(a op b) : v` -/
  | gate (op : CmpOp) (a b : Arg) (v : Arg) (ty : Sig)
  | land (a b : Arg) (ty : Sig)
  | lor (a b : Arg) (ty : Sig)
  | lnot (a : Arg) (ty : Sig)
  /-- `e | "ty"` -/
  | proj (a : Arg) (ty : Sig)
  | memRead (m : Nat) (ty : Sig)
  /-- `bundle["ty"]` -/
  | select (b : Nat) (ty : Sig)
  /-- `any(b) op rhs`, optionally `: out` -/
  | anyCmp (b : Nat) (op : CmpOp) (rhs : Arg) (out : Option Arg) (ty : Sig)
  | allCmp (b : Nat) (op : CmpOp) (rhs : Arg) (out : Option Arg) (ty : Sig)
  /-- value read from an entity property: a free input -/
  | entRead (e : Nat) (prop : String) (ty : Sig)
  /-- bundle literal / merge: the wire-sum of its parts -/
  | bmerge (parts : List Nat)
  /-- `bundle op scalar`, member-wise -/
  | beach (op : ArithOp) (b : Nat) (k : Arg)
  /-- `(bundle op k) : bundle` (`out = none`, keep values) or `: c` (`out = some c`) -/
  | bfilter (op : CmpOp) (b : Nat) (k : Arg) (out : Option I32)
  /-- `(a op k) : bundle` -/
  | bgate (op : CmpOp) (a k : Arg) (b : Nat)
  /-- `entity.output`: a free bundle input -/
  | entOut (e : Nat)
  deriving Repr, Inhabited, DecidableEq

/-- the signal type of a scalar node (`none` for bundle nodes) -/
def CNode.ty? : CNode → Option Sig
  | .input _ ty _ | .const ty _ | .arith _ _ _ ty | .cmp _ _ _ ty | .gate _ _ _ _ ty
  | .land _ _ ty | .lor _ _ ty | .lnot _ ty | .proj _ ty | .memRead _ ty | .select _ ty
  | .anyCmp _ _ _ _ ty | .allCmp _ _ _ _ ty | .entRead _ _ ty => some ty
  | _ => none

inductive WriteRule
  /-- `write(v)` -/
  | always (data : Arg)
  /-- `write(v, when=c)` -/
  | gated (data : Arg) (enable : Arg)
  /-- `write(v, set=s, reset=r)` (`setPriority`) or `write(v, reset=r, set=s)` -/
  | latch (value : Arg) (set reset : Arg) (setPriority : Bool)
  deriving Repr, Inhabited

structure MemCell where
  name : String
  ty : Option Sig
  writes : List WriteRule
  line : Nat
  deriving Repr, Inhabited

structure PropWrite where
  prop : String
  value : Arg
  deriving Repr, Inhabited

structure EntSpec where
  proto : String
  /-- top-left tile when both coordinates are compile-time constants -/
  pos : Option (Int × Int)
  props : List (String × String)
  writes : List PropWrite
  line : Nat
  deriving Repr, Inhabited

structure Named where
  name : String
  /-- node index, for signal and bundle values -/
  node : Nat
  isBundle : Bool
  line : Nat
  topLevel : Bool
  deriving Repr, Inhabited

structure CoreProg where
  nodes : Array CNode := #[]
  mems : Array MemCell := #[]
  ents : Array EntSpec := #[]
  named : Array Named := #[]
  /-- names referenced by some later expression (C20: unconsumed names are the outputs) -/
  consumed : List String := []
  deriving Repr, Inhabited

/-- Free inputs of a Core program. -/
structure Env where
  /-- value of a declared constant signal, by name; `none` = the literal in the program text -/
  input : String → Option I32 := fun _ => none
  /-- contents an entity reports through `.output` -/
  entOut : Nat → SigMap := fun _ => []
  entProp : Nat → String → I32 := fun _ _ => 0
  /-- current value of each memory cell -/
  mem : Nat → I32 := fun _ => 0

def boolI (b : Bool) : I32 := if b then 1 else 0

/-- scalar value of an argument: a constant, or the value of node `i` on that node's own type -/
def argVal (nodes : Array CNode) (vals : Array SigMap) : Arg → I32
  | .int k => k
  | .node i =>
    match (nodes.getD i (.const "" 0)).ty? with
    | some ty => (vals.getD i []).get ty
    | none => 0

def evalNode (nodes : Array CNode) (env : Env) (vals : Array SigMap) (nd : CNode) : SigMap :=
  let av := argVal nodes vals
  let bv (i : Nat) : SigMap := vals.getD i []
  match nd with
  | .input name ty v => [(ty, (env.input name).getD v)]
  | .const ty v => [(ty, v)]
  | .arith op a b ty => [(ty, alu op (av a) (av b))]
  | .cmp op a b ty => [(ty, boolI (cmp op (av a) (av b)))]
  | .gate op a b v ty => [(ty, if cmp op (av a) (av b) then av v else 0)]
  | .land a b ty => [(ty, boolI (av a != 0 && av b != 0))]
  | .lor a b ty => [(ty, boolI (av a != 0 || av b != 0))]
  | .lnot a ty => [(ty, boolI (av a == 0))]
  | .proj a ty => [(ty, av a)]
  | .memRead m ty => [(ty, env.mem m)]
  | .select b ty => [(ty, (bv b).get ty)]
  | .anyCmp b op rhs out ty =>
    let m := bv b
    let ok := (SigMap.support m).any (fun s => cmp op (m.get s) (av rhs))
    [(ty, if ok then (match out with | some o => av o | none => 1) else 0)]
  | .allCmp b op rhs out ty =>
    let m := bv b
    let ok := (SigMap.support m).all (fun s => cmp op (m.get s) (av rhs))
    [(ty, if ok then (match out with | some o => av o | none => 1) else 0)]
  | .entRead e p ty => [(ty, env.entProp e p)]
  | .bmerge parts => (parts.map bv).flatten
  | .beach op b k =>
    let m := bv b
    (SigMap.support m).map (fun s => (s, alu op (m.get s) (av k)))
  | .bfilter op b k out =>
    let m := bv b
    ((SigMap.support m).filter (fun s => cmp op (m.get s) (av k))).map
      (fun s => (s, match out with | none => m.get s | some c => c))
  | .bgate op a k b => if cmp op (av a) (av k) then bv b else []
  | .entOut e => env.entOut e

/-- values of the first `k` nodes (a node only refers to earlier nodes) -/
def evalUpTo (nodes : Array CNode) (env : Env) : Nat → Array SigMap
  | 0 => #[]
  | k + 1 =>
    let vals := evalUpTo nodes env k
    match nodes[k]? with
    | some nd => vals.push (evalNode nodes env vals nd)
    | none => vals

/-- forward evaluation of all nodes -/
def evalNodes (nodes : Array CNode) (env : Env) : Array SigMap := evalUpTo nodes env nodes.size

/-- next value of a memory cell after the inputs were held until everything settled (C03, C05);
for `always` cells this is one application of the written function (C04). -/
def WriteRule.next (nodes : Array CNode) (vals : Array SigMap) (cur : I32) : WriteRule → I32
  | .always d => argVal nodes vals d
  | .gated d en =>
    -- enable > 0: take the data; enable = 0: hold; a negative enable closes both gates (the cell clears)
    let e := (argVal nodes vals en).toInt
    if e > 0 then argVal nodes vals d else if e = 0 then cur else 0
  | .latch v s r setPrio =>
    let sOn := (argVal nodes vals s) != 0
    let rOn := (argVal nodes vals r) != 0
    let on := if sOn && rOn then setPrio else if sOn then true else if rOn then false else cur != 0
    if on then argVal nodes vals v else 0

end Facto
