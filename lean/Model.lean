import Model.Int32
import Model.SigMap
import Model.Circuit
import Model.Blueprint
import Model.Source
import Model.Core
import Model.Elab
import Model.Sim
