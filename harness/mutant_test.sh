#!/bin/bash
# usage: mutant_test.sh <seeded-id> <property> [tier]   -- applies seeded/<id>/patch.diff to /repo, runs the check, reverts.
set -u
ID=$1; PROP=$2; TIER=${3:-quick}
cd /repo || exit 9
if ! git diff --quiet; then echo "/repo is dirty"; exit 9; fi
git apply /verif/seeded/$ID/patch.diff || { echo "patch does not apply"; exit 9; }
cd /verif
timeout 3000 ./check $PROP --tier $TIER > /tmp/mutant_$ID.out 2>&1
RC=$?
cd /repo && git checkout -- . 
echo "mutant $ID property $PROP exit=$RC"
grep -E "^(VIOLATION|KNOWN-FINDING)" /tmp/mutant_$ID.out | cut -c1-220
exit 0
