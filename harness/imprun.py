"""Runs under /venv/bin/python with the cwd chosen by the caller: expands and compiles import graphs with the
real preprocessor / compiler."""
import json
import os
import sys
from pathlib import Path

REPO = os.environ.get("FACTO_REPO", "/repo")
sys.path.insert(0, REPO)
import logging  # noqa: E402

logging.disable(logging.CRITICAL)
from dsl_compiler.cli import compile_dsl_source  # noqa: E402
from dsl_compiler.src.parsing.preprocessor import preprocess_imports  # noqa: E402


def main():
    for line in sys.stdin:
        if not line.strip():
            continue
        j = json.loads(line)
        out = {"id": j["id"], "cwd": os.getcwd()}
        try:
            main_path = Path(j["main"])
            src = main_path.read_text() if j.get("main") and main_path.exists() else j["source"]
            try:
                out["expanded"] = preprocess_imports(src, base_path=main_path.parent if j.get("main") else None)
            except FileNotFoundError as e:
                out["expand_error"] = str(e)
            ok, text, _ = compile_dsl_source(src, source_name=str(main_path) if j.get("main") else "<string>", use_json=True)
            out["ok"] = bool(ok)
            out["printed"] = json.loads(text) if ok else None
        except BaseException as e:  # noqa: BLE001
            out["ok"] = False
            out["error"] = f"{type(e).__name__}: {e}"[:300]
        sys.stdout.write(json.dumps(out) + "\n")
        sys.stdout.flush()


if __name__ == "__main__":
    main()
