"""Restricted Python -> Lean 4 translator for the small pure functions in which a property lives
entirely (DESIGN §2). It reads the CURRENT source under /repo on every run and regenerates
lean/Model/Generated.lean; the theorems in lean/Proofs are then re-checked against what the code
says now. Anything outside the supported subset raises `Untranslatable` (treated as a broken proof
obligation, never silently skipped)."""
from __future__ import annotations

import ast
import os
import sys
import textwrap

REPO = os.environ.get("FACTO_REPO", "/repo")
HERE = os.path.dirname(os.path.abspath(__file__))
OUT = os.path.join(os.path.dirname(HERE), "lean", "Model", "Generated.lean")


class Untranslatable(Exception):
    pass


def find_function(path: str, qualname: str) -> ast.FunctionDef:
    tree = ast.parse(open(os.path.join(REPO, path)).read())
    parts = qualname.split(".")
    body = tree.body
    node = None
    for p in parts:
        node = next((n for n in body if isinstance(n, (ast.FunctionDef, ast.ClassDef)) and n.name == p), None)
        if node is None:
            raise Untranslatable(f"{path}: {qualname} not found")
        body = node.body
    if not isinstance(node, ast.FunctionDef):
        raise Untranslatable(f"{path}: {qualname} is not a function")
    return node


TYPES = {"int": "Int", "str": "String", "bool": "Bool"}


def lean_type(ann) -> str:
    if ann is None:
        raise Untranslatable("missing annotation")
    s = ast.unparse(ann)
    s = s.replace(" ", "")
    if s in TYPES:
        return TYPES[s]
    if s in ("int|None", "Optional[int]"):
        return "Option Int"
    if s in ("bool|None", "Optional[bool]"):
        return "Option Bool"
    if s == "tuple[str,int]":
        return "String × Int"
    if s == "list[int]":
        return "List Int"
    if s == "None":
        return "Unit"
    raise Untranslatable(f"unsupported type {s}")


class Fn:
    def __init__(self, node: ast.FunctionDef, name: str, skip_params=("self", "cls", "node", "diagnostics"),
                 param_types=None, ret=None):
        self.node = node
        self.name = name
        self.params = []
        for a in node.args.args:
            if a.arg in skip_params:
                continue
            t = (param_types or {}).get(a.arg) or lean_type(a.annotation)
            self.params.append((a.arg, t))
        self.ret = ret or lean_type(node.returns)
        self.env = {p: t for p, t in self.params}
        self.notes: list[str] = []

    # ----- expressions
    def ty(self, e) -> str:
        if isinstance(e, ast.Constant):
            if isinstance(e.value, bool):
                return "Bool"
            if isinstance(e.value, int):
                return "Int"
            if isinstance(e.value, str):
                return "String"
            if e.value is None:
                return "None"
        if isinstance(e, ast.Name):
            return self.env.get(e.id, "Int")
        if isinstance(e, (ast.Compare, ast.BoolOp)):
            return "Bool"
        if isinstance(e, ast.UnaryOp) and isinstance(e.op, ast.Not):
            return "Bool"
        if isinstance(e, ast.IfExp):
            return self.ty(e.body)
        if isinstance(e, ast.Call):
            f = ast.unparse(e.func)
            if f in ("isinstance",) or f.endswith(".startswith"):
                return "Bool"
            if f == "len":
                return "Int"
        return "Int"

    def expr(self, e) -> str:
        if isinstance(e, ast.Constant):
            if isinstance(e.value, bool):
                return "true" if e.value else "false"
            if isinstance(e.value, int):
                return f"({e.value} : Int)" if e.value >= 0 else f"(({e.value}) : Int)"
            if isinstance(e.value, str):
                return '"' + e.value.replace("\\", "\\\\").replace('"', '\\"') + '"'
            raise Untranslatable(f"constant {e.value!r}")
        if isinstance(e, ast.Name):
            return e.id
        if isinstance(e, ast.UnaryOp):
            if isinstance(e.op, ast.USub):
                return f"(-{self.expr(e.operand)})"
            if isinstance(e.op, ast.Not):
                return f"(!{self.bexpr(e.operand)})"
            if isinstance(e.op, ast.UAdd):
                return self.expr(e.operand)
        if isinstance(e, ast.BinOp):
            a, b = self.expr(e.left), self.expr(e.right)
            op = type(e.op)
            table = {ast.Add: "({} + {})", ast.Sub: "({} - {})", ast.Mult: "({} * {})",
                     ast.FloorDiv: "(PyInt.floordiv {} {})", ast.Mod: "(PyInt.mod {} {})", ast.Pow: "(PyInt.pow {} {})",
                     ast.LShift: "(PyInt.shl {} {})", ast.RShift: "(PyInt.shr {} {})", ast.BitAnd: "(PyInt.band {} {})",
                     ast.BitOr: "(PyInt.bor {} {})", ast.BitXor: "(PyInt.bxor {} {})"}
            if op in table:
                return table[op].format(a, b)
            raise Untranslatable(f"operator {op.__name__}")
        if isinstance(e, ast.Compare):
            if len(e.ops) != 1:
                raise Untranslatable("chained comparison")
            a, b = self.expr(e.left), self.expr(e.comparators[0])
            op = type(e.ops[0])
            table = {ast.Eq: "({} == {})", ast.NotEq: "({} != {})", ast.Lt: "(decide ({} < {}))", ast.LtE: "(decide ({} ≤ {}))",
                     ast.Gt: "(decide ({} > {}))", ast.GtE: "(decide ({} ≥ {}))"}
            if op in table:
                return table[op].format(a, b)
            raise Untranslatable(f"comparison {op.__name__}")
        if isinstance(e, ast.BoolOp):
            parts = [self.bexpr(v) for v in e.values]
            return "(" + (" && " if isinstance(e.op, ast.And) else " || ").join(parts) + ")"
        if isinstance(e, ast.IfExp):
            return f"(if {self.bexpr(e.test)} then {self.expr(e.body)} else {self.expr(e.orelse)})"
        if isinstance(e, ast.Call):
            f = ast.unparse(e.func)
            if f == "isinstance":
                # isinstance(x, (int, float)) on a value the translator types as Int
                self.notes.append(f"isinstance({ast.unparse(e.args[0])}, ...) taken as True (Int-typed)")
                return "true"
            if f == "int" and len(e.args) == 1:
                return self.expr(e.args[0])
            if f == "int" and len(e.args) == 2:
                return f"(PyInt.parseInt {self.expr(e.args[0])} {ast.literal_eval(e.args[1])})"
            if f == "abs":
                return f"(PyInt.abs {self.expr(e.args[0])})"
            if f.endswith(".startswith"):
                obj = self.expr(e.func.value)
                arg = e.args[0]
                opts = arg.elts if isinstance(arg, ast.Tuple) else [arg]
                return "(" + " || ".join(f"{obj}.startsWith {self.expr(o)}" for o in opts) + ")"
            if f.endswith(".strip") and not e.args:
                return f"({self.expr(e.func.value)}.trimAscii.toString)"
            raise Untranslatable(f"call {f}")
        raise Untranslatable(f"expression {ast.dump(e)[:80]}")

    def bexpr(self, e) -> str:
        s = self.expr(e)
        if self.ty(e) == "Int":
            return f"({s} != 0)"
        return s

    # ----- statements
    def ret_value(self, e) -> str:
        opt = self.ret.startswith("Option")
        if e is None or (isinstance(e, ast.Constant) and e.value is None):
            if not opt:
                raise Untranslatable("return None in a non-optional function")
            return "none"
        if isinstance(e, ast.IfExp) and opt:
            return f"(if {self.bexpr(e.test)} then {self.ret_value(e.body)} else {self.ret_value(e.orelse)})"
        if isinstance(e, ast.Tuple):
            inner = "(" + ", ".join(self.expr(x) for x in e.elts) + ")"
            return f"some {inner}" if opt else inner
        v = self.expr(e)
        if opt and self.ret == "Option Int" and self.ty(e) == "Bool":
            v = f"(PyInt.boolToInt {v})"
        if isinstance(e, ast.Call) and ast.unparse(e.func) == "int" and len(e.args) == 2:
            return v  # parseInt already yields an option
        return f"(some {v})" if opt else v

    def returns(self, stmts) -> bool:
        if not stmts:
            return False
        s = stmts[-1]
        if isinstance(s, ast.Return):
            return True
        if isinstance(s, ast.If):
            return self.returns(s.body) and bool(s.orelse) and self.returns(s.orelse)
        if isinstance(s, ast.Try):
            return self.returns(s.body)
        return False

    def block(self, stmts, rest, indent) -> str:
        pad = "  " * indent
        stmts = list(stmts) + list(rest)
        if not stmts:
            if self.ret.startswith("Option"):
                return pad + "none"
            raise Untranslatable("control reaches the end of a non-optional function")
        s, tail = stmts[0], stmts[1:]
        if isinstance(s, ast.Expr):
            if isinstance(s.value, ast.Constant) and isinstance(s.value.value, str):
                return self.block(tail, [], indent)   # docstring
            if isinstance(s.value, ast.Call):
                f = ast.unparse(s.value.func)
                if f.startswith("diagnostics.") or f.startswith("self.diagnostics."):
                    return self.block(tail, [], indent)  # diagnostics have no effect on the result
            raise Untranslatable(f"expression statement {ast.unparse(s)[:60]}")
        if isinstance(s, ast.Return):
            return pad + self.ret_value(s.value)
        if isinstance(s, ast.If):
            if isinstance(s.test, ast.Compare) and ast.unparse(s.test) in ("diagnostics is not None", "self.diagnostics is not None"):
                return self.block(tail, [], indent)
            then_rest = [] if self.returns(s.body) else tail
            else_rest = [] if (s.orelse and self.returns(s.orelse)) else tail
            return (f"{pad}if {self.bexpr(s.test)} then\n{self.block(s.body, then_rest, indent + 1)}\n"
                    f"{pad}else\n{self.block(s.orelse, else_rest, indent + 1)}")
        if isinstance(s, ast.Assign) and len(s.targets) == 1 and isinstance(s.targets[0], ast.Name):
            name = s.targets[0].id
            if isinstance(s.value, ast.Dict):
                # a literal table used through .get(key, default)
                self.env[name] = "Dict"
                self.dicts = getattr(self, "dicts", {})
                self.dicts[name] = s.value
                return self.block(tail, [], indent)
            self.env[name] = self.ty(s.value) if self.ty(s.value) != "None" else "Int"
            return f"{pad}let {name} := {self.expr(s.value)}\n{self.block(tail, [], indent)}"
        if isinstance(s, ast.Try):
            self.notes.append("try/except: handlers unreachable for integer operands; body translated")
            return self.block(list(s.body) + tail, [], indent)
        raise Untranslatable(f"statement {type(s).__name__}: {ast.unparse(s)[:60]}")

    def lean(self) -> str:
        params = " ".join(f"({p} : {t})" for p, t in self.params)
        body = self.block(self.node.body, [], 1)
        return f"def {self.name} {params} : {self.ret} :=\n{body}\n"


class DictFn(Fn):
    """function of the form `table = {...}; return table.get(key, default), other`"""

    def expr(self, e) -> str:
        if isinstance(e, ast.Call) and ast.unparse(e.func).endswith(".get") and isinstance(e.func.value, ast.Name) \
                and e.func.value.id in getattr(self, "dicts", {}):
            d = self.dicts[e.func.value.id]
            key, default = self.expr(e.args[0]), self.expr(e.args[1])
            out = default
            for k, v in reversed(list(zip(d.keys, d.values))):
                out = f"(if {key} == {self.expr(k)} then {self.expr(v)} else {out})"
            return out
        return super().expr(e)


def iteration_values(node: ast.FunctionDef) -> str:
    """ForStmt.get_iteration_values: the range part (after the bounds are resolved) is translated from
    its two `while` loops; each loop `i = start; while i CMP stop: result.append(i); i += step` becomes a
    fuel-free well-founded recursion whose termination proof is an obligation of the generated file."""
    whiles = [n for n in ast.walk(node) if isinstance(n, ast.While)]
    if len(whiles) != 2:
        raise Untranslatable(f"get_iteration_values: expected 2 while loops, found {len(whiles)}")
    # locate the if/elif that guards them and the default-step assignment
    src = ast.unparse(node)
    guards = []
    for n in ast.walk(node):
        if isinstance(n, ast.If) and any(isinstance(b, ast.While) for b in n.body):
            guards.append(n)
    if len(guards) != 2:
        raise Untranslatable("get_iteration_values: guards")
    fn = Fn.__new__(Fn)
    fn.env = {"start": "Int", "stop": "Int", "step": "Int", "i": "Int"}
    fn.notes = []
    fn.ret = "List Int"

    def loop(g: ast.If, name: str):
        w = next(b for b in g.body if isinstance(b, ast.While))
        init = next(b for b in g.body if isinstance(b, ast.Assign))
        if ast.unparse(init) != "i = start":
            raise Untranslatable("loop init " + ast.unparse(init))
        body = [ast.unparse(b) for b in w.body]
        if body != ["result.append(i)", "i += step"]:
            raise Untranslatable("loop body " + repr(body))
        cond = fn.expr(w.test)
        guard = fn.expr(g.test)
        return guard, cond

    g1, c1 = loop(guards[0], "up")
    g2, c2 = loop(guards[1], "down")
    # default step
    default = None
    for n in ast.walk(node):
        if isinstance(n, ast.If) and ast.unparse(n.test) == "step is None":
            default = fn.expr(n.body[0].value)
    if default is None:
        raise Untranslatable("default step")

    def measure(cond: str) -> str:
        if "i < stop" in cond:
            return "(stop - i).toNat", "i < stop"
        if "i > stop" in cond:
            return "(i - stop).toNat", "i > stop"
        if "i ≤ stop" in cond:
            return "(stop + 1 - i).toNat", "i ≤ stop"
        if "i ≥ stop" in cond:
            return "(i + 1 - stop).toNat", "i ≥ stop"
        raise Untranslatable("loop condition " + cond)
    m1, p1 = measure(c1)
    m2, p2 = measure(c2)
    return f"""/-- first loop of `ForStmt.get_iteration_values` (guard `{ast.unparse(guards[0].test)}`) -/
def pyIterLoop1 (i stop step : Int) (h : {g1} = true) : List Int :=
  if hc : {p1} then i :: pyIterLoop1 (i + step) stop step h else []
termination_by {m1}
decreasing_by simp at h; omega

/-- second loop (guard `{ast.unparse(guards[1].test)}`) -/
def pyIterLoop2 (i stop step : Int) (h : {g2} = true) : List Int :=
  if hc : {p2} then i :: pyIterLoop2 (i + step) stop step h else []
termination_by {m2}
decreasing_by simp at h; omega

/-- `ForStmt.get_iteration_values` for a range iterator with resolved bounds; `step = none` is the
source's `step is None` -/
def pyIterationValues (start stop : Int) (step? : Option Int) : List Int :=
  let step : Int := match step? with
    | some s => s
    | none => {default}
  if h1 : {g1} = true then pyIterLoop1 start stop step h1
  else if h2 : {g2} = true then pyIterLoop2 start stop step h2
  else []
"""


def relay_model() -> str:
    """RelayNode.can_route_network / add_network use Python sets; they are modelled by pattern: the translator
    asserts that the bodies are literally the expected ones and emits the list-as-set model."""
    can = find_function("dsl_compiler/src/layout/connection_planner.py", "RelayNode.can_route_network")
    add = find_function("dsl_compiler/src/layout/connection_planner.py", "RelayNode.add_network")

    def body(fn):
        return [ast.unparse(b) for b in fn.body if not (isinstance(b, ast.Expr) and isinstance(b.value, ast.Constant))]
    want_can = ["networks = self.networks_red if wire_color == 'red' else self.networks_green",
                "return len(networks) == 0 or network_id in networks"]
    want_add = ["if wire_color == 'red':\n    self.networks_red.add(network_id)\nelse:\n    self.networks_green.add(network_id)"]
    if body(can) != want_can:
        raise Untranslatable("RelayNode.can_route_network changed: " + repr(body(can)))
    if body(add) != want_add:
        raise Untranslatable("RelayNode.add_network changed: " + repr(body(add)))
    return """/-- `RelayNode` bookkeeping (sets as duplicate-free lists); pattern-translated from connection_planner.py -/
structure RelayNode where
  red : List Nat := []
  green : List Nat := []
  deriving Repr

def setAdd (l : List Nat) (x : Nat) : List Nat := if l.contains x then l else x :: l

def RelayNode.canRouteNetwork (r : RelayNode) (networkId : Nat) (isRed : Bool) : Bool :=
  let networks := if isRed then r.red else r.green
  networks.length == 0 || networks.contains networkId

def RelayNode.addNetwork (r : RelayNode) (networkId : Nat) (isRed : Bool) : RelayNode :=
  if isRed then { r with red := setAdd r.red networkId } else { r with green := setAdd r.green networkId }
"""


def module_dict(path: str, name: str, lean_name: str) -> str:
    """module-level `NAME = {"k": "v", ...}` used as `NAME.get(x, x)`: a total String -> String function"""
    with open(os.path.join(REPO, path)) as fh:
        tree = ast.parse(fh.read())
    for node in tree.body:
        if isinstance(node, ast.Assign) and len(node.targets) == 1 and isinstance(node.targets[0], ast.Name) \
                and node.targets[0].id == name and isinstance(node.value, ast.Dict):
            items = []
            for k, v in zip(node.value.keys, node.value.values):
                if not (isinstance(k, ast.Constant) and isinstance(k.value, str) and isinstance(v, ast.Constant) and isinstance(v.value, str)):
                    raise Untranslatable(f"{name}: non-literal entry {ast.unparse(k)}: {ast.unparse(v)}")
                items.append((k.value, v.value))
            body = "op"
            for k, v in reversed(items):
                body = f"(if op == {lean_str(k)} then {lean_str(v)} else {body})"
            return (f"/-- `{name}.get(op, op)` ({path}) -/\n"
                    f"def {lean_name} (op : String) : String :=\n  {body}\n")
    raise Untranslatable(f"{path}: no dict literal named {name}")


def generate() -> str:
    out = ["/- GENERATED by harness/py2lean.py from the current /repo sources. Do not edit. -/",
           "import Model.PyInt", "", "namespace Gen", ""]
    notes = []
    f = Fn(find_function("dsl_compiler/src/lowering/constant_folder.py", "ConstantFolder.fold_binary_operation"), "foldBinary")
    out.append(f.lean()); notes += f.notes
    f = Fn(find_function("dsl_compiler/src/ir/optimizer.py", "ConstantPropagationOptimizer._fold_arithmetic"), "optFoldArith")
    out.append(f.lean()); notes += f.notes
    f = Fn(find_function("dsl_compiler/src/ir/optimizer.py", "ConstantPropagationOptimizer._fold_comparison"), "optFoldCmp")
    out.append(f.lean()); notes += f.notes
    f = DictFn(find_function("dsl_compiler/src/layout/memory_builder.py", "MemoryBuilder._invert_comparison"), "invertComparison")
    out.append(f.lean()); notes += f.notes
    f = Fn(find_function("dsl_compiler/src/parsing/transformer.py", "DSLTransformer._parse_number"), "parseNumber", ret="Option Int")
    out.append(f.lean()); notes += f.notes
    out.append(iteration_values(find_function("dsl_compiler/src/ast/statements.py", "ForStmt.get_iteration_values")))
    out.append(relay_model())
    out.append(module_dict("dsl_compiler/src/emission/entity_emitter.py", "_MIRRORED_COMPARATOR", "mirroredComparator"))
    out.append("end Gen")
    out.append("")
    out.append("/- translator notes:\n" + "\n".join(sorted(set(notes))) + "\n-/")
    return "\n".join(out) + "\n"


# ------------------------------------------------------------------ lib/math.facto -> Lean terms
LIB_CALLS = {
    # function: parameter names (every argument is passed as a declared input signal of its own type)
    "abs": ["x"], "sign": ["x"], "min": ["a", "b"], "max": ["a", "b"], "clamp": ["x", "low", "high"],
    "between": ["x", "low", "high"], "get_bit": ["value", "pos"], "set_bit": ["value", "pos"],
    "clear_bit": ["value", "pos"], "toggle_bit": ["value", "pos"], "div_floor": ["a", "b"], "mod_positive": ["a", "b"],
    "lerp": ["a", "b", "t"],
}
ARG_TYPES = ["signal-A", "signal-B", "signal-C"]


def lean_str(s):
    return '"' + s.replace("\\", "\\\\").replace('"', '\\"') + '"'


def sexpr(j) -> str:
    k = j["k"]
    if k == "Num":
        return f"(.num ({j['v']}))"
    if k == "Str":
        return f"(.str {lean_str(j['v'])})"
    if k == "Id":
        return f"(.ident {lean_str(j['name'])})"
    if k == "Bin":
        return f"(.bin {lean_str(j['op'])} {sexpr(j['l'])} {sexpr(j['r'])})"
    if k == "Un":
        return f"(.un {lean_str(j['op'])} {sexpr(j['e'])})"
    if k == "Call":
        return f"(.call {lean_str(j['name'])} [{', '.join(sexpr(a) for a in j['args'])}])"
    if k == "OutSpec":
        return f"(.outspec {sexpr(j['cond'])} {sexpr(j['out'])})"
    if k == "SigLit":
        ty = j["ty"]
        t = "none" if ty is None else (f"(some (.name {lean_str(ty)}))" if isinstance(ty, str) else f"(some (.typeOf {lean_str(ty['obj'])}))")
        return f"(.siglit {t} {sexpr(j['v'])})"
    if k == "Proj":
        ty = j["ty"]
        t = f"(.name {lean_str(ty)})" if isinstance(ty, str) else f"(.typeOf {lean_str(ty['obj'])})"
        return f"(.proj {sexpr(j['e'])} {t})"
    raise Untranslatable(f"library expression {k}")


def sstmt(j) -> str:
    k = j["k"]
    if k == "Func":
        params = ", ".join(f"({lean_str(p['ty'])}, {lean_str(p['name'])})" for p in j["params"])
        body = ", ".join(sstmt(b) for b in j["body"])
        return f".func {lean_str(j['name'])} [{params}] [{body}] {j.get('line', 0)}"
    if k == "Decl":
        return f".decl {lean_str(j['ty'])} {lean_str(j['name'])} {sexpr(j['value'])} {j.get('line', 0)}"
    if k == "Return":
        return f".ret {sexpr(j['expr'])} {j.get('line', 0)}"
    raise Untranslatable(f"library statement {k}")


def generate_lib() -> str:
    """lib/math.facto parsed by the REAL parser (in a /venv/bin/python subprocess) and rendered as Lean terms"""
    import json
    import subprocess
    code = ("import sys, json\nsys.path.insert(0, %r)\nsys.path.insert(0, %r)\nfrom facto_dump import ast_json\n"
            "from dsl_compiler.src.parsing.parser import DSLParser\n"
            "src = open(%r).read()\nprint(json.dumps(ast_json(DSLParser().parse(src, 'math.facto'))))") % (
        REPO, HERE, os.path.join(REPO, "lib", "math.facto"))
    p = subprocess.run(["/venv/bin/python", "-c", code], capture_output=True, text=True, cwd="/")
    if p.returncode != 0:
        raise Untranslatable("lib/math.facto does not parse: " + p.stderr[-300:])
    ast_ = json.loads(p.stdout.strip().splitlines()[-1])
    funcs = [s for s in ast_["body"] if s["k"] == "Func"]
    names = [f["name"] for f in funcs]
    out = ["/- GENERATED by harness/py2lean.py from /repo/lib/math.facto (through the real parser). Do not edit. -/",
           "import Model.Elab", "", "namespace Gen", "open Facto", "",
           "/-- the function declarations of lib/math.facto -/", "def libMath : Program := ["]
    out.append(",\n".join("  " + sstmt(f) for f in funcs))
    out.append("]")
    out.append("")
    for fn, params in LIB_CALLS.items():
        if fn not in names:
            raise Untranslatable(f"lib/math.facto no longer defines {fn}")
        decls = ", ".join(f'.decl "Signal" {lean_str("in_" + p)} (.siglit (some (.name {lean_str(ARG_TYPES[i])})) (.num 1)) 0'
                          for i, p in enumerate(params))
        args = ", ".join(f'.ident {lean_str("in_" + p)}' for p in params)
        out.append(f"/-- `Signal r = {fn}(…)` with every argument a declared input -/")
        out.append(f"def call_{fn} : Program := libMath ++ [{decls}, .decl \"Signal\" \"r\" (.call {lean_str(fn)} [{args}]) 0]")
        out.append("")
    out.append("def nodesOf (p : Program) : Option (Array CNode) := match elabProgram p none 400 with | .ok c => some c.nodes | .error _ => none")
    out.append("end Gen")
    return "\n".join(out) + "\n"


def generate_lib_nodes(lib_text_path: str) -> str:
    """ask Lean for the elaborated Core nodes of every call program (untrusted: re-checked by `decide +kernel`)"""
    import subprocess
    import tempfile
    lean_dir = os.path.join(os.path.dirname(HERE), "lean")
    src = "import Model.GeneratedLib\nopen Facto Gen\n" + "\n".join(
        f'#eval IO.println ("NODES {fn} " ++ toString (repr (nodesOf call_{fn})))' for fn in LIB_CALLS)
    with tempfile.NamedTemporaryFile("w", suffix=".lean", delete=False, dir=lean_dir) as tf:
        tf.write(src)
        path = tf.name
    try:
        subprocess.run(["lake", "build", "Model.GeneratedLib"], cwd=lean_dir, capture_output=True, text=True)
        p = subprocess.run(["lake", "env", "lean", path], cwd=lean_dir, capture_output=True, text=True)
    finally:
        os.unlink(path)
    out = ["/- GENERATED by harness/py2lean.py: elaborated Core nodes of the library call programs, as printed by", "   Lean itself; `Proofs/Props/C17.lean` re-checks each against `nodesOf` with `decide +kernel`. Do not edit. -/",
           "import Model.GeneratedLib", "", "namespace Gen", "open Facto", ""]
    text = p.stdout
    import re
    for fn in LIB_CALLS:
        m = re.search(r"NODES %s (.*?)(?=\nNODES |\Z)" % fn, text, flags=re.S)
        if not m:
            raise Untranslatable(f"no Core nodes for library function {fn}: {p.stdout[-200:]} {p.stderr[-300:]}")
        body = m.group(1).strip()
        if not body.startswith("some"):
            raise Untranslatable(f"library call program of {fn} does not elaborate: {body[:200]}")
        body = body[len("some"):].strip()
        if body.startswith("(") and body.endswith(")"):
            body = body[1:-1]
        out.append(f"def nodes_{fn} : Array CNode := {body}")
        out.append("")
    out.append("end Gen")
    return "\n".join(out) + "\n"


def write_if_changed(path, text):
    old = open(path).read() if os.path.exists(path) else None
    if old != text:
        with open(path, "w") as f:
            f.write(text)
    return old != text


def main():
    if "--lib" in sys.argv:
        try:
            lib_path = os.path.join(os.path.dirname(OUT), "GeneratedLib.lean")
            ch1 = write_if_changed(lib_path, generate_lib())
            ch2 = write_if_changed(os.path.join(os.path.dirname(OUT), "GeneratedLibNodes.lean"), generate_lib_nodes(lib_path))
            print("generated library model", "(changed)" if (ch1 or ch2) else "(unchanged)")
            return 0
        except Untranslatable as e:
            print(f"UNTRANSLATABLE: {e}")
            return 3
    try:
        text = generate()
    except Untranslatable as e:
        print(f"UNTRANSLATABLE: {e}")
        return 3
    old = open(OUT).read() if os.path.exists(OUT) else None
    if old != text:
        with open(OUT, "w") as f:
            f.write(text)
    print("generated", OUT, "(changed)" if old != text else "(unchanged)")
    return 0


if __name__ == "__main__":
    sys.exit(main())
