"""C16 — a for loop equals its unrolling."""
from gen import gen_loops
from props._semprop import simple

from common import prove

MODULE = 'Proofs.Props.C16'
THEOREMS = ['Facto.C16_iteration_values', 'Facto.loop1_eq', 'Facto.loop2_eq', 'Facto.mem_iterUp', 'Facto.iterValues_nil_of_empty',
            'Facto.checkAll_sound', 'Facto.scalar_end_to_end', 'Facto.enable_end_to_end']


def run(res, tier):
    proved = prove(res, MODULE, THEOREMS)
    simple(res, tier, gen_loops, 64, 1000, "seeded generator of range loops over (start, stop, step) in [-6,6]^2 x {none, +-1, +-2, +-3}, int-variable bounds, list iterators, nested loops; bodies place a lamp per iteration whose enable uses the iterator, so every iteration is observed")
    if not proved:
        res.violation({"reason": "a proof obligation of C16 no longer checks", "problems": res.proof_problems,
                       "log": res.proof_log[-1500:], "obligation": MODULE}, failing_input=False)
