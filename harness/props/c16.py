"""C16 — a for loop equals its unrolling."""
from gen import gen_loops
from props._semprop import simple


def run(res, tier):
    simple(res, tier, gen_loops, 64, 1000, "seeded generator of range loops over (start, stop, step) in [-6,6]^2 x {none, +-1, +-2, +-3}, int-variable bounds, list iterators, nested loops; bodies place a lamp per iteration whose enable uses the iterator, so every iteration is observed")
