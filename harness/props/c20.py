"""C20 — every named result is exposed and labelled."""
import re

from common import prove, seed
from gen import gen_bundle, gen_functions, gen_gated, gen_scalar
from props._semprop import fill
from sem import run_semantic

MODULE = "Proofs.Props.C01"
THEOREMS = ["Facto.Circuit.settle", "Facto.Circuit.settled_fixpoint", "Facto.scalar_end_to_end", "Facto.observed_scalar_end_to_end", "Facto.observed_bundle_end_to_end"]


def labels(rec):
    ents = rec["printed"]["blueprint"]["entities"]
    ids = rec["entity_ids"]
    return {i: e for i, e in zip(ids, ents)}


def structural(res, stats, case, verdict):
    rec = case
    by_id = labels(rec)
    names = rec.get("names", {})
    wires = rec["printed"]["blueprint"].get("wires", [])
    num_of = {i: e["entity_number"] for i, e in by_id.items()}
    def aliases(nm):
        """names the compiler binds to the same producer (Signal b = a; Bundle b = { a })"""
        ref = names.get(nm) or {}
        src = ref.get("src") if isinstance(ref, dict) else None
        return {n for n, r in names.items() if isinstance(r, dict) and r.get("src") == src and src}

    ir = {op["id"]: op for op in rec.get("ir_final", [])}

    def func_locals(n, inside=False, acc=None):
        """names declared (or bound as parameters) inside function bodies"""
        acc = set() if acc is None else acc
        if isinstance(n, list):
            for x in n:
                func_locals(x, inside, acc)
        elif isinstance(n, dict):
            if n.get("k") == "Func":
                acc.update(p["name"] for p in n.get("params", []))
                func_locals(n.get("body"), True, acc)
            else:
                if inside and n.get("k") in ("Decl", "MemDecl"):
                    acc.add(n.get("name"))
                for v in n.values():
                    if isinstance(v, (list, dict)):
                        func_locals(v, inside, acc)
        return acc
    flocals = func_locals(rec.get("ast"))
    for out in verdict.get("outputs", []):
        nm, line = out["name"], out["line"]
        ref = names.get(nm) or {}
        src = ref.get("src") if isinstance(ref, dict) else None
        if not src:
            continue
        stats["outputs_checked"] += 1
        prod = by_id.get(src)
        anchors = [i for i in by_id if i.endswith(f"_{nm}_output_anchor")]
        if prod is None and (src + "_folded") in by_id:
            res.known("F14", "a constant-propagated result is emitted as '<id>_folded' without the variable's name, line or anchor",
                      example={"source": rec["source"], "output": nm, "producer": src + "_folded",
                               "description": by_id[src + "_folded"].get("player_description")})
            stats["finding:F14"] += 1
            continue
        lowered_ids = {op["id"] for op in rec.get("ir_lowered", []) or []}
        if prod is None and src in lowered_ids and src not in ir and rec.get("options", {}).get("optimize"):
            res.known("F29", "a result merged into an identical earlier sub-expression by CSE keeps neither a label nor an anchor of its own",
                      example={"source": rec["source"], "output": nm, "eliminated": src})
            stats["finding:F29"] += 1
            continue
        if prod is None and not anchors and ir.get(src, {}).get("kind") == "IRWireMerge" and \
                any(isinstance(r2, dict) and r2.get("src") == src for k2, r2 in names.items() if k2 != nm):
            res.known("F34", "an unconsumed alias of a wire-merged bundle that is consumed under its first name has no anchor",
                      example={"source": rec["source"], "output": nm, "merge": src})
            stats["finding:F34"] += 1
            continue
        if prod is None:
            # the value has no entity of its own (wire merge / selection): the anchor alone exposes it
            if len(anchors) != 1:
                yield (nm, f"named output '{nm}' has no producer entity and {len(anchors)} anchors")
            continue
        desc = prod.get("player_description", "")
        words = set(re.split(r"[^A-Za-z0-9_]+", desc))
        is_const = prod["name"] == "constant-combinator"
        al = aliases(nm)
        if nm not in words:
            op = ir.get(src, {})
            if not (al & words):
                if op.get("debug_label") in flocals and op.get("debug_label") != nm and len(anchors) == 1:
                    res.known("F38", "a result a function returns from a named local keeps the local's name on its producer (the first label wins); only the anchor carries the declared name",
                              example={"source": rec["source"], "output": nm, "description": desc})
                    stats["finding:F38"] += 1
                elif op.get("kind") == "IRArith" and op.get("op") == "+" and op.get("right") == 0:
                    res.known("F27", "the combinator of a projection 'e | \"t\"' is labelled with the operand's name instead of the declared name",
                              example={"source": rec["source"], "output": nm, "description": desc})
                    stats["finding:F27"] += 1
                else:
                    yield (nm, f"producer {src} of '{nm}' is labelled {desc!r}: neither the name nor an alias of it appears")
            elif is_const and len(anchors) == 0:
                stats["alias_of_constant_without_own_label"] += 1
        if not re.search(r":\d+\]", desc) and not is_const:
            op = ir.get(src, {})
            if src.startswith("bundle_") or op.get("output_type") in ("signal-each", "signal-everything", "bundle"):
                res.known("F28", "bundle-valued producers are labelled with the variable's name but without the source line",
                          example={"source": rec["source"], "output": nm, "description": desc})
                stats["finding:F28"] += 1
            else:
                yield (nm, f"producer {src} of '{nm}' is labelled {desc!r}: no source line")
        if not is_const:
            if len(anchors) != 1:
                yield (nm, f"'{nm}' has {len(anchors)} output anchors (expected exactly one)")
                continue
            a = by_id[anchors[0]]
            if a["name"] != "constant-combinator" or a.get("control_behavior"):
                yield (nm, f"anchor of '{nm}' is not an empty constant combinator")
            awords = set(re.split(r"[^A-Za-z0-9_]+", a.get("player_description", "")))
            if nm not in awords or "anchor" not in awords:
                yield (nm, f"anchor of '{nm}' is labelled {a.get('player_description')!r}")
    for inp in verdict.get("inputs", []):
        ref = names.get(inp["name"]) or {}
        src = ref.get("src") if isinstance(ref, dict) else None
        e = by_id.get(src) if src else None
        stats["inputs_checked"] += 1
        if e is None or e["name"] != "constant-combinator":
            yield (inp["name"], f"named input '{inp['name']}' is not a constant combinator in the blueprint")
            continue
        desc = e.get("player_description", "")
        words = set(re.split(r"[^A-Za-z0-9_]+", desc))
        if f"value={inp['lit']}" not in desc or not (({inp["name"]} | aliases(inp["name"])) & words):
            yield (inp["name"], f"input '{inp['name']}' = {inp['lit']} is labelled {desc!r}")


def run(res, tier):
    proved = prove(res, MODULE, THEOREMS)
    n = 24 if tier == "quick" else 300
    base = seed() * 100003
    srcs = []
    for g in (gen_scalar, gen_bundle, gen_gated, gen_functions):
        srcs += [g(base + i) for i in range(n)]
    # aliases whose original is consumed elsewhere, selections of consumed bundles, aliases of inputs
    import random as _r
    for i in range(n // 2 + 3):
        rg = _r.Random(base + i)
        t1, t2 = rg.sample(["signal-A", "signal-B", "signal-C", "iron-plate", "coal"], 2)
        op = rg.choice(["+", "-", "*", "AND"])
        srcs.append(f'Signal a = ("{t1}", {rg.randint(1, 9)});\nSignal b = ("{t2}", {rg.randint(1, 9)});\n'
                    f'Signal x = a {op} b;\nSignal y = x;\nSignal w = x * {rg.randint(2, 5)};\n'
                    + (f'Signal z = a;\nSignal q = a + 1;\n' if rg.random() < 0.5 else "")
                    + (f'Bundle bb = {{ a, b }};\nSignal s = bb["{t1}"];\nBundle c = bb * 2;\n' if rg.random() < 0.5 else ""))
    # aliases and constants as outputs
    srcs += [f'Signal a = ("signal-A", {i});\nSignal b = a;\nSignal c = a + {i};\nSignal d = c;\nSignal k = {i} + 3;\n' for i in range(1, 4)]
    # one value under several unconsumed names: one anchor per name, each labelled with its own name
    srcs += [f'Signal a = ("signal-A", {i});\nSignal b = ("signal-B", 2);\nSignal c = a {op} b;\nSignal d = c;\nSignal e = c;\n'
             + (f'Signal g = (a > {i}) : b;\nSignal h1 = g;\nSignal h2 = g;\nSignal h3 = g;\nSignal u = g + 1;\n' if i % 2 else "")
             for i, op in ((1, "+"), (2, "*"), (3, "-"))]
    sources = [(s, {"optimize": True}) for s in srcs] + [(s, {"optimize": False}) for s in srcs]
    recs, infos, stats = run_semantic(res, sources, count=12 if tier == "quick" else 60, keep_lowered=True)
    for i in infos:
        v = i["verdict"]
        if not v or v.get("elab") != "ok" or "outputs" not in v:
            continue
        for nm, why in structural(res, stats, i["rec"], v):
            stats["label_violation"] += 1
            res.violation({"reason": "a named result / input is not exposed or labelled as required", "detail": why,
                           "name": nm, "source": i["source"], "options": i["rec"].get("options")})
    fill(res, infos, stats, [s for s, _ in sources],
         "programs of the scalar, bundle, gated-memory and function generators plus alias/constant outputs, optimisation on and off; for every unconsumed top-level name (computed by the reference elaborator): producer label carries name and line, exactly one empty labelled anchor unless the producer is a constant, anchor reads the value (observation), inputs are labelled constants")
    if not proved:
        res.violation({"reason": "a proof obligation of C20 no longer checks", "problems": res.proof_problems,
                       "log": res.proof_log[-1500:], "obligation": MODULE}, failing_input=False)
