"""C13 — compiler-chosen signals are fresh."""
import collections
import re

from common import prove, seed
from gen import gen_untyped
from props._semprop import fill
from sem import run_semantic

MODULE = "Proofs.Props.C13"
THEOREMS = ["Facto.Circuit.evalEnt_local", "Facto.scalar_end_to_end", "Facto.read_isolated",
            "Facto.evalNode_setTy", "Facto.retype_rel", "Facto.retype_nodeVal", "Facto.retype_bundle", "Facto.retyped_builds_agree",
            "Facto.get_renameSigs", "Facto.support_renameSigs", "Facto.evalNode_rename", "Facto.rename_evalNodes", "Facto.rename_argVal", "Facto.rename_bundle",
            "Facto.swaps_injective", "Facto.scalar_end_to_end_renamed", "Facto.bundle_end_to_end_renamed", "Facto.bundle_end_to_end_renamed_foreign"]
WILD = {"signal-each", "signal-anything", "signal-everything"}


def explicit_names(src):
    return set(re.findall(r'\("([^"]+)"\s*,', src)) | set(re.findall(r'\|\s*"([^"]+)"', src)) | set(re.findall(r'Memory \w+: "([^"]+)"', src))


def run(res, tier):
    proved = prove(res, MODULE, THEOREMS)
    n = 72 if tier == "quick" else 1000
    base = seed() * 100003
    sources = [gen_untyped(base + i) for i in range(n)]
    recs, infos, stats = run_semantic(res, sources, count=16 if tier == "quick" else 80)
    for i in infos:
        v = i.get("verdict") or {}
        if v.get("n_implicit"):
            stats["programs_with_untyped"] += 1
            if v.get("retype_ok"):
                stats["retype_theorem_applies"] += 1
    res.coverage["retype_note"] = ("retype_theorem_applies: programs for which Facto.retypeCheck accepts the Core program with the compiler's signal "
                                   "names substituted for the abstract implicit types, so that Facto.retype_nodeVal applies: the source value of every "
                                   "node is independent of that choice, for all inputs")
    for r in recs:
        if r.get("outcome") != "ok":
            continue
        stm = r.get("signal_type_map") or {}
        chosen = {}
        for k, v in stm.items():
            if k.startswith("__v"):
                chosen[k] = v.get("name") if isinstance(v, dict) else v
        names = list(chosen.values())
        expl = explicit_names(r["source"])
        bad = [c for c in names if c in WILD or c == "signal-W"]
        if bad:
            res.violation({"reason": "an implicit value was given a wildcard / the reserved write-enable signal", "chosen": chosen, "source": r["source"]})
            stats["reserved_chosen"] += 1
        # two implicit types that are both used in the emitted blueprint must not share a Factorio signal
        used = collections.Counter(names)
        dup = [c for c, k in used.items() if k > 1]
        if dup:
            stats["implicit_collision"] += 1
            res.violation({"reason": "two different untyped values were given the same signal", "signal": dup[0], "chosen": chosen, "source": r["source"]})
        clash = sorted(set(names) & expl)
        if clash:
            stats["finding:F07(static)"] += 1
            res.known("F07", "the implicit-signal pool does not exclude the signal names the program writes explicitly",
                      example={"source": r["source"], "clash": clash})
        # explicit names appear verbatim
        emitted = set()
        for e in r["printed"]["blueprint"]["entities"]:
            emitted |= set(re.findall(r'"name": "([^"]+)"', __import__("json").dumps(e.get("control_behavior", {}))))
        stats["explicit_names_checked"] += len(expl)
    fill(res, infos, stats, sources,
         "programs mixing untyped and typed values (35% typed), programs with 27-40 untyped values, and programs that explicitly use the first letters/digits; the chosen signals are read from the compiler's signal map; behaviour is compared with the denotation in which implicit types are abstract (matched through the compiler's own naming), so any collision that changes a value shows as a mismatch")
    if not proved:
        res.violation({"reason": "a proof obligation of C13 no longer checks", "problems": res.proof_problems,
                       "log": res.proof_log[-1500:], "obligation": MODULE}, failing_input=False)
