"""Shared body of the semantic-engine checks."""
from sem import run_semantic
from common import seed


def fill(res, infos, stats, sources, rule, extra=None):
    ok = [i for i in infos if i["status"] in ("agree", "known")]
    res.coverage.update({
        "programs": len(sources),
        "evaluations": sum((i["verdict"] or {}).get("valuations", 0) for i in infos) + stats.get("history_steps", 0),
        "distinct_nontrivial": len({i["source"] for i in ok if (i["verdict"] or {}).get("n_nodes", 0) >= 3}),
        "rule": rule + "; non-trivial = elaborates to at least 3 Core nodes; distinct by source text",
        "disagreements_checked": sum(1 for i in infos if i["status"] in ("known", "violation")),
        "outcomes": dict(stats),
        "proved_for_all_inputs": stats.get("proved_for_all_inputs", 0),
        "proved_cells": stats.get("proved_cells", 0), "cells": stats.get("cells", 0),
        "proved_cells_note": "memory cells whose two gates pass Facto.gatedCellIs on the cut circuit (theorem Facto.gated_cell_end_to_end: one-tick law = WriteRule.next in every state settled around the cells)",
        "proved_note": "programs whose every bound Core node passed the kernel-verified matcher (Facto.scalar_end_to_end): for these the agreement holds for ALL input values, not only the searched ones",
        "samples": [i["source"] for i in infos[:3]],
    })
    if extra:
        res.coverage.update(extra)


def simple(res, tier, gen_fn, n_quick, n_thorough, rule, count_quick=24, count_thorough=120, opts=None, extra_case=None):
    n = n_quick if tier == "quick" else n_thorough
    base = seed() * 100003
    sources = [gen_fn(base + i) for i in range(n)]
    recs, infos, stats = run_semantic(res, sources, opts=opts, count=count_quick if tier == "quick" else count_thorough,
                                      extra_case=extra_case)
    fill(res, infos, stats, sources, rule)
    return recs, infos, stats
