"""C17 — imports are textual inclusion and the standard library meets its contracts."""
import collections
import json
import os
import random
import re
import shutil
import subprocess
import tempfile

from common import prove, seed, REPO, HERE, regenerate
from pipeline import run_driver
from sem import run_semantic

MODULE = "Proofs.Props.C17"
LIBFN = ["abs", "sign", "min", "max", "clamp", "between", "get_bit", "set_bit", "clear_bit", "toggle_bit", "div_floor", "mod_positive", "lerp"]
THEOREMS = [f"Facto.{f}_elab" for f in LIBFN] + \
           ["Facto.abs_spec", "Facto.sign_spec", "Facto.min_spec", "Facto.max_spec", "Facto.clamp_spec", "Facto.between_spec",
            "Facto.get_bit_spec", "Facto.set_bit_spec", "Facto.toggle_bit_spec", "Facto.clear_bit_spec", "Facto.lerp_spec",
            "Facto.div_floor_spec_partial", "Facto.div_floor_spec", "Facto.mod_positive_spec"]


def make_graph(rng, root, k):
    """a project directory with main.facto and library files importing each other (chains, diamonds, cycles,
    repeated imports); every file defines one function; returns (main path, {path: text}, pasted twin)"""
    shape = rng.choice(["chain", "diamond", "cycle", "twice", "subdir", "shadow_lib"])
    d = os.path.join(root, f"proj{k}")
    os.makedirs(os.path.join(d, "sub"), exist_ok=True)
    files = {}

    def fn(name, body="return s + 1;"):
        return f"func {name}(Signal s) {{\n    {body}\n}}\n"
    if shape == "chain":
        files["a.facto"] = 'import "b.facto";\n' + fn("fa", "return fb(s) * 2;")
        files["b.facto"] = 'import "c";\n' + fn("fb", "return fc(s) + 3;")          # suffix added
        files["c.facto"] = fn("fc", "return s - 7;")
        main = 'import "a.facto";\nSignal x = ("signal-X", 5);\nSignal r = fa(x);\n'
    elif shape == "diamond":
        files["l.facto"] = 'import "base.facto";\n' + fn("fl", "return fbase(s) + 1;")
        files["r.facto"] = 'import "base.facto";\n' + fn("fr", "return fbase(s) * 3;")
        files["base.facto"] = fn("fbase", "return s + 10;")
        main = 'import "l.facto";\nimport "r.facto";\nSignal x = ("signal-X", 5);\nSignal r = fl(x) + fr(x);\n'
    elif shape == "cycle":
        files["p.facto"] = 'import "q.facto";\n' + fn("fp", "return s + 2;")
        files["q.facto"] = 'import "p.facto";\n' + fn("fq", "return s * 5;")
        main = 'import "p.facto";\nSignal x = ("signal-X", 5);\nSignal r = fp(x) + fq(x);\n'
    elif shape == "twice":
        files["u.facto"] = fn("fu", "return s XOR 9;")
        main = 'import "u.facto";\nimport "u.facto";\nSignal x = ("signal-X", 5);\nSignal r = fu(x);\n'
    elif shape == "subdir":
        files["sub/inner.facto"] = 'import "helper.facto";\n' + fn("finner", "return fhelper(s) + 4;")
        files["sub/helper.facto"] = fn("fhelper", "return s * 6;")     # resolved next to the importing file
        main = 'import "sub/inner.facto";\nSignal x = ("signal-X", 5);\nSignal r = finner(x);\n'
    else:  # a neighbour with the name of a bundled library file: the neighbour wins
        files["math.facto"] = "func abs(Signal x) {\n    return x * 3;\n}\n"
        main = 'import "math.facto";\nSignal x = ("signal-X", 5);\nSignal r = abs(x);\n'
    for rel, text in files.items():
        p = os.path.join(d, rel)
        os.makedirs(os.path.dirname(p), exist_ok=True)
        open(p, "w").write(text)
    mp = os.path.join(d, "main.facto")
    open(mp, "w").write(main)
    return shape, mp, {os.path.join(d, rel): t for rel, t in files.items()}, main


def strip_loc(canon_json: str) -> str:
    return re.sub(r"\[[^\]\[]*?(:\d+)?\] ", "", canon_json)


def run(res, tier):
    # library model regenerated from lib/math.facto through the real parser
    p = subprocess.run(["python3", os.path.join(HERE, "py2lean.py"), "--lib"], capture_output=True, text=True,
                       env=dict(os.environ, FACTO_REPO=REPO))
    lib_ok = p.returncode == 0
    proved = prove(res, MODULE, THEOREMS) if lib_ok else False
    stats = collections.Counter()
    rng = random.Random(seed())
    root = os.path.realpath(tempfile.mkdtemp(prefix="c17_"))
    decoy = os.path.join(root, "decoy_cwd")
    os.makedirs(decoy)
    for nm in ("a.facto", "base.facto", "helper.facto", "u.facto", "math.facto", "p.facto"):
        open(os.path.join(decoy, nm), "w").write("func decoy_should_not_be_used(Signal s) {\n    return s + 1000;\n}\n")
    n = 8 if tier == "quick" else 80
    graphs = [make_graph(rng, root, k) for k in range(n)]
    libdir = os.path.join(REPO, "lib")
    pkgdir = os.path.join(REPO)
    cwds = [root, REPO, decoy]
    outs = {}
    procs = []
    for cwd in cwds:
        jobs = [{"id": k, "main": g[1]} for k, g in enumerate(graphs)]
        pr = subprocess.Popen(["/venv/bin/python", os.path.join(HERE, "imprun.py")], stdin=subprocess.PIPE, stdout=subprocess.PIPE,
                              stderr=subprocess.PIPE, text=True, cwd=cwd, env=dict(os.environ, FACTO_REPO=REPO, PYTHONPATH=REPO))
        procs.append((cwd, pr, "\n".join(json.dumps(j) for j in jobs) + "\n"))
    for cwd, pr, text in procs:
        o, e = pr.communicate(text, timeout=3000)
        outs[cwd] = {json.loads(l)["id"]: json.loads(l) for l in o.splitlines() if l.startswith("{")}
    # model expansion for every (graph, cwd)
    lib_files = {os.path.join(libdir, f): open(os.path.join(libdir, f)).read() for f in os.listdir(libdir) if f.endswith(".facto")}
    cases = []
    for cwd in cwds:
        decoys = {os.path.join(cwd, f): open(os.path.join(cwd, f)).read() for f in os.listdir(cwd) if f.endswith(".facto")} if cwd != REPO else {}
        ex = os.path.join(cwd, "example_programs")
        exf = {os.path.join(ex, f): open(os.path.join(ex, f)).read() for f in os.listdir(ex) if f.endswith(".facto")} if os.path.isdir(ex) else {}
        for k, (shape, mp, files, main) in enumerate(graphs):
            allf = dict(lib_files)
            allf.update(decoys)
            allf.update(exf)
            allf.update(files)
            cases.append({"id": f"{cwds.index(cwd)}:{k}", "mode": "imports", "files": allf, "source": main, "base": os.path.dirname(mp),
                          "search": [cwd, ex, pkgdir, libdir]})
    mv = {c["id"]: v for c, v in zip(cases, run_driver(cases))}
    canon_cases = []
    for ci, cwd in enumerate(cwds):
        for k, g in enumerate(graphs):
            o = outs[cwd].get(k) or {}
            m = mv.get(f"{ci}:{k}") or {}
            stats["expansions_compared"] += 1
            stats[f"shape:{g[0]}"] += 1
            if o.get("expanded") is None:
                if not m.get("error"):
                    res.violation({"reason": "the preprocessor fails where the model resolves every import", "error": o.get("expand_error") or o.get("error"),
                                   "cwd": cwd, "shape": g[0], "main": g[3]})
                    stats["expansion_mismatch"] += 1
                continue
            if m.get("error") or o["expanded"] != m.get("text"):
                stats["expansion_mismatch"] += 1
                res.violation({"reason": "the expanded text differs from textual inclusion with 'importing file's directory first' resolution",
                               "cwd": cwd, "shape": g[0], "main": g[3], "real": o["expanded"][:600], "model": (m.get("text") or "")[:600],
                               "model_error": m.get("error")})
            if o.get("ok"):
                canon_cases.append({"id": f"{ci}:{k}", "mode": "canon", "printed": o["printed"]})
            else:
                stats["import_program_rejected"] += 1
                res.violation({"reason": "an importing program is rejected", "error": o.get("error"), "cwd": cwd, "shape": g[0], "main": g[3]})
    # pasted twins: the model's own expansion, compiled from a string
    twins = []
    for k, g in enumerate(graphs):
        m = mv.get(f"0:{k}") or {}
        twins.append(m.get("text") or "")
    from pipeline import compile_many
    trecs = compile_many(twins)
    for k, r in enumerate(trecs):
        if r["outcome"] == "ok":
            canon_cases.append({"id": f"twin:{k}", "mode": "canon", "printed": r["printed"]})
    cv = {c["id"]: strip_loc(json.dumps(v.get("canon"), sort_keys=True)) for c, v in zip(canon_cases, run_driver(canon_cases))}
    for k, g in enumerate(graphs):
        forms = {ci: cv.get(f"{ci}:{k}") for ci in range(len(cwds))}
        forms["twin"] = cv.get(f"twin:{k}")
        vals = {v for v in forms.values() if v is not None}
        stats["circuits_compared"] += len([v for v in forms.values() if v is not None])
        if len(vals) > 1:
            stats["import_vs_paste_differ"] += 1
            res.violation({"reason": "the importing program does not compile to the same circuit from every working directory / as the pasted text",
                           "shape": g[0], "main": g[3], "distinct_circuits": len(vals)})
    shutil.rmtree(root, ignore_errors=True)
    # library functions, end to end: calls with input arguments through the semantic engine
    lib_text = open(os.path.join(REPO, "lib", "math.facto")).read()
    progs = []
    for f, nargs in (("abs", 1), ("sign", 1), ("min", 2), ("max", 2), ("div_floor", 2), ("mod_positive", 2)):
        decl = "".join(f'Signal a{i} = ("signal-{"ABC"[i]}", {rng.randint(-20, 20) or 1});\n' for i in range(nargs))
        progs.append(lib_text + decl + f"Signal r = {f}({', '.join('a%d' % i for i in range(nargs))});\n")
    for f in ("clamp", "between"):
        lo, hi = sorted(rng.sample(range(-20, 30), 2))
        progs.append(lib_text + f'Signal a0 = ("signal-A", 3);\nSignal r = {f}(a0, {lo}, {hi});\n')
    for f in ("get_bit", "set_bit", "clear_bit", "toggle_bit"):
        progs.append(lib_text + f'Signal a0 = ("signal-A", 10);\nSignal r = {f}(a0, {rng.randint(0, 30)});\n')
    recs, infos, st = run_semantic(res, progs, count=40 if tier == "quick" else 400)
    stats.update({"lib_" + k: v for k, v in st.items()})
    res.coverage.update({
        "programs": len(graphs) * len(cwds) + len(progs), "evaluations": stats["expansions_compared"] + stats["circuits_compared"] + sum((i["verdict"] or {}).get("valuations", 0) for i in infos),
        "distinct_nontrivial": len(graphs) + len(progs),
        "rule": "generated project directories (chains with suffix-less imports, diamonds, cycles, a file imported twice, imports resolved next to an importing file in a sub-directory, a neighbour named like a bundled library file) expanded and compiled from three working directories (project root, repository root, a directory full of same-named decoy files); the real expansion must equal the Lean model's, and all builds must have the canonical circuit of the pasted twin; library: each function called with input arguments, compared with the reference denotation over seeded / boundary valuations",
        "disagreements_checked": stats["expansion_mismatch"] + stats["import_vs_paste_differ"],
        "outcomes": dict(stats), "samples": [graphs[0][3], graphs[1][3]],
    })
    if not lib_ok:
        res.violation({"reason": "lib/math.facto can no longer be translated into the Lean library model", "log": (p.stdout + p.stderr)[-600:],
                       "obligation": "harness/py2lean.py --lib"}, failing_input=False)
    elif not proved:
        found = any(i["status"] == "violation" for i in infos)
        if not found:
            # search the model of the *current* library text (re-translated above) for operands on which a documented
            # contract fails: lean/LibSearch.lean evaluates every contract on an edge grid
            from common import LEAN_DIR
            ls = subprocess.run(["lake", "env", "lean", "--run", "LibSearch.lean"], cwd=LEAN_DIR, capture_output=True, text=True, timeout=1200)
            fails = [json.loads(l) for l in ls.stdout.splitlines() if l.startswith("{")]
            stats["contract_search_failures"] = len(fails)
            if fails:
                found = True
                res.violation({"reason": "a library function of lib/math.facto does not meet its documented contract on these operands (model of the current library text, lean/LibSearch.lean); the contract theorem no longer checks",
                               "failing_inputs": fails, "problems": res.proof_problems, "obligation": MODULE,
                               "replay_hint": "cd /verif/lean && lake env lean --run LibSearch.lean"})
        if not found:
            res.violation({"reason": "a library contract or elaboration obligation of C17 no longer checks", "problems": res.proof_problems,
                           "log": res.proof_log[-1500:], "obligation": MODULE}, failing_input=False)
