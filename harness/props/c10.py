"""C10 — optimisation never changes what the circuit does."""
import collections

from common import prove, seed
from gen import gen_bundle, gen_cse, gen_entities, gen_gated, gen_iterate, gen_latch, gen_scalar
from props._semprop import fill
from sem import run_semantic

MODULE = "Proofs.Props.C10"
THEOREMS = ["Facto.Circuit.settle", "Facto.Circuit.settled_fixpoint", "Facto.Circuit.settled_stable", "Facto.Circuit.evalEnt_local", "Facto.scalar_end_to_end", "Facto.checkAll_sound", "Facto.Circuit.history_independent", "Facto.scalar_history_end_to_end", "Facto.bundle_end_to_end", "Facto.enable_end_to_end", "Facto.two_builds_agree", "Facto.prune_run", "Facto.scalar_end_to_end_pruned"]


def cse_key(op):
    """the fields a sound sharing key must contain (operator, operands, output type, output mode/value)"""
    if op.get("kind") == "IRDecider":
        conds = tuple((c.get("comparator"), repr(c.get("first_operand")), repr(c.get("second_operand")), c.get("compare_type"))
                      for c in op.get("conditions") or [])
        return ("d", op.get("test_op"), repr(op.get("left")), repr(op.get("right")), conds, op.get("output_type"))
    if op.get("kind") == "IRArith":
        return ("a", op.get("op"), repr(op.get("left")), repr(op.get("right")), op.get("output_type"))
    return None


def f10_signature(rec):
    """two deciders equal in condition and output type but different in output mode: one copies its
    input, the other emits a constant, while output_value is the same literal in both (finding F10)"""
    groups = collections.defaultdict(list)
    for op in rec.get("ir_lowered", []) or []:
        k = cse_key(op)
        if k and op.get("kind") == "IRDecider":
            groups[k].append(op)
    for ops in groups.values():
        modes = {(bool(o.get("copy_count_from_input")), repr(o.get("output_value"))) for o in ops}
        if len({m[0] for m in modes}) > 1 and len({m[1] for m in modes}) == 1:
            return True
    return False


def run(res, tier):
    proved = prove(res, MODULE, THEOREMS)
    n = 10 if tier == "quick" else 150
    base = seed() * 100003
    srcs = []
    for g, k in ((gen_cse, 4 * n), (gen_scalar, 2 * n), (gen_bundle, n), (gen_gated, n), (gen_iterate, n), (gen_latch, n), (gen_entities, n)):
        srcs += [g(base + i) for i in range(k)]
    sources = [(s, {"optimize": True}) for s in srcs] + [(s, {"optimize": False}) for s in srcs]

    def classify_extra(case, verdict, mm):
        if case.get("options", {}).get("optimize") and f10_signature(case):
            return ("F10", "CSE key omits the output mode: a copy-mode decider and a constant-mode decider with the same condition are merged")
        return None
    recs, infos, stats = run_semantic(res, sources, count=16 if tier == "quick" else 80, classify_extra=classify_extra, keep_lowered=True)
    # pairwise: the two builds of one source must have the same status w.r.t. the source semantics
    by_src = collections.defaultdict(dict)
    for i in infos:
        by_src[i["source"]][bool(i["rec"].get("options", {}).get("optimize"))] = i
    differ = 0
    for s, d in by_src.items():
        if True in d and False in d and d[True]["status"] != d[False]["status"]:
            differ += 1
    stats["builds_with_different_status"] = differ
    fill(res, infos, stats, [s for s, _ in sources],
         "every program of the CSE-stress generator (pairs of sub-expressions differing in one field; folded constants consumed by arithmetic, entity conditions and memory writes) and of the C01-C06 generators, compiled with and without optimisation; both builds are related to the same denotation, hence to each other")
    if not proved:
        res.violation({"reason": "a proof obligation of C10 no longer checks", "problems": res.proof_problems,
                       "log": res.proof_log[-1500:], "obligation": MODULE}, failing_input=False)
