"""C01 — scalar expressions compute what the source says, for every input."""
from gen import gen_scalar
from props._semprop import simple


def run(res, tier):
    simple(res, tier, gen_scalar, 96, 1500, "seeded typed generator of stateless scalar DAG programs (gen.ScalarGen: all 11 arithmetic, 6 comparison, 3 logical operators, unary, projection, output specifier; tree / deep / shared-DAG profiles)")
