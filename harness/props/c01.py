"""C01 — scalar expressions compute what the source says, for every input."""
from gen import gen_scalar
from sem import run_semantic
from common import seed


def run(res, tier):
    n = 96 if tier == "quick" else 1500
    base = seed() * 100003
    sources = [gen_scalar(base + i) for i in range(n)]
    recs, infos, stats = run_semantic(res, sources, count=24 if tier == "quick" else 200)
    distinct = len({i["source"] for i in infos if i["status"] in ("agree", "known") and i["verdict"].get("n_nodes", 0) >= 3})
    res.coverage.update({
        "programs": len(sources), "evaluations": sum((i["verdict"] or {}).get("valuations", 0) for i in infos),
        "distinct_nontrivial": distinct,
        "rule": "seeded typed generator of stateless scalar DAG programs (gen.ScalarGen); non-trivial = at least 3 Core nodes; distinct by source text",
        "disagreements_checked": sum(1 for i in infos if i["status"] in ("known", "violation")),
        "outcomes": dict(stats),
        "samples": [i["source"] for i in infos[:3]],
    })
