"""C01 — scalar expressions compute what the source says, for every input."""
from gen import gen_scalar
from props._semprop import simple

from common import prove

MODULE = 'Proofs.Props.C01'
THEOREMS = ['Facto.mirroredComparator_spec', 'Facto.emitted_mirror_sound', 'Facto.cmp_mirror', 'Facto.condIs_sound', 'Facto.constVal_sound', 'Facto.Circuit.settle', 'Facto.Circuit.settled_fixpoint', 'Facto.Circuit.settled_stable', 'Facto.Circuit.checkRanked_sound', 'Facto.Circuit.evalEnt_local', 'Facto.get_evalArith_scalar', 'Facto.get_evalDecider_single', 'Facto.rule_arith', 'Facto.rule_neg', 'Facto.rule_proj', 'Facto.rule_and_bool', 'Facto.rule_or_bool', 'Facto.rule_not', 'Facto.rule_cmp', 'Facto.rule_gate_copy', 'Facto.boolI_is_bool',
            'Facto.read_isolated', 'Facto.emits_evalEnt', 'Facto.matchOperand_sound', 'Facto.opIs_sound', 'Facto.entIs_sound',
            'Facto.chain_sound', 'Facto.lowerings_sound', 'Facto.checkNode_sound', 'Facto.checkAll_sound', 'Facto.scalar_end_to_end',
            'Facto.MatchExample.accepts', 'Facto.MatchExample.ranked', 'Facto.MatchExample.holds_for_all_inputs', 'Facto.MatchExample.rhs_value', 'Facto.observed_scalar_end_to_end', "Facto.Circuit.settle_from", "Facto.Circuit.fixpoint_unique", "Facto.Circuit.history_independent", "Facto.scalar_history_end_to_end", "Facto.evalEnt_congr", "Facto.prune_run", "Facto.restrict_run", "Facto.scalar_end_to_end_pruned", "Facto.scalar_end_to_end_cone", "Facto.observed_scalar_end_to_end_pruned",
            "Facto.components_sound", "Facto.components_complete", "Facto.components_exact", "Facto.mem_prodOf_iff", "Facto.prodR_eq", "Facto.prodG_eq"]


def run(res, tier):
    proved = prove(res, MODULE, THEOREMS)
    simple(res, tier, gen_scalar, 96, 1500, "seeded typed generator of stateless scalar DAG programs (gen.ScalarGen: all 11 arithmetic, 6 comparison, 3 logical operators, unary, projection, output specifier; tree / deep / shared-DAG profiles)")
    if not proved:
        res.violation({"reason": "a proof obligation of C01 no longer checks", "problems": res.proof_problems,
                       "log": res.proof_log[-1500:], "obligation": MODULE}, failing_input=False)
