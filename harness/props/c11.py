"""C11 — compile-time arithmetic equals run-time arithmetic."""
import collections

import gencheck
from common import prove, seed
from gen import gen_constexpr
from sem import run_semantic

THEOREMS = ["Facto.C11_fold_add", "Facto.C11_fold_sub", "Facto.C11_fold_mul", "Facto.C11_fold_and", "Facto.C11_fold_or",
            "Facto.C11_fold_xor", "Facto.C11_fold_shl", "Facto.C11_fold_shr", "Facto.C11_fold_pow", "Facto.C11_fold_pow_neg",
            "Facto.C11_fold_div_zero", "Facto.C11_fold_mod_zero", "Facto.C11_fold_div_partial", "Facto.C11_fold_div_not_total",
            "Facto.C11_fold_mod_partial", "Facto.C11_fold_mod_not_total", "Facto.C11_fold_lt", "Facto.C11_fold_gt",
            "Facto.C11_fold_le", "Facto.C11_fold_ge", "Facto.C11_fold_eq", "Facto.C11_fold_ne",
            "Facto.C11_opt_add", "Facto.C11_opt_sub", "Facto.C11_opt_mul", "Facto.C11_opt_and", "Facto.C11_opt_or", "Facto.C11_opt_xor",
            "Facto.C11_opt_shl", "Facto.C11_opt_shr", "Facto.C11_opt_div_partial", "Facto.C11_opt_div_not_total",
            "Facto.C11_opt_cmp_lt", "Facto.C11_opt_cmp_gt", "Facto.C11_opt_cmp_eq", "Facto.C11_opt_cmp_ne",
            "Facto.constVal_sound", "Facto.scalar_end_to_end"]


def in_domain(q):
    op, r = q.get("op"), q.get("r", 0)
    if op in ("<<", ">>") and not (0 <= r < 32):
        return False   # A1: shift counts outside 0..31 are outside the domain of the property
    if op == "**" and r < 0:
        return False   # A2
    return True


def run(res, tier):
    proved = prove(res, "Proofs.Props.C11", THEOREMS)
    if not getattr(res, "gendriver_ok", True):
        res.violation({"reason": "the translated folders no longer elaborate", "log": res.gendriver_log,
                       "obligation": "lean/Model/Generated.lean"}, failing_input=False)
        return
    # tie 1: translated functions == the Python functions, and (search) Python functions vs combinator arithmetic
    n, tr, spec = gencheck.run(seed(), 200 if tier == "quick" else 4000)
    stats = collections.Counter()
    stats["function_queries"] = n
    for d in tr[:3]:
        res.violation({"reason": "correspondence broken: the Lean translation of a folder disagrees with the Python function; "
                                 "theorems about Gen.* no longer speak about the code", "detail": d,
                       "obligation": "harness/gencheck.py translator correspondence"}, failing_input=False)
    found_input = False
    for d in spec:
        q = d["q"]
        if q["fn"] == "iter" or not in_domain(q):
            continue
        if q.get("op") in ("/", "%") and (q["l"] < 0 or q["r"] < 0):
            res.known("F05", "the folders use Python floor division / modulo; combinators truncate toward zero (negative operand)", example=d)
            stats["finding:F05(function)"] += 1
            continue
        found_input = True
        stats["function_violation"] += 1
        if stats["function_violation"] <= 3:
            res.violation({"reason": "a folder's result, truncated to 32 bits, differs from the combinator's", **d,
                           "replay": "ConstantFolder.fold_binary_operation / ConstantPropagationOptimizer._fold_* on these operands"})
    if not proved and not found_input:
        res.violation({"reason": "a C11 proof obligation no longer checks and no failing operand pair was found",
                       "problems": res.proof_problems, "log": res.proof_log[-1500:],
                       "obligation": "Proofs/Props/C11.lean"}, failing_input=False)
    # tie 2: every folding site, end to end
    nprog = 60 if tier == "quick" else 1500
    base = seed() * 100003
    gens = [gen_constexpr(base + i) for i in range(nprog)]
    meta_of = {g[0]: g[1] for g in gens}

    def classify_extra(case, verdict, mm):
        m = meta_of.get(case["source"], {})
        if m.get("neg_divmod"):
            return ("F05", "the folders use Python floor division / modulo; combinators truncate toward zero (negative operand)")
        if m.get("overflow"):
            return ("F06", "an intermediate folded value leaves the int32 range and is not wrapped")
        return None
    recs, infos, st = run_semantic(res, [g[0] for g in gens], count=8, classify_extra=classify_extra)
    stats.update(st)
    for r in recs:
        if r["outcome"] != "ok":
            m = meta_of[r["source"]]
            if m["overflow"]:
                res.known("F06", "an intermediate folded value leaves the int32 range and is not wrapped",
                          example={"source": r["source"], "error": r["outcome"].get("message", "")[:200]})
                stats["finding:F06"] += 1
            else:
                stats["unexpected_compile_error"] += 1
                res.violation({"reason": "accepted constant expression is rejected by the compiler", "source": r["source"],
                               "error": r["outcome"].get("message", "")[:400]})
    res.coverage.update({
        "programs": nprog, "evaluations": n + sum((i["verdict"] or {}).get("valuations", 0) for i in infos),
        "distinct_nontrivial": len({g[0] for g in gens if g[1]["ops"]}),
        "rule": "functions: all 11 arithmetic + 6 comparison + 2 logical operators on the 30x30 boundary lattice plus seeded random int32 pairs, both folders, number literals in 4 bases, all ranges in [-6,6]^2 x 10 steps; programs: one constant expression (depth 1-3) in one of 7 folding positions; non-trivial = at least one operator",
        "disagreements_checked": len(spec) + len(tr), "outcomes": dict(stats),
        "positions": dict(collections.Counter(g[1]["position"] for g in gens)),
        "samples": [g[0] for g in gens[:3]],
    })
