"""C05 — set/reset latches obey set, reset, hold and the declared priority."""
from gen import gen_latch
from props._semprop import simple


def run(res, tier):
    simple(res, tier, gen_latch, 64, 900, "seeded generator of latch programs: both argument orders, set/reset as signals or comparisons on shared / different inputs, overlapping and disjoint thresholds, v = 1 / constant; one-input-at-a-time histories",
           extra_case={"steps": 16 if tier == "quick" else 80})
