"""C05 — set/reset latches obey set, reset, hold and the declared priority."""
from gen import gen_latch
from props._semprop import simple

from common import prove

MODULE = 'Proofs.Props.C05'
THEOREMS = ['Facto.C05_invert_correct', 'Facto.C05_invert_involutive', 'Facto.sr_latch_step', 'Facto.latch_inlined_set_priority', 'Facto.rs_latch_partial', 'Facto.rs_latch_not_reset_priority', 'Facto.rs_inlined_not_reset_priority', 'Facto.rs_latch_repaired', 'Facto.latch_multiplier', 'Facto.negate_spec', 'Facto.fbRow_sound', 'Facto.rowIs_sound', 'Facto.latch_step_cut', 'Facto.latch_next_eq', 'Facto.const_one_out_bool', 'Facto.latch_cell_end_to_end', 'Facto.mult_law', 'Facto.latch_value_next_eq', 'Facto.latch_value_end_to_end', "Facto.settles_around_cells", "Facto.LatchExample.accepts_reset_priority", "Facto.LatchExample.rejects_set_priority"]


def run(res, tier):
    proved = prove(res, MODULE, THEOREMS)
    simple(res, tier, gen_latch, 64, 900, "seeded generator of latch programs: both argument orders, set/reset as signals or comparisons on shared / different inputs, overlapping and disjoint thresholds, v = 1 / constant; one-input-at-a-time histories",
           extra_case={"steps": 16 if tier == "quick" else 80})
    if not proved and getattr(res, "gendriver_ok", True):
        # failing-input search on the translated inversion table: NOT (x op c) must equal x inv(op) c
        import json as _json, subprocess as _sp
        from gencheck import GENDRIVER
        ops = ["<", "<=", ">", ">=", "==", "!="]
        pyop = {"<": lambda a, b: a < b, "<=": lambda a, b: a <= b, ">": lambda a, b: a > b, ">=": lambda a, b: a >= b,
                "==": lambda a, b: a == b, "!=": lambda a, b: a != b}
        out = _sp.run([GENDRIVER], input="\n".join(_json.dumps({"fn": "invert", "op": o, "c": 7}) for o in ops) + "\n",
                      capture_output=True, text=True).stdout.splitlines()
        for o, line in zip(ops, out):
            inv, c = _json.loads(line)["gen"]
            for x in (6, 7, 8):
                if inv not in pyop or c != 7 or pyop[inv](x, c) != (not pyop[o](x, 7)):
                    res.violation({"reason": "the comparison inversion used for the inlined latch hold condition is not the negation",
                                   "operator": o, "inverted": inv, "x": x, "c": 7,
                                   "replay": f"a latch with reset={{x {o} 7}} that is on, set inactive, input x={x}: hold row 'x {inv} 7' must be NOT reset",
                                   "obligation": "Facto.C05_invert_correct"})
                    proved = True   # a failing input was found; do not add the no-failing-input line
                    break
    if not proved:
        res.violation({"reason": "a proof obligation of C05 no longer checks", "problems": res.proof_problems,
                       "log": res.proof_log[-1500:], "obligation": MODULE}, failing_input=False)
