"""C08 — every emitted blueprint can be pasted: no overlaps, all wires reach."""
import collections

from common import prove, seed
from gen import gen_layout, gen_gated, gen_latch, gen_scalar
from layoutfam import matrix, run_geo

MODULE = "Proofs.Props.C08"
THEOREMS = ["Facto.boxesOverlap_symm", "Facto.disjoint_of_tile_disjoint", "Facto.relay_invariant", "Facto.guardedAdd_inv", "Facto.tile_centre_roundtrip",
            "Facto.overlaps_sound", "Facto.wires_sound", "Facto.wireFault_none", "Facto.geoCheck_sound", "Facto.GeoExample.report_clear",
            "Facto.GeoExample.overlap_reported"]


def run(res, tier):
    proved = prove(res, MODULE, THEOREMS)
    n = 10 if tier == "quick" else 80
    base = seed() * 100003
    sources = [gen_layout(base + i, profile=i) for i in range(n)] + [gen_gated(base + i) for i in range(n // 3)] + \
              [gen_latch(base + i) for i in range(n // 3)] + [gen_scalar(base + i) for i in range(n // 3)]
    jobs = matrix(sources, tier)
    # memory cells under a near-zero solver budget, in every run: their internal wires are planned outside relay
    # routing, so a stretched layout is where an over-long wire would come from (F39)
    mem_sources = [gen_gated(base + 1000 + i) for i in range(6 if tier == "quick" else 40)]
    sources = sources + mem_sources
    jobs += [(s, {"optimize": opt, "power_poles": None, "forced_layout": "zero_budget", "want_geometry": True})
             for s in mem_sources for opt in (True, False)]
    # ... and a deterministic poor outcome: one gate of a cell (or one combinator) placed 14 tiles beyond the rest.
    # The stage must route, retry or refuse; it must not emit the over-long wire.
    jobs += [(s, {"optimize": True, "power_poles": pp, "forced_layout": "stretch", "want_geometry": True})
             for s in mem_sources[:4] + sources[: (2 if tier == "quick" else 20)] for pp in (None, "medium")]
    recs, geo, wfv, sem = run_geo(jobs)
    stats = collections.Counter()
    for r in recs:
        o = r["options"]
        key = f"poles={o['power_poles']}"
        if r["outcome"] != "ok":
            msg = r["outcome"].get("message", "")
            stats["layout_failure" if "layout" in msg.lower() else "compile_error"] += 1
            continue
        stats["blueprints"] += 1
        stats[key] += 1
        stats[f"forced={o['forced_layout']}"] += 1
        g = geo.get(r["id"]) or {}
        if "blueprint_error" in g:
            res.violation({"reason": "printed blueprint does not decode", "detail": g["blueprint_error"], "source": r["source"], "options": o})
            continue
        if g.get("overlaps"):
            stats["overlap"] += 1
            res.violation({"reason": "two entities of the emitted blueprint have intersecting collision boxes", "pairs": g["overlaps"][:5],
                           "source": r["source"], "options": o})
        for bw in g.get("bad_wires", []):
            w = r["printed"]["blueprint"]["wires"][bw["wire"]]
            names = {e["entity_number"]: e["name"] for e in r["printed"]["blueprint"]["entities"]}
            ends = (names.get(w[0]), names.get(w[2]))
            if "longer than the reach" in bw["why"] and "small-electric-pole" in ends:
                res.known("F12", "POWER_POLE_CONFIG assumes a wire reach of 9 for small poles; the game data says 7.5: wires to small poles can be too long",
                          example={"source": r["source"], "options": o, "wire": w, "why": bw["why"]})
                stats["finding:F12"] += 1
                continue
            stats["bad_wire"] += 1
            res.violation({"reason": "invalid wire in the emitted blueprint", "wire": w, "ends": ends, "why": bw["why"],
                           "source": r["source"], "options": o})
            break
        for rid, red, green in r.get("relays", []):
            if len(red) > 1 or len(green) > 1:
                stats["relay_two_networks"] += 1
                res.violation({"reason": "a relay pole carries two different circuit networks on one colour",
                               "relay": rid, "red": red, "green": green, "source": r["source"], "options": o})
                break
        s = sem.get(r["id"]) or {}
        wire = s.get("wire") or {}
        if wire.get("unjustified"):
            stats["network_bridge"] += 1
            res.violation({"reason": "a wire or relay pole joins two circuit networks that no chain of planned edges joins",
                           "connectors": wire["unjustified"][:4], "source": r["source"], "options": o})
    res.coverage.update({
        "programs": len(sources), "evaluations": len(jobs), "distinct_nontrivial": len({(j[0], str(j[1])) for j in jobs}),
        "rule": "layout-stress generator (far-apart / negative / multi-tile user entities, two independent long connections, loops of placements, fan-out with memory) plus memory, latch and scalar programs x {no poles, small, medium, big, substation} x {optimise on/off} x {normal, near-zero solver budget, first strategies forced to fail, every strategy forced to fail}; quick = a Latin-square slice of the matrix; every printed blueprint is decoded by the Lean model: pairwise collision boxes, every wire's endpoints / connectors / colours / exact squared length against the prototype reach, and network bridging (wireCheck.unjustified)",
        "disagreements_checked": stats.get("overlap", 0) + stats.get("bad_wire", 0) + stats.get("network_bridge", 0) + stats.get("finding:F12", 0),
        "outcomes": dict(stats), "samples": [jobs[0][0], str(jobs[0][1])],
    })
    if not proved:
        res.violation({"reason": "a proof obligation of C08 no longer checks", "problems": res.proof_problems,
                       "log": res.proof_log[-1500:], "obligation": MODULE}, failing_input=False)
