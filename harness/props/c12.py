"""C12 — independent computations do not interfere."""
import collections

from common import prove, seed
from gen import gen_independent
from props._semprop import fill
from sem import run_semantic

MODULE = "Proofs.Props.C12"
THEOREMS = ["Facto.Circuit.evalEnt_local", "Facto.Circuit.settle", "Facto.scalar_end_to_end", "Facto.read_isolated",
            "Facto.evalNode_mapIdx", "Facto.embed_sound", "Facto.embed_nodeVal", "Facto.retype_nodeVal", "Facto.embed_retype_nodeVal", "Facto.bundle_end_to_end", "Facto.carries_sound", "Facto.scalar_history_end_to_end", "Facto.alone_and_joint_agree"]


def crosses(rec, verdict):
    """Does any wiring anomaly of the joint build connect an entity of P's computation with one of Q's?
    Ownership: the planned-edge ancestors of the p_ names resp. the q_ names."""
    from sem import ancestors
    names = rec.get("names") or {}
    ids = set(rec.get("entity_ids", []))

    def cone(prefix):
        starts = set()
        for k, r in names.items():
            if k.startswith(prefix) and isinstance(r, dict) and r.get("src"):
                if r["src"] in ids:
                    starts.add(r["src"])
                a = f"{r['src']}_{k}_output_anchor"
                if a in ids:
                    starts.add(a)
        return ancestors(rec, starts)
    cp, cq = cone("p_"), cone("q_")
    only_p, only_q = cp - cq, cq - cp
    wire = verdict.get("wire") or {}
    pairs = [(i.get("sink"), i.get("producer")) for i in wire.get("intrusions", [])] + \
            [(i.get("sink"), i.get("producer")) for i in wire.get("pollution", [])] + \
            [(i.get("sink"), i.get("producer")) for i in wire.get("doubled", [])] + \
            [(u[1], u[0]) for u in wire.get("unselected", [])] + \
            [(u[0], u[2]) for u in wire.get("unjustified", []) if len(u) >= 3]
    for a, b in pairs:
        if (a in only_p and b in only_q) or (a in only_q and b in only_p):
            return True
    return False


def run(res, tier):
    proved = prove(res, MODULE, THEOREMS)
    n = 40 if tier == "quick" else 500
    base = seed() * 100003
    triples = [gen_independent(base + i) for i in range(n)]
    sources = []
    for p, q, pq in triples:
        sources += [p, q, pq]
    recs, infos, stats = run_semantic(res, sources, count=16 if tier == "quick" else 80)
    by_src = {i["source"]: i for i in infos}
    # provenance: in the joint build no planned edge and no physical network may join a p_ and a q_ entity
    cross = 0
    for p, q, pq in triples:
        rec = next((r for r in recs if r.get("source") == pq and r.get("outcome") == "ok"), None)
        ip, iq, ij = by_src.get(p), by_src.get(q), by_src.get(pq)
        if not (ip and iq and ij):
            continue
        # the joint program must be exactly as good as the two parts
        if ij["status"] == "violation" or (ij["status"] == "known" and ip["status"] == "agree" and iq["status"] == "agree"):
            stats["joint_worse_than_parts"] += 1
            if ij["status"] == "known" and rec is not None and not crosses(rec, ij["verdict"]):
                # the listed defect sits inside one program's own cone (it merely did not show, or was not triggered
                # by the inputs tried, when that program was compiled alone): it is that finding, not interference
                stats["joint_only_but_within_one_program"] += 1
            elif ij["status"] == "known":
                # a known wiring defect that only appears once both programs are present joins the two computations
                mm = (ij["verdict"].get("mismatches") or (ij["verdict"].get("history") or {}).get("mismatches") or [{}])[0]
                res.violation({"reason": "P and Q each behave as their source says alone, but not when compiled together",
                               "P": p, "Q": q, "joint": pq, "mismatch": mm, "wire": ij["verdict"].get("wire")})
                cross += 1
    stats["cross_interference"] = cross
    # source-level half as a theorem: P (and Q) embed into the interleaving (Facto.embed_sound)
    from pipeline import run_driver
    by_rec = {r.get("source"): r for r in recs if r.get("outcome") == "ok" and r.get("ast") is not None}
    ecases = []
    for p, q, pq in triples:
        if pq in by_rec:
            for part in (p, q):
                if part in by_rec:
                    ecases.append({"mode": "embed", "id": len(ecases), "ast": by_rec[part]["ast"], "ast2": by_rec[pq]["ast"]})
    if ecases:
        for v in run_driver(ecases):
            if v.get("elab") != "ok":
                stats["embed_not_elaborated"] += 1
            elif v.get("embeds") and v.get("names") == v.get("names_matched"):
                stats["embedded_parts"] += 1
            else:
                stats["parts_not_embedded"] += 1
    res.coverage["embedding_note"] = ("embedded_parts: parts whose Core program is found, node for node, inside the Core program of the interleaving "
                                      "(Facto.embedsCheck) with every top-level name at its image: by Facto.embed_sound each of their outputs denotes in the joint "
                                      "source exactly what it denotes alone, for all inputs")
    fill(res, infos, stats, sources,
         "pairs (P, Q) drawn from the C01/C02/C03/C05/C06 generators, renamed apart (p_/q_) so that they share no variable, memory or entity but overlap in explicit signal names and constants; P, Q and a random order-preserving interleaving are compiled; each must agree with its own denotation, and the interleaving must not be worse than its parts")
    if not proved:
        res.violation({"reason": "a proof obligation of C12 no longer checks", "problems": res.proof_problems,
                       "log": res.proof_log[-1500:], "obligation": MODULE}, failing_input=False)
