"""C09 — user-placed entities appear once, where and how the program says."""
import collections

from common import prove, seed
from gen import gen_layout, gen_loops, gen_entities, gen_functions
from layoutfam import matrix, run_geo, user_entities

MODULE = "Proofs.Props.C08"
THEOREMS = ["Facto.tile_centre_roundtrip", "Facto.disjoint_of_tile_disjoint"]


def big_grid(k):
    """k x k lamps placed by nested loops (1000+ placements in the thorough tier)"""
    return f"Signal a = (\"signal-A\", 1);\nfor i in 0..{k} {{\n    for j in 0..{k} {{\n        Entity l = place(\"small-lamp\", i * 2, j * 2);\n    }}\n}}\n"


def run(res, tier):
    proved = prove(res, MODULE, THEOREMS)
    n = 8 if tier == "quick" else 60
    base = seed() * 100003
    sources = [gen_layout(base + i, profile=i) for i in range(n)] + [gen_loops(base + i) for i in range(n)] + \
              [gen_entities(base + i) for i in range(n // 2)] + [gen_functions(base + i) for i in range(n)]
    # placements inside functions called several times, arithmetic on coordinates, negative / multi-tile
    sources += [
        'func mk(int x, int y) {\n    Entity e = place("pump", x, y);\n    return e;\n}\nEntity p1 = mk(-7, 3);\nEntity p2 = mk(4 * 2 - 1, -6);\nint k = 5;\nEntity p3 = mk(k + k, k - 9);\n',
        'int ox = -12;\nfor i in [0, 3, 6] {\n    Entity t = place("storage-tank", ox + i * 3, -8);\n    Entity c = place("steel-chest", ox + i, 4);\n}\nEntity s = place("train-stop", 20, 20, {station: "Depot"});\n',
        'func lamp_at(int x, int y) {\n    Entity e = place("small-lamp", x, y);\n    return e;\n}\nint row = 6;\nfunc machine_at(int col, int row) {\n    Entity m = place("assembling-machine-1", col, row);\n    return m;\n}\nfor x in 0..4 {\n    Entity l = lamp_at(x * 3 - 4, 2);\n}\nEntity m1 = machine_at(-9, row - 20);\nEntity m2 = machine_at(-3, row - 20);\n',
        big_grid(6 if tier == "quick" else 33),
    ]
    jobs = matrix(sources, tier, forced=(None, "zero_budget", "first_fail"))
    recs, geo, wfv, sem = run_geo(jobs, want_sem=False)
    stats = collections.Counter()
    for r in recs:
        o = r["options"]
        if r["outcome"] != "ok":
            msg = r["outcome"].get("message", "")
            stats["layout_failure" if "layout" in msg.lower() else "compile_error"] += 1
            continue
        wf = wfv.get(r["id"]) or {}
        if not wf.get("accept"):
            stats["model_rejects"] += 1
            continue
        exp, got, dyn = user_entities(r, wf)
        stats["blueprints"] += 1
        stats["placements"] += sum(exp.values())
        if dyn:
            stats["dynamic_position_placements"] += dyn
        # every constant-coordinate placement appears exactly once at its tile; nothing else is user-placed
        missing = exp - got
        extra = got - exp
        if (missing or (extra and sum(extra.values()) != dyn)) and len(r["printed"]["blueprint"]["entities"]) > 500:
            # more than 500 entities: the layout engine solves each connected component on its own and shifts the
            # components apart by a running x offset, user-placed (fixed) entities included
            res.known("F48", "with more than 500 entities the layout is decomposed into connected components that are shifted apart, user-placed entities included",
                      example={"source": r["source"][:400], "options": o, "missing": [list(k) for k in list(missing)[:3]], "unexpected": [list(k) for k in list(extra)[:3]]})
            stats["finding:F48"] += 1
            continue
        if missing or (extra and sum(extra.values()) != dyn):
            stats["placement_mismatch"] += 1
            res.violation({"reason": "user-placed entities of the printed blueprint differ from the program's placements",
                           "missing": [list(k) for k in list(missing)[:5]], "unexpected": [list(k) for k in list(extra)[:5]],
                           "source": r["source"], "options": o})
    res.coverage.update({
        "programs": len(sources), "evaluations": len(jobs), "distinct_nontrivial": len({(j[0], str(j[1])) for j in jobs}),
        "rule": "layout-stress, loop, entity and function-placement programs (int variables, loop iterators, arithmetic, negative coordinates, multi-tile prototypes, nested-loop grids up to 33x33 in the thorough tier) x pole options x optimise on/off x forced solver outcomes; expected multiset of (prototype, top-left tile) from the reference elaborator vs the printed entities the IR marks as placed, top-left tile recovered exactly from the printed centre and the prototype's tile size",
        "disagreements_checked": stats.get("placement_mismatch", 0), "outcomes": dict(stats), "samples": [sources[0], sources[-3]],
    })
    if not proved:
        res.violation({"reason": "a proof obligation of C09 no longer checks", "problems": res.proof_problems,
                       "log": res.proof_log[-1500:], "obligation": MODULE}, failing_input=False)
