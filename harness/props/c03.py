"""C03 — a gated memory cell latches the written value and holds it."""
from gen import gen_gated
from props._semprop import simple

from common import prove

MODULE = 'Proofs.Props.C03'
THEOREMS = ['Facto.gated_cell_step', 'Facto.gated_cell_only_ty', 'Facto.cell_zero_before_write', 'Facto.cell_follows', 'Facto.cell_holds', 'Facto.Circuit.settle', 'Facto.cut_fix', 'Facto.cut_inputsOK', 'Facto.gatesOK_succ', 'Facto.operandIsArg_sound', 'Facto.gated_cell_step_cut', 'Facto.gatedNext_eq_next', 'Facto.gated_cell_end_to_end', 'Facto.checkAll_sound', "Facto.settles_around_cells"]


def run(res, tier):
    proved = prove(res, MODULE, THEOREMS)
    simple(res, tier, gen_gated, 64, 800, "seeded generator of programs with 1-2 write(v, when=c) cells, stateless data/enable, 1-3 readers each; one-input-at-a-time histories, every step held until settled",
           extra_case={"steps": 14 if tier == "quick" else 60})
    if not proved:
        res.violation({"reason": "a proof obligation of C03 no longer checks", "problems": res.proof_problems,
                       "log": res.proof_log[-1500:], "obligation": MODULE}, failing_input=False)
