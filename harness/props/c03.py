"""C03 — a gated memory cell latches the written value and holds it."""
from gen import gen_gated
from props._semprop import simple


def run(res, tier):
    simple(res, tier, gen_gated, 64, 800, "seeded generator of programs with 1-2 write(v, when=c) cells, stateless data/enable, 1-3 readers each; one-input-at-a-time histories, every step held until settled",
           extra_case={"steps": 14 if tier == "quick" else 60})
