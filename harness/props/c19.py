"""C19 — the same source always yields the same logical circuit."""
import collections
import json
import os
import subprocess
import tempfile

from common import prove, seed, REPO, HERE
from gen import gen_balanced, gen_bundle, gen_entities, gen_gated, gen_latch, gen_layout, gen_scalar, gen_untyped
from pipeline import run_driver

MODULE = "Proofs.Props.C19"
THEOREMS = ["Facto.run_congr_of_same_circuit", "Facto.canonical_ignores_position"]


def run_variant(jobs, hashseed, busy=False):
    env = dict(os.environ, PYTHONHASHSEED=str(hashseed), FACTO_REPO=REPO, PYTHONPATH=REPO)
    p = subprocess.Popen(["/venv/bin/python", os.path.join(HERE, "detrun.py")], stdin=subprocess.PIPE, stdout=subprocess.PIPE,
                         stderr=subprocess.PIPE, text=True, env=env, cwd="/")
    return p


def run(res, tier):
    proved = prove(res, MODULE, THEOREMS)
    n = 6 if tier == "quick" else 15
    base = seed() * 100003
    gens = [gen_balanced, gen_scalar, gen_bundle, gen_gated, gen_latch, gen_entities, gen_untyped, lambda s: gen_layout(s, profile=s)]
    n = 2 if tier == "quick" else n
    sources = [g(base + i) for g in gens for i in range(n)][: (16 if tier == "quick" else 120)]
    unrelated = gen_untyped(base + 999)   # pollutes process-global signal tables before the real compile
    tmp = tempfile.mkdtemp(prefix="c19_")
    variants = [  # (name, hashseed, time_limit, pre, cwd)
        ("seed0", 0, None, None, None), ("seed1", 1, None, None, None), ("seed42", 42, None, None, None),
        ("seed7_budget1", 7, 1, None, None), ("seed3_after_unrelated", 3, None, unrelated, None),
    ]
    if tier != "quick":
        variants.append(("seed5_cwd", 5, None, None, tmp))
    if tier != "quick":
        variants += [("seed11_budget5", 11, 5, None, None), ("seed13_after_unrelated_budget1", 13, 1, unrelated, None),
                     ("seed17", 17, None, None, None), ("seed19_noopt", 19, None, None, None),
                     ("seed23", 23, None, None, None), ("seed29_cwd_budget1", 29, 1, None, tmp)]
    procs = []
    for name, hs, tl, pre, cwd in variants:
        jobs = [{"id": i, "source": s, "time_limit": tl, "pre": pre if i == 0 or pre else None, "cwd": cwd} for i, s in enumerate(sources)]
        p = run_variant(jobs, hs)
        procs.append((name, p, "\n".join(json.dumps(j) for j in jobs) + "\n"))
    # concurrent load: all variants run at the same time (16 cores), which is the "machine load" dimension
    import threading
    outs = {}

    def feed(name, p, text):
        o, e = p.communicate(text, timeout=6000)
        outs[name] = [json.loads(l) for l in o.splitlines() if l.startswith("{")]
    ths = [threading.Thread(target=feed, args=x) for x in procs]
    [t.start() for t in ths]
    [t.join() for t in ths]
    try:
        os.rmdir(tmp)
    except OSError:
        pass
    stats = collections.Counter()
    cases = []
    for name, recs in outs.items():
        for r in recs:
            if r.get("ok"):
                cases.append({"id": f"{name}:{r['id']}", "mode": "canon", "printed": r["printed"]})
            else:
                stats["compile_failed:" + ("layout" if "layout" in (r.get("error") or "").lower() else "other")] += 1
    verdicts = run_driver(cases) if cases else []
    canon = collections.defaultdict(dict)
    for c, v in zip(cases, verdicts):
        name, i = c["id"].rsplit(":", 1)
        canon[int(i)][name] = json.dumps(v.get("canon"), sort_keys=True)
    differing = 0
    for i, d in canon.items():
        stats["programs_compared"] += 1
        stats["builds_compared"] += len(d)
        vals = collections.Counter(d.values())
        if len(vals) > 1:
            differing += 1
            (a, _), (b, _) = vals.most_common(2)
            na = [k for k, v in d.items() if v == a][0]
            nb = [k for k, v in d.items() if v == b][0]
            ja, jb = json.loads(a), json.loads(b)
            diff = {"only_in_" + na: sorted(set(ja["entities"] + ja["networks"]) - set(jb["entities"] + jb["networks"]))[:4],
                    "only_in_" + nb: sorted(set(jb["entities"] + jb["networks"]) - set(ja["entities"] + ja["networks"]))[:4]}
            res.violation({"reason": "the same source compiled twice gives two different logical circuits", "variants": [na, nb],
                           "difference": diff, "source": sources[i]})
    stats["programs_with_different_circuits"] = differing
    res.coverage.update({
        "programs": len(sources), "evaluations": sum(len(d) for d in canon.values()),
        "distinct_nontrivial": len(set(sources)),
        "rule": "programs of the scalar, bundle, memory, latch, entity, untyped and layout generators, each compiled in fresh processes under different PYTHONHASHSEED values, solver time budgets (1 s / 5 s / default), after an unrelated compilation in the same process, from another working directory, all variants running concurrently (load); the Lean model reduces every printed blueprint to its canonical logical circuit (entity labels + partition of connectors, poles contracted) and the canonical forms must be identical",
        "disagreements_checked": differing, "outcomes": dict(stats), "variants": [v[0] for v in variants], "samples": sources[:2],
    })
    if not proved:
        res.violation({"reason": "a proof obligation of C19 no longer checks", "problems": res.proof_problems,
                       "log": res.proof_log[-1500:], "obligation": MODULE}, failing_input=False)
