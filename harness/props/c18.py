"""C18 — requested power poles power everything and form one grid."""
import collections

from common import prove, seed
from gen import gen_layout, gen_scalar, gen_gated, gen_entities
from layoutfam import matrix, run_geo, user_entities, POLE_PROTO

MODULE = "Proofs.Props.C18"
THEOREMS = ["Facto.grid_covers_1d", "Facto.grid_covers", "Facto.nearest_neighbour_not_connected",
            "Facto.powered_sound", "Facto.single_grid_sound", "Facto.copper_root_eq_conn", "Facto.copperEdge_is_wire",
            "Facto.geoCheck_sound", "Facto.GeoExample.poles_connected"]


def run(res, tier):
    proved = prove(res, MODULE, THEOREMS)
    n = 8 if tier == "quick" else 60
    base = seed() * 100003
    sources = [gen_layout(base + i, profile=i) for i in range(n)] + [gen_scalar(base + i) for i in range(n // 2)] + \
              [gen_gated(base + i) for i in range(n // 2)] + [gen_entities(base + i) for i in range(n // 2)]
    jobs = matrix(sources, tier, forced=(None, "zero_budget"))
    recs, geo, wfv, sem = run_geo(jobs)
    stats = collections.Counter()
    by_src = collections.defaultdict(dict)
    for r in recs:
        o = r["options"]
        if r["outcome"] != "ok":
            stats["layout_failure" if "layout" in r["outcome"].get("message", "").lower() else "compile_error"] += 1
            continue
        g = geo.get(r["id"]) or {}
        stats["blueprints"] += 1
        T = o["power_poles"]
        ents = r["printed"]["blueprint"]["entities"]
        ids = r["entity_ids"]
        # poles the program itself places with place("...-electric-pole", ...) are user entities, not emitted poles
        user = set(r.get("placed") or [])
        poles = [(e, i) for e, i in zip(ents, ids) if e["name"] in POLE_PROTO.values() and i not in user]
        if any(e["name"] in POLE_PROTO.values() and i in user for e, i in zip(ents, ids)):
            stats["programs_with_user_placed_poles"] += 1
        if T is None:
            # only circuit relays may be poles
            stray = [i for e, i in poles if not ("relay" in i)]
            if stray:
                stats["poles_without_option"] += 1
                res.violation({"reason": "power poles are emitted although --power-poles was not given", "poles": stray[:5],
                               "source": r["source"], "options": o})
            continue
        stats[f"poles={T}"] += 1
        wrong = [e["name"] for e, i in poles if e["name"] != POLE_PROTO[T] and "relay" not in i]
        if wrong:
            stats["wrong_pole_type"] += 1
            res.violation({"reason": f"poles of another type than the requested '{T}' are emitted", "types": sorted(set(wrong)),
                           "source": r["source"], "options": o})
        if g.get("unpowered"):
            if T == "big":
                res.known("F12", "POWER_POLE_CONFIG gives big poles a supply radius of 5; the game data says 2: entities are left outside every supply area",
                          example={"source": r["source"], "options": o, "unpowered": g["unpowered"][:5]})
                stats["finding:F12"] += 1
            elif g.get("grid_points"):
                # classify against the grid as it was laid out, before unused poles were trimmed
                unp = g["unpowered"]
                off = set(g.get("unpowered_off_grid", []))
                hole = set(g.get("unpowered_grid_hole", []))
                trimmed = [k for k in unp if k not in off]
                name_of = lambda k: ids[k - 1] if 0 < k <= len(ids) else k  # noqa: E731
                if trimmed:
                    stats["unpowered"] += 1
                    res.violation({"reason": "an entity that consumes electricity lies outside every pole's supply area although a pole of the grid as laid out covered it: that pole was removed",
                                   "entities": [name_of(k) for k in trimmed[:5]], "source": r["source"], "options": o})
                # the grid starts below / left of every user-placed entity by construction (start offset =
                # min(0, user minimum) - margin - half a spacing); what the listed finding F31 covers is the far end (the last
                # row / column may stop up to one spacing short of the area) and compiler-placed stragglers beyond the estimate
                grid = r.get("pretrim_poles") or []
                sup = (r.get("grid_supply") or 0) / 1000.0
                low_x = min(p[0] for p in grid) - sup
                low_y = min(p[1] for p in grid) - sup
                high_x = max(p[0] for p in grid) + sup
                high_y = max(p[1] for p in grid) + sup
                # at the far end the area ends `margin` (5 tiles) beyond the last user-placed tile and the last grid point
                # lies less than one spacing (2 x supply) before it: a user-placed entity can stick out of the last supply
                # square by less than supply - margin (substations only), plus its own size
                slack = max(0.0, sup - 5.0)
                geom = r.get("geometry") or []
                before_start = []
                for k in sorted(off - hole):
                    if name_of(k) in user and 0 < k <= len(geom) and geom[k - 1].get("box"):
                        b = geom[k - 1]["box"]
                        pos = ents[k - 1]["position"]
                        size = max(b[2] - b[0], b[3] - b[1]) / 1000.0
                        if pos["x"] + b[2] / 1000.0 <= low_x or pos["y"] + b[3] / 1000.0 <= low_y:
                            before_start.append(k)
                        elif pos["x"] + b[0] / 1000.0 > high_x + slack + size or pos["y"] + b[1] / 1000.0 > high_y + slack + size:
                            before_start.append(k)
                if before_start:
                    stats["unpowered"] += 1
                    res.violation({"reason": "a user-placed entity that consumes electricity lies before the start of the pole grid, or further beyond its end than the known far-end shortfall (the grid must begin below and left of every user-placed entity and end at most supply - margin short of the last one)",
                                   "entities": [name_of(k) for k in before_start[:5]], "grid_low": [low_x, low_y], "source": r["source"], "options": o})
                if [k for k in off if k not in hole and k not in before_start]:
                    res.known("F31", "entities outside the area the pole grid was laid over (user-placed entities far from the compiler-placed cluster / at negative coordinates; layout-dependent stragglers) are not powered",
                              example={"source": r["source"], "options": o, "unpowered": [name_of(k) for k in sorted(off - hole - set(before_start))[:5]]})
                    stats["finding:F31"] += 1
                if hole:
                    # the only way a lattice point inside the grid's box is missing is the skip "tile not available"; at
                    # the time the grid is laid only the program's own (fixed) entities occupy tiles. So: the lattice
                    # point whose supply square would hold the consumer is absent AND its tile is taken by a user-placed
                    # entity -> the listed F41, whoever sits in the hole; anything else is not that defect.
                    def skipped_for_user_entity(k):
                        if not (0 < k <= len(geom)) or not geom[k - 1].get("box"):
                            return False
                        xs = sorted({p[0] for p in grid})
                        ys = sorted({p[1] for p in grid})
                        sp = 2 * sup
                        pos = ents[k - 1]["position"]
                        gx = xs[0] + round((pos["x"] - xs[0]) / sp) * sp
                        gy = ys[0] + round((pos["y"] - ys[0]) / sp) * sp
                        cands = [(gx + dx * sp, gy + dy * sp) for dx in (0, -1, 1) for dy in (0, -1, 1)]
                        half = 1.0 if T in ("big", "substation") else 0.5
                        for cx, cy in cands:
                            if any(abs(cx - q[0]) < 1e-6 and abs(cy - q[1]) < 1e-6 for q in grid):
                                continue   # this lattice point exists
                            # would it have covered the consumer?
                            b = geom[k - 1]["box"]
                            if not (pos["x"] + b[0] / 1000.0 < cx + sup and pos["x"] + b[2] / 1000.0 > cx - sup and
                                    pos["y"] + b[1] / 1000.0 < cy + sup and pos["y"] + b[3] / 1000.0 > cy - sup):
                                continue
                            for j, (e2, i2) in enumerate(zip(ents, ids)):
                                if i2 in user and j < len(geom) and geom[j].get("box"):
                                    b2 = geom[j]["box"]
                                    p2 = e2["position"]
                                    # tiles the entity occupies (its collision box rounded out to whole tiles)
                                    import math
                                    x0, x1 = math.floor(p2["x"] + b2[0] / 1000.0), math.ceil(p2["x"] + b2[2] / 1000.0)
                                    y0, y1 = math.floor(p2["y"] + b2[1] / 1000.0), math.ceil(p2["y"] + b2[3] / 1000.0)
                                    # the tiles the planner reserved for the entity may be off by one from the tiles it
                                    # finally occupies (centre vs. corner conventions for multi-tile prototypes)
                                    if x0 - 1 < cx + half and x1 + 1 > cx - half and y0 - 1 < cy + half and y1 + 1 > cy - half:
                                        return True
                        return False
                    if all(name_of(k) in user or skipped_for_user_entity(k) for k in hole):
                        # the grid point whose supply square would hold a user-placed entity is skipped when the entity
                        # (or its reserved margin) occupies that tile, and nothing replaces it
                        res.known("F41", "a consumer sits in a hole of the pole grid: the grid point next to it was skipped because its tile was taken by a user-placed entity, and no other pole was added",
                                  example={"source": r["source"], "options": o, "unpowered": [name_of(k) for k in sorted(hole)[:5]]})
                        stats["finding:F41"] += 1
                    else:
                        stats["unpowered"] += 1
                        res.violation({"reason": "a compiler-placed entity that consumes electricity sits in a hole of the pole grid",
                                       "entities": [name_of(k) for k in sorted(hole)[:5]], "source": r["source"], "options": o})
            else:
                stats["unpowered"] += 1
                res.violation({"reason": "an entity that consumes electricity lies outside every pole's supply area (no pole grid was recorded for this build)",
                               "entities": g["unpowered"][:5], "source": r["source"], "options": o})
        has_user_poles = any(e["name"] in POLE_PROTO.values() and i in user for e, i in zip(ents, ids))
        if has_user_poles and g.get("pole_components", 1) != 1:
            # the decoded pole graph includes the program's own poles, which the clause does not speak about
            stats["single_network_not_evaluated(user-placed poles)"] += 1
        elif g.get("n_poles", 0) > 0 and g.get("pole_components", 1) != 1:
            # the emitter wires every pole to its nearest <= 5 neighbours (2 for relays): that never guaranteed a
            # single network (theorem Facto.nearest_neighbour_not_connected); the clause is a listed finding
            res.known("F30", "the emitted poles do not form a single electric network (nearest-k copper wiring, connectivity-blind trimming)",
                      example={"source": r["source"], "options": o, "components": g["pole_components"], "n_poles": g["n_poles"],
                               "connectable_pairs": g.get("connectable", [])[:3]})
            stats["finding:F30"] += 1
        for bw in g.get("bad_wires", []):
            if "copper" in bw["why"]:
                w = r["printed"]["blueprint"]["wires"][bw["wire"]]
                if T == "small":
                    res.known("F12", "POWER_POLE_CONFIG assumes a wire reach of 9 for small poles; the game data says 7.5",
                              example={"source": r["source"], "options": o, "wire": w})
                    stats["finding:F12"] += 1
                else:
                    stats["bad_copper"] += 1
                    res.violation({"reason": "invalid copper wire", "wire": w, "why": bw["why"], "source": r["source"], "options": o})
                break
        # adding poles changes neither behaviour nor user entities
        s = sem.get(r["id"]) or {}
        status = "mismatch" if (s.get("mismatches") or (s.get("history") or {}).get("mismatches")) else "agree"
        wf = wfv.get(r["id"]) or {}
        exp, got, dyn = user_entities(r, wf) if wf.get("accept") else (None, None, 0)
        by_src[(r["source"], o["optimize"], o["forced_layout"])][T] = (status, got)
    for key, d in by_src.items():
        pass
    for r in recs:
        if r["outcome"] != "ok":
            continue
        o = r["options"]
        key = (r["source"], o["optimize"], o["forced_layout"])
    # compare each poled build with the pole-free build of the same source / options when both exist
    base_status = {}
    for r in recs:
        if r["outcome"] == "ok" and r["options"]["power_poles"] is None:
            s = sem.get(r["id"]) or {}
            base_status[(r["source"], r["options"]["optimize"])] = "mismatch" if (s.get("mismatches") or (s.get("history") or {}).get("mismatches")) else "agree"
    for r in recs:
        if r["outcome"] != "ok" or r["options"]["power_poles"] is None:
            continue
        k = (r["source"], r["options"]["optimize"])
        if k in base_status:
            s = sem.get(r["id"]) or {}
            st = "mismatch" if (s.get("mismatches") or (s.get("history") or {}).get("mismatches")) else "agree"
            if st == "mismatch" and base_status[k] == "agree":
                stats["behaviour_changed_by_poles"] += 1
                mm = (s.get("mismatches") or (s.get("history") or {}).get("mismatches") or [{}])[0]
                res.violation({"reason": "the circuit agrees with the source without poles but not with poles", "mismatch": mm,
                               "wire": s.get("wire"), "source": r["source"], "options": r["options"]})
    res.coverage.update({
        "programs": len(sources), "evaluations": len(jobs), "distinct_nontrivial": len({(j[0], str(j[1])) for j in jobs}),
        "rule": "layout-stress, scalar, memory and entity programs x {none, small, medium, big, substation} x optimise on/off x {normal, near-zero solver budget}; Lean decodes the printed blueprint: every electric prototype's collision box must touch the supply square of a pole (exact arithmetic, prototype data from draftsman), poles joined by copper wires within reach into one component, only the requested pole type, no poles without the option, same behaviour status as the pole-free build",
        "disagreements_checked": sum(v for k, v in stats.items() if k in ("unpowered", "pole_islands", "bad_copper", "wrong_pole_type", "poles_without_option", "behaviour_changed_by_poles", "finding:F12")),
        "outcomes": dict(stats), "samples": [jobs[0][0], str(jobs[0][1])],
    })
    if not proved:
        res.violation({"reason": "a proof obligation of C18 no longer checks", "problems": res.proof_problems,
                       "log": res.proof_log[-1500:], "obligation": MODULE}, failing_input=False)
