"""C04 — self-referential writes iterate the written function exactly."""
from gen import gen_iterate
from sem import run_semantic
from props._semprop import fill
from common import seed

from common import prove

MODULE = 'Proofs.Props.C04'
THEOREMS = ['Facto.ring_iterates', 'Facto.ring_latency', 'Facto.self_feedback', 'Facto.emitsOK_runF', 'Facto.runF_const', 'Facto.ring_stage_law', 'Facto.ring_pipeline', 'Facto.ring_core', 'Facto.ring_end_to_end', 'Facto.stepIs_sound', 'Facto.always_cell_end_to_end', 'Facto.MemExample.accepts', 'Facto.MemExample.counter_counts']


def run(res, tier):
    proved = prove(res, MODULE, THEOREMS)
    n = 48 if tier == "quick" else 600
    base = seed() * 100003
    srcs = [gen_iterate(base + i) for i in range(n)]
    sources = [(s, {"optimize": True}) for s in srcs] + [(s, {"optimize": False}) for s in srcs]
    recs, infos, stats = run_semantic(res, sources, extra_case={"window": 40 if tier == "quick" else 160, "maxL": 12})
    fill(res, infos, stats, [s for s, _ in sources], "seeded generator of always-write cells whose written value is a chain of 1-4 arithmetic steps over the cell, constants and held inputs; each compiled with optimisation on and off; the check finds L with value(t+L) = f(value t) on a window of ticks from the zero state")
    if not proved:
        res.violation({"reason": "a proof obligation of C04 no longer checks", "problems": res.proof_problems,
                       "log": res.proof_log[-1500:], "obligation": MODULE}, failing_input=False)
