"""C07 — the printed blueprint string carries the whole circuit."""
import base64
import collections
import json
import os
import subprocess
import tempfile
import zlib

from common import prove, seed, REPO
from gen import gen_bundle, gen_entities, gen_gated, gen_latch, gen_scalar
from pipeline import compile_many, run_driver

MODULE = "Proofs.Props.C19"
THEOREMS = ["Facto.run_congr_of_same_circuit", "Facto.canonical_ignores_position"]

AOP = {"+": "+", "-": "-", "*": "*", "/": "/", "%": "%", "^": "^", "**": "^", "<<": "<<", ">>": ">>", "AND": "AND", "OR": "OR", "XOR": "XOR"}
COP = {"<": "<", ">": ">", "=": "=", "==": "=", ">=": ">=", "≥": ">=", "<=": "<=", "≤": "<=", "!=": "!=", "≠": "!="}
WILD = {"signal-each": "@each", "signal-anything": "@any", "signal-everything": "@all"}


def sel(wires):
    if not wires:
        return "RG"
    w = set(wires)
    return ("R" if "red" in w else "") + ("G" if "green" in w else "")


def i32(v):
    v &= 0xFFFFFFFF
    return v - (1 << 32) if v >= (1 << 31) else v


def operand(v, wires):
    if isinstance(v, bool):
        v = int(v)
    if isinstance(v, int):
        return f"#{i32(v)}"
    if isinstance(v, str):
        return f"{WILD.get(v, v)}/{sel(wires)}"
    return "?"


MIRROR = {"<": ">", ">": "<", "<=": ">=", ">=": "<=", "=": "=", "!=": "!="}


def row(a, op, b):
    """one condition row; a Factorio condition holds a constant on the right only, so the plan's `c OP s` is the
    row `s OP' c` (what the emitter must print: a constant next to a second signal is ignored by the game)"""
    op = COP.get(op, op)
    if a.startswith("#") and not b.startswith("#"):
        a, b, op = b, a, MIRROR.get(op, op)
    return f"{a}{op}{b}"


def expected_kind(p, stm):
    """canonical configuration string (same format as Lean's kindStr) from the *planned* placement properties"""
    t, pr = p["type"], p["props"]

    def fname(x):
        if isinstance(x, str):
            m = stm.get(x)
            x = (m.get("name") if isinstance(m, dict) else m) or x
        return x
    if t == "arithmetic-combinator":
        a = operand(fname(pr.get("left_operand")), pr.get("left_operand_wires"))
        b = operand(fname(pr.get("right_operand")), pr.get("right_operand_wires"))
        out = fname(pr.get("output_signal"))
        return f"arith[{a} {AOP.get(pr.get('operation'), pr.get('operation'))} {b} -> {WILD.get(out, out)}]"
    if t == "decider-combinator":
        out = fname(pr.get("output_signal"))
        copy = pr.get("copy_count_from_input", False)
        ov = pr.get("output_value", 1)
        o = f"{WILD.get(out, out)}:" + (f"copy/{sel(pr.get('output_value_wires'))}" if copy else str(i32(ov if isinstance(ov, int) else 1)))
        if pr.get("conditions"):
            cs = []
            for k, c in enumerate(pr["conditions"]):
                first = fname(c.get("first_signal")) if c.get("first_signal") else c.get("first_constant", 0)
                second = fname(c.get("second_signal")) if c.get("second_signal") else c.get("second_constant", 0)
                tag = "&" if (k > 0 and c.get("compare_type") == "and") else "|"
                cs.append(tag + row(operand(first, c.get('first_signal_wires')), c.get('comparator'), operand(second, c.get('second_signal_wires'))))
            return f"decider[{' '.join(cs)} => {o}]"
        a = operand(fname(pr.get("left_operand")), pr.get("left_operand_wires"))
        b = operand(fname(pr.get("right_operand")), pr.get("right_operand_wires"))
        return f"decider[|{row(a, pr.get('operation'), b)} => {o}]"
    if t == "constant-combinator":
        if "signals" in pr and isinstance(pr["signals"], dict) and pr["signals"]:
            items = sorted((fname(k), i32(v)) for k, v in pr["signals"].items() if i32(v) != 0)
        elif pr.get("signal_name") is not None and "value" in pr:
            items = [(fname(pr["signal_name"]), i32(pr["value"]))] if i32(pr["value"]) != 0 else []
        else:
            items = []
        return "const{" + ", ".join(f"{k}={v}" for k, v in items) + "}"
    return None


def decode_string(s):
    s = s.strip()
    return json.loads(zlib.decompress(base64.b64decode(s[1:])))


def run(res, tier):
    proved = prove(res, MODULE, THEOREMS)
    n = 6 if tier == "quick" else 40
    base = seed() * 100003
    gens = [gen_scalar, gen_bundle, gen_gated, gen_latch, gen_entities]
    sources = [g(base + i) for g in gens for i in range(n)]
    stats = collections.Counter()
    # part 1: planned configuration (LayoutPlan) vs printed text, entity by entity and wire by wire
    jobs = [(s, {"optimize": o}) for s in sources for o in (True, False)]
    recs = compile_many(jobs)
    cases = [{"id": r["id"], "mode": "canon", "printed": r["printed"]} for r in recs if r["outcome"] == "ok"]
    vs = {c["id"]: v for c, v in zip(cases, run_driver(cases))}
    for r in recs:
        if r["outcome"] != "ok":
            stats["compile_error"] += 1
            continue
        v = vs.get(r["id"]) or {}
        if "blueprint_error" in v:
            res.violation({"reason": "printed blueprint does not decode", "detail": v["blueprint_error"], "source": r["source"]})
            continue
        ids = r["entity_ids"]
        num = {i: k + 1 for k, i in enumerate(ids)}
        stm = r.get("signal_type_map") or {}
        plan = r["plan"]
        stats["blueprints"] += 1
        for pid, p in plan["entities"].items():
            want = expected_kind(p, stm)
            if want is None:
                continue
            stats["entities_compared"] += 1
            got = v["kinds"].get(str(num.get(pid)))
            if got is None:
                res.violation({"reason": "a planned entity is missing from the printed blueprint", "entity": pid, "source": r["source"], "options": r["options"]})
                stats["missing_entity"] += 1
                continue
            if got != want:
                stats["config_mismatch"] += 1
                res.violation({"reason": "the printed configuration of an entity differs from the planned one", "entity": pid,
                               "planned": want, "printed": got, "source": r["source"], "options": r["options"]})
        # wires: every planned connection is printed with the right connectors, nothing else is
        comb = {"arithmetic-combinator", "decider-combinator"}

        def conn(eid, side, colour):
            t = plan["entities"].get(eid, {}).get("type")
            basec = 1 if colour == "red" else 2
            if t in comb and side == "output":
                return basec + 2
            return basec
        want_w = collections.Counter()
        for a, sa, b, sb, colour, _sig in plan["wires"]:
            if a in num and b in num:
                e = tuple(sorted([(num[a], conn(a, sa, colour)), (num[b], conn(b, sb, colour))]))
                want_w[e] += 1
        got_w = collections.Counter()
        for w in v.get("wires", []):
            if w[1] <= 4 and w[3] <= 4:
                got_w[tuple(sorted([(w[0], w[1]), (w[2], w[3])]))] += 1
        stats["wires_compared"] += len(want_w)
        if set(want_w) != set(got_w):
            stats["wire_mismatch"] += 1
            res.violation({"reason": "the printed circuit wires differ from the planned connections",
                           "planned_only": [list(map(list, k)) for k in list(set(want_w) - set(got_w))[:4]],
                           "printed_only": [list(map(list, k)) for k in list(set(got_w) - set(want_w))[:4]],
                           "source": r["source"], "options": r["options"]})
    # part 2: every way of invoking the compiler prints the same circuit
    sample = sources[: (4 if tier == "quick" else 30)]
    tmp = tempfile.mkdtemp(prefix="c07_")
    runs = []
    env = dict(os.environ, PYTHONPATH=REPO)
    for k, src in enumerate(sample):
        path = os.path.join(tmp, f"p{k}.facto")
        open(path, "w").write(src)
        out_s, out_j = os.path.join(tmp, f"p{k}.bp"), os.path.join(tmp, f"p{k}.json")
        variants = [
            ("cli_file_string", ["/venv/bin/python", "-m", "dsl_compiler", path], None, "string"),
            ("cli_file_json", ["/venv/bin/python", "-m", "dsl_compiler", path, "--json"], None, "json"),
            ("cli_file_o", ["/venv/bin/python", "-m", "dsl_compiler", path, "-o", out_s], out_s, "string"),
            ("cli_input_json", ["/venv/bin/python", "-m", "dsl_compiler", "-i", src, "--json"], None, "json"),
            ("compile_py_string", ["/venv/bin/python", os.path.join(REPO, "compile.py"), path], None, "string"),
            ("compile_py_json_o", ["/venv/bin/python", os.path.join(REPO, "compile.py"), path, "--json", "-o", out_j], out_j, "json"),
            ("cli_noopt_json", ["/venv/bin/python", "-m", "dsl_compiler", path, "--json", "--no-optimize"], None, "json"),
            ("cli_name_poles_string", ["/venv/bin/python", "-m", "dsl_compiler", path, "--name", "My Plan", "--power-poles", "medium"], None, "string"),
        ]
        if tier == "quick":
            variants = [v for i, v in enumerate(variants) if (i + k) % 2 == 0 or i < 2]
        for name, cmd, outfile, form in variants:
            runs.append((k, name, outfile, form, subprocess.Popen(cmd, cwd=REPO, env=env, stdout=subprocess.PIPE, stderr=subprocess.PIPE, text=True)))
    decoded = collections.defaultdict(dict)
    for k, name, outfile, form, p in runs:
        out, err = p.communicate(timeout=1200)
        stats["cli_runs"] += 1
        if p.returncode != 0:
            stats["cli_failed"] += 1
            if "layout" not in (out + err).lower():
                res.violation({"reason": "an accepted program fails through this entry point", "variant": name, "stderr": err[-300:], "source": sample[k]})
            continue
        text = open(outfile).read() if outfile else out
        try:
            if form == "string":
                line = [l for l in text.splitlines() if l.strip().startswith("0e")]
                bp = decode_string(line[-1] if line else text)
            else:
                start = text.index("{")
                bp = json.loads(text[start:])
            decoded[k][name] = bp
        except Exception as e:  # noqa: BLE001
            stats["undecodable"] += 1
            res.violation({"reason": "the emitted text does not decode (base64 + zlib + JSON / JSON)", "variant": name, "error": str(e)[:200],
                           "text": text[:200], "source": sample[k]})
    for f in os.listdir(tmp):
        os.unlink(os.path.join(tmp, f))
    os.rmdir(tmp)
    cc = []
    for k, d in decoded.items():
        for name, bp in d.items():
            cc.append({"id": f"{k}:{name}", "mode": "canon", "printed": bp})
    cv = {c["id"]: v for c, v in zip(cc, run_driver(cc))} if cc else {}
    for k, d in decoded.items():
        groups = collections.defaultdict(list)
        for name in d:
            v = cv.get(f"{k}:{name}") or {}
            key = "noopt" if "noopt" in name else ("poles" if "poles" in name else "default")
            # labels quote the source name ("[p0.facto:3]" vs "[<string>:3]"): the file name is not part of the circuit
            import re as _re
            groups[key].append((name, _re.sub(r"\[[^\]\[]*?(:\d+)?\] ", "", json.dumps(v.get("canon"), sort_keys=True))))
        for key, lst in groups.items():
            if len({c for _, c in lst}) > 1:
                stats["entry_points_differ"] += 1
                res.violation({"reason": "two ways of invoking the compiler print different circuits for the same program and options",
                               "variants": [n for n, _ in lst], "source": sample[k]})
        stats["entry_point_groups"] += len(groups)
    res.coverage.update({
        "programs": len(sources), "evaluations": stats["entities_compared"] + stats["wires_compared"] + stats["cli_runs"],
        "distinct_nontrivial": len(set(sources)),
        "rule": "programs of the scalar, bundle, memory, latch and entity generators, optimisation on and off: (1) every planned placement (LayoutPlan properties: operation, operands, operand wire sets, conditions, outputs, constants) is rendered to the model's canonical configuration string and compared with the Lean decoding of the *printed* entity; planned wire connections vs printed wires with exact connector ids; (2) a sample is compiled through python -m dsl_compiler / compile.py x file / -i x string / --json x stdout / -o x --no-optimize / --name --power-poles as subprocesses, decoded (base64+zlib+JSON) and reduced to canonical logical circuits that must coincide per option group",
        "disagreements_checked": stats["config_mismatch"] + stats["wire_mismatch"] + stats["entry_points_differ"],
        "outcomes": dict(stats), "samples": sources[:2],
    })
    if not proved:
        res.violation({"reason": "a proof obligation of C07 no longer checks", "problems": res.proof_problems,
                       "log": res.proof_log[-1500:], "obligation": MODULE}, failing_input=False)
