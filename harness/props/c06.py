"""C06 — entities are driven by exactly the condition the program assigns."""
from gen import gen_entities
from props._semprop import simple


def run(res, tier):
    simple(res, tier, gen_entities, 64, 900, "seeded generator placing lamps, inserters, belts, pumps, power switches and train stops whose enable is a comparison, a general expression, a logical chain, or any()/all()/selection over a chest read through .output; chest contents are quantified like inputs")
