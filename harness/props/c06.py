"""C06 — entities are driven by exactly the condition the program assigns."""
from gen import gen_entities
from props._semprop import simple

from common import prove

MODULE = 'Proofs.Props.C06'
THEOREMS = ['Facto.get_evalDecider_single', 'Facto.rule_cmp', 'Facto.Circuit.settle', 'Facto.Circuit.settled_fixpoint', 'Facto.quantCond_sound', 'Facto.enable_sound', 'Facto.enable_end_to_end', 'Facto.checkAll_sound', 'Facto.bundle_end_to_end', 'Facto.scalar_end_to_end', "Facto.enable_end_to_end_pruned", "Facto.prune_enabled"]


def run(res, tier):
    proved = prove(res, MODULE, THEOREMS)
    simple(res, tier, gen_entities, 64, 900, "seeded generator placing lamps, inserters, belts, pumps, power switches and train stops whose enable is a comparison, a general expression, a logical chain, or any()/all()/selection over a chest read through .output; chest contents are quantified like inputs")
    if not proved:
        res.violation({"reason": "a proof obligation of C06 no longer checks", "problems": res.proof_problems,
                       "log": res.proof_log[-1500:], "obligation": MODULE}, failing_input=False)
