"""C14 — ill-formed programs are rejected and produce no blueprint."""
import collections
import json
import os
import re
import subprocess
import tempfile

from common import prove, seed, REPO
from gen import (gen_bundle, gen_entities, gen_functions, gen_gated, gen_illformed, gen_latch, gen_loops, gen_scalar)
from pipeline import compile_many, run_driver

MODULE = "Proofs.Props.C14"
THEOREMS = ["Facto.elabStmts_append_error", "Facto.elabStmts_cons_error", "Facto.elabStmts_cons_ok", "Facto.C14_violation_anywhere_rejected",
            "Facto.C14_violation_in_loop_rejected", "Facto.reserved_literal_expr_rejected", "Facto.bare_any_rejected", "Facto.bare_all_rejected", "Facto.undefined_function_rejected", "Facto.recursion_rejected", "Facto.unknown_expr_rejected"]

CLASS_OF_RULE = {
    "undef_var": {"undefined"}, "undef_func": {"undefined"}, "undef_mem": {"undefined"}, "undef_entity": {"undefined"},
    "redefine": {"redefined"}, "assign_immutable": {"immutable"}, "assign_param": {"immutable"}, "assign_iterator": {"immutable"},
    "kind_int": {"kind"}, "kind_entity": {"kind"}, "kind_param": {"kind"}, "kind_param_signal": {"kind"},
    "arity": {"arity"}, "recursion": {"recursion"}, "indirect_recursion": {"recursion"}, "bundle_dup": {"bundleDup"},
    "bundle_op_bundle": {"bundleOp"}, "bare_bundle_cmp": {"bundleCmp", "kind"}, "select_absent": {"selectAbsent"},
    "unknown_signal": {"unknownSignal"}, "reserved_literal": {"reserved"}, "reserved_proj": {"reserved"},
    "reserved_memory": {"reserved"}, "mem_type": {"memType"}, "second_write": {"memDoubleWrite"},
    "zero_step": {"zeroStep"}, "zero_step_var": {"zeroStep"}, "non_comparison_outspec": {"outspec"},
}


def names_in(src):
    return set(re.findall(r'"([^"\\]+)"', src))


def valid_signal_names(names):
    """validity of signal names according to the installed draftsman data (the table the compiler uses)"""
    code = ("import json,sys\nsys.path.insert(0,%r)\nfrom draftsman.data import signals as s\n"
            "ns=json.load(sys.stdin)\nprint(json.dumps([n for n in ns if n in s.raw]))") % REPO
    p = subprocess.run(["/venv/bin/python", "-c", code], input=json.dumps(sorted(names)), capture_output=True, text=True, cwd="/")
    return set(json.loads(p.stdout))


def looks_like_blueprint(text):
    return bool(re.search(r"\b0e[A-Za-z0-9+/=]{20,}", text)) or '"blueprint"' in text


def run(res, tier):
    proved = prove(res, MODULE, THEOREMS)
    n_bad = 160 if tier == "quick" else 3000
    n_good = 48 if tier == "quick" else 600
    base = seed() * 100003
    bad = [gen_illformed(base + i) for i in range(n_bad)]
    gens = [gen_scalar, gen_bundle, gen_gated, gen_latch, gen_entities, gen_functions, gen_loops]
    good = [gens[i % len(gens)](base + 7 * i) for i in range(n_good)]
    sources = [b[0] for b in bad] + good
    recs = compile_many(sources)
    allnames = set()
    for s in sources:
        allnames |= names_in(s)
    valid = valid_signal_names(allnames)
    cases = []
    for r in recs:
        if "ast" in r:
            cases.append({"id": r["id"], "mode": "wf", "ast": r["ast"], "known": sorted(names_in(r["source"]) & valid)})
    verdicts = {c["id"]: v for c, v in zip(cases, run_driver(cases))} if cases else {}
    stats = collections.Counter()
    confusion = collections.Counter()
    for idx, r in enumerate(recs):
        is_bad = idx < n_bad
        rule, ctx = (bad[idx][1], bad[idx][2]) if is_bad else ("valid", "-")
        accepted = r["outcome"] == "ok"
        v = verdicts.get(r["id"])
        model_accepts = v.get("accept") if v else None
        if is_bad:
            stats[f"rule:{rule}"] += 1
            stats[f"context:{ctx}"] += 1
            if accepted:
                stats["illformed_accepted"] += 1
                res.violation({"reason": f"a program violating rule '{rule}' (embedded in context '{ctx}') is accepted and a blueprint is produced",
                               "source": r["source"], "rule": rule, "context": ctx})
                continue
            msg = r["outcome"].get("message", "")
            if r["outcome"].get("exc") not in (None, "RuntimeError", "SyntaxError", "ValueError") and "Error" not in msg[:60]:
                stats["rejected_by_crash"] += 1
            if v is not None:
                confusion[(rule, v.get("class") if not model_accepts else "ACCEPT")] += 1
                if model_accepts:
                    # the compiler is stricter than the model here: the model must be refined, no verdict about the code
                    stats["model_accepts_illformed"] += 1
            else:
                stats["no_ast(syntax)"] += 1
        else:
            if not accepted:
                msg = r["outcome"].get("message", "")
                if "feasible layout" in msg or "layout" in msg.lower():
                    stats["valid_layout_failure"] += 1
                else:
                    stats["valid_rejected"] += 1
                    if model_accepts:
                        stats["valid_rejected_model_accepts"] += 1
            else:
                stats["valid_accepted"] += 1
                if model_accepts is False:
                    stats["model_rejects_valid:" + str(v.get("class"))] += 1
    # the real CLI on a sample: non-zero exit status and nothing that looks like a blueprint on stdout
    sample = [b for b in bad[: (12 if tier == "quick" else 120)]]
    with tempfile.TemporaryDirectory() as td:
        procs = []
        for i, (src, rule, ctx) in enumerate(sample):
            path = os.path.join(td, f"m{i}.facto")
            open(path, "w").write(src)
            procs.append((src, rule, subprocess.Popen(["/venv/bin/python", "-m", "dsl_compiler", path], cwd=REPO, stdout=subprocess.PIPE,
                                                      stderr=subprocess.PIPE, text=True, env=dict(os.environ, PYTHONPATH=REPO))))
        for src, rule, p in procs:
            out, err = p.communicate(timeout=600)
            stats["cli_runs"] += 1
            if p.returncode == 0 or looks_like_blueprint(out):
                stats["cli_blueprint_for_illformed"] += 1
                res.violation({"reason": "the CLI exits 0 or prints something that looks like a blueprint for an ill-formed program",
                               "rule": rule, "source": src, "exit": p.returncode, "stdout": out[:300]})
    res.coverage.update({
        "programs": len(sources), "evaluations": len(sources),
        "distinct_nontrivial": len({b[0] for b in bad}),
        "rule": "one-violation mutants: a valid generated host program with one construct violating one of 26 rule instances embedded at a random statement position at top level / in a called function / in an executed loop / nested loops; plus valid programs of all generators (must be accepted by both sides); non-trivial = every mutant",
        "disagreements_checked": stats.get("illformed_accepted", 0) + stats.get("model_accepts_illformed", 0),
        "outcomes": dict(stats),
        "model_vs_rule": {f"{k[0]}->{k[1]}": v for k, v in sorted(confusion.items())},
        "samples": [bad[0][0], bad[1][0]],
    })
    if not proved:
        res.violation({"reason": "a proof obligation of C14 no longer checks", "problems": res.proof_problems,
                       "log": res.proof_log[-1500:], "obligation": MODULE}, failing_input=False)
