"""C02 — bundle operations act member-wise and never leak foreign signals."""
from gen import gen_bundle
from props._semprop import simple


def run(res, tier):
    simple(res, tier, gen_bundle, 80, 1200, "seeded generator of stateless bundle programs (gen.BundleGen: literals, nested/merged bundles, each-arithmetic with constant and signal operands, filters with copy/constant output, gating, any/all, selection); whole anchor networks are compared")
