"""C02 — bundle operations act member-wise and never leak foreign signals."""
from gen import gen_bundle
from props._semprop import simple

from common import prove

MODULE = 'Proofs.Props.C02'
THEOREMS = ['Facto.get_evalArith_each', 'Facto.get_evalDecider_gate', 'Facto.get_evalNode_beach', 'Facto.get_evalNode_bfilter_copy', 'Facto.get_evalNode_bgate', 'Facto.beach_support_subset', 'Facto.bfilter_support_subset', 'Facto.rule_each_arith', 'Facto.rule_bundle_gate', 'Facto.SigMap.get_append', 'Facto.SigMap.mem_support', 'Facto.SigMap.get_map_support', 'Facto.carries_sound', 'Facto.readsSum_sound', 'Facto.get_evalDecider_each1', 'Facto.checkQuant_core', 'Facto.sound_anyCmp', 'Facto.sound_allCmp', 'Facto.partsEnts_sound', 'Facto.checkSum_sound', 'Facto.checkMany_sound', 'Facto.checkAll_sound', 'Facto.bundle_end_to_end', 'Facto.wiresum_end_to_end', 'Facto.scalar_end_to_end', 'Facto.observed_bundle_end_to_end', 'Facto.observed_wiresum_end_to_end', 'Facto.constMaps_sound', 'Facto.constPairs_sound', "Facto.bundle_history_end_to_end", "Facto.bundle_end_to_end_pruned", "Facto.bundle_end_to_end_cone", "Facto.observed_bundle_end_to_end_pruned"]


def run(res, tier):
    proved = prove(res, MODULE, THEOREMS)
    simple(res, tier, gen_bundle, 80, 1200, "seeded generator of stateless bundle programs (gen.BundleGen: literals, nested/merged bundles, each-arithmetic with constant and signal operands, filters with copy/constant output, gating, any/all, selection); whole anchor networks are compared")
    if not proved:
        res.violation({"reason": "a proof obligation of C02 no longer checks", "problems": res.proof_problems,
                       "log": res.proof_log[-1500:], "obligation": MODULE}, failing_input=False)
