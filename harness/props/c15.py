"""C15 — calling a function equals substituting its body."""
from gen import gen_functions
from props._semprop import simple

from common import prove

MODULE = 'Proofs.Props.C15'
THEOREMS = ['Facto.elabStmts_cons_ok', 'Facto.elabStmts_cons_error', 'Facto.C14_violation_in_loop_rejected',
            'Facto.checkAll_sound', 'Facto.scalar_end_to_end', 'Facto.observed_scalar_end_to_end', 'Facto.constVal_sound']


def run(res, tier):
    proved = prove(res, MODULE, THEOREMS)
    simple(res, tier, gen_functions, 64, 1000, "seeded generator of programs with 1-3 functions (int / Signal parameters, a local that may shadow a caller name, nested calls, int->Signal coercion at call sites) called 1-3 times; the reference elaborator inlines with fresh names and the compiled blueprint must agree with it")
    if not proved:
        res.violation({"reason": "a proof obligation of C15 no longer checks", "problems": res.proof_problems,
                       "log": res.proof_log[-1500:], "obligation": MODULE}, failing_input=False)
