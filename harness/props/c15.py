"""C15 — calling a function equals substituting its body."""
from gen import gen_functions
from props._semprop import simple


def run(res, tier):
    simple(res, tier, gen_functions, 64, 1000, "seeded generator of programs with 1-3 functions (int / Signal parameters, a local that may shadow a caller name, nested calls, int->Signal coercion at call sites) called 1-3 times; the reference elaborator inlines with fresh names and the compiled blueprint must agree with it")
