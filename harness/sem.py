"""Semantic engine shared by C01/C02/C06/C10/C11/C12/C13/C15/C16/C17/C20:
real compiler -> artefacts -> Lean driver (elaborator, denotation, circuit semantics, wiring check)
-> classification of every failure as listed finding or violation."""
from __future__ import annotations
import json
import os
import re

import collections

from pipeline import compile_many, run_driver


def ancestors(rec, start_ids):
    preds = collections.defaultdict(set)
    for s, t, *_ in rec.get("edges", []):
        preds[t].add(s)
    for a, b in rec.get("explicit_wires", []):
        preds[b].add(a)
        preds[a].add(b)
    seen = set(start_ids)
    todo = list(start_ids)
    while todo:
        x = todo.pop()
        for p in preds.get(x, ()):
            if p not in seen:
                seen.add(p)
                todo.append(p)
    return seen


def network_mates(rec, entity_ids):
    """ids of all entities that share a physical wire network with some connector of the given entities (from the
    printed blueprint's wire list)"""
    ids = rec.get("entity_ids", [])
    wires = rec.get("printed", {}).get("blueprint", {}).get("wires", []) or []
    parent = {}

    def find(x):
        while parent.setdefault(x, x) != x:
            parent[x] = parent[parent[x]]
            x = parent[x]
        return x
    for e1, c1, e2, c2 in wires:
        if c1 >= 5 or c2 >= 5:
            continue
        parent[find((e1, c1))] = find((e2, c2))
    num = {i: k + 1 for k, i in enumerate(ids)}
    roots = set()
    for i in entity_ids:
        n = num.get(i)
        if n is None:
            continue
        for c in (1, 2, 3, 4):
            if (n, c) in parent:
                roots.add(find((n, c)))
    mates = set()
    for (n, c) in list(parent):
        if find((n, c)) in roots and 0 < n <= len(ids):
            mates.add(ids[n - 1])
    return mates


def classify_shared(rec, verdict, name):
    """For a result the validator does not accept although its own value is right: a listed wiring defect on a network
    the result's cone is attached to (the foreign producer sits on the wire the cone reads, so the bundle bound to that
    wire cannot be validated even where the selected signal is untouched)."""
    ref = rec.get("names", {}).get(name) or {}
    src = ref.get("src") if isinstance(ref, dict) else None
    ids = set(rec.get("entity_ids", []))
    starts = {x for x in (src, f"{src}_{name}_output_anchor") if x in ids}
    if not starts:
        return None
    mates = network_mates(rec, ancestors(rec, starts))
    wire = verdict.get("wire", {})
    if wire.get("unjustified") or wire.get("missing"):
        return None
    for p in wire.get("pollution", []):
        if p["producer"] in mates and p["sink"] in mates:
            return ("F23", f"wildcard operand of {p['sink']} also sees {p['producer']}, which is planned for one of its scalar operands (on a network the result reads)")
    for i in wire.get("intrusions", []):
        if i["producer"] in mates and i["sink"] in mates:
            return ("F02", f"fan-out merge: {i['producer']} is visible to {i['sink']} on {i['sig']} although no planned edge joins them (on a network the result reads)")
    return None


def f19_deciders(rec):
    """Multi-condition deciders whose rows read one signal name from two different sources:
    the emitted rows carry no network selection, so both sources are summed (finding F19)."""
    out = set()
    for op in rec.get("ir_final", []):
        if op.get("kind") != "IRDecider" or not op.get("conditions"):
            continue
        by_sig = collections.defaultdict(set)
        stm = rec.get("signal_type_map") or {}

        def wire_name(t):
            v = stm.get(t, t)
            return v.get("name") if isinstance(v, dict) else v
        for c in op["conditions"]:
            for k in ("first_operand", "second_operand"):
                o = c.get(k)
                if isinstance(o, dict) and "sig" in o:
                    # the name the signal travels under (an untyped value may have been given a name in use: F07)
                    by_sig[wire_name(o["sig"])].add(o["src"])
        if any(len(v) > 1 for v in by_sig.values()):
            out.add(op["id"])
    return out


def f42_deciders(rec):
    """Single-condition deciders that compare two values and copy a third, all three carried on one signal name by
    three different producers: two wire colours cannot keep three same-named values apart, so two of them share a
    network and are summed (finding F42)."""
    out = set()
    stm = rec.get("signal_type_map") or {}

    def wire_name(t):
        v = stm.get(t, t)
        return v.get("name") if isinstance(v, dict) else v
    for op in rec.get("ir_final", []):
        if op.get("kind") != "IRDecider" or op.get("conditions"):
            continue
        by_sig = collections.defaultdict(set)
        for k in ("left", "right", "output_value"):
            o = op.get(k)
            if isinstance(o, dict) and "sig" in o and (k != "output_value" or op.get("copy_count_from_input")):
                by_sig[wire_name(o["sig"])].add(o["src"])
        if any(len(v) >= 3 for v in by_sig.values()):
            out.add(op["id"])
    return out


def nested_merges(rec):
    """wire merges one of whose sources is itself a wire merge (finding F24)"""
    merges = {op["id"]: op for op in rec.get("ir_final", []) if op.get("kind") == "IRWireMerge"}
    out = {}
    for mid, op in merges.items():
        inner = [s["src"] for s in op.get("sources", []) if isinstance(s, dict) and s.get("src") in merges]
        if inner:
            out[mid] = inner
    return out


def merge_leaf_sources(rec, mid, seen=None):
    merges = {op["id"]: op for op in rec.get("ir_final", []) if op.get("kind") == "IRWireMerge"}
    seen = seen or set()
    res = set()
    for s in merges.get(mid, {}).get("sources", []):
        if isinstance(s, dict) and "src" in s:
            if s["src"] in merges and s["src"] not in seen:
                seen.add(s["src"])
                res |= merge_leaf_sources(rec, s["src"], seen)
            else:
                res.add(s["src"])
    return res


def latch_depths(rec):
    """per memory cell (index = position of its IRMemCreate): combinator depth of the set and of the reset value of its
    latch write, counted in the final IR from the inputs (constants and memory reads are depth 0)"""
    ir = {op["id"]: op for op in rec.get("ir_final", [])}
    memo = {}

    def depth(src, guard=0):
        if src in memo:
            return memo[src]
        op = ir.get(src)
        if op is None or guard > 64 or op.get("kind") not in ("IRArith", "IRDecider"):
            memo[src] = 0
            return 0
        ds = [0]
        for k in ("left", "right", "output_value"):
            o = op.get(k)
            if isinstance(o, dict) and "src" in o:
                ds.append(depth(o["src"], guard + 1))
        for c in op.get("conditions") or []:
            for k in ("first_operand", "second_operand"):
                o = c.get(k)
                if isinstance(o, dict) and "src" in o:
                    ds.append(depth(o["src"], guard + 1))
        memo[src] = 1 + max(ds)
        return memo[src]
    mems = [op.get("memory_id") for op in rec.get("ir_final", []) if op.get("kind") == "IRMemCreate"]
    out = {}
    for op in rec.get("ir_final", []):
        if op.get("kind") == "IRLatchWrite" and op.get("memory_id") in mems:
            sd = depth(op["set_signal"]["src"]) if isinstance(op.get("set_signal"), dict) and "src" in op["set_signal"] else 0
            rd = depth(op["reset_signal"]["src"]) if isinstance(op.get("reset_signal"), dict) and "src" in op["reset_signal"] else 0
            out[mems.index(op["memory_id"])] = (sd, rd)
    return out


def classify_history(rec, verdict, hm):
    """History (stateful) mismatches: F22 = reset-priority latch that is on, set and reset both active."""
    for c in hm.get("cells", []):
        if c["kind"] == "rs_latch" and c["enable_or_set"] != 0 and c["reset"] != 0:
            exp = hm.get("expected", {})
            got = hm.get("got", {})
            if got and (not exp or all(v == 0 for v in exp.values())):
                return ("F22", "reset-priority latch is on while set and reset are both active (signal form: set + feedback > reset; inlined form: set OR (on AND NOT reset))")
        # F32: set and reset derive from one input and fall in the same step; the set path is one combinator
        # (the remapper) longer than the reset path, so for a tick the latch sees set without reset and turns on
        if c["kind"] == "rs_latch" and hm.get("step", 0) > 0 and c["enable_or_set"] == 0 and c["reset"] == 0 \
                and c.get("prev_enable_or_set", 0) != 0 and c.get("prev_reset", 0) != 0 and c["prev"] == 0:
            exp = hm.get("expected", {})
            got = hm.get("got", {})
            # only a set value that is computed by a longer chain of combinators than the reset value arrives later
            # (the remapper skew of equal-depth values is repaired: f2295aa)
            sd, rd = latch_depths(rec).get(c.get("cell"), (0, 0))
            if sd <= rd:
                continue
            if got and (not exp or all(v == 0 for v in exp.values())):
                return ("F32", "reset-priority latch turns on when set and reset, both active, become inactive in the same step and the set value is computed by a longer chain of combinators than the reset value")
        # F47, the mirror image for set priority: the reset value reaches the latch later than the set value (it has the
        # memory's own signal type and is therefore sent through the remapper, or it is computed by a longer chain);
        # when both fall in the same step the latch sees reset without set for a tick and drops
        if c["kind"] == "sr_latch" and hm.get("step", 0) > 0 and c["enable_or_set"] == 0 and c["reset"] == 0 \
                and c.get("prev_enable_or_set", 0) != 0 and c.get("prev_reset", 0) != 0 and c["prev"] != 0:
            exp = hm.get("expected", {})
            got = hm.get("got", {})
            sd, rd = latch_depths(rec).get(c.get("cell"), (0, 0))
            if exp and any(v != 0 for v in exp.values()) and (not got or all(v == 0 for v in got.values())) \
                    and (rd > sd or latch_reset_remapped(rec, c.get("cell"))):
                return ("F47", "set-priority latch drops when set and reset, both active, become inactive in the same step: the reset value reaches the latch later than the set value (remapped because it has the memory's signal type, or computed by a longer chain)")
    return None


def latch_reset_remapped(rec, cell):
    """does the latch write of memory cell `cell` read a reset value whose signal name is the memory's own (the compiler
    then routes it through a remapping combinator)?"""
    stm = rec.get("signal_type_map") or {}

    def wire_name(t):
        v = stm.get(t, t)
        return v.get("name") if isinstance(v, dict) else v
    mems = [op for op in rec.get("ir_final", []) if op.get("kind") == "IRMemCreate"]
    if cell is None or cell >= len(mems):
        return False
    mid, mty = mems[cell].get("memory_id"), wire_name(mems[cell].get("signal_type"))
    for op in rec.get("ir_final", []):
        if op.get("kind") == "IRLatchWrite" and op.get("memory_id") == mid:
            r = op.get("reset_signal")
            s_ = op.get("set_signal")
            rn = wire_name(r.get("sig")) if isinstance(r, dict) else None
            sn = wire_name(s_.get("sig")) if isinstance(s_, dict) else None
            # reset is remapped when it carries the memory's name after the set has been cast to it
            return rn == mty and sn == mty
    return False


def classify_mismatch(rec, verdict, mm):
    """Return (finding_id, what) when the mismatch has the signature of a listed finding, else None."""
    name = mm["name"]
    ref = rec.get("names", {}).get(name) or {}
    src = ref.get("src") if isinstance(ref, dict) else None
    ids = set(rec.get("entity_ids", []))
    # a result merged into an identical earlier one (CSE) or folded is observed at the node standing for it
    rep = rec.get("replaced") or {}
    for _ in range(8):
        if src and src not in ids and f"{src}_{name}_output_anchor" not in ids and src in rep:
            src = rep[src]
    starts = set()
    # the enable condition of the k-th placed entity: its cone starts at that entity
    m = re.match(r"entity(\d+)\.enable$", name or "")
    if m:
        placed = rec.get("placed") or []
        k = int(m.group(1))
        if k < len(placed) and placed[k] in ids:
            starts.add(placed[k])
    if src:
        if src in ids:
            starts.add(src)
        anchor = f"{src}_{name}_output_anchor"
        if anchor in ids:
            starts.add(anchor)
    cone = ancestors(rec, starts) if starts else set()
    wire = verdict.get("wire", {})
    if not wire.get("unjustified") and not wire.get("missing"):
        hits = [i for i in wire.get("intrusions", []) if i["sink"] in cone]
        if hits:
            i = hits[0]
            return ("F02", f"fan-out merge: {i['producer']} is visible to {i['sink']} on {i['sig']} although no planned edge joins them")
    pol = [p for p in wire.get("pollution", []) if p["sink"] in cone]
    if pol:
        p = pol[0]
        return ("F23", f"wildcard operand of {p['sink']} also sees {p['producer']}, which is planned for one of its scalar operands")
    dbl = [p for p in wire.get("doubled", []) if p["sink"] in cone]
    if dbl:
        p = dbl[0]
        return ("F23", f"wildcard operand and copy output of {p['sink']} together read both colours, and {p['producer']} (also its scalar operand) is wired on both: its signal is counted twice")
    uns = [u for u in wire.get("unselected", []) if u[1] in cone]
    if uns:
        return ("F18", f"{uns[0][0]} reaches {uns[0][1]} only on a colour that the consuming operand does not select")
    bad = f19_deciders(rec) & cone
    if bad:
        return ("F19", f"multi-condition decider {sorted(bad)[0]} reads one signal type from two sources without network selection")
    bad = f42_deciders(rec) & cone
    if bad:
        return ("F42", f"decider {sorted(bad)[0]} compares two values and copies a third, all on one signal name from three producers: two of them share a wire colour and are summed")
    # F23: `(signal CMP c) : bundle` copies the condition signal into the result when it is not a member
    exp, got = mm.get("expected", {}), mm.get("got", {})
    extra = set(got) - set(exp)
    if extra:
        for op in rec.get("ir_final", []):
            if op.get("kind") == "IRDecider" and op["id"].startswith("bundle_gate") and op["id"] in cone:
                left = op.get("left")
                if isinstance(left, dict) and "sig" in left:
                    fname = rec.get("signal_type_map", {}).get(left["sig"], left["sig"])
                    fname = fname.get("name") if isinstance(fname, dict) else fname
                    same = all(got.get(k) == exp.get(k) for k in exp)
                    if extra == {fname} and same:
                        return ("F23", f"bundle gate {op['id']} copies its condition signal {fname} into the gated bundle")
    # F24: members of a merge nested inside another merge are never wired
    nm = nested_merges(rec)
    if nm:
        missing = set(exp) - set(got)
        consumers = [op for op in rec.get("ir_final", []) if op["id"] in cone or op["id"] == src]
        refs = set()
        for op in rec.get("ir_final", []):
            if op["id"] in cone or op["id"] == src or (src and op["id"].startswith("wire_merge") and op["id"] == src):
                for k in ("left", "right", "output_value"):
                    o = op.get(k)
                    if isinstance(o, dict) and o.get("src") in nm:
                        refs.add(o["src"])
        if src in nm:
            refs.add(src)
        if refs and (missing or extra is not None):
            return ("F24", f"wire merge {sorted(refs)[0]} contains another merge whose members are not wired to the consumer")
    return None


def run_semantic(res, sources, opts=None, count=30, extra_case=None, label="programs", classify_extra=None, keep_lowered=False):
    """sources: list of program texts (or (text, opts)). Fills `res` (common.Result); returns per-case info."""
    recs = compile_many(sources, opts, keep_lowered=keep_lowered)
    cases = []
    stats = collections.Counter()
    for r in recs:
        if r["outcome"] != "ok":
            stats["compile_error"] += 1
            continue
        c = {k: v for k, v in r.items() if k not in ("plan",)}
        c["mode"] = "sem"
        c["seed"] = (r["id"] * 7919 + 13) % (2 ** 31)
        c["count"] = count
        if extra_case:
            c.update(extra_case)
        cases.append(c)
    verdicts = run_driver(cases) if cases else []
    infos = []
    for c, v in zip(cases, verdicts):
        info = {"id": c["id"], "source": c["source"], "verdict": v, "rec": c, "status": None}
        infos.append(info)
        if v is None or "error" in v:
            stats["driver_error"] += 1
            info["status"] = "driver_error"
            continue
        if v.get("elab") != "ok":
            stats["model_unsupported:" + v["elab"]["error"]] += 1
            info["status"] = "model_unsupported"
            continue
        if "blueprint_error" in v:
            res.violation({"reason": "printed blueprint does not decode", "detail": v["blueprint_error"], "source": c["source"], "options": c.get("options")})
            info["status"] = "violation"
            continue
        if "certificate_error" in v:
            # the per-program theorems are about Blueprint.toCircuit; without the certificate its producer lists are
            # not shown to be the wired ones (Facto.mem_prodOf_iff), so nothing is shown for this program
            res.violation({"reason": "network-partition certificate failed (premise of Facto.components_exact / mem_prodOf_iff)",
                           "detail": v["certificate_error"], "source": c["source"], "options": c.get("options")}, failing_input=False)
            info["status"] = "violation"
            continue
        stats["partition_certified"] += 1
        if v.get("unsupported"):
            stats["entity_unsupported"] += 1
        mt = v.get("match") or {}
        # names whose value the kernel-checked validator covers (theorem Facto.scalar_end_to_end): bound scalar outputs
        pnames = set(mt.get("proved_names") or []) if not v.get("stateful") else set()
        obs_names = list(v.get("obs") or [])
        proved = bool(pnames) and all(o in pnames for o in obs_names)
        info["proved"] = proved
        rings = {x["mem"]: x for x in (mt.get("rings") or [])}
        cells = (mt.get("cells") or []) + (mt.get("latch_cells") or []) + [x for x in (mt.get("loop_cells") or []) if not (rings.get(x["mem"]) or {}).get("proved")]
        have = {x["mem"] for x in cells}
        cells += [x for x in rings.values() if x["mem"] not in have]
        stats["proved_rings"] += sum(1 for x in rings.values() if x.get("proved"))
        info["ring_latencies"] = {str(x["mem"]): x.get("latency") for x in rings.values() if x.get("proved")}
        stats["cells"] += mt.get("n_mems", 0)
        stats["proved_cells"] += sum(1 for x in cells if x.get("proved"))
        info["proved_cells"] = sum(1 for x in cells if x.get("proved"))
        info["proved_names"] = sorted(pnames)
        stats["proved_outputs"] += len(pnames)
        # top-level names the blueprint does not materialise: compared through the constant the final IR claims for them
        # (`claimed`), or not comparable at all (`unobserved`: counted, and a matter for C20)
        stats["outputs_claimed_constant"] += len(v.get("claimed") or [])
        stats["outputs_unobserved"] += len(v.get("unobserved") or [])
        if proved:
            stats["proved_for_all_inputs"] += 1
            stats["proved_nodes"] += mt.get("bound", 0)
        mms = v.get("mismatches", [])
        bad = [m for m in mms if m.get("name") in pnames]
        if bad:
            # the kernel-checked validator accepted a circuit that the executable semantics refutes: impossible unless
            # the framework itself is inconsistent -- never hide it
            res.violation({"reason": "FRAMEWORK INCONSISTENCY: scalar_end_to_end applies but the search found a disagreement",
                           "source": c["source"], "mismatch": bad[0], "match": mt})
        # stateless programs that the search found nothing against but the validator does not accept: the property is
        # not shown to hold for them; either a listed finding's signature is present in the cone of the result, or it
        # is reported (without a failing input)
        if not v.get("stateful") and not mms and obs_names:
            unexpl = []
            for name in obs_names:
                if name in pnames:
                    continue
                mm0 = {"name": name, "expected": {}, "got": {}}
                cl = classify_mismatch(c, v, mm0) or (classify_extra(c, v, mm0) if classify_extra else None) or \
                    classify_shared(c, v, name)
                if cl:
                    res.known(cl[0], cl[1], example={"source": c["source"], "unproved": name})
                    stats["finding(static):" + cl[0]] += 1
                else:
                    unexpl.append(name)
            if unexpl:
                stats["unproved_unexplained"] += 1
                info["unproved_unexplained"] = unexpl
                if os.environ.get("VERIF_UNPROVED_IS_VIOLATION", "1") == "1":
                    res.violation({"reason": "the verified validator (Facto.checkAll / checkRanked / obsOK, theorem Facto.scalar_end_to_end) does not accept "
                                             "this build, the failing-input search found no disagreement and no listed finding's signature is present: "
                                             "the property is no longer shown to hold for these results",
                                   "unproved": unexpl, "source": c["source"], "match": {k: mt.get(k) for k in ("all", "ranked", "failing_nodes", "pruned")},
                                   "obligation": "Facto.scalar_end_to_end / bundle_end_to_end / enable_end_to_end (per-program premises)"},
                                  failing_input=False)
        hist = v.get("history") or {}
        hms = hist.get("mismatches", [])
        its = hist.get("iterate", [])
        stats["history_steps"] += hist.get("steps", 0)
        bad_it = [x for x in its if x.get("latency") is None]
        for x in its:
            if x.get("latency") is not None:
                stats[f"latency={x['latency']}"] += 1
        for x in bad_it:
            rl = (info.get("ring_latencies") or {}).get(str(x.get("cell")))
            if rl is not None and rl <= (c.get("maxL") or 12):
                # theorem Facto.ring_end_to_end gives value(t+L) = f(value(t)) at every tick; the simulation denies it
                res.violation({"reason": "FRAMEWORK INCONSISTENCY: ring_end_to_end applies (latency %d) but the simulated trace has no such latency" % rl,
                               "source": c["source"], "iterate": x})
        if hms or bad_it:
            unexplained = []
            for hm in hms:
                cl = classify_history(c, v, hm) or classify_mismatch(c, v, hm)
                if cl:
                    res.known(cl[0], cl[1], example={"source": c["source"], "mismatch": hm})
                    stats["finding:" + cl[0]] += 1
                else:
                    unexplained.append(hm)
            for x in bad_it:
                cl = classify_mismatch(c, v, {"name": x["name"], "expected": {}, "got": {}})
                if cl:
                    res.known(cl[0], cl[1], example={"source": c["source"], "iterate": x})
                    stats["finding:" + cl[0]] += 1
                else:
                    unexplained.append({"iterate": x, "reason": "no latency L with value(t+L) = f(value(t))"})
            if unexplained:
                res.violation({"reason": "stateful behaviour differs from the source semantics", "source": c["source"],
                               "options": c.get("options"), "mismatch": unexplained[0], "wire": v.get("wire")})
                info["status"] = "violation"
                stats["violation"] += 1
            else:
                info["status"] = "known"
            continue
        if not mms:
            wire = v.get("wire", {})
            if wire.get("intrusions") or wire.get("missing") or wire.get("unjustified"):
                stats["agree_but_wiring_flagged"] += 1
            else:
                stats["verified"] += 1
            info["status"] = "agree"
            continue
        unexplained = []
        for mm in mms:
            cl = classify_mismatch(c, v, mm) or (classify_extra(c, v, mm) if classify_extra else None)
            if cl:
                res.known(cl[0], cl[1], example={"source": c["source"], "mismatch": mm})
                stats["finding:" + cl[0]] += 1
            else:
                unexplained.append(mm)
        if unexplained:
            res.violation({"reason": "blueprint behaviour differs from the source semantics", "source": c["source"],
                           "options": c.get("options"), "mismatch": unexplained[0], "wire": v.get("wire")})
            info["status"] = "violation"
            stats["violation"] += 1
        else:
            info["status"] = "known"
    return recs, infos, stats


CORPUS = os.path.join(os.path.dirname(os.path.dirname(os.path.abspath(__file__))), "corpus", "regress.jsonl")


def run_corpus(res, tier="quick"):
    """Minimised past failures first: every entry of corpus/regress.jsonl that names this property is compiled (with and
    without optimisation) and compared like a generated program. A repaired defect that comes back is then reported by
    the ordinary run, whatever the generators happen to draw."""
    if not os.path.exists(CORPUS):
        return
    entries = []
    with open(CORPUS) as fh:
        for line in fh:
            line = line.strip()
            if line:
                d = json.loads(line)
                if res.prop in d.get("properties", []):
                    entries.append(d)
    if not entries:
        return
    sources = []
    for d in entries:
        o = d.get("options") or {}
        sources.append((d["source"], dict({"optimize": True}, **o)))
        sources.append((d["source"], dict({"optimize": False}, **o)))
    recs, infos, stats = run_semantic(res, sources, count=40 if tier == "quick" else 200,
                                      extra_case={"steps": 16 if tier == "quick" else 60})
    res.coverage["corpus"] = {"entries": [d["id"] for d in entries], "builds": len(sources),
                              "outcomes": {k: v for k, v in stats.items() if v},
                              "note": "minimal inputs of repaired / listed defects (corpus/regress.jsonl), run before the generated programs"}
