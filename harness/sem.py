"""Semantic engine shared by C01/C02/C06/C10/C11/C12/C13/C15/C16/C17/C20:
real compiler -> artefacts -> Lean driver (elaborator, denotation, circuit semantics, wiring check)
-> classification of every failure as listed finding or violation."""
from __future__ import annotations

import collections

from pipeline import compile_many, run_driver


def ancestors(rec, start_ids):
    preds = collections.defaultdict(set)
    for s, t, *_ in rec.get("edges", []):
        preds[t].add(s)
    for a, b in rec.get("explicit_wires", []):
        preds[b].add(a)
        preds[a].add(b)
    seen = set(start_ids)
    todo = list(start_ids)
    while todo:
        x = todo.pop()
        for p in preds.get(x, ()):
            if p not in seen:
                seen.add(p)
                todo.append(p)
    return seen


def f19_deciders(rec):
    """Multi-condition deciders whose rows read one signal name from two different sources:
    the emitted rows carry no network selection, so both sources are summed (finding F19)."""
    out = set()
    for op in rec.get("ir_final", []):
        if op.get("kind") != "IRDecider" or not op.get("conditions"):
            continue
        by_sig = collections.defaultdict(set)
        for c in op["conditions"]:
            for k in ("first_operand", "second_operand"):
                o = c.get(k)
                if isinstance(o, dict) and "sig" in o:
                    by_sig[o["sig"]].add(o["src"])
        if any(len(v) > 1 for v in by_sig.values()):
            out.add(op["id"])
    return out


def classify_mismatch(rec, verdict, mm):
    """Return (finding_id, what) when the mismatch has the signature of a listed finding, else None."""
    name = mm["name"]
    ref = rec.get("names", {}).get(name) or {}
    src = ref.get("src") if isinstance(ref, dict) else None
    ids = set(rec.get("entity_ids", []))
    starts = set()
    if src:
        if src in ids:
            starts.add(src)
        anchor = f"{src}_{name}_output_anchor"
        if anchor in ids:
            starts.add(anchor)
    cone = ancestors(rec, starts) if starts else set()
    wire = verdict.get("wire", {})
    if not wire.get("unjustified") and not wire.get("missing"):
        hits = [i for i in wire.get("intrusions", []) if i["sink"] in cone]
        if hits:
            i = hits[0]
            return ("F02", f"fan-out merge: {i['producer']} is visible to {i['sink']} on {i['sig']} although no planned edge joins them")
    bad = f19_deciders(rec) & cone
    if bad:
        return ("F19", f"multi-condition decider {sorted(bad)[0]} reads one signal type from two sources without network selection")
    return None


def run_semantic(res, sources, opts=None, count=30, extra_case=None, label="programs"):
    """sources: list of program texts (or (text, opts)). Fills `res` (common.Result); returns per-case info."""
    recs = compile_many(sources, opts)
    cases = []
    stats = collections.Counter()
    for r in recs:
        if r["outcome"] != "ok":
            stats["compile_error"] += 1
            continue
        c = {k: v for k, v in r.items() if k not in ("plan",)}
        c["mode"] = "sem"
        c["seed"] = (r["id"] * 7919 + 13) % (2 ** 31)
        c["count"] = count
        if extra_case:
            c.update(extra_case)
        cases.append(c)
    verdicts = run_driver(cases) if cases else []
    infos = []
    for c, v in zip(cases, verdicts):
        info = {"id": c["id"], "source": c["source"], "verdict": v, "rec": c, "status": None}
        infos.append(info)
        if v is None or "error" in v:
            stats["driver_error"] += 1
            info["status"] = "driver_error"
            continue
        if v.get("elab") != "ok":
            stats["model_unsupported:" + v["elab"]["error"]] += 1
            info["status"] = "model_unsupported"
            continue
        if "blueprint_error" in v:
            res.violation({"reason": "printed blueprint does not decode", "detail": v["blueprint_error"], "source": c["source"], "options": c.get("options")})
            info["status"] = "violation"
            continue
        if v.get("unsupported"):
            stats["entity_unsupported"] += 1
        mms = v.get("mismatches", [])
        if not mms:
            wire = v.get("wire", {})
            if wire.get("intrusions") or wire.get("missing") or wire.get("unjustified"):
                stats["agree_but_wiring_flagged"] += 1
            else:
                stats["verified"] += 1
            info["status"] = "agree"
            continue
        unexplained = []
        for mm in mms:
            cl = classify_mismatch(c, v, mm)
            if cl:
                res.known(cl[0], cl[1], example={"source": c["source"], "mismatch": mm})
                stats["finding:" + cl[0]] += 1
            else:
                unexplained.append(mm)
        if unexplained:
            res.violation({"reason": "blueprint behaviour differs from the source semantics", "source": c["source"],
                           "options": c.get("options"), "mismatch": unexplained[0], "wire": v.get("wire")})
            info["status"] = "violation"
            stats["violation"] += 1
        else:
            info["status"] = "known"
    return recs, infos, stats
