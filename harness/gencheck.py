"""Correspondence between the translated functions (Lean `Gen.*`, via the gendriver executable) and the
real Python functions under /repo, on the boundary lattice plus seeded random operands. This validates
the translator and the PyInt shim on every run, and is the failing-input search for C11 / C16 / C05
when a proof obligation about a translated function no longer checks."""
from __future__ import annotations

import json
import os
import random
import subprocess
import sys

HERE = os.path.dirname(os.path.abspath(__file__))
VERIF = os.path.dirname(HERE)
GENDRIVER = os.path.join(VERIF, "lean", ".lake", "build", "bin", "gendriver")
REPO = os.environ.get("FACTO_REPO", "/repo")
PY = "/venv/bin/python"

BOUNDARY = [0, 1, -1, 2, -2, 3, -3, 5, 7, -7, 10, 31, 32, 33, 100, 255, 256, 1000, -1000, 65535, 65536,
            2147483647, -2147483648, 2147483646, -2147483647, 1073741824, -1073741824, 46340, 46341, -46341]
ARITH = ["+", "-", "*", "/", "%", "**", "<<", ">>", "AND", "OR", "XOR"]
CMP = ["==", "!=", "<", "<=", ">", ">="]
LOGIC = ["&&", "||"]

_PYSIDE = r'''
import json, sys
sys.path.insert(0, %(repo)r)
from dsl_compiler.src.lowering.constant_folder import ConstantFolder
from dsl_compiler.src.ir.optimizer import ConstantPropagationOptimizer
from dsl_compiler.src.parsing.transformer import DSLTransformer
from dsl_compiler.src.layout.memory_builder import MemoryBuilder
from dsl_compiler.src.ast.statements import ForStmt
opt = ConstantPropagationOptimizer()
for line in sys.stdin:
    q = json.loads(line)
    fn = q["fn"]
    try:
        if fn == "fold":
            r = ConstantFolder.fold_binary_operation(q["op"], q["l"], q["r"], None, None)
        elif fn == "optarith":
            r = opt._fold_arithmetic(q["op"], q["l"], q["r"])
        elif fn == "optcmp":
            r = opt._fold_comparison(q["op"], q["l"], q["r"])
        elif fn == "invert":
            r = list(MemoryBuilder._invert_comparison(None, q["op"], q["c"]))
        elif fn == "parse":
            r = DSLTransformer._parse_number(q["text"])
        elif fn == "iter":
            r = ForStmt("i", q["start"], q["stop"], q.get("step"), None, []).get_iteration_values()
        else:
            r = "?"
        if isinstance(r, bool) and fn != "optcmp":
            r = int(r)
        print(json.dumps({"py": r}))
    except Exception as e:
        print(json.dumps({"py_exc": type(e).__name__}))
'''


def queries(seed: int, n_random: int):
    rng = random.Random(seed)
    qs = []

    def operand():
        r = rng.random()
        if r < 0.5:
            return rng.choice(BOUNDARY)
        if r < 0.8:
            return rng.randint(-40, 40)
        return rng.randint(-2 ** 31, 2 ** 31 - 1)

    pairs = [(a, b) for a in BOUNDARY for b in BOUNDARY]
    pairs += [(operand(), operand()) for _ in range(n_random)]
    for op in ARITH:
        for a, b in pairs:
            if op == "**" and not (-6 <= b <= 8):   # keep exponents small: Python would build huge ints
                continue
            qs.append({"fn": "fold", "op": op, "l": a, "r": b})
            qs.append({"fn": "optarith", "op": op, "l": a, "r": b})
    for op in CMP + LOGIC:
        for a, b in pairs[:: 3]:
            qs.append({"fn": "fold", "op": op, "l": a, "r": b})
    for op in CMP + ["=", "≠"]:
        for a, b in pairs[:: 3]:
            qs.append({"fn": "optcmp", "op": op, "l": a, "r": b})
    for op in CMP + ["=", "?"]:
        qs.append({"fn": "invert", "op": op, "c": rng.randint(-100, 100)})
    for base, pre, digs in ((16, "0x", "0123456789abcdefABCDEF"), (8, "0o", "01234567"), (2, "0b", "01"), (10, "", "0123456789")):
        for _ in range(40):
            body = "".join(rng.choice(digs) for _ in range(rng.randint(1, 8)))
            t = pre + body
            if base == 10 and rng.random() < 0.3:
                t = rng.choice("+-") + t
            if base != 10 and rng.random() < 0.2:
                t = t.replace(pre, pre.upper(), 1)
            qs.append({"fn": "parse", "text": t})
    for a in range(-6, 7):
        for b in range(-6, 7):
            for s in (None, 1, 2, 3, -1, -2, -3, 5, -5, 0):
                q = {"fn": "iter", "start": a, "stop": b}
                if s is not None:
                    q["step"] = s
                qs.append(q)
    return qs


def run(seed: int, n_random: int = 200):
    """Returns (n_queries, translator_disagreements, spec_disagreements).
    translator_disagreements: Lean translation != Python function (translator / shim wrong: framework bug).
    spec_disagreements: Python function (truncated to 32 bits) != combinator semantics: a C11/C16 failing input."""
    qs = queries(seed, n_random)
    text = "\n".join(json.dumps(q) for q in qs) + "\n"
    pg = subprocess.run([GENDRIVER], input=text, capture_output=True, text=True)
    pp = subprocess.run([PY, "-c", _PYSIDE % {"repo": REPO}], input=text, capture_output=True, text=True, cwd="/")
    gl = [json.loads(l) for l in pg.stdout.splitlines() if l.strip()]
    pl = [json.loads(l) for l in pp.stdout.splitlines() if l.strip()]
    if len(gl) != len(qs) or len(pl) != len(qs):
        raise RuntimeError(f"gencheck: {len(qs)} queries, {len(gl)} lean answers, {len(pl)} python answers: {pg.stderr[-300:]} {pp.stderr[-300:]}")
    tr, spec = [], []

    def w32(v):
        v &= 0xFFFFFFFF
        return v - (1 << 32) if v >= (1 << 31) else v
    for q, g, p in zip(qs, gl, pl):
        py = p.get("py")
        gen = g.get("gen")
        if "py_exc" in p:
            tr.append({"q": q, "lean": g, "python": p})
            continue
        if q["fn"] == "invert":
            if gen != py:
                tr.append({"q": q, "lean": gen, "python": py})
            continue
        if gen != py:
            tr.append({"q": q, "lean": gen, "python": py})
            continue
        if q["fn"] in ("fold", "optarith") and py is not None and g.get("spec") is not None:
            if w32(py) != g["spec"]:
                spec.append({"q": q, "python": py, "python32": w32(py), "combinator": g["spec"]})
        if q["fn"] == "optcmp" and py is not None and g.get("spec") is not None:
            if int(py) != g["spec"]:
                spec.append({"q": q, "python": py, "combinator": g["spec"]})
        if q["fn"] == "iter" and gen != g.get("spec"):
            spec.append({"q": q, "python": py, "spec": g.get("spec")})
    return len(qs), tr, spec


if __name__ == "__main__":
    n, tr, spec = run(int(sys.argv[1]) if len(sys.argv) > 1 else 1)
    print(n, "queries;", len(tr), "translator disagreements;", len(spec), "spec disagreements")
    for x in tr[:10]:
        print("TR", x)
    import collections
    c = collections.Counter((x["q"]["fn"], x["q"].get("op")) for x in spec)
    print(c)
    for x in spec[:6]:
        print("SPEC", x)
