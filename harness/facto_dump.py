"""Run the real compiler in-process and capture the artefacts of each stage.

Nothing in /repo is modified: the harness wraps methods of the compiler's classes
from this process while one call of the real `compile_dsl_source` runs.
"""
from __future__ import annotations

import contextlib
import json
import os
import sys
import traceback

REPO = os.environ.get("FACTO_REPO", "/repo")
if REPO not in sys.path:
    sys.path.insert(0, REPO)

import logging  # noqa: E402

logging.disable(logging.CRITICAL)

from dsl_compiler import cli as _cli  # noqa: E402
from dsl_compiler.src.ast import expressions as E  # noqa: E402
from dsl_compiler.src.ast import literals as L  # noqa: E402
from dsl_compiler.src.ast import statements as S  # noqa: E402
from dsl_compiler.src.emission.emitter import BlueprintEmitter  # noqa: E402
from dsl_compiler.src.ir import nodes as N  # noqa: E402
from dsl_compiler.src.layout.planner import LayoutPlanner  # noqa: E402
from dsl_compiler.src.layout.connection_planner import ConnectionPlanner  # noqa: E402
from dsl_compiler.src.layout import integer_layout_solver as _ils  # noqa: E402
from dsl_compiler.src.lowering.lowerer import ASTLowerer  # noqa: E402
from dsl_compiler.src.parsing.parser import DSLParser  # noqa: E402


# ---------------------------------------------------------------- AST -> JSON
def ast_json(n):
    """S-expression-like JSON of the real parser's AST (only what the model reads)."""
    if n is None or isinstance(n, (int, str, bool)):
        return n
    if isinstance(n, list):
        return [ast_json(x) for x in n]
    if isinstance(n, dict):
        return {k: ast_json(v) for k, v in n.items()}
    t = type(n).__name__
    ln = getattr(n, "line", 0) or 0
    if isinstance(n, S.Program):
        return {"k": "Program", "body": ast_json(n.statements)}
    if isinstance(n, S.DeclStmt):
        return {"k": "Decl", "ty": n.type_name, "name": n.name, "value": ast_json(n.value), "line": ln}
    if isinstance(n, S.AssignStmt):
        return {"k": "Assign", "target": ast_json(n.target), "value": ast_json(n.value), "line": ln}
    if isinstance(n, S.MemDecl):
        return {"k": "MemDecl", "name": n.name, "sig": n.signal_type, "line": ln}
    if isinstance(n, S.ExprStmt):
        return {"k": "ExprStmt", "expr": ast_json(n.expr), "line": ln}
    if isinstance(n, S.ReturnStmt):
        return {"k": "Return", "expr": ast_json(n.expr), "line": ln}
    if isinstance(n, S.ImportStmt):
        return {"k": "Import", "path": n.path, "line": ln}
    if isinstance(n, S.FuncDecl):
        return {"k": "Func", "name": n.name,
                "params": [{"ty": p.type_name, "name": p.name} for p in n.params],
                "body": ast_json(n.body), "line": ln}
    if isinstance(n, S.ForStmt):
        return {"k": "For", "it": n.iterator_name, "start": n.start, "stop": n.stop, "step": n.step,
                "values": n.values, "body": ast_json(n.body), "line": ln}
    if isinstance(n, L.NumberLiteral):
        return {"k": "Num", "v": n.value}
    if isinstance(n, L.StringLiteral):
        return {"k": "Str", "v": n.value}
    if isinstance(n, L.DictLiteral):
        return {"k": "Dict", "entries": [[k, ast_json(v)] for k, v in n.entries.items()]}
    if isinstance(n, L.Identifier):
        return {"k": "LId", "name": n.name}
    if isinstance(n, L.PropertyAccess):
        return {"k": "LProp", "obj": n.object_name, "prop": n.property_name}
    if isinstance(n, E.BinaryOp):
        return {"k": "Bin", "op": n.op, "l": ast_json(n.left), "r": ast_json(n.right), "line": ln}
    if isinstance(n, E.UnaryOp):
        return {"k": "Un", "op": n.op, "e": ast_json(n.expr)}
    if isinstance(n, E.CallExpr):
        return {"k": "Call", "name": n.name, "args": ast_json(n.args), "line": ln}
    if isinstance(n, E.ReadExpr):
        return {"k": "Read", "mem": n.memory_name}
    if isinstance(n, E.WriteExpr):
        return {"k": "Write", "mem": n.memory_name, "value": ast_json(n.value), "when": ast_json(n.when),
                "set": ast_json(n.set_signal), "reset": ast_json(n.reset_signal),
                "set_priority": bool(n.set_priority), "line": ln}
    if isinstance(n, E.ProjectionExpr):
        return {"k": "Proj", "e": ast_json(n.expr), "ty": ast_json(n.target_type)}
    if isinstance(n, E.SignalLiteral):
        return {"k": "SigLit", "ty": ast_json(n.signal_type), "v": ast_json(n.value)}
    if isinstance(n, E.IdentifierExpr):
        return {"k": "Id", "name": n.name}
    if isinstance(n, E.PropertyAccessExpr):
        return {"k": "Prop", "obj": n.object_name, "prop": n.property_name}
    if isinstance(n, E.OutputSpecExpr):
        return {"k": "OutSpec", "cond": ast_json(n.condition), "out": ast_json(n.output_value)}
    if isinstance(n, E.BundleLiteral):
        return {"k": "Bundle", "elems": ast_json(n.elements)}
    if isinstance(n, E.BundleSelectExpr):
        return {"k": "Select", "b": ast_json(n.bundle), "ty": n.signal_type}
    if isinstance(n, E.BundleAnyExpr):
        return {"k": "Any", "b": ast_json(n.bundle)}
    if isinstance(n, E.BundleAllExpr):
        return {"k": "All", "b": ast_json(n.bundle)}
    if isinstance(n, E.SignalTypeAccess):
        return {"k": "TypeOf", "obj": n.object_name, "prop": n.property_name}
    if isinstance(n, E.EntityOutputExpr):
        return {"k": "EntOut", "ent": n.entity_name}
    return {"k": "Unknown", "cls": t}


# ---------------------------------------------------------------- IR -> JSON
def ref_json(r):
    if isinstance(r, bool):
        return int(r)
    if isinstance(r, int):
        return r
    if isinstance(r, N.SignalRef):
        return {"sig": r.signal_type, "src": r.source_id}
    if isinstance(r, N.BundleRef):
        return {"bundle": sorted(r.signal_types), "src": r.source_id}
    if r is None:
        return None
    if isinstance(r, str):
        return {"str": r}
    return {"other": repr(r)}


def _plain(v):
    if isinstance(v, (N.SignalRef, N.BundleRef)):
        return ref_json(v)
    if isinstance(v, (int, str, bool)) or v is None:
        return v
    if isinstance(v, float):
        return v
    if isinstance(v, (list, tuple)):
        return [_plain(x) for x in v]
    if isinstance(v, (set, frozenset)):
        return sorted((_plain(x) for x in v), key=repr)
    if isinstance(v, dict):
        return {str(k): _plain(x) for k, x in v.items()}
    if hasattr(v, "__dict__"):
        return {"_cls": type(v).__name__,
                **{k: _plain(x) for k, x in vars(v).items() if k not in ("source_ast", "debug_metadata")}}
    return repr(v)


def ir_json(ops):
    out = []
    for op in ops:
        d = {"kind": type(op).__name__, "id": op.node_id}
        for k, v in vars(op).items():
            if k in ("node_id", "source_ast"):
                continue
            if k == "debug_metadata":
                d["meta"] = {kk: _plain(vv) for kk, vv in v.items()
                             if kk in ("name", "line", "user_declared", "declared_name", "location", "is_output")}
                continue
            d[k] = _plain(v)
        sa = getattr(op, "source_ast", None)
        d["line"] = getattr(sa, "line", 0) if sa is not None else 0
        out.append(d)
    return out


def geometry_table(bp):
    """Per entity of the emitted Blueprint object (same order as the printed entities): collision box relative to
    the centre, wire reach, pole data and whether the prototype consumes electricity -- all read from the
    draftsman / game data the compiler itself uses; lengths are exact integers in 1/1000 tile."""
    from fractions import Fraction

    from draftsman.data import entities as ent_data

    def q(v):
        fr = Fraction(str(float(v))).limit_denominator(100000) * 1000
        return int(fr) if fr.denominator == 1 else float(fr)

    out = []
    for e in bp.entities:
        raw = ent_data.raw.get(e.name, {})
        d = {"name": e.name, "type": raw.get("type")}
        try:
            box = e.get_world_bounding_box()
            pos = e.global_position
            d["box"] = [q(box.top_left[0] - pos.x), q(box.top_left[1] - pos.y), q(box.bot_right[0] - pos.x), q(box.bot_right[1] - pos.y)]
        except Exception as ex:  # noqa: BLE001
            d["box_error"] = str(ex)[:80]
        d["tile_w"], d["tile_h"] = int(getattr(e, "tile_width", 1)), int(getattr(e, "tile_height", 1))
        reach = getattr(e, "circuit_wire_max_distance", None)
        d["circuit_reach"] = q(reach) if reach else 0
        if raw.get("type") == "electric-pole":
            d["pole"] = {"copper_reach": q(raw.get("maximum_wire_distance", 0)), "supply": q(raw.get("supply_area_distance", 0))}
        es = raw.get("energy_source") or {}
        d["electric"] = es.get("type") == "electric"
        d["dual"] = bool(getattr(e, "dual_circuit_connectable", False))
        out.append(d)
    return out


WILD = ("signal-each", "signal-anything", "signal-everything")


def wild_sources(ir):
    """For every IR node with a wildcard operand: the entities that operand is meant to read
    (wire merges expanded, entity outputs resolved to the placed entity)."""
    by_id = {op["id"]: op for op in ir}

    def expand(src, depth=0):
        op = by_id.get(src)
        if op is None or depth > 8:
            return [src]
        if op.get("kind") == "IRWireMerge":
            out = []
            for s in op.get("sources", []):
                if isinstance(s, dict) and "src" in s:
                    out += expand(s["src"], depth + 1)
            return out
        if op.get("kind") == "IREntityOutput":
            return [op.get("entity_id")]
        return [src]

    res = {}
    for op in ir:
        refs = []
        for k in ("left", "right", "output_value"):
            o = op.get(k)
            if isinstance(o, dict) and (o.get("sig") in WILD or "bundle" in o):
                refs += expand(o["src"])
        for c in op.get("conditions", []) or []:
            for k in ("first_operand", "second_operand"):
                o = c.get(k)
                if isinstance(o, dict) and (o.get("sig") in WILD or "bundle" in o):
                    refs += expand(o["src"])
        ibc = op.get("inline_bundle_condition")
        if isinstance(ibc, dict):
            o = ibc.get("input_source")
            if isinstance(o, dict) and "src" in o:
                res.setdefault(op.get("entity_id"), [])
                res[op.get("entity_id")] += expand(o["src"])
        if refs:
            res.setdefault(op["id"], [])
            res[op["id"]] += refs
    return res


# ---------------------------------------------------------------- capture
class Capture:
    def __init__(self):
        self.ir_lowered = None
        self.ir_final = None
        self.lowerer = None
        self.plan = None
        self.planner = None
        self.blueprint = None
        self.program = None
        self.conn = None
        self.preserved = None
        self.replaced = {}
        self.pretrim_poles = None


@contextlib.contextmanager
def capturing(cap: Capture, forced_layout: str | None = None):
    o_solve = _ils.IntegerLayoutEngine._solve_with_strategy
    calls = {"n": 0}

    def solve(self, strategy, time_limit, early_stop=True):
        """forced solver outcomes: the stage must produce a pasteable blueprint whatever the solver answers"""
        calls["n"] += 1
        fail = _ils.OptimizationResult(positions={}, violations=10 ** 6, total_wire_length=0, success=False,
                                       strategy_used=str(strategy.get("name")), solve_time=0.0)
        if forced_layout == "fallback":
            return fail
        if forced_layout == "first_fail" and calls["n"] <= 2:
            return fail
        if forced_layout == "zero_budget":
            return o_solve(self, strategy, 0.05, early_stop)
        if forced_layout == "stretch":
            # a feasible but poor outcome, as a solver out of time may return: the hold gate of a memory cell (or, failing
            # that, the last combinator) ends up 14 tiles beyond everything else. No overlap can arise (the tile lies
            # outside the bounding box of all positions), only distances grow.
            r = o_solve(self, strategy, time_limit, early_stop)
            if r.success and r.positions:
                ids = [i for i in r.positions if str(i).endswith("_hold_gate")] or \
                      [i for i in r.positions if str(i).startswith(("arith_", "decider_"))]
                if ids:
                    far = max(x for x, _ in r.positions.values()) + 14
                    pos = dict(r.positions)
                    pos[ids[-1]] = (far, pos[ids[-1]][1])
                    r = _ils.OptimizationResult(positions=pos, violations=r.violations, total_wire_length=r.total_wire_length,
                                                success=r.success, strategy_used=r.strategy_used, solve_time=r.solve_time)
            return r
        return o_solve(self, strategy, time_limit, early_stop)

    if forced_layout:
        _ils.IntegerLayoutEngine._solve_with_strategy = solve
    o_lower = ASTLowerer.lower_program
    o_plan = LayoutPlanner.plan_layout
    o_emit = BlueprintEmitter.emit_from_plan
    o_parse = DSLParser.parse
    o_conn = ConnectionPlanner.plan_connections

    def conn(self, *a, **k):
        cap.preserved = [(w.source_entity_id, w.sink_entity_id) for w in self.layout_plan.wire_connections]
        r = o_conn(self, *a, **k)
        cap.conn = self
        return r

    def lower(self, program):
        r = o_lower(self, program)
        cap.lowerer = self
        cap.program = program
        cap.ir_lowered = ir_json(r)
        return r

    def plan(self, ir_operations, *a, **k):
        cap.ir_final = ir_json(ir_operations)
        cap.planner = self
        r = o_plan(self, ir_operations, *a, **k)
        cap.plan = r
        return r

    def emit(self, layout_plan):
        r = o_emit(self, layout_plan)
        cap.blueprint = r
        return r

    def parse(self, *a, **k):
        r = o_parse(self, *a, **k)
        if cap.program is None:
            cap.program = r
        return r

    from dsl_compiler.src.ir import optimizer as _opt
    o_cse, o_cp = _opt.CSEOptimizer.optimize, _opt.ConstantPropagationOptimizer.optimize

    def cse(self, ops):
        r = o_cse(self, ops)
        cap.replaced.update({str(k): str(v) for k, v in self.replacements.items()})
        return r

    def cprop(self, ops):
        r = o_cp(self, ops)
        cap.replaced.update({str(k): str(v) for k, v in self.replacements.items()})
        return r

    _opt.CSEOptimizer.optimize = cse
    _opt.ConstantPropagationOptimizer.optimize = cprop
    o_trim = LayoutPlanner._trim_power_poles

    def trim(self, *a, **k):
        # the pole grid as laid out, before the poles that cover nothing are removed (last attempt wins)
        cap.pretrim_poles = [[float(pl.position[0]), float(pl.position[1])]
                             for pl in self.layout_plan.entity_placements.values()
                             if pl.properties.get("is_power_pole") and pl.position is not None]
        return o_trim(self, *a, **k)

    LayoutPlanner._trim_power_poles = trim
    ASTLowerer.lower_program = lower
    LayoutPlanner.plan_layout = plan
    BlueprintEmitter.emit_from_plan = emit
    DSLParser.parse = parse
    ConnectionPlanner.plan_connections = conn
    try:
        yield cap
    finally:
        ASTLowerer.lower_program = o_lower
        LayoutPlanner.plan_layout = o_plan
        BlueprintEmitter.emit_from_plan = o_emit
        DSLParser.parse = o_parse
        ConnectionPlanner.plan_connections = o_conn
        _ils.IntegerLayoutEngine._solve_with_strategy = o_solve
        LayoutPlanner._trim_power_poles = o_trim
        _opt.CSEOptimizer.optimize = o_cse
        _opt.ConstantPropagationOptimizer.optimize = o_cp


ERR_CLASSES = [
    ("syntax", ("Syntax", "syntax", "Unexpected", "parse", "Parse", "No terminal", "Expected")),
]


def classify_error(msg: str) -> str:
    m = msg.lower()
    for key, cls in [
        ("unexpected", "syntax"), ("syntax", "syntax"), ("parse error", "syntax"), ("no terminal", "syntax"),
        ("recursi", "recursion"),
        ("undefined", "undefined"), ("not defined", "undefined"), ("unknown function", "undefined"),
        ("already defined", "redefined"), ("redefin", "redefined"), ("duplicate", "duplicate"),
        ("immutable", "immutable"), ("cannot assign", "immutable"),
        ("expects", "arity"), ("argument", "arity"),
        ("reserved", "reserved"), ("signal-w", "reserved"),
        ("unknown signal", "signal"), ("not a valid", "signal"), ("invalid signal", "signal"),
        ("step", "loop"),
        ("bundle", "bundle"),
        ("memory", "memory"), ("write", "memory"),
        ("comparison", "outspec"),
        ("type", "kind"),
    ]:
        if key in m:
            return cls
    return "other"


def compile_capture(source: str, optimize: bool = True, power_poles: str | None = None,
                    name: str | None = None, source_name: str = "<string>", config=None,
                    max_layout_retries: int = 3, want_plan: bool = True, forced_layout: str | None = None,
                    want_geometry: bool = False) -> dict:
    """One call of the real compile_dsl_source with artefact capture."""
    cap = Capture()
    rec: dict = {"source": source, "options": {"optimize": optimize, "power_poles": power_poles, "name": name,
                                               "forced_layout": forced_layout}}
    kwargs = {}
    if config is not None:
        kwargs["config"] = config
    try:
        with capturing(cap, forced_layout):
            ok, result, diags = _cli.compile_dsl_source(
                source, source_name=source_name, program_name=name, optimize=optimize,
                log_level="error", power_pole_type=power_poles, use_json=True,
                max_layout_retries=max_layout_retries, **kwargs)
        if ok:
            rec["outcome"] = "ok"
            rec["printed"] = json.loads(result)
        else:
            rec["outcome"] = {"error": classify_error(result + " ".join(map(str, diags))), "message": result,
                              "diags": [str(d) for d in diags][:5]}
    except BaseException as e:  # the compiler raises on the first error (raise_errors=True)
        if isinstance(e, (KeyboardInterrupt, SystemExit)):
            raise
        msg = f"{type(e).__name__}: {e}"
        rec["outcome"] = {"error": classify_error(msg), "message": msg[:500],
                          "exc": type(e).__name__,
                          "tb": traceback.format_exc().splitlines()[-6:]}
    if cap.program is not None:
        rec["ast"] = ast_json(cap.program)
    if cap.ir_lowered is not None:
        rec["ir_lowered"] = cap.ir_lowered
    if cap.ir_final is not None:
        rec["ir_final"] = cap.ir_final
        rec["placed"] = [op.get("entity_id") for op in cap.ir_final if op.get("kind") == "IRPlaceEntity"]
        rec["wild_sources"] = wild_sources(cap.ir_final)
    # nodes merged or folded away by the optimisers: old id -> the node that now stands for it
    rec["replaced"] = dict(cap.replaced)
    if cap.pretrim_poles is not None and power_poles:
        from draftsman.data import entities as _ed
        proto = {"small": "small-electric-pole", "medium": "medium-electric-pole", "big": "big-electric-pole", "substation": "substation"}.get(power_poles)
        rec["pretrim_poles"] = cap.pretrim_poles
        rec["grid_supply"] = int(round(float(_ed.raw.get(proto, {}).get("supply_area_distance", 0)) * 1000))
    if cap.lowerer is not None:
        low = cap.lowerer
        rec["names"] = {k: ref_json(v) for k, v in low.signal_refs.items()}
        rec["memories"] = dict(low.memory_refs)
        rec["entities_by_name"] = dict(low.entity_refs)
        rec["signal_type_map"] = _plain(low.ir_builder.signal_type_map)
    if cap.planner is not None:
        rec["signal_type_map"] = _plain(cap.planner.signal_type_map) if hasattr(cap.planner, "signal_type_map") else rec.get("signal_type_map")
    if cap.plan is not None and want_plan:
        plan = cap.plan
        ents = {}
        for pid, p in plan.entity_placements.items():
            props = {k: _plain(v) for k, v in p.properties.items() if k not in ("debug_info",)}
            dbg = p.properties.get("debug_info") or {}
            ents[pid] = {"type": p.entity_type, "role": p.role,
                         "pos": list(p.position) if p.position is not None else None,
                         "props": props,
                         "debug": {k: _plain(v) for k, v in dbg.items() if k != "source_ast"}}
        rec["plan"] = {"entities": ents,
                       "wires": [[w.source_entity_id, w.source_side, w.sink_entity_id, w.sink_side, w.wire_color, w.signal_name]
                                 for w in plan.wire_connections],
                       "power_poles": [[p.pole_id, p.pole_type, list(p.position)] for p in plan.power_poles]}
    if cap.conn is not None:
        cp = cap.conn
        edges = []
        for e in cp._circuit_edges:
            if not e.source_entity_id:
                continue
            key = (e.source_entity_id, e.sink_entity_id, e.resolved_signal_name)
            edges.append([e.source_entity_id, e.sink_entity_id, e.resolved_signal_name,
                          cp._edge_color_map.get(key) or cp._edge_wire_colors.get(key)])
        # wires that were planned explicitly before routing (memory modules, feedback) join both ends
        rec["edges"] = edges
        try:
            rec["relays"] = [[str(n.entity_id), sorted(n.networks_red), sorted(n.networks_green)]
                             for n in cp.relay_network.relay_nodes.values()]
        except Exception as ex:  # noqa: BLE001
            rec["relays_error"] = str(ex)[:100]
        rec["explicit_wires"] = [list(p) for p in (cap.preserved or [])]
    if cap.blueprint is not None:
        bp = cap.blueprint
        ids = []
        for e in bp.entities:
            ids.append(str(e.id) if e.id is not None else None)
        rec["entity_ids"] = ids  # index i  <->  entity_number i+1
        if want_geometry:
            rec["geometry"] = geometry_table(bp)
    return rec


if __name__ == "__main__":
    src = open(sys.argv[1]).read() if len(sys.argv) > 1 and os.path.exists(sys.argv[1]) else sys.stdin.read()
    r = compile_capture(src, optimize="--noopt" not in sys.argv)
    if "--full" in sys.argv:
        print(json.dumps(r, indent=1, default=str))
    else:
        print(json.dumps(r.get("outcome")))
        for op in r.get("ir_final", []):
            print("IR", json.dumps({k: v for k, v in op.items() if k not in ("meta",)}, default=str))
        if "printed" in r:
            for e, i in zip(r["printed"]["blueprint"]["entities"], r["entity_ids"]):
                e = dict(e); e.pop("position", None)
                print("ENT", i, json.dumps(e))
            print("WIRES", r["printed"]["blueprint"].get("wires"))
