"""Shared engine of the layout family (C08, C09, C18): compile each program under a matrix of options and
forced solver outcomes, decode the *printed* blueprint in Lean, and check geometry / structure exactly."""
from __future__ import annotations

import collections
import itertools

from pipeline import compile_many, run_driver

POLES = [None, "small", "medium", "big", "substation"]
POLE_PROTO = {"small": "small-electric-pole", "medium": "medium-electric-pole", "big": "big-electric-pole", "substation": "substation"}


def matrix(sources, tier, poles=POLES, forced=(None, "zero_budget", "first_fail", "fallback")):
    jobs = []
    for k, s in enumerate(sources):
        for p in poles:
            for opt in (True, False):
                for fl in forced:
                    # the full product only in the thorough tier; quick takes a Latin-square style slice
                    if tier == "quick" and (k + POLES.index(p) + (0 if opt else 1) + forced.index(fl)) % 4 != 0:
                        continue
                    jobs.append((s, {"optimize": opt, "power_poles": p, "forced_layout": fl, "want_geometry": True}))
    return jobs


def run_geo(jobs, want_sem=True):
    recs = compile_many(jobs, timeout=6000)
    cases, wf = [], []
    for r in recs:
        if r["outcome"] != "ok":
            continue
        cases.append({"id": r["id"], "mode": "geo", "printed": r["printed"], "geometry": r.get("geometry", []),
                      "check_power": bool(r["options"].get("power_poles")),
                      "pretrim_poles": r.get("pretrim_poles") or [], "grid_supply": r.get("grid_supply") or 0})
        wf.append({"id": r["id"], "mode": "wf", "ast": r["ast"]})
    geo = {c["id"]: v for c, v in zip(cases, run_driver(cases))} if cases else {}
    wfv = {c["id"]: v for c, v in zip(wf, run_driver(wf))} if wf else {}
    sem = {}
    if want_sem:
        sc = []
        for r in recs:
            if r["outcome"] == "ok":
                c = {k: v for k, v in r.items() if k not in ("plan", "geometry")}
                c["mode"] = "sem"
                c["count"] = 4
                c["steps"] = 4
                c["seed"] = r["id"] + 1
                sc.append(c)
        sem = {c["id"]: v for c, v in zip(sc, run_driver(sc))} if sc else {}
    return recs, geo, wfv, sem


def user_entities(rec, wf):
    """(expected multiset from the reference elaborator, printed multiset of the entities the IR calls placed)"""
    exp = collections.Counter()
    dyn = 0
    for e in wf.get("ents", []):
        if e["pos"] is None:
            dyn += 1
        else:
            exp[(e["proto"], e["pos"][0], e["pos"][1])] += 1
    got = collections.Counter()
    ids = rec["entity_ids"]
    placed = set(rec.get("placed", []))
    for i, (e, g) in enumerate(zip(rec["printed"]["blueprint"]["entities"], rec.get("geometry", []))):
        if ids[i] in placed:
            cx, cy = e["position"]["x"], e["position"]["y"]
            # top-left tile from the centre and the (direction-aware) tile size
            tx = cx - g["tile_w"] / 2
            ty = cy - g["tile_h"] / 2
            got[(e["name"], tx, ty)] += 1
    return exp, got, dyn
