"""Regenerates /verif/MANIFEST.json from the table below (kept in one place so it stays valid)."""
import json
import os

VERIF = os.path.dirname(os.path.dirname(os.path.abspath(__file__)))

TB = ("Lean 4.33 kernel (axioms propext, Classical.choice, Quot.sound only; audited on every run); the spec layer "
      "(Model/Int32, SigMap, Circuit, Core, Elab: transcription of Factorio 2.0 circuit rules A1-A7 and of the documented Facto semantics); "
      "the artefact dump (harness/facto_dump.py) and Lean's JSON decoding; the program quantifier is exercised by generation")

CHECKS = {
 "C01": ("proof", "6.C01", "Lean theorems on the circuit/denotation model + verified-validator correspondence on generated scalar programs"),
 "C02": ("proof", "6.C02", "Lean theorems (wildcard isolation, member-wise semantics) + correspondence on generated bundle programs"),
 "C03": ("proof", "6.C03", "Lean theorem gated_cell over all input streams + template/wiring correspondence and quasi-static history replay"),
 "C04": ("proof", "6.C04", "Lean theorem ring_iterates (value(t+L) = f(value t)) + correspondence on generated always-write cells, optimisation on/off"),
 "C05": ("proof", "6.C05", "Lean theorems on latch next-state functions and comparison inversion + correspondence on generated latch programs"),
 "C06": ("proof", "6.C06", "Lean theorems on inlined entity conditions + correspondence on generated entity programs with free chest contents"),
 "C15": ("proof", "6.C15", "reference elaborator (call = substitution with fresh copies) + correspondence of compiled blueprints with it"),
 "C16": ("proof", "6.C16", "Lean theorem on the translated get_iteration_values + reference elaborator (loop = unrolling) + correspondence"),
}


def main():
    checks = []
    for pid, (cat, ref, tech) in sorted(CHECKS.items()):
        checks.append({
            "property_id": pid,
            "quick_cmd": f"./check {pid} --tier quick",
            "thorough_cmd": f"./check {pid} --tier thorough",
            "evidence_file": f"/verif/evidence/{pid}.json",
            "replay_cmd_template": f"./check {pid} --replay {{path}}",
            "engine": "lean-model+harness",
            "level_claimed": {"category": cat, "text": tech, "design_ref": ref},
            "level_note": TB,
            "technique": "machine-checked proof in Lean 4 about a hand-written model, tied to the code by a correspondence check on real compiler artefacts",
        })
    all_ids = [f"C{n:02d}" for n in range(1, 21)]
    na = [{"property_id": p, "reason": "check not yet registered in this commit (work in progress; see DESIGN.md §9)"}
          for p in all_ids if p not in CHECKS]
    m = {
        "version": 1,
        "setup_cmd": "cd /verif/lean && lake build Model driver Proofs",
        "hooks": {"guard": "FACTO_VERIF",
                  "enable": "no in-repo hooks: the harness (harness/facto_dump.py) wraps compiler methods from its own process",
                  "baseline_off_cmd": "cd /repo && /venv/bin/python -m pytest -q -p no:cacheprovider --timeout=900",
                  "source_commits": [], "add_only": True},
        "engines": [{"name": "lean-model+harness", "path": "/verif/lean", "serves_properties": sorted(CHECKS),
                     "kind_free_text": "Lean 4 model (Model/*.lean), proofs (Proofs/*.lean), native driver; Python harness runs the real compiler in-process"}],
        "checks": checks,
        "not_applicable": na,
        "notes": "fix: commits in /repo: a01be8e (F01 export version), e0d3eba (F04 literal folding), c5d3578 (F11 zero variable step), 2bc1bf8 (F21 pump/power-switch enable)",
    }
    with open(os.path.join(VERIF, "MANIFEST.json"), "w") as f:
        json.dump(m, f, indent=1)


if __name__ == "__main__":
    main()
