"""Regenerates /verif/MANIFEST.json from the table below (kept in one place so it stays valid)."""
import json
import os

VERIF = os.path.dirname(os.path.dirname(os.path.abspath(__file__)))

TB = ("Lean 4.33 kernel (axioms propext, Classical.choice, Quot.sound only; audited on every run); the spec layer "
      "(Model/Int32, SigMap, Circuit, Core, Elab: transcription of Factorio 2.0 circuit rules A1-A7; Model/Match: the validator whose acceptance the theorems are about and of the documented Facto semantics); "
      "the artefact dump (harness/facto_dump.py) and Lean's JSON decoding; the glue that instantiates the per-program theorems (Driver.lean runSem: which circuit "
      "is validated - original / pruned / cone-restricted / cut -, obsOK and enableIs at the observation points; harness/sem.py: proved vs. searched vs. classified), "
      "cross-checked by the FRAMEWORK INCONSISTENCY rule (a proved result that the simulation refutes is a violation); the program quantifier is exercised by generation")

CHECKS = {
 "C01": ("proof", "6.C01", "per-program theorem Facto.scalar_end_to_end / observed_scalar_end_to_end: a kernel-verified validator (Model/Match.checkAll + Circuit.checkRanked, soundness in Proofs/MatchSound.lean) accepts the decoded printed blueprint against the Core program produced by the reference elaborator, then every bound output equals its denotation for ALL input values from the settling tick on; a circuit with cycles through irrelevant producers is validated on its pruned / cone-restricted form (prune_run, restrict_run); a result that is neither proved nor refuted is matched against the static signatures of the listed findings and otherwise reported as VIOLATION no-failing-input-found"),
 "C02": ("proof", "6.C02", "per-program theorems Facto.bundle_end_to_end / observed_bundle_end_to_end / wiresum_end_to_end: the verified validator covers bundle literals (incl. shared constant combinators), bundle OP scalar, filters, gates, any/all, selections; accepted programs carry exactly the denoted members for ALL inputs (pointwise equality of wire sums: no member missing, none foreign); rejected programs fall back to failing-input search + known-finding classifier"),
 "C03": ("proof", "6.C03", "per-program one-tick theorem Facto.gated_cell_end_to_end on the decoded blueprint: the circuit is cut at the cell gates, the rest validated by the kernel-verified checkAll on the cut circuit, the gates matched against the write rule (gatedCellIs); in every state settled around the cells the next content is WriteRule.next (data / hold / clear) for all inputs and all contents; stream corollaries cell_follows / cell_holds / cell_zero_before_write; transients between settled states and unproved cells: quasi-static history simulation"),
 "C04": ("proof", "6.C04", "per-program theorem Facto.ring_end_to_end at EVERY tick of the run from the all-zero state: a ring of L arithmetic combinators matched against the written expression (ringCellIs) satisfies value(t+L) = f(value(t)), f = the source expression with the cell holding value(t); no settling hypothesis; latency-1 self-reading combinators also by always_cell_end_to_end; unproved cells and the two-gate (non-optimised) form: latency search by simulation, both optimisation settings"),
 "C05": ("proof", "6.C05", "per-program one-tick theorems Facto.latch_cell_end_to_end / latch_value_end_to_end for both priorities (latchIs ... setPrio: set-priority rows (feedback AND NOT r) OR s and s OR (feedback AND NOT r); reset-priority rows (s AND NOT r) OR (feedback AND NOT r)), standard rows and inlined comparisons, value 1 or a constant through a multiplier, on the cut circuit; LatchExample: a concrete reset-priority latch is accepted for reset and rejected for set priority; translated _invert_comparison correct (C05_invert_correct); rs_latch_repaired; transients: history simulation with threshold-aware inputs (F32: set computed by a longer chain than reset). Partial: signal-valued v is outside the reference model (it keeps the latch state in the cell value)"),
 "C06": ("proof", "6.C06", "per-program theorem Facto.enable_end_to_end: for accepted programs the circuit condition of every placed entity is true exactly when the assigned expression is positive, for ALL input values and ALL contents of the containers read through .output (declared sources), covering value>0 wiring and inlined comparison / any / all / negation; fallback: failing-input search"),
 "C07": ("proof", "6.C07", "Lean M5 (behaviour is a function of the decoded logical circuit) + canonical form; correspondence: planned placement properties and connections vs Lean decoding of the printed text, and all CLI entry points decoded and compared"),
 "C08": ("proof", "6.C08", "Lean theorems: footprint-disjoint => collision-disjoint, tile/centre round trip, relay invariant on the pattern-translated RelayNode; correspondence: exact geometric check of every printed blueprint over the option x forced-solver-outcome matrix (normal, near-zero budget, first attempts failing, fallback, and a deterministic feasible-but-stretched outcome for memory cells)"),
 "C09": ("proof", "6.C09", "Lean tile/centre theorem + reference elaborator placements (loops, calls, int arithmetic); correspondence: multiset of user entities in the printed blueprint"),
 "C10": ("proof", "6.C10", "both builds are related to the same denotation: when the verified validator accepts both (scalar_end_to_end / bundle_end_to_end), they are equal to it and hence to each other for ALL inputs; otherwise correspondence by simulation on CSE-stress and C01-C06 generators with optimisation on and off; stateful programs by history search"),
 "C11": ("proof", "6.C11", "36 Lean theorems on the folders translated from the current source (agreement with the combinator ALU per operator, negations with witnesses for / and %); translator correspondence on 30k operand pairs; per program: a folded constant in the blueprint is accepted by the verified validator iff it equals constVal (Facto.constVal_sound: the node's denotation for every valuation), then scalar_end_to_end covers every folding site of accepted programs; others: simulation"),
 "C12": ("proof", "6.C12", "source level: Facto.embed_sound (each program sits, node for node, inside the interleaving: checked per triple by the driver's embed mode, up to implicit type names via retype_nodeVal); circuit level: the joint build validated by the kernel-verified validator whose isolation premises (read_isolated / carries_sound) say an accepted operand sees exactly its own producers; fallback: simulation of P, Q and an interleaving of renamed-apart programs"),
 "C13": ("proof", "6.C13", "source level, in full: Facto.rename_evalNodes - for EVERY injective renaming of signal names the renamed program on renamed inputs denotes, node for node, the renamed signal maps (scalar values unchanged: rename_argVal; bundles renamed: rename_bundle; cells: rename_next); the compiler's choice is a composition of transpositions (swaps_injective). Circuit level: every build is validated against renameNodes rho P by the kernel-verified matcher, and scalar_end_to_end_renamed / bundle_end_to_end_renamed(_foreign) state the result about the program as written; the collision case is exactly what the isolation premises and the static clash check reject; fallback: simulation"),
 "C14": ("proof", "6.C14", "Lean theorems: errors propagate through any prefix / loop body (violation anywhere rejected), reserved literal rejected in every state; correspondence: accept/reject and error class on one-violation mutants in 26 rule instances x 4 contexts, CLI sample"),
 "C15": ("proof", "6.C15", "reference elaborator (call = substitution with fresh copies of everything the body declares, lexical scoping); the compiled blueprint is validated against the inlined Core program by the kernel-verified validator (scalar_end_to_end / gated_cell_end_to_end / latch_cell_end_to_end: all inputs); generators cover local memories per call site, shadowing, free names vs caller's locals, nested same-named entities, projections of parameters; regression corpus of the repaired scoping defects; fallback simulation"),
 "C16": ("proof", "6.C16", "Lean theorem C16_iteration_values on the translated get_iteration_values (termination is an obligation) + membership characterisation; the elaborator unrolls over it and the compiled blueprint is validated against the unrolled Core program by the kernel-verified validator (scalar_end_to_end / enable_end_to_end: all inputs); fallback simulation"),
 "C17": ("proof", "6.C17", "25 Lean theorems on lib/math.facto regenerated through the real parser (kernel-checked elaboration + contracts for all int32 arguments); hand model of preprocess_imports with differential expansion check from three working directories; pasted twins"),
 "C18": ("proof", "6.C18", "Lean theorems grid_covers (1-D and 2-D) and the nearest-neighbour counter-model; correspondence: exact coverage / copper connectivity / pole type check of every printed blueprint; an unpowered consumer is classified against the pole grid as laid out before trimming (captured in-process): only the two listed causes (F31 far-end shortfall / stragglers, F41 hole at a user-placed entity) are findings, a trimmed covering pole or a consumer before the start of the grid is a violation"),
 "C19": ("proof", "6.C19", "Lean M5 run_congr_of_same_circuit + canonical_ignores_position; correspondence: canonical logical circuits across hash seeds, solver budgets, prior compilations, working directories, concurrent load"),
 "C20": ("proof", "6.C20", "outputs computed by the reference elaborator; correspondence: labels, anchors and observed anchor values of every unconsumed name, labelled inputs"),
}


def main():
    checks = []
    for pid, (cat, ref, tech) in sorted(CHECKS.items()):
        checks.append({
            "property_id": pid,
            "quick_cmd": f"./check {pid} --tier quick",
            "thorough_cmd": f"./check {pid} --tier thorough",
            "evidence_file": f"/verif/evidence/{pid}.json",
            "replay_cmd_template": f"./check {pid} --replay {{path}}",
            "engine": "lean-model+harness",
            "level_claimed": {"category": cat, "text": tech, "design_ref": ref},
            "level_note": TB,
            "technique": "machine-checked proof in Lean 4 about a hand-written model, tied to the code by a correspondence check on real compiler artefacts",
        })
    all_ids = [f"C{n:02d}" for n in range(1, 21)]
    na = [{"property_id": p, "reason": "check not yet registered in this commit (work in progress; see DESIGN.md §9)"}
          for p in all_ids if p not in CHECKS]
    m = {
        "version": 1,
        "setup_cmd": "cd /verif && python3 harness/py2lean.py && python3 harness/py2lean.py --lib && cd lean && lake build Model driver gendriver Proofs",
        "hooks": {"guard": "FACTO_VERIF",
                  "enable": "no in-repo hooks: the harness (harness/facto_dump.py) wraps compiler methods from its own process",
                  "baseline_off_cmd": "cd /repo && /venv/bin/python -m pytest -q -p no:cacheprovider --timeout=900",
                  "source_commits": [], "add_only": True},
        "engines": [{"name": "lean-model+harness", "path": "/verif/lean", "serves_properties": sorted(CHECKS),
                     "kind_free_text": "Lean 4 model (Model/*.lean), proofs (Proofs/*.lean), native driver; Python harness runs the real compiler in-process"}],
        "checks": checks,
        "not_applicable": na,
        "notes": "fix: commits in /repo, oldest first (each a minimal unguarded repair of a genuine defect; suite 1907 passed + the 2 baseline root-permission failures after each; the defect, its minimal input and the commit are in KNOWN_FINDINGS.json 'fixed', the reverse patch of each is a seeded change under seeded/R_Fnn): a01be8e (export blueprints in the 2.0 format the emitter stamps on them); e0d3eba (fold constant expressions used as the value of a signal literal); c5d3578 (reject a zero for-loop step given through an int variable); 2bc1bf8 (apply enable conditions to entities without a circuit_enabled flag); a88e301 (do not treat a user-declared 0/1 constant as a boolean in && and ||); bafefc3 (keep a constant expression after ':' as the decider's output constant); 06e67d6 (a decider with a constant output other than 0/1 is not a boolean producer); 370c2a3 (do not fold a projection into a decider that copies its output from the input); 820fc8d (do not inline a comparison into an enable condition when a later operation also consumes i); 5348ea8 (emit a comparison with a constant on the left as the mirrored comparison); 9768cb5 (a memory declared in a function body is a separate cell per call site); 21bf4ef (names declared in a loop body no longer replace outer bindings after the loop); 06b483b (do not fold a projection into a value that a parameter or an existing operation still read); a4b1aef (retype a write-enable comparison to signal-W only when nothing else can see it); 218c2f7 (an inlined function body no longer sees the caller's parameters and locals); 05203d3 (a memory declared with an explicit type keeps it when another scope declares the same name); 3a03f97 (a planned wire longer than the wire reach fails the layout attempt instead of being emitte); 58cb7fc (keep a power pole whose supply area reaches an entity's box, not only its centre); 97d6728 (a reset-priority latch turns off when set and reset are both active); c6d4e49 (every kind of reader follows a node that CSE or constant propagation replaced); c702bdc (CSE keeps a copy-mode decider apart from a constant-mode decider with the same condition); f2295aa (a reset-priority latch gives its reset signal the same latency as its set signal); ec234c6 (untyped values are not given a signal name the program itself writes); be58e20 ('cond : <integer>' inside a function takes the call site's type of the left operand); 99e8278 (a folded && / || chain inside a function takes the call site's operand type)",
    }
    with open(os.path.join(VERIF, "MANIFEST.json"), "w") as f:
        json.dump(m, f, indent=1)


if __name__ == "__main__":
    main()
