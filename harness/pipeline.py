"""Compile cases with the real compiler (parallel, in-process) and run them through the Lean driver."""
from __future__ import annotations

import json
import multiprocessing as mp
import os
import subprocess
import sys
import time

HERE = os.path.dirname(os.path.abspath(__file__))
VERIF = os.path.dirname(HERE)
DRIVER = os.path.join(VERIF, "lean", ".lake", "build", "bin", "driver")
REPO = os.environ.get("FACTO_REPO", "/repo")
PY = "/venv/bin/python"


def _compile_worker(job):
    # runs inside a /venv/bin/python worker process
    from facto_dump import compile_capture
    idx, src, opts = job
    t0 = time.time()
    try:
        rec = compile_capture(src, **opts)
    except BaseException as e:  # noqa: BLE001
        rec = {"source": src, "outcome": {"error": "harness", "message": f"{type(e).__name__}: {e}"}}
    rec["id"] = idx
    rec["compile_s"] = round(time.time() - t0, 3)
    if not os.environ.get("VERIF_KEEP_LOWERED"):
        rec.pop("ir_lowered", None)
    return rec


def _pool_main():
    """Entry point of the compile pool process (executed with /venv/bin/python)."""
    sys.path.insert(0, HERE)
    jobs = [json.loads(l) for l in sys.stdin if l.strip()]
    nproc = int(os.environ.get("VERIF_JOBS", "16"))
    with mp.Pool(min(nproc, max(1, len(jobs)))) as pool:
        for rec in pool.imap(_compile_worker, [(j["id"], j["source"], j.get("opts", {})) for j in jobs], chunksize=1):
            sys.stdout.write(json.dumps(rec, default=str) + "\n")
            sys.stdout.flush()


def compile_many(sources, opts=None, timeout=3000, keep_lowered=False):
    """sources: list of str or (str, opts). Returns list of artefact records (same order)."""
    jobs = []
    for i, s in enumerate(sources):
        if isinstance(s, tuple):
            jobs.append({"id": i, "source": s[0], "opts": s[1]})
        else:
            jobs.append({"id": i, "source": s, "opts": opts or {}})
    env = dict(os.environ, PYTHONPATH=REPO + os.pathsep + HERE, FACTO_REPO=REPO)
    if keep_lowered:
        env["VERIF_KEEP_LOWERED"] = "1"
    p = subprocess.run([PY, os.path.join(HERE, "pipeline.py"), "--pool"], input="\n".join(json.dumps(j) for j in jobs) + "\n",
                       capture_output=True, text=True, env=env, timeout=timeout, cwd="/")
    if p.returncode != 0:
        raise RuntimeError("compile pool failed: " + p.stderr[-2000:])
    recs = [json.loads(l) for l in p.stdout.splitlines() if l.startswith("{")]
    recs.sort(key=lambda r: r["id"])
    return recs


def run_driver(cases, timeout=3000):
    """cases: list of dicts (one JSON line each). Returns list of verdict dicts in order."""
    if not os.path.exists(DRIVER):
        raise RuntimeError("Lean driver is not built: run `cd /verif/lean && lake build`")
    nproc = int(os.environ.get("VERIF_JOBS", "16"))
    chunks = [cases[i::nproc] for i in range(nproc)]
    procs = []
    for ch in chunks:
        if not ch:
            continue
        p = subprocess.Popen([DRIVER], stdin=subprocess.PIPE, stdout=subprocess.PIPE, stderr=subprocess.PIPE, text=True)
        procs.append((p, ch))
    import threading
    results = {}
    errs = []

    def feed(p, ch):
        out, err = p.communicate("\n".join(json.dumps(c, default=str) for c in ch) + "\n", timeout=timeout)
        lines = [l for l in out.splitlines() if l.strip()]
        if len(lines) != len(ch):
            errs.append(f"driver answered {len(lines)} lines for {len(ch)} cases: {err[-500:]}")
        for c, l in zip(ch, lines):
            try:
                results[c["id"]] = json.loads(l)
            except Exception as e:  # noqa: BLE001
                errs.append(f"bad driver line: {l[:200]} ({e})")
    ths = [threading.Thread(target=feed, args=pc) for pc in procs]
    for t in ths:
        t.start()
    for t in ths:
        t.join()
    if errs:
        raise RuntimeError("; ".join(errs[:3]))
    return [results.get(c["id"]) for c in cases]


if __name__ == "__main__":
    if "--pool" in sys.argv:
        _pool_main()
