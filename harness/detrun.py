"""Runs inside a fresh /venv/bin/python process (so PYTHONHASHSEED, cwd and process-global state are what the
caller chose): compiles each job with the real compile_dsl_source and prints the printed blueprint."""
import json
import os
import sys

REPO = os.environ.get("FACTO_REPO", "/repo")
sys.path.insert(0, REPO)
import logging  # noqa: E402

logging.disable(logging.CRITICAL)
from dsl_compiler.cli import compile_dsl_source  # noqa: E402
from dsl_compiler.src.common.constants import CompilerConfig  # noqa: E402


def main():
    jobs = [json.loads(l) for l in sys.stdin if l.strip()]
    for j in jobs:
        if j.get("cwd"):
            os.chdir(j["cwd"])
        out = {"id": j["id"]}
        try:
            if j.get("pre"):
                compile_dsl_source(j["pre"], use_json=True)   # an unrelated compilation in the same process
            kw = {}
            if j.get("time_limit") is not None:
                kw["config"] = CompilerConfig(layout_solver_time_limit=j["time_limit"])
            ok, text, diags = compile_dsl_source(j["source"], use_json=True, optimize=j.get("optimize", True),
                                                 power_pole_type=j.get("power_poles"), **kw)
            out["ok"] = bool(ok)
            out["printed"] = json.loads(text) if ok else None
            if not ok:
                out["error"] = text
        except BaseException as e:  # noqa: BLE001
            out["ok"] = False
            out["error"] = f"{type(e).__name__}: {e}"[:300]
        sys.stdout.write(json.dumps(out) + "\n")
        sys.stdout.flush()


if __name__ == "__main__":
    main()
