"""Seeded generators of Facto programs (DESIGN §4.3). Every random choice derives from one
`random.Random(seed)`; nothing here imports the compiler."""
from __future__ import annotations

import random

VIRT = [f"signal-{c}" for c in "ABCDEFGHIJKLMNOPQRSTUVXYZ"]  # no signal-W (reserved)
DIGITS = [f"signal-{d}" for d in "0123456789"]
ITEMS = ["iron-plate", "copper-plate", "coal", "stone", "wood", "iron-ore", "copper-ore", "steel-plate",
         "electronic-circuit", "iron-gear-wheel"]
FLUIDS = ["water", "crude-oil", "steam"]
SIGNALS = VIRT + DIGITS + ITEMS + FLUIDS

ARITH = ["+", "-", "*", "/", "%", "**", "<<", ">>", "AND", "OR", "XOR"]
CMP = ["==", "!=", "<", "<=", ">", ">="]
BOUNDARY = [0, 1, -1, 2, -2, 3, 5, 7, 10, -10, 100, 255, 256, 1000, -1000, 65535, 65536,
            2147483647, -2147483648, 2147483646, -2147483647, 1073741824, 46341, -46341]


def const(rng: random.Random, small=False) -> int:
    r = rng.random()
    if small or r < 0.55:
        return rng.randint(-20, 20)
    if r < 0.85:
        return rng.choice(BOUNDARY)
    return rng.randint(-(2 ** 31), 2 ** 31 - 1)


def small_const(rng: random.Random) -> int:
    """small constants with the special values 0, 1, -1 over-represented"""
    r = rng.random()
    if r < 0.2:
        return 0
    if r < 0.35:
        return rng.choice([1, -1])
    return rng.randint(-20, 20)


def lit(v: int) -> str:
    # a negative literal directly after a binary operator lexes as one NUMBER token; parenthesise
    return f"({v})" if v < 0 else str(v)


class Scope:
    def __init__(self):
        self.signals: list[tuple[str, str | None]] = []  # (name, explicit type or None)
        self.ints: list[tuple[str, int]] = []
        self.bundles: list[tuple[str, list[str]]] = []
        self.uses: dict[str, int] = {}
        self.counter = 0

    def fresh(self, prefix="x") -> str:
        self.counter += 1
        return f"{prefix}{self.counter}"


class ScalarGen:
    """Stateless scalar programs (C01): DAGs over typed / untyped inputs."""

    def __init__(self, rng: random.Random, share: float = 0.5, max_depth: int = 2, typed_bias: float = 0.85,
                 ops=None, allow_logic=True, allow_proj=True, allow_outspec=True):
        self.rng = rng
        self.share = share
        self.max_depth = max_depth
        self.typed_bias = typed_bias
        self.ops = ops or ARITH
        self.allow_logic = allow_logic
        self.allow_proj = allow_proj
        self.allow_outspec = allow_outspec
        self.sc = Scope()
        self.lines: list[str] = []
        self.free_types = [s for s in SIGNALS]
        rng.shuffle(self.free_types)

    # ---- leaves
    def pick_signal(self) -> str:
        sc, rng = self.sc, self.rng
        unused = [n for n, _ in sc.signals if sc.uses.get(n, 0) == 0]
        if unused and rng.random() > self.share:
            n = rng.choice(unused)
        else:
            n = rng.choice(sc.signals)[0]
        sc.uses[n] = sc.uses.get(n, 0) + 1
        return n

    def leaf(self, want_signal=False) -> str:
        rng = self.rng
        if self.sc.signals and (want_signal or rng.random() < 0.7):
            return self.pick_signal()
        if self.sc.ints and rng.random() < 0.3:
            return rng.choice(self.sc.ints)[0]
        return lit(const(rng))

    # ---- expressions (always contain at least one signal so they are run-time values)
    def expr(self, depth: int) -> str:
        rng = self.rng
        if depth <= 0:
            return self.leaf(want_signal=True)
        r = rng.random()
        if r < 0.45:
            return self.arith(depth)
        if r < 0.62:
            return self.compare(depth)
        if r < 0.72 and self.allow_logic:
            return self.logic(depth)
        if r < 0.78:
            return f"(-{self.atom(depth - 1)})"
        if r < 0.84 and self.allow_logic:
            return f"(!{self.atom(depth - 1)})"
        if r < 0.92 and self.allow_proj:
            t = rng.choice(SIGNALS)
            return f"({self.expr(depth - 1)} | \"{t}\")"
        if self.allow_outspec:
            return self.outspec(depth)
        return self.arith(depth)

    def atom(self, depth: int) -> str:
        e = self.expr(depth)
        return e if e.startswith("(") or e.isidentifier() else f"({e})"

    def operand(self, depth: int, allow_const=True) -> str:
        if allow_const and self.rng.random() < 0.3:
            return self.leaf()
        return self.atom(depth - 1)

    def arith(self, depth: int) -> str:
        rng = self.rng
        op = rng.choice(self.ops)
        left = self.atom(depth - 1)
        if op in ("<<", ">>"):
            right = str(rng.randint(0, 31))
        elif op == "**":
            if rng.random() < 0.3:
                # constant base, run-time exponent (negative exponents: both sides of the model give 0, A2)
                return f"({lit(const(rng, small=True))} ** {left})"
            right = str(rng.randint(0, 5))
        else:
            right = self.operand(depth)
        if op in ("<<", ">>") and rng.random() < 0.2:
            return f"({lit(const(rng, small=True))} {op} {left})"
        if rng.random() < 0.15 and op not in ("<<", ">>", "**"):
            left, right = right, left
            if not any(ch.isalpha() for ch in left.replace("AND", "").replace("OR", "").replace("XOR", "")):
                left, right = right, left
        return f"({left} {op} {right})"

    def compare(self, depth: int) -> str:
        rng = self.rng
        op = rng.choice(CMP)
        if rng.random() < 0.12:
            # an offset on the left and a constant on the right: moving the offset across is only valid without wrap-around
            x = self.pick_signal()
            return f"(({x} {rng.choice(['+', '-'])} {lit(rng.choice([1, 5, 1000, 2147483647, -7]))}) {op} {lit(small_const(rng))})"
        left = self.atom(depth - 1)
        right = self.operand(depth)
        if rng.random() < 0.12:
            # the constant (or int variable) on the left: a condition can hold its constant on the right only
            k = rng.choice(self.sc.ints)[0] if (self.sc.ints and rng.random() < 0.3) else lit(small_const(rng))
            return f"({k} {op} {left})"
        return f"({left} {op} {right})"

    def logic(self, depth: int) -> str:
        rng = self.rng
        op = rng.choice(["&&", "||", "and", "or"])
        def mk():
            r = rng.random()
            if r < 0.55:
                return self.compare(max(depth - 1, 1))
            if r < 0.8:
                return self.nearbool(depth)
            return self.atom(depth - 1)
        parts = [mk() for _ in range(rng.choice([2, 2, 3]))]
        return "(" + f" {op} ".join(parts) + ")"

    def nearbool(self, depth: int) -> str:
        """operands of && / || that look boolean but are not for every input (or are, in a non-obvious way):
        the places where a 'both operands are 0/1' shortcut is tempting"""
        rng = self.rng
        x = self.atom(depth - 1)
        k = rng.choice([0, 1, 2, 3, 4, 8])
        if k == 0:
            return f"({x} % {rng.choice([2, 2, 3, 4])})"
        if k == 1:
            return f"({x} AND {rng.choice([1, 1, 3])})"
        if k == 2:
            return f"({self.compare(1)} : {rng.choice([-1, 0, 1, 2])})"
        if k == 3:
            return f"({self.compare(1)} * {self.compare(1)})"
        if k == 4:
            return f"({x} >> {rng.choice([31, 30])})"
        return f"(!{x})"

    def outspec(self, depth: int) -> str:
        rng = self.rng
        cond = self.compare(max(depth - 1, 1))
        val = self.pick_signal() if rng.random() < 0.7 else lit(small_const(rng))
        return f"({cond} : {val})"

    # ---- program
    def add_input(self):
        rng, sc = self.rng, self.sc
        name = sc.fresh("i")
        if rng.random() < self.typed_bias:
            t = self.free_types.pop() if (self.free_types and rng.random() < 0.8) else rng.choice(SIGNALS)
            self.lines.append(f'Signal {name} = ("{t}", {const(rng)});')
            sc.signals.append((name, t))
        else:
            self.lines.append(f"Signal {name} = {const(rng)};")
            sc.signals.append((name, None))

    def add_int(self):
        name = self.sc.fresh("n")
        v = const(self.rng, small=self.rng.random() < 0.6)
        self.lines.append(f"int {name} = {v};")
        self.sc.ints.append((name, v))

    def add_stmt(self):
        name = self.sc.fresh("x")
        e = self.expr(self.rng.randint(1, self.max_depth))
        self.lines.append(f"Signal {name} = {e};")
        self.sc.signals.append((name, None))

    def program(self, n_inputs=None, n_stmts=None) -> str:
        rng = self.rng
        for _ in range(n_inputs if n_inputs is not None else rng.randint(1, 4)):
            self.add_input()
        if rng.random() < 0.3:
            self.add_int()
        for _ in range(n_stmts if n_stmts is not None else rng.randint(1, 6)):
            self.add_stmt()
        return "\n".join(self.lines) + "\n"


def gen_scalar(seed: int, **kw) -> str:
    rng = random.Random(seed)
    profile = rng.random()
    if profile < 0.35:     # trees: every value used once, distinct types -> the clean stream
        g = ScalarGen(rng, share=0.0, max_depth=2, **kw)
    elif profile < 0.6:    # single statement, deep
        g = ScalarGen(rng, share=0.3, max_depth=3, **kw)
        return g.program(n_stmts=1)
    else:                  # DAGs with sharing
        g = ScalarGen(rng, share=0.6, max_depth=2, **kw)
    return g.program()


if __name__ == "__main__":
    import sys
    for s in range(int(sys.argv[1]), int(sys.argv[2])):
        print(f"# seed {s}")
        print(gen_scalar(s))


# ------------------------------------------------------------------ bundles (C02)
class BundleGen:
    def __init__(self, rng: random.Random):
        self.rng = rng
        self.lines: list[str] = []
        self.types = [s for s in ITEMS + FLUIDS + VIRT[:12]]
        rng.shuffle(self.types)
        self.scalars: list[tuple[str, str]] = []     # (name, type)
        self.bundles: list[tuple[str, list[str]]] = []  # (name, member types)
        self.n = 0

    def fresh(self, p):
        self.n += 1
        return f"{p}{self.n}"

    def new_type(self):
        return self.types.pop()

    def add_scalar(self):
        nm = self.fresh("s")
        t = self.new_type()
        self.lines.append(f'Signal {nm} = ("{t}", {const(self.rng, small=self.rng.random() < 0.6)});')
        self.scalars.append((nm, t))
        return nm, t

    def add_bundle_literal(self):
        rng = self.rng
        nm = self.fresh("b")
        elems, tys = [], []
        for _ in range(rng.randint(1, 4)):
            r = rng.random()
            if r < 0.45 and len(self.types) > 2:
                t = self.new_type()
                elems.append(f'("{t}", {const(rng, small=rng.random() < 0.5)})')
                tys.append(t)
            elif r < 0.8 and len(self.types) > 2:
                s, t = self.add_scalar()
                elems.append(s)
                tys.append(t)
            else:
                cands = [(b, ts) for b, ts in self.bundles if not set(ts) & set(tys)]
                if cands:
                    b, ts = rng.choice(cands)
                    elems.append(b)
                    tys += ts
        if not elems:
            t = self.new_type()
            elems.append(f'("{t}", {const(rng, small=True)})')
            tys.append(t)
        self.lines.append(f"Bundle {nm} = {{ {', '.join(elems)} }};")
        self.bundles.append((nm, tys))

    def scalar_operand(self):
        rng = self.rng
        if self.scalars and rng.random() < 0.5:
            return rng.choice(self.scalars)[0]
        return lit(const(rng, small=rng.random() < 0.7))

    def add_op(self):
        rng = self.rng
        b, tys = rng.choice(self.bundles)
        r = rng.random()
        nm = self.fresh("b")
        if r < 0.3:
            op = rng.choice(ARITH)
            k = str(rng.randint(0, 31)) if op in ("<<", ">>") else (str(rng.randint(0, 4)) if op == "**" else self.scalar_operand())
            if op in ("/", "%") and rng.random() < 0.5:
                # divisors for which a shift / mask "strength reduction" is tempting (wrong for negative members)
                k = lit(rng.choice([2, 4, 8, 16, 1024, -2, 1, -1]))
            self.lines.append(f"Bundle {nm} = ({b} {op} {k});")
            self.bundles.append((nm, tys))
        elif r < 0.45:
            self.lines.append(f"Bundle {nm} = (({b} {rng.choice(CMP)} {self.scalar_operand()}) : {b});")
            self.bundles.append((nm, tys))
        elif r < 0.55:
            self.lines.append(f"Bundle {nm} = (({b} {rng.choice(CMP)} {self.scalar_operand()}) : {lit(small_const(rng))});")
            self.bundles.append((nm, tys))
        elif r < 0.65 and self.scalars:
            s = rng.choice(self.scalars)[0]
            self.lines.append(f"Bundle {nm} = (({s} {rng.choice(CMP)} {lit(const(rng, small=True))}) : {b});")
            self.bundles.append((nm, tys))
        elif r < 0.8:
            sn = self.fresh("q")
            fn = rng.choice(["any", "all"])
            if rng.random() < 0.5 or not self.scalars:
                self.lines.append(f"Signal {sn} = ({fn}({b}) {rng.choice(CMP)} {lit(small_const(rng))});")
            else:
                s = rng.choice(self.scalars)[0]
                self.lines.append(f"Signal {sn} = (({fn}({b}) {rng.choice(CMP)} {lit(const(rng, small=True))}) : {s});")
        else:
            sn = self.fresh("q")
            t = rng.choice(tys)
            if rng.random() < 0.5:
                self.lines.append(f'Signal {sn} = {b}["{t}"];')
            else:
                self.lines.append(f'Signal {sn} = ({b}["{t}"] {rng.choice(["+", "*", "-"])} {lit(const(rng, small=True))});')

    def program(self):
        rng = self.rng
        for _ in range(rng.randint(0, 2)):
            self.add_scalar()
        for _ in range(rng.randint(1, 2)):
            self.add_bundle_literal()
        for _ in range(rng.randint(1, 4)):
            self.add_op()
        return "\n".join(self.lines) + "\n"


def gen_bundle(seed: int) -> str:
    return BundleGen(random.Random(seed)).program()


# ------------------------------------------------------------------ memories (C03, C04, C05)
def _inputs(rng, k, types=None):
    lines, names = [], []
    pool = types or [t for t in VIRT if t not in ("signal-W",)]
    ts = rng.sample(pool, k)
    for i, t in enumerate(ts):
        nm = f"i{i + 1}"
        lines.append(f'Signal {nm} = ("{t}", {const(rng, small=True)});')
        names.append((nm, t))
    return lines, names


def _stateless(rng, names, depth=1):
    """small stateless expression over the inputs"""
    a = rng.choice(names)[0]
    if depth <= 0 or rng.random() < 0.4:
        return a
    op = rng.choice(["+", "-", "*", "/", "%", "AND", "OR", "XOR"])
    b = rng.choice(names)[0] if rng.random() < 0.5 else lit(const(rng, small=True))
    return f"({a} {op} {b})"


def _condition(rng, names):
    a = rng.choice(names)[0]
    b = rng.choice(names)[0] if rng.random() < 0.3 else lit(rng.randint(-3, 6))
    if rng.random() < 0.15:
        return f"({lit(rng.randint(-3, 6))} {rng.choice(CMP)} {a})"
    return f"({a} {rng.choice(CMP)} {b})"


def gen_gated(seed: int) -> str:
    rng = random.Random(seed)
    lines, names = _inputs(rng, rng.randint(2, 4))
    cells = rng.randint(1, 2)
    mts = rng.sample(ITEMS + FLUIDS, cells)
    for c in range(cells):
        t = mts[c]
        m = f"m{c + 1}"
        lines.append(f'Memory {m}: "{t}";')
        data = f"({_stateless(rng, names, 1)} | \"{t}\")"
        r = rng.random()
        if r < 0.25:
            # the documented idiom: enable while an input (or a difference of inputs) is positive
            a = rng.choice(names)[0]
            en = f"{a} > 0" if rng.random() < 0.6 else f"({a} - {rng.choice(names)[0]}) > 0"
        elif r < 0.6:
            en = _condition(rng, names)
        elif r < 0.8:
            en = rng.choice(names)[0]
        else:
            en = f"({_condition(rng, names)} && {_condition(rng, names)})"
        if rng.random() < 0.2:
            # the enable is a named value that the program goes on using (the write must not rename it)
            lines.append(f"Signal en{c + 1} = {en};")
            lines.append(f"{m}.write({data}, when=en{c + 1});")
            lines.append(f"Signal u{c + 1} = (en{c + 1} {rng.choice(['+', '*', '-'])} {lit(rng.randint(1, 5))});")
        else:
            lines.append(f"{m}.write({data}, when={en});")
        for k in range(rng.randint(1, 3)):
            rn = f"r{c + 1}_{k + 1}"
            if rng.random() < 0.5:
                lines.append(f"Signal {rn} = {m}.read();")
            else:
                lines.append(f"Signal {rn} = ({m}.read() {rng.choice(['+', '*', '-', '>'])} {lit(const(rng, small=True))});")
    return "\n".join(lines) + "\n"


def gen_iterate(seed: int) -> str:
    rng = random.Random(seed)
    lines, names = _inputs(rng, rng.randint(0, 2))
    t = rng.choice(VIRT)
    lines.append(f'Memory c: "{t}";')
    steps = rng.randint(1, 4)
    cur = "c.read()"
    shape = rng.random()
    if shape < 0.25:
        # an arithmetic reader of the cell declared before the write statement
        lines.append(f"Signal seen = c.read() {rng.choice(['*', '+', '-'])} {rng.randint(2, 9)};")
    elif shape < 0.4:
        # the read is shared between a reader and the written value
        lines.append("Signal cur = c.read();")
        lines.append(f"Signal out = cur * {rng.randint(2, 5)};")
        cur = "cur"
    elif shape < 0.52:
        # a comparison reading the cell, declared before the write statement (the first recorded read is not arithmetic)
        lines.append(f"Signal big = {rng.choice(['c.read() > ' + str(rng.randint(1, 9)), '(c.read() >= ' + str(rng.randint(1, 9)) + ') : 1'])};")
    elif shape < 0.62:
        # (an entity condition reading the cell would be the third kind of non-arithmetic reader; the iteration check
        # traces every observation as if it were the cell, so a 0/1 enable trace is not generated here)
        lines.append(f"Signal small = c.read() < {rng.randint(1, 9)};")
    elif shape < 0.7:
        # a plain alias of the cell before the write statement
        lines.append("Signal al = c.read();")
    for k in range(steps):
        op = rng.choice(["+", "-", "*", "%", "XOR", "AND", "OR", "/"])
        if op in ("%", "/"):
            rhs = lit(rng.choice([2, 3, 5, 7, 10, 17, 100, 1000]))
        elif names and rng.random() < 0.3:
            rhs = rng.choice(names)[0]
        else:
            rhs = lit(const(rng, small=True))
        if rng.random() < 0.5 or k == steps - 1:
            cur = f"({cur} {op} {rhs})"
        else:
            nm = f"t{k + 1}"
            lines.append(f"Signal {nm} = ({cur} {op} {rhs});")
            cur = nm
    if rng.random() < 0.3:
        cur = f"({cur} + 1)"
    lines.append(f"c.write({cur});")
    lines.append("Signal q = c.read();")
    if rng.random() < 0.2:
        lines.append(f"Signal late = c.read() {rng.choice(['>', '<', '!='])} {rng.randint(1, 9)};")
    return "\n".join(lines) + "\n"


def gen_latch(seed: int) -> str:
    rng = random.Random(seed)
    lines, names = _inputs(rng, rng.randint(1, 3))
    t = rng.choice(VIRT)
    lines.append(f'Memory l: "{t}";')
    form = rng.random()
    x = names[0][0]
    if len(names) > 1 and rng.random() < 0.5:
        # the cell's type coincides with the type of the set's or of the reset's operand (signal remapping paths)
        lines[-1] = f'Memory l: "{rng.choice([names[0][1], names[1][1]])}";'
    if form < 0.4:      # comparisons on one shared input (hysteresis)
        lo, hi = sorted(rng.sample(range(-5, 12), 2))
        if rng.random() < 0.3:
            lo, hi = hi, lo   # overlapping thresholds
        s, r = f"{x} < {lo}", f"{x} >= {hi}"
    elif form < 0.7 and len(names) > 1:   # comparisons on different inputs
        s, r = f"{names[0][0]} {rng.choice(CMP)} {rng.randint(-3, 5)}", f"{names[1][0]} {rng.choice(CMP)} {rng.randint(-3, 5)}"
    else:               # signals declared as comparisons
        lines.append(f"Signal sset = {_condition(rng, names)};")
        lines.append(f"Signal rreset = {_condition(rng, names)};")
        s, r = "sset", "rreset"
    v = rng.choice(["1", "1", lit(const(rng, small=True)), "100"])
    if rng.random() < 0.5:
        lines.append(f"l.write({v}, set={s}, reset={r});")
    else:
        lines.append(f"l.write({v}, reset={r}, set={s});")
    lines.append("Signal o = l.read();")
    return "\n".join(lines) + "\n"


# ------------------------------------------------------------------ entities (C06)
CONTROLLED = ["small-lamp", "inserter", "transport-belt", "pump", "power-switch", "train-stop", "fast-inserter"]
SOURCES = ["steel-chest", "iron-chest", "wooden-chest", "storage-tank"]


def gen_entities(seed: int) -> str:
    rng = random.Random(seed)
    lines, names = _inputs(rng, rng.randint(1, 3))
    ne = rng.randint(1, 4)
    chests = []
    x = 0
    for c in range(rng.randint(0, 2)):
        nm = f"ch{c + 1}"
        lines.append(f'Entity {nm} = place("{rng.choice(SOURCES[:3])}", {x}, 10);')
        x += 3
        chests.append(nm)
        lines.append(f"Bundle items{c + 1} = {nm}.output;")
    for e in range(ne):
        nm = f"e{e + 1}"
        proto = rng.choice(CONTROLLED[:4] if rng.random() < 0.8 else CONTROLLED)
        lines.append(f'Entity {nm} = place("{proto}", {x}, 0);')
        x += 3
        r = rng.random()
        if r < 0.3:
            cond = _condition(rng, names)
            if rng.random() < 0.25:
                cond = f"!{cond}"
        elif r < 0.5 and chests:
            k = rng.randint(1, len(chests))
            cond = f"{rng.choice(['any', 'all'])}(items{k}) {rng.choice(CMP)} {rng.randint(0, 200)}"
            if rng.random() < 0.35:
                cond = f"!({cond})"
        elif r < 0.65 and chests:
            k = rng.randint(1, len(chests))
            cond = f'(items{k}["iron-plate"] {rng.choice(CMP)} {rng.randint(0, 200)})'
        elif r < 0.75:
            cond = _stateless(rng, names, 1)
        elif r < 0.88:
            # a conditional value as the enable: positive only if the condition holds AND the value is positive
            a = rng.choice(names)[0]
            c0 = f"({a} {rng.choice(CMP)} {lit(rng.randint(-6, 12))})"
            v = a if rng.random() < 0.6 else (rng.choice(names)[0] if rng.random() < 0.6 else lit(rng.randint(-2, 3)))
            cond = f"({c0} : {v})"
        else:
            cond = f"({_condition(rng, names)} && {_condition(rng, names)})"
        lines.append(f"{nm}.enable = {cond};")
    if chests and rng.random() < 0.5:
        lines.append(f'Signal total = (items1["iron-plate"] + items1["copper-plate"]);')
    return "\n".join(lines) + "\n"


# ------------------------------------------------------------------ functions (C15) and loops (C16)
def _scoping_block(rng, names):
    """C15's scoping clauses: each call site gets its own copy of what the body declares (memories, entities), locals of
    the callee neither capture nor clobber the caller's names, free names of the callee are the program's, not the
    caller's"""
    a0 = names[0][0]
    b0 = names[1][0] if len(names) > 1 else f"({a0} + 3)"
    t1, t2, t3 = rng.sample([t for t in VIRT if t not in ("signal-W",) and t not in [n[1] for n in names]], 3)
    k = rng.randint(1, 4)
    out = []
    kind = rng.choice(["localmem", "localmem", "param_proj", "returned_local", "free_names", "free_names", "mem_in_loop",
                       "nested_entity", "nested_entity"])
    if kind == "localmem":
        out += ["func acc(Signal s, int k) {",
                f'    Memory c: "{t1}";',
                f'    c.write((s + k) | "{t1}", when=(s > k));',
                "    return c.read();",
                "}"]
        if rng.random() < 0.5:
            # the caller has a memory of the same name
            out += [f'Memory c: "{t2}";', f'c.write({a0} | "{t2}", when=({a0} > {k}));']
            tail = ["Signal mc = c.read();"]
        else:
            tail = []
        out += [f"Signal m1 = acc({a0}, {rng.randint(-2, 3)});", f"Signal m2 = acc({b0}, {rng.randint(-2, 3)});"] + tail
    elif kind == "param_proj":
        op = rng.choice(["+", "-", "*"])
        out += ["func pj(Signal p) {",
                f'    Signal q = p | "{t1}";',
                f"    return q {op} p;",
                "}",
                f"Signal pj1 = pj({a0} {rng.choice(['+', '*', '-'])} {b0});",
                f"Signal pj2 = pj({a0});"]
    elif kind == "returned_local":
        out += ["func rl(Signal p) {",
                f"    Signal q = p * {k + 1};",
                "    Signal z = q + 1;",
                '    Entity l = place("small-lamp", 20, 9);',
                f"    l.enable = z > {rng.randint(0, 9)};",
                "    return q;",
                "}",
                f'Signal rl1 = rl({a0}) | "{t1}";']
    elif kind == "free_names":
        out += [f"int K = {k};",
                f"Signal base = {a0} + {rng.randint(1, 9)};",
                "func inner(Signal s) {",
                "    return s * K + base;",
                "}",
                "func outer(Signal base, int K) {",
                "    Signal t = inner(base) + K;",
                "    return t;",
                "}",
                "func outer2(Signal s) {",
                "    Signal base = s * 2;",
                f"    int K = {k + 5};",
                "    return inner(s) + base + K;",
                "}",
                f"Signal o1 = outer({b0}, {rng.randint(5, 9)});",
                f"Signal o2 = outer2({a0});",
                "Signal o3 = base + K;"]
    elif kind == "nested_entity":
        # a callee's local entity (signal, memory) spelled like a local of the function that calls it
        k1, k2 = rng.randint(100, 120), rng.randint(200, 230)
        loop = rng.random() < 0.5
        out += ["func inner_lamp(int x, Signal s) {",
                '    Entity lamp = place("small-lamp", x, 16);',
                f"    Signal t = s + {k2};",
                f"    lamp.enable = t > {k2 + 2};",
                "    return t;",
                "}",
                "func outer_lamp(Signal s) {",
                '    Entity lamp = place("small-lamp", 0, 18);',
                f"    Signal t = s * 2;"]
        if loop:
            out += ["    for j in 1..3 {",
                    "        Signal u = inner_lamp(j * 2, s);",
                    "    }",
                    f"    lamp.enable = t > {k1};",
                    "    return t + 1;"]
        else:
            out += ["    Signal u = inner_lamp(4, s);",
                    f"    lamp.enable = (t + u) > {k1};",
                    "    return t + u;"]
        out += ["}", f"Signal nl = outer_lamp({a0});"]
    else:
        out += ["func acc(Signal s, int k) {",
                f'    Memory c: "{t1}";',
                f'    c.write((s + k) | "{t1}", when=(s > k));',
                "    return c.read();",
                "}",
                f"for i in 0..{rng.randint(2, 3)} {{",
                f"    Signal v = acc({a0}, i);",
                '    Entity l = place("small-lamp", i * 2, 12);',
                "    l.enable = v > i;",
                "}"]
    return out


def gen_functions(seed: int) -> str:
    rng = random.Random(seed)
    lines, names = _inputs(rng, rng.randint(1, 3))
    nf = rng.randint(1, 3)
    funcs = []
    for f in range(nf):
        fn = f"f{f + 1}"
        params = []
        for p in range(rng.randint(1, 3)):
            params.append((rng.choice(["Signal", "Signal", "int"]), f"p{p + 1}"))
        body = []
        sigs = [p for t, p in params if t == "Signal"]
        ints = [p for t, p in params if t == "int"]
        if not sigs:
            params.append(("Signal", "ps"))
            sigs.append("ps")
        local = rng.choice(["t", "acc", names[0][0]])   # may shadow a caller name
        a = rng.choice(sigs)
        b = rng.choice(sigs + ints + [lit(const(rng, small=True))])
        body.append(f"    Signal {local} = ({a} {rng.choice(['+', '-', '*', 'AND', 'XOR'])} {b});")
        ret = f"({local} {rng.choice(['+', '*', '-'])} {rng.choice(sigs + ints + ['2'])})"
        if funcs and rng.random() < 0.4:   # nested call
            g, gp = rng.choice(funcs)
            args = ", ".join((local if t == "Signal" else str(rng.randint(0, 5))) for t, _ in gp)
            ret = f"({g}({args}) + {local})"
        body.append(f"    return {ret};")
        lines.append(f"func {fn}({', '.join(t + ' ' + p for t, p in params)}) {{")
        lines += body
        lines.append("}")
        funcs.append((fn, params))
    if rng.random() < 0.35:
        # a parameter spelled like a variable of the calling scope; arguments that swap parameter names
        lines.append("func sub2(Signal a, Signal b) {")
        lines.append("    return a - b;")
        lines.append("}")
        lines.append("func rsub2(Signal a, Signal b) {")
        lines.append("    return sub2(b, a);")
        lines.append("}")
        a0 = names[0][0]
        b0 = names[1][0] if len(names) > 1 else f"({a0} * 3)"
        lines.append(f"Signal a = {a0} + 1;")
        lines.append(f"Signal b = {b0} + 2;")
        lines.append("Signal sw1 = rsub2(a, b);")
        lines.append("Signal sw2 = sub2(b, a);")
        lines.append("func lamp_at(int x, int y, Signal s) {")
        lines.append('    Entity e = place("small-lamp", x, y);')
        lines.append("    e.enable = s > x;")
        lines.append("    return e;")
        lines.append("}")
        lines.append("int y = 6;")
        lines.append("for x in 0..3 {")
        lines.append(f"    Entity q = lamp_at(x * 3 - 4, y - 9, {a0});")
        lines.append("}")
    if rng.random() < 0.5:
        lines += _scoping_block(rng, names)
    for k in range(rng.randint(1, 3)):
        fn, params = rng.choice(funcs)
        args = []
        for t, _ in params:
            if t == "int":
                args.append(str(rng.randint(-3, 9)))
            else:
                r = rng.random()
                args.append(rng.choice(names)[0] if r < 0.6 else (f"({rng.choice(names)[0]} + 1)" if r < 0.8 else str(rng.randint(0, 9))))
        lines.append(f"Signal y{k + 1} = {fn}({', '.join(args)});")
    return "\n".join(lines) + "\n"


def _loop_scope_body(rng, head, names, mid=0):
    """C16: names declared in the body are local to one iteration; bodies that declare memories or call functions"""
    x = names[0][0]
    tx = names[0][1]
    kind = rng.choice(["shadow", "shadow", "memory", "memory_outer", "func_memory", "iter_values", "iter_values"])
    out = []
    if kind == "shadow":
        out += [f"Signal t = {x} + 1;", f"int k = {rng.randint(2, 6)};", 'Entity lamp = place("small-lamp", 0, 14);',
                head + " {",
                f"    Signal t = {x} * (i + 2);",
                "    int k = i + 10;",
                '    Entity lamp = place("small-lamp", i, 7);',
                "    lamp.enable = (t + k) > 12;",
                "}",
                "Signal after = t + k;",
                f"lamp.enable = {x} < 0;"]
    elif kind == "iter_values":
        # the iterator inside compile-time value positions: a signal literal's value, the value after ':', a bundle
        # element. Thresholds sit in the middle of the iterated range so that the iterations must differ; no input is
        # shared between same-typed values (F02 would blur the picture).
        m1, m2 = rng.randint(2, 11), rng.randint(-5, 5)
        m3 = rng.randint(2, 5)
        out += [head + " {",
                f'    Signal c = ("signal-A", i * {m1} + {m2});',
                '    Entity lamp = place("small-lamp", i, 7);',
                f"    lamp.enable = c > {mid * m1 + m2};",
                f"    Signal g = ({x} > {rng.randint(-3, 3)}) : (i * {m3} - 1);",
                '    Entity lamp2 = place("small-lamp", i, 9);',
                f"    lamp2.enable = g > {mid * m3 - 1};",
                f'    Bundle b = {{ ("signal-B", i * 2 + 1), ("signal-C", -i) }};',
                '    Entity lamp3 = place("small-lamp", i, 11);',
                f'    lamp3.enable = b["signal-B"] > {mid * 2 + 1};',
                '    Entity lamp4 = place("small-lamp", i, 13);',
                f'    lamp4.enable = b["signal-C"] > {-mid};',
                "}",
                f"Signal after = {x} + 1;"]
    elif kind == "memory":
        out += [head + " {",
                f'    Memory m: "{tx}";',
                f"    m.write({x} + i, when=({x} > i));",
                '    Entity lamp = place("small-lamp", i, 7);',
                "    lamp.enable = m.read() > i;",
                "}",
                f"Signal after = {x} + 1;"]
    elif kind == "memory_outer":
        out += [f'Memory m: "{tx}";', f"m.write({x}, when=({x} > 0));",
                head + " {",
                f'    Memory m: "{tx}";',
                f"    m.write({x} * 2 + i, when=({x} < i));",
                '    Entity lamp = place("small-lamp", i, 7);',
                "    lamp.enable = m.read() > 3;",
                "}",
                "Signal after = m.read();"]
    else:
        out += ["func held(Signal s, int k) {",
                f'    Memory c: "{tx}";',
                "    c.write(s + k, when=(s > k));",
                "    return c.read();",
                "}",
                head + " {",
                f"    Signal v = held({x}, i);",
                '    Entity lamp = place("small-lamp", i, 7);',
                "    lamp.enable = v > 2;",
                "}",
                f"Signal after = {x} + 1;"]
    return out


def gen_loops(seed: int) -> str:
    rng = random.Random(seed)
    lines, names = _inputs(rng, rng.randint(1, 2))
    x = names[0][0]
    form = rng.random()
    a, b = rng.randint(-6, 6), rng.randint(-6, 6)
    s = rng.choice([None, None, 1, 2, 3, -1, -2, -3])
    if form < 0.25:
        vals = [rng.randint(-5, 9) for _ in range(rng.randint(0, 4))]
        head = f"for i in [{', '.join(map(str, vals))}]"
    elif form < 0.45:
        lines.append(f"int lo = {a};")
        lines.append(f"int hi = {b};")
        head = "for i in lo..hi" + (f" step {s}" if s else "")
    else:
        head = f"for i in {a}..{b}" + (f" step {s}" if s else "")
    body_kind = rng.random()
    if body_kind < 0.10:
        # an outer entity variable is re-bound by the body: every iteration configures the previous placement
        lines.append('Entity last = place("small-lamp", 0, 9);')
        lines.append(head + " {")
        lines.append(f"    last.enable = {x} > i * 10;")
        lines.append('    last = place("small-lamp", i * 2, 5);')
        lines.append("}")
        lines.append(f"last.enable = {x} > 99;")
        lines.append(f"Signal after = {x} + 1;")
        return "\n".join(lines) + "\n"
    if body_kind < 0.40:
        # scope / value-position bodies need at least two distinct iterations to show anything: their own head
        # (zero-iteration and single-iteration loops are covered by the other bodies)
        a2 = rng.randint(-5, 4)
        n2 = rng.randint(2, 4)
        hk = rng.random()
        if hk < 0.3:
            vs = rng.sample(range(-5, 9), n2)
            head2, its = f"for i in [{', '.join(map(str, vs))}]", vs
        elif hk < 0.55:
            head2, its = f"for i in {a2}..{a2 + n2}", list(range(a2, a2 + n2))
        elif hk < 0.75:
            head2, its = f"for i in {a2}..{a2 + 2 * n2} step 2", list(range(a2, a2 + 2 * n2, 2))
        elif hk < 0.9:
            head2, its = f"for i in {a2 + n2}..{a2} step -1", list(range(a2 + n2, a2, -1))
        else:
            lines.append(f"int lo = {a2};")
            lines.append(f"int hi = {a2 + n2};")
            head2, its = "for i in lo..hi", list(range(a2, a2 + n2))
        if form < 0.45 and hk >= 0.9:
            lines[:] = [l for l in lines if not (l.startswith("int lo = ") or l.startswith("int hi = "))] + [f"int lo = {a2};", f"int hi = {a2 + n2};"]
        elif form >= 0.25 and form < 0.45:
            lines[:] = [l for l in lines if not (l.startswith("int lo = ") or l.startswith("int hi = "))]
        mid = sorted(its)[(len(its) - 1) // 2]
        return "\n".join(lines + _loop_scope_body(rng, head2, names, mid)) + "\n"
    if body_kind < 0.47:
        lines.append("func scaled(Signal s, int k) {")
        lines.append("    return s * k;")
        lines.append("}")
        lines.append(head + " {")
        lines.append('    Entity lamp = place("small-lamp", i, 7);')
        lines.append(f"    lamp.enable = scaled({x}, i) > 3;")
        lines.append("}")
        lines.append(f"Signal after = {x} + 1;")
        return "\n".join(lines) + "\n"
    lines.append(head + " {")
    if body_kind < 0.7:
        lines.append(f'    Entity lamp = place("small-lamp", i, {rng.randint(0, 3)});')
        lines.append(f"    lamp.enable = {x} {rng.choice(CMP)} i;")
    elif body_kind < 0.85:
        lines.append(f'    Entity lamp = place("small-lamp", i, 2);')
        lines.append(f"    Signal t = ({x} + i) * 2;")
        lines.append("    lamp.enable = t > 4;")
    else:
        lines.append("    for j in 0..2 {")
        lines.append(f'        Entity lamp = place("small-lamp", i, j);')
        lines.append(f"        lamp.enable = ({x} + j) > i;")
        lines.append("    }")
    lines.append("}")
    lines.append(f"Signal after = {x} + 1;")
    return "\n".join(lines) + "\n"


# ------------------------------------------------------------------ constant expressions (C11)
def _py_eval(op, a, b):
    """the folders' arithmetic (unbounded Python ints) -- only used to tag generated cases"""
    if op == "+": return a + b
    if op == "-": return a - b
    if op == "*": return a * b
    if op == "/": return 0 if b == 0 else a // b
    if op == "%": return 0 if b == 0 else a % b
    if op == "**": return 0 if b < 0 else a ** b
    if op == "<<": return 0 if (b < 0 or b >= 32) else (a << b) & 0xFFFFFFFF
    if op == ">>": return 0 if (b < 0 or b >= 32) else a >> b
    if op == "AND": return a & b
    if op == "OR": return a | b
    if op == "XOR": return a ^ b
    raise ValueError(op)


def gen_constexpr(seed: int):
    """A program that uses one constant expression in one of the positions where folding happens.
    Returns (source, meta); meta records whether the expression divides/takes a remainder with a
    negative operand (F05 region) or leaves the int32 range on the way (F06 region)."""
    rng = random.Random(seed)
    meta = {"neg_divmod": False, "overflow": False, "ops": []}

    def cexpr(depth):
        if depth <= 0 or rng.random() < 0.3:
            v = const(rng, small=rng.random() < 0.5)
            return lit(v), v
        op = rng.choice(ARITH)
        ls, lv = cexpr(depth - 1)
        if op in ("<<", ">>"):
            rv = rng.randint(0, 31)
            rs = str(rv)
        elif op == "**":
            rv = rng.randint(0, 4)
            rs = str(rv)
        else:
            rs, rv = cexpr(depth - 1)
        meta["ops"].append(op)
        if op in ("/", "%") and (lv < 0 or rv < 0) and rv != 0:
            meta["neg_divmod"] = True
        val = _py_eval(op, lv, rv)
        if not (-2 ** 31 <= val < 2 ** 31):
            meta["overflow"] = True
        return f"({ls} {op} {rs})", val

    e, val = cexpr(rng.randint(1, 3))
    meta["python_value"] = val
    pos = rng.choice(["int_decl", "literal_value", "operand", "condition", "func_arg", "loop_body", "signal_decl", "offset_compare"])
    meta["position"] = pos
    lines = ['Signal x = ("signal-X", 7);']
    if pos == "int_decl":
        lines += [f"int n = {e};", "Signal r = x + n;"]
    elif pos == "literal_value":
        lines += [f'Signal k = ("signal-K", {e});', "Signal r = x + k;"]
    elif pos == "operand":
        lines += [f"Signal r = x * {e};"]
    elif pos == "condition":
        lines += [f"Signal r = (x > {e}) : x;"]
    elif pos == "func_arg":
        lines += ["func f(int a, Signal s) {", "    return s + a;", "}", f"Signal r = f({e}, x);"]
    elif pos == "loop_body":
        # the folded constant is i + e for i = 0, 1: that sum may leave the range although e does not (F06 region)
        if any(not (-2 ** 31 <= i + val < 2 ** 31) for i in (0, 1)):
            meta["overflow"] = True
        lines += ["for i in 0..2 {", f'    Entity l = place("small-lamp", i, 0);', f"    l.enable = x > (i + {e});", "}"]
    elif pos == "offset_compare":
        # constant offset on the left, constant on the right: equivalent to `x CMP (k - e)` only without wrap-around
        lines += [f"Signal r = ((x {rng.choice(['+', '-'])} {e}) {rng.choice(['<', '<=', '>', '>=', '==', '!='])} {lit(const(rng, small=True))});"]
    else:
        lines += [f"Signal c = {e};", "Signal r = x + c;"]
    return "\n".join(lines) + "\n", meta


# ------------------------------------------------------------------ CSE / constant-propagation stress (C10)
def gen_cse(seed: int) -> str:
    """Repeated sub-expressions that differ in exactly one field (operator, operand, output type,
    output mode, output constant), folded values feeding different consumer kinds."""
    rng = random.Random(seed)
    lines, names = _inputs(rng, rng.randint(2, 3))
    a, b = names[0][0], names[1][0]
    c1, c2 = rng.randint(-5, 9), rng.randint(-5, 9)
    k1, k2 = rng.randint(2, 30), rng.randint(31, 60)
    cmp1 = rng.choice(CMP)
    variants = [
        (f"(({a} {cmp1} {c1}) : {k1})", f"(({a} {cmp1} {c1}) : {k2})"),              # output constant differs
        (f"(({a} {cmp1} {c1}) : {b})", f"(({a} {cmp1} {c1}) : 1)"),                   # output mode differs
        (f"(({a} {cmp1} {c1}) : {b})", f"(({a} {cmp1} {c1}) : {a})"),                 # copied signal differs
        (f"({a} {cmp1} {c1})", f"({a} {cmp1} {c2})"),                                 # operand differs
        (f"({a} + {b})", f"({a} - {b})"),                                             # operator differs
        (f"(({a} * {k1}) | \"signal-1\")", f"(({a} * {k1}) | \"signal-2\")"),         # output type differs
        (f"({a} * {k1})", f"({a} * {k1})"),                                           # genuinely equal: may be shared
        (f"(({a} > {c1}) && ({b} < {c2}))", f"(({a} > {c1}) && ({b} <= {c2}))"),      # multi-condition rows differ
        (f"(({a} > {c1}) && ({b} < {c2}))", f"(({a} > {c1}) || ({b} < {c2}))"),       # and / or differs
    ]
    rng.shuffle(variants)
    n = 0
    for x, y in variants[: rng.randint(1, 3)]:
        n += 1
        lines.append(f"Signal u{n} = {x};")
        lines.append(f"Signal v{n} = {y};")
        if rng.random() < 0.5:
            lines.append(f"Signal w{n} = (u{n} | \"signal-8\") + (v{n} | \"signal-9\");")
    # a genuinely repeated sub-expression whose second copy is read by a consumer other than arithmetic: every kind of
    # reader must follow the merge (bundle literal, set / reset of a latch, memory data, entity property)
    if rng.random() < 0.55:
        dup = rng.choice([f"({a} * {k1})", f"({a} + {b})", f"({a} {cmp1} {c1})"])
        lines.append(f"Signal d1 = {dup};")
        lines.append(f"Signal d2 = {dup};")
        kind = rng.choice(["bundle", "bundle", "latch", "latch_same", "memory", "enable"])
        if kind == "bundle":
            lines.append(f"Bundle bm = {{ d2, ({b} | \"signal-6\") }};")
            lines.append("Bundle bm2 = bm * 2;")
            lines.append("Signal d3 = d1 + 1;")
        elif kind == "latch":
            lines.append('Memory ld: "signal-5";')
            lines.append(f"Signal sd1 = ({a} > {c1});")
            lines.append(f"Signal sd2 = ({a} > {c1});")
            lines.append(f"Signal sd3 = sd1 + 1;")
            lines.append(f"ld.write(1, set=sd2, reset=({b} > {c2}));")
            lines.append("Signal rd = ld.read();")
        elif kind == "latch_same":
            lines.append('Memory ld: "signal-5";')
            lines.append(f"Signal sd1 = ({a} > {c1});")
            lines.append(f"Signal sd2 = ({a} > {c1});")
            order = rng.random() < 0.5
            lines.append("ld.write(1, set=sd1, reset=sd2);" if order else "ld.write(1, reset=sd2, set=sd1);")
            lines.append("Signal rd = ld.read();")
        elif kind == "memory":
            lines.append('Memory md: "signal-4";')
            lines.append(f'md.write((d2 | "signal-4"), when=({b} > {c2}));')
            lines.append("Signal rmd = md.read();")
            lines.append("Signal d3 = d1 + 1;")
        else:
            lines.append('Entity lampd = place("small-lamp", 3, 5);')
            lines.append(f"lampd.enable = d2 > {c2};")
            lines.append("Signal d3 = d1 + 1;")
    # folded constants feeding different consumers
    r = rng.random()
    if r < 0.3:
        lines.append(f"Signal f1 = ({a} + ({k1} * 2 + 1));")
    elif r < 0.5:
        lines.append(f'Entity lampc = place("small-lamp", 0, 5);')
        lines.append(f"lampc.enable = {a} > ({k1} - 3);")
    elif r < 0.7:
        lines.append(f'Memory mc: "signal-7";')
        lines.append(f"mc.write(({a} | \"signal-7\"), when=({b} > ({c1} + 1)));")
        lines.append("Signal rc = mc.read();")
    return "\n".join(lines) + "\n"


# ------------------------------------------------------------------ independent programs (C12)
import re as _re


def _rename(src: str, prefix: str) -> str:
    """prefix every user identifier (variables, functions, memories) of a generated program"""
    kw = {"Signal", "int", "Bundle", "Entity", "Memory", "func", "return", "for", "in", "step", "place", "read", "write",
          "when", "set", "reset", "any", "all", "and", "or", "AND", "OR", "XOR", "output", "enable", "type", "import"}
    out = []
    for line in src.splitlines():
        parts = _re.split(r'("(?:[^"\\]|\\.)*")', line)
        for i in range(0, len(parts), 2):
            parts[i] = _re.sub(r"\b([A-Za-z_][A-Za-z0-9_]*)\b",
                               lambda m: m.group(1) if m.group(1) in kw else prefix + m.group(1), parts[i])
        out.append("".join(parts))
    return "\n".join(out) + "\n"


def _statements(src: str) -> list[str]:
    """split a generated program into top-level statements (brace-aware)"""
    sts, cur, depth = [], [], 0
    for line in src.splitlines():
        if not line.strip():
            continue
        cur.append(line)
        depth += line.count("{") - line.count("}")
        if depth == 0:
            sts.append("\n".join(cur))
            cur = []
    return sts


def gen_route(seed: int) -> str:
    """one long source -> sink connection (needs relay poles); the row is taken from the seed so that two
    such programs run side by side a few tiles apart"""
    rng = random.Random(seed)
    row = (seed % 5) * 2 - 4
    length = rng.randint(24, 36)
    x0 = rng.randint(-3, 3)
    horizontal = (seed // 5) % 2 == 0
    a = (x0, row) if horizontal else (row, x0)
    b = (x0 + length, row) if horizontal else (row, x0 + length)
    return (f'Entity src = place("steel-chest", {a[0]}, {a[1]});\nBundle items = src.output;\n'
            f'Entity dst = place("small-lamp", {b[0]}, {b[1]});\ndst.enable = items["iron-plate"] > {rng.randint(5, 40)};\n')


def gen_independent(seed: int):
    """(P, Q, interleaving of P and Q): P and Q share no name but draw signal types and constants from
    the same small pools, so explicit signal names overlap."""
    rng = random.Random(seed)
    kinds = [gen_scalar, gen_scalar, gen_bundle, gen_gated, gen_latch, gen_entities]
    if rng.random() < 0.25:
        # two long routes running side by side (relay poles of the two computations come close)
        k = rng.randint(0, 10 ** 6) * 10
        o1, o2 = rng.sample([0, 1, 2, 3, 4], 2)
        p = _rename(gen_route(k + o1), "p_")
        q = _rename(gen_route(k + o2), "q_")
    else:
        gp, gq = rng.choice(kinds), rng.choice(kinds)
        p = _rename(gp(rng.randint(0, 10 ** 9)), "p_")
        q = _rename(gq(rng.randint(0, 10 ** 9)), "q_")
        # move q's placed entities away from p's (same coordinates would be a user error, not a compiler one)
        q = _re.sub(r'place\("([^"]+)", (-?\d+), (-?\d+)', lambda m: f'place("{m.group(1)}", {int(m.group(2)) + 40}, {int(m.group(3)) + 7}', q)
    sp, sq = _statements(p), _statements(q)
    merged = []
    i = j = 0
    while i < len(sp) or j < len(sq):
        if j >= len(sq) or (i < len(sp) and rng.random() < 0.5):
            merged.append(sp[i]); i += 1
        else:
            merged.append(sq[j]); j += 1
    return p, q, "\n".join(merged) + "\n"


# ------------------------------------------------------------------ untyped values (C13)
def gen_untyped(seed: int) -> str:
    rng = random.Random(seed)
    prof = rng.random()
    if prof < 0.25:
        # more untyped values than the 26 letters
        n = rng.randint(27, 40)
        lines = [f"Signal u{i} = {rng.randint(-9, 9)};" for i in range(n)]
        for i in range(0, n - 1, 2):
            lines.append(f"Signal s{i} = (u{i} {rng.choice(['+', '-', '*'])} u{i + 1});")
        return "\n".join(lines) + "\n"
    if prof < 0.45:
        # untyped values of different origins (literal, int literal as a Signal argument, parenthesised int expression
        # or int literal as the left operand) that meet on one wire as members of a bundle
        ta = rng.choice(["signal-A", "signal-B", "signal-X", "signal-1"])
        lines = [f'Signal a = ("{ta}", {rng.randint(2, 9)});', "func f(Signal p) {", f"    return p {rng.choice(['*', '+', '-'])} a;", "}"]
        members = []
        for i in range(rng.randint(2, 5)):
            k = rng.randint(2, 9)
            form = rng.choice(["lit", "call", "paren", "left", "lit"])
            if form in ("paren", "left") and any(" a;" in l and l.startswith("Signal u") for l in lines):
                form = "call"   # a second value with a's type would be a duplicate member of the bundle
            if form == "call" and any("= f(" in l for l in lines):
                form = "lit"    # two results of f carry the same implicit type: also a duplicate member
            if form == "lit":
                lines.append(f"Signal u{i} = {k};")
            elif form == "call":
                lines.append(f"Signal u{i} = f({k});")
            elif form == "paren":
                lines.append(f"Signal u{i} = ({k} + {rng.randint(1, 5)}) {rng.choice(['*', '+'])} a;")
            else:
                lines.append(f"Signal u{i} = {k} {rng.choice(['*', '+', '-'])} a;")
            members.append(f"u{i}")
        if rng.random() < 0.4 and not any(" a;" in l and l.startswith("Signal u") for l in lines):
            # (`k OP a` is given a's type by the analyzer: together with `a` itself it would be a duplicate member)
            members.insert(rng.randrange(len(members) + 1), "a")
        lines.append("Bundle b = { " + ", ".join(members) + " };")
        lines.append(f"Bundle d = b {rng.choice(['*', '+', '-'])} {rng.randint(2, 5)};")
        return "\n".join(lines) + "\n"
    g = ScalarGen(rng, share=0.2, max_depth=2, typed_bias=0.35)
    if prof < 0.7:
        # the program explicitly uses the first letters / digits the allocator would pick
        g.free_types = ["signal-C", "signal-B", "signal-A", "signal-1", "signal-0"][::-1] + g.free_types
        g.typed_bias = 0.6
    return g.program(n_inputs=rng.randint(2, 5))


# ------------------------------------------------------------------ ill-formed programs (C14)
RULES = ["undef_var", "undef_func", "undef_mem", "undef_entity", "redefine", "assign_immutable", "assign_param", "assign_iterator",
         "kind_int", "kind_entity", "kind_param", "kind_param_signal",
         "arity", "recursion", "indirect_recursion", "bundle_dup", "bundle_op_bundle", "bare_bundle_cmp", "select_absent",
         "unknown_signal", "reserved_literal", "reserved_proj", "reserved_memory", "mem_type", "second_write", "zero_step",
         "zero_step_var", "non_comparison_outspec", "syntax_semicolon", "syntax_paren"]


def violation_snippet(rule: str, rng: random.Random, k: int):
    """(prelude statements that are themselves valid, the violating statement) using fresh names z<k>_*"""
    z = f"z{k}"
    pre, bad = [], ""
    v = rng.randrange(6)   # which syntactic shape of the rule (a rule broken only in one context must still be hit)
    if rule == "undef_var":
        bad = [f"Signal {z}_a = nosuchvar{k} + 1;",
               f'Bundle {z}_a = {{ ("iron-plate", 1), nosuchvar{k} }};',
               f'Signal {z}_a = (("signal-A", 2) > nosuchvar{k}) : 1;'][v % 3]
    elif rule == "undef_func":
        bad = f"Signal {z}_a = nosuchfunc{k}(1);"
    elif rule == "undef_mem":
        bad = f"Signal {z}_a = nosuchmem{k}.read();"
    elif rule == "undef_entity":
        bad = f"nosuchent{k}.enable = 1;"
    elif rule == "redefine":
        pre = [f'Signal {z}_a = ("signal-A", 1);']
        bad = [f'Signal {z}_a = ("signal-B", 2);', f"int {z}_a = 3;", f'Bundle {z}_a = {{ ("iron-plate", 1) }};',
               f'Memory {z}_a: "signal-B";'][v % 4]
    elif rule == "assign_immutable":
        pre = [f'Signal {z}_a = ("signal-A", 1);']
        bad = f"{z}_a = 5;"
    elif rule == "kind_int":
        pre = [f'Signal {z}_a = ("signal-A", 1);']
        bad = f"int {z}_n = {z}_a;"
    elif rule == "kind_param":
        pre = [f"func {z}_f(Entity e) {{", "    e.enable = 1;", "    return 1;", "}", f'Signal {z}_a = ("signal-A", 1);']
        bad = f"Signal {z}_r = {z}_f({z}_a) | \"signal-B\";"
    elif rule == "kind_param_signal":
        pre = [f"func {z}_f(Signal s) {{", "    return s + 1;", "}", f'Entity {z}_l = place("small-lamp", {60 + k % 30}, 40);']
        bad = f"Signal {z}_r = {z}_f({z}_l);"
    elif rule == "kind_entity":
        pre = [f'Signal {z}_a = ("signal-A", 1);']
        bad = f"Entity {z}_e = {z}_a;"
    elif rule == "assign_param":
        pre = [f"func {z}_f(Signal s, int n) {{", "    n = 7;", "    return s * n;", "}", f'Signal {z}_a = ("signal-A", 1);']
        bad = f"Signal {z}_r = {z}_f({z}_a, 2);"
    elif rule == "assign_iterator":
        bad = f"for {z}_i in 0..3 {{ {z}_i = 5; }}"
    elif rule == "arity":
        pre = [f"func {z}_f(Signal s, int n) {{", "    return s + n;", "}", f'Signal {z}_a = ("signal-A", 1);']
        bad = [f"Signal {z}_r = {z}_f({z}_a);", f"Signal {z}_r = {z}_f({z}_a, 2, 3);", f"Signal {z}_r = {z}_f() + 1;"][v % 3]
    elif rule == "recursion":
        pre = [f"func {z}_f(Signal s) {{", f"    return {z}_f(s) + 1;", "}", f'Signal {z}_a = ("signal-A", 1);']
        bad = f"Signal {z}_r = {z}_f({z}_a);"
    elif rule == "indirect_recursion":
        pre = [f"func {z}_g(Signal s) {{", f"    return {z}_h(s) + 1;", "}", f"func {z}_h(Signal s) {{", f"    return {z}_g(s) + 2;", "}",
               f'Signal {z}_a = ("signal-A", 1);']
        bad = f"Signal {z}_r = {z}_g({z}_a);"
    elif rule == "bundle_dup":
        # flat, through a typed variable, and every order of nested / direct members
        pre = [f'Signal {z}_p = ("iron-plate", 1);', f'Bundle {z}_base = {{ {z}_p, ("coal", 2) }};',
               f'Bundle {z}_other = {{ ("coal", 5), ("wood", 6) }};']
        bad = [f'Bundle {z}_b = {{ ("iron-plate", 1), ("iron-plate", 2) }};',
               f'Bundle {z}_b = {{ {z}_p, ("iron-plate", 2) }};',
               f'Bundle {z}_b = {{ {z}_base, ("iron-plate", 3) }};',
               f'Bundle {z}_b = {{ ("coal", 3), {z}_base }};',
               f'Bundle {z}_b = {{ {z}_base, {z}_other }};',
               f'Bundle {z}_b = {{ {z}_base, ("wood", 1), {z}_p }};'][v]
    elif rule == "bundle_op_bundle":
        pre = [f'Bundle {z}_b = {{ ("iron-plate", 1) }};', f'Bundle {z}_c = {{ ("copper-plate", 2) }};']
        bad = [f"Bundle {z}_d = {z}_b + {z}_c;", f"Bundle {z}_d = {z}_b * {z}_c;", f"Bundle {z}_d = ({z}_b * 2) - {z}_c;"][v % 3]
    elif rule == "bare_bundle_cmp":
        pre = [f'Bundle {z}_b = {{ ("iron-plate", 1), ("coal", 3) }};']
        bad = [f"Signal {z}_s = {z}_b > 3;", f"Signal {z}_s = {z}_b == 1;", f"Signal {z}_s = ({z}_b * 2) < 7;"][v % 3]
    elif rule == "select_absent":
        pre = [f'Bundle {z}_b = {{ ("iron-plate", 1), ("coal", 3) }};']
        bad = f'Signal {z}_s = {z}_b["wood"];'
    elif rule == "unknown_signal":
        bad = f'Signal {z}_s = ("not-a-real-signal-{k}", 1);'
    elif rule == "reserved_literal":
        bad = f'Signal {z}_s = ("signal-W", 1);'
    elif rule == "reserved_proj":
        pre = [f'Signal {z}_a = ("signal-A", 1);']
        bad = f'Signal {z}_s = {z}_a | "signal-W";'
    elif rule == "reserved_memory":
        bad = f'Memory {z}_m: "signal-W";'
    elif rule == "mem_type":
        pre = [f'Memory {z}_m: "signal-A";', f'Signal {z}_b = ("signal-B", 1);']
        bad = f"{z}_m.write({z}_b);"
    elif rule == "second_write":
        pre = [f'Memory {z}_m: "signal-A";', f'Signal {z}_a = ("signal-A", 1);', f"{z}_m.write({z}_a, when={z}_a > 0);"]
        bad = f"{z}_m.write({z}_a + 1, when={z}_a > 2);"
    elif rule == "zero_step":
        bad = f"for {z}_i in 0..5 step 0 {{ Signal {z}_q = (\"signal-A\", 1); }}"
    elif rule == "zero_step_var":
        pre = [f"int {z}_st = 0;"]
        bad = f"for {z}_i in 0..5 step {z}_st {{ Signal {z}_q = (\"signal-A\", 1); }}"
    elif rule == "non_comparison_outspec":
        pre = [f'Signal {z}_a = ("signal-A", 1);']
        bad = f"Signal {z}_s = ({z}_a + 1) : {z}_a;"
    elif rule == "syntax_semicolon":
        bad = f'Signal {z}_s = ("signal-A", 1)'
    elif rule == "syntax_paren":
        bad = f'Signal {z}_s = (("signal-A", 1);'
    return pre, bad


def gen_illformed(seed: int):
    """(source, rule, context): a valid generated program with one violating construct embedded at a random
    statement position, at top level, inside a called function body, or inside an executed loop body."""
    rng = random.Random(seed)
    host = rng.choice([gen_scalar, gen_gated, gen_functions, gen_loops, gen_bundle, gen_entities])(rng.randint(0, 10 ** 9))
    sts = _statements(host)
    rule = rng.choice(RULES)
    pre, bad = violation_snippet(rule, rng, seed % 1000)
    ctx = rng.choice(["top", "top", "function", "loop", "nested"])
    if rule in ("recursion", "indirect_recursion", "kind_param", "kind_param_signal", "assign_param", "arity") and ctx != "top":
        ctx = "top"   # function declarations are top-level constructs
    if rule.startswith("syntax"):
        ctx = rng.choice(["top", "function", "loop"])
    ind = lambda lines, n=1: ["    " * n + l for l in lines]
    z = f"zc{seed % 1000}"
    if ctx == "top":
        block = pre + [bad]
    elif ctx == "function":
        block = [f"func {z}_host(Signal hp) {{"] + ind(pre + [bad]) + ["    return hp + 1;", "}",
                 f'Signal {z}_arg = ("signal-Z", 3);', f"Signal {z}_res = {z}_host({z}_arg);"]
    elif ctx == "loop":
        block = [f"for {z}_it in 0..2 {{"] + ind(pre + [bad]) + ["}"]
    else:
        block = [f"for {z}_it in 0..2 {{", f"    for {z}_jt in [1, 2] {{"] + ind(pre + [bad], 2) + ["    }", "}"]
    pos = rng.randint(0, len(sts))
    out = sts[:pos] + ["\n".join(block)] + sts[pos:]
    return "\n".join(out) + "\n", rule, ctx


# ------------------------------------------------------------------ layout family (C08, C09, C18)
MULTI_TILE = ["steel-chest", "small-lamp", "inserter", "pump", "storage-tank", "assembling-machine-1", "train-stop",
              "transport-belt", "power-switch", "iron-chest", "medium-electric-pole"]


def gen_layout(seed: int, profile: int | None = None) -> str:
    """user-placed entities (far apart, negative coordinates, multi-tile prototypes, loops, functions),
    fan-out, memories and latches: what stresses placement, relays and poles"""
    rng = random.Random(seed)
    lines, names = _inputs(rng, rng.randint(1, 3))
    x = names[0][0]
    prof = rng.random() if profile is None else [0.1, 0.4, 0.5, 0.65, 0.9][profile % 5]
    used = set()

    def spot(far=False):
        for _ in range(50):
            px = rng.randint(-40, 40) if far else rng.randint(-6, 12)
            py = rng.randint(-25, 25) if far else rng.randint(-4, 8)
            if all(abs(px - ux) >= 4 or abs(py - uy) >= 4 for ux, uy in used):
                used.add((px, py))
                return px, py
        px, py = 60 + 5 * len(used), 60
        used.add((px, py))
        return px, py
    if prof < 0.35:       # far-apart lamps driven by one source: relays
        for k in range(rng.randint(2, 5)):
            px, py = spot(far=True)
            lines.append(f'Entity e{k} = place("{rng.choice(["small-lamp", "inserter", "pump", "power-switch"])}", {px}, {py});')
            lines.append(f"e{k}.enable = {x} {rng.choice(CMP)} {rng.randint(-3, 9)};")
    elif prof < 0.45:     # parallel long connections on neighbouring rows / columns across the origin
        y0 = rng.randint(-1, 1)
        a, b = rng.randint(8, 14), rng.randint(7, 14)
        horizontal = rng.random() < 0.6
        for k in range(rng.randint(2, 3)):
            p1 = (-a, y0 - k) if horizontal else (y0 - k, -a)
            p2 = (b, y0 - k) if horizontal else (y0 - k, b)
            used.add(p1); used.add(p2)
            lines.append(f'Entity c{k} = place("steel-chest", {p1[0]}, {p1[1]});')
            lines.append(f'Entity l{k} = place("small-lamp", {p2[0]}, {p2[1]});')
            lines.append(f'l{k}.enable = c{k}.output["iron-plate"] > {rng.randint(0, 50)};')
    elif prof < 0.55:     # two independent far connections (relay sharing)
        for k in range(2):
            px, py = spot(far=True)
            qx, qy = spot(far=True)
            lines.append(f'Entity c{k} = place("steel-chest", {px}, {py});')
            lines.append(f'Entity l{k} = place("small-lamp", {qx}, {qy});')
            lines.append(f'l{k}.enable = c{k}.output["iron-plate"] > {rng.randint(0, 50)};')
    elif prof < 0.75:     # loops / arithmetic coordinates / multi-tile prototypes
        a, b = sorted(rng.sample(range(-8, 9), 2))
        st = rng.choice([1, 2, 3])
        yk = rng.randint(-5, 5)
        lines.append(f"int y0 = {yk};")
        lines.append(f"for i in {a}..{b} step {st} {{")
        lines.append(f'    Entity t = place("{rng.choice(MULTI_TILE)}", i * 4, y0 + 2);')
        lines.append("}")
        lines.append(f"Signal s1 = {x} * 2;")
    else:                 # fan-out + memory + latch
        lines.append('Memory m: "signal-M";')
        lines.append(f'm.write(({x} | "signal-M"), when={x} > 2);')
        for k in range(rng.randint(3, 7)):
            lines.append(f"Signal f{k} = (m.read() + {k}) | \"signal-{k}\";")
        px, py = spot()
        lines.append(f'Entity lamp = place("small-lamp", {px}, {py});')
        lines.append(f"lamp.enable = m.read() > 0;")
    if rng.random() < 0.3:
        px, py = spot(far=True)
        lines.append(f'Entity extra = place("{rng.choice(MULTI_TILE)}", {px}, {py});')
    return "\n".join(lines) + "\n"


def gen_balanced(seed: int) -> str:
    """balanced-loader pattern (LANGUAGE_SPEC 'Merge Conflict Detection'): every chest takes part in the merge of
    all chests and in its own comparison merge; the planner must put the two paths on different colours"""
    rng = random.Random(seed)
    n = rng.randint(2, 4)
    lines = []
    for k in range(n):
        lines.append(f'Entity c{k} = place("steel-chest", {k * 2}, 0);')
    lines.append("Bundle total = { " + ", ".join(f"c{k}.output" for k in range(n)) + " };")
    lines.append(f"Bundle neg_avg = total / -{n};")
    for k in range(n):
        lines.append(f"Bundle diff{k} = {{ neg_avg, c{k}.output }};")
        lines.append(f'Entity ins{k} = place("inserter", {k * 2}, 2);')
        lines.append(f"ins{k}.enable = {rng.choice(['all', 'any'])}(diff{k}) {rng.choice(['<', '<=', '>'])} {rng.randint(-2, 2)};")
    return "\n".join(lines) + "\n"
