"""Seeded generators of Facto programs (DESIGN §4.3). Every random choice derives from one
`random.Random(seed)`; nothing here imports the compiler."""
from __future__ import annotations

import random

VIRT = [f"signal-{c}" for c in "ABCDEFGHIJKLMNOPQRSTUVXYZ"]  # no signal-W (reserved)
DIGITS = [f"signal-{d}" for d in "0123456789"]
ITEMS = ["iron-plate", "copper-plate", "coal", "stone", "wood", "iron-ore", "copper-ore", "steel-plate",
         "electronic-circuit", "iron-gear-wheel"]
FLUIDS = ["water", "crude-oil", "steam"]
SIGNALS = VIRT + DIGITS + ITEMS + FLUIDS

ARITH = ["+", "-", "*", "/", "%", "**", "<<", ">>", "AND", "OR", "XOR"]
CMP = ["==", "!=", "<", "<=", ">", ">="]
BOUNDARY = [0, 1, -1, 2, -2, 3, 5, 7, 10, -10, 100, 255, 256, 1000, -1000, 65535, 65536,
            2147483647, -2147483648, 2147483646, -2147483647, 1073741824, 46341, -46341]


def const(rng: random.Random, small=False) -> int:
    r = rng.random()
    if small or r < 0.55:
        return rng.randint(-20, 20)
    if r < 0.85:
        return rng.choice(BOUNDARY)
    return rng.randint(-(2 ** 31), 2 ** 31 - 1)


def lit(v: int) -> str:
    # a negative literal directly after a binary operator lexes as one NUMBER token; parenthesise
    return f"({v})" if v < 0 else str(v)


class Scope:
    def __init__(self):
        self.signals: list[tuple[str, str | None]] = []  # (name, explicit type or None)
        self.ints: list[tuple[str, int]] = []
        self.bundles: list[tuple[str, list[str]]] = []
        self.uses: dict[str, int] = {}
        self.counter = 0

    def fresh(self, prefix="x") -> str:
        self.counter += 1
        return f"{prefix}{self.counter}"


class ScalarGen:
    """Stateless scalar programs (C01): DAGs over typed / untyped inputs."""

    def __init__(self, rng: random.Random, share: float = 0.5, max_depth: int = 2, typed_bias: float = 0.85,
                 ops=None, allow_logic=True, allow_proj=True, allow_outspec=True):
        self.rng = rng
        self.share = share
        self.max_depth = max_depth
        self.typed_bias = typed_bias
        self.ops = ops or ARITH
        self.allow_logic = allow_logic
        self.allow_proj = allow_proj
        self.allow_outspec = allow_outspec
        self.sc = Scope()
        self.lines: list[str] = []
        self.free_types = [s for s in SIGNALS]
        rng.shuffle(self.free_types)

    # ---- leaves
    def pick_signal(self) -> str:
        sc, rng = self.sc, self.rng
        unused = [n for n, _ in sc.signals if sc.uses.get(n, 0) == 0]
        if unused and rng.random() > self.share:
            n = rng.choice(unused)
        else:
            n = rng.choice(sc.signals)[0]
        sc.uses[n] = sc.uses.get(n, 0) + 1
        return n

    def leaf(self, want_signal=False) -> str:
        rng = self.rng
        if self.sc.signals and (want_signal or rng.random() < 0.7):
            return self.pick_signal()
        if self.sc.ints and rng.random() < 0.3:
            return rng.choice(self.sc.ints)[0]
        return lit(const(rng))

    # ---- expressions (always contain at least one signal so they are run-time values)
    def expr(self, depth: int) -> str:
        rng = self.rng
        if depth <= 0:
            return self.leaf(want_signal=True)
        r = rng.random()
        if r < 0.45:
            return self.arith(depth)
        if r < 0.62:
            return self.compare(depth)
        if r < 0.72 and self.allow_logic:
            return self.logic(depth)
        if r < 0.78:
            return f"(-{self.atom(depth - 1)})"
        if r < 0.84 and self.allow_logic:
            return f"(!{self.atom(depth - 1)})"
        if r < 0.92 and self.allow_proj:
            t = rng.choice(SIGNALS)
            return f"({self.expr(depth - 1)} | \"{t}\")"
        if self.allow_outspec:
            return self.outspec(depth)
        return self.arith(depth)

    def atom(self, depth: int) -> str:
        e = self.expr(depth)
        return e if e.startswith("(") or e.isidentifier() else f"({e})"

    def operand(self, depth: int, allow_const=True) -> str:
        if allow_const and self.rng.random() < 0.3:
            return self.leaf()
        return self.atom(depth - 1)

    def arith(self, depth: int) -> str:
        rng = self.rng
        op = rng.choice(self.ops)
        left = self.atom(depth - 1)
        if op in ("<<", ">>"):
            right = str(rng.randint(0, 31))
        elif op == "**":
            right = str(rng.randint(0, 5))
        else:
            right = self.operand(depth)
        if rng.random() < 0.15 and op not in ("<<", ">>", "**"):
            left, right = right, left
            if not any(ch.isalpha() for ch in left.replace("AND", "").replace("OR", "").replace("XOR", "")):
                left, right = right, left
        return f"({left} {op} {right})"

    def compare(self, depth: int) -> str:
        rng = self.rng
        op = rng.choice(CMP)
        left = self.atom(depth - 1)
        right = self.operand(depth)
        return f"({left} {op} {right})"

    def logic(self, depth: int) -> str:
        rng = self.rng
        op = rng.choice(["&&", "||", "and", "or"])
        mk = lambda: self.compare(max(depth - 1, 1)) if rng.random() < 0.7 else self.atom(depth - 1)
        parts = [mk() for _ in range(rng.choice([2, 2, 3]))]
        return "(" + f" {op} ".join(parts) + ")"

    def outspec(self, depth: int) -> str:
        rng = self.rng
        cond = self.compare(max(depth - 1, 1))
        val = self.pick_signal() if rng.random() < 0.7 else lit(const(rng, small=True))
        return f"({cond} : {val})"

    # ---- program
    def add_input(self):
        rng, sc = self.rng, self.sc
        name = sc.fresh("i")
        if rng.random() < self.typed_bias:
            t = self.free_types.pop() if (self.free_types and rng.random() < 0.8) else rng.choice(SIGNALS)
            self.lines.append(f'Signal {name} = ("{t}", {const(rng)});')
            sc.signals.append((name, t))
        else:
            self.lines.append(f"Signal {name} = {const(rng)};")
            sc.signals.append((name, None))

    def add_int(self):
        name = self.sc.fresh("n")
        v = const(self.rng, small=self.rng.random() < 0.6)
        self.lines.append(f"int {name} = {v};")
        self.sc.ints.append((name, v))

    def add_stmt(self):
        name = self.sc.fresh("x")
        e = self.expr(self.rng.randint(1, self.max_depth))
        self.lines.append(f"Signal {name} = {e};")
        self.sc.signals.append((name, None))

    def program(self, n_inputs=None, n_stmts=None) -> str:
        rng = self.rng
        for _ in range(n_inputs if n_inputs is not None else rng.randint(1, 4)):
            self.add_input()
        if rng.random() < 0.3:
            self.add_int()
        for _ in range(n_stmts if n_stmts is not None else rng.randint(1, 6)):
            self.add_stmt()
        return "\n".join(self.lines) + "\n"


def gen_scalar(seed: int, **kw) -> str:
    rng = random.Random(seed)
    profile = rng.random()
    if profile < 0.35:     # trees: every value used once, distinct types -> the clean stream
        g = ScalarGen(rng, share=0.0, max_depth=2, **kw)
    elif profile < 0.6:    # single statement, deep
        g = ScalarGen(rng, share=0.3, max_depth=3, **kw)
        return g.program(n_stmts=1)
    else:                  # DAGs with sharing
        g = ScalarGen(rng, share=0.6, max_depth=2, **kw)
    return g.program()


if __name__ == "__main__":
    import sys
    for s in range(int(sys.argv[1]), int(sys.argv[2])):
        print(f"# seed {s}")
        print(gen_scalar(s))
