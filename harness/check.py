"""Dispatcher: ./check Cnn [--tier quick|thorough] [--replay file]"""
from __future__ import annotations

import argparse
import importlib
import os
import sys
import traceback

HERE = os.path.dirname(os.path.abspath(__file__))
sys.path.insert(0, HERE)

from common import Result, lake_build, regenerate  # noqa: E402


def generic_replay(prop, path, no_build=False):
    """Re-execute the input of a replay file against the current tree: the program (and options) it records is
    compiled again and compared as in the check; exit 1 with a VIOLATION line if it still fails, 0 if it no longer
    does. A replay without a program (a broken proof obligation) re-runs the proof audit of the property."""
    import json
    d = json.load(open(path))
    res = Result(prop, "quick")
    if not no_build:
        regenerate()
        ok, log = lake_build(("Model", "driver"))
        if not ok:
            print(log)
            return 2
    src = d.get("source") or d.get("joint")
    opts = d.get("options") or {"optimize": True}
    if not src:
        mod = importlib.import_module(f"props.{prop.lower()}")
        from common import prove
        okp = prove(res, getattr(mod, "MODULE", ""), getattr(mod, "THEOREMS", []))
        print("proof obligations:", "all discharged" if okp else f"NOT discharged: {res.proof_problems}")
        if not okp:
            print(f"VIOLATION property={prop} replay={path} no-failing-input-found")
        return 0 if okp else 1
    failed = False
    if prop in ("C08", "C09", "C18", "C19"):
        from layoutfam import run_geo
        recs, geo, wfv, sem = run_geo([(src, dict(opts, want_geometry=True))], want_sem=False)
        for r in recs:
            if r["outcome"] != "ok":
                print("compile outcome:", r["outcome"].get("message", "")[:300])
                continue
            g = geo.get(r["id"]) or {}
            shown = {k: g.get(k) for k in ("overlaps", "bad_wires", "unpowered", "unpowered_off_grid", "unpowered_grid_hole",
                                          "pole_components", "n_poles") if g.get(k)}
            print("geometry of the printed blueprint:", json.dumps(shown)[:1500])
            if g.get("overlaps") or g.get("bad_wires") or (g.get("unpowered") and prop == "C18"):
                failed = True
    else:
        from sem import run_semantic
        recs, infos, stats = run_semantic(res, [(src, opts)], count=60, extra_case={"steps": 24})
        for r in recs:
            if r["outcome"] != "ok":
                print("compile outcome:", r["outcome"].get("message", "")[:300])
        for i in infos:
            v = i["verdict"] or {}
            print("status:", i["status"], "proved for all inputs" if i.get("proved") else "")
            for mm in (v.get("mismatches") or [])[:3] + ((v.get("history") or {}).get("mismatches") or [])[:3]:
                print("  mismatch:", json.dumps(mm)[:600])
            if i["status"] == "violation":
                failed = True
        for fid, k in res.known_hits.items():
            print(f"KNOWN-FINDING: property={prop} {fid} {k['what']}")
        failed = failed or bool(res.violations)
    if failed:
        print(f"VIOLATION property={prop} replay={path}")
        return 1
    print("the recorded input no longer fails on the current tree")
    return 0


def main():
    ap = argparse.ArgumentParser()
    ap.add_argument("prop")
    ap.add_argument("--tier", default=os.environ.get("VERIF_TIER", "quick"))
    ap.add_argument("--replay")
    ap.add_argument("--no-build", action="store_true")
    a = ap.parse_args()
    prop = a.prop.upper()
    tier = "thorough" if a.tier.startswith("t") else "quick"
    mod = importlib.import_module(f"props.{prop.lower()}")
    if a.replay:
        if hasattr(mod, "replay"):
            return mod.replay(a.replay)
        return generic_replay(prop, a.replay, a.no_build)
    res = Result(prop, tier)
    if not a.no_build:
        gen_ok, gen_log = regenerate()
        res.gen_ok, res.gen_log = gen_ok, gen_log
        ok, log = lake_build(("Model", "driver"))
        if not ok:
            print(log)
            print("framework build failed", file=sys.stderr)
            return 2
        # the executable of the translated functions follows the current sources; if what the code says now
        # no longer elaborates (e.g. a loop whose termination proof fails) that is a broken obligation
        gok, glog = lake_build(("gendriver",))
        res.gendriver_ok, res.gendriver_log = gok, ("" if gok else glog[-1500:])
    else:
        res.gen_ok, res.gen_log = True, "skipped"
        res.gendriver_ok, res.gendriver_log = True, ""
    try:
        if prop in ("C01", "C02", "C03", "C04", "C05", "C06", "C10", "C11", "C12", "C13", "C15", "C16", "C17", "C20"):
            from sem import run_corpus
            run_corpus(res, tier)
        mod.run(res, tier)
    except Exception:  # noqa: BLE001
        traceback.print_exc()
        return 2
    return res.finish()


if __name__ == "__main__":
    sys.exit(main())
