"""Dispatcher: ./check Cnn [--tier quick|thorough] [--replay file]"""
from __future__ import annotations

import argparse
import importlib
import os
import sys
import traceback

HERE = os.path.dirname(os.path.abspath(__file__))
sys.path.insert(0, HERE)

from common import Result, lake_build, regenerate  # noqa: E402


def main():
    ap = argparse.ArgumentParser()
    ap.add_argument("prop")
    ap.add_argument("--tier", default=os.environ.get("VERIF_TIER", "quick"))
    ap.add_argument("--replay")
    ap.add_argument("--no-build", action="store_true")
    a = ap.parse_args()
    prop = a.prop.upper()
    tier = "thorough" if a.tier.startswith("t") else "quick"
    mod = importlib.import_module(f"props.{prop.lower()}")
    if a.replay:
        return mod.replay(a.replay)
    res = Result(prop, tier)
    if not a.no_build:
        gen_ok, gen_log = regenerate()
        res.gen_ok, res.gen_log = gen_ok, gen_log
        ok, log = lake_build(("Model", "driver"))
        if not ok:
            print(log)
            print("framework build failed", file=sys.stderr)
            return 2
        # the executable of the translated functions follows the current sources; if what the code says now
        # no longer elaborates (e.g. a loop whose termination proof fails) that is a broken obligation
        gok, glog = lake_build(("gendriver",))
        res.gendriver_ok, res.gendriver_log = gok, ("" if gok else glog[-1500:])
    else:
        res.gen_ok, res.gen_log = True, "skipped"
        res.gendriver_ok, res.gendriver_log = True, ""
    try:
        if prop in ("C01", "C02", "C03", "C04", "C05", "C06", "C10", "C11", "C12", "C13", "C15", "C16", "C17", "C20"):
            from sem import run_corpus
            run_corpus(res, tier)
        mod.run(res, tier)
    except Exception:  # noqa: BLE001
        traceback.print_exc()
        return 2
    return res.finish()


if __name__ == "__main__":
    sys.exit(main())
