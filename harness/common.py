"""Shared plumbing of the checks: build, verdict protocol, evidence, known findings."""
from __future__ import annotations

import hashlib
import json
import os
import subprocess
import sys
import time

HERE = os.path.dirname(os.path.abspath(__file__))
VERIF = os.path.dirname(HERE)
LEAN_DIR = os.path.join(VERIF, "lean")
EVIDENCE = os.path.join(VERIF, "evidence")
REPLAYS = os.path.join(VERIF, "replays")
REPO = os.environ.get("FACTO_REPO", "/repo")

STD_AXIOMS = {"propext", "Classical.choice", "Quot.sound"}


def seed() -> int:
    try:
        return int(os.environ.get("VERIF_SEED", "1"))
    except ValueError:
        return 1


def load_known():
    with open(os.path.join(VERIF, "KNOWN_FINDINGS.json")) as f:
        return json.load(f)


def lake_build(targets=("Model", "driver", "Proofs")) -> tuple[bool, str]:
    p = subprocess.run(["lake", "build", *targets], cwd=LEAN_DIR, capture_output=True, text=True)
    return p.returncode == 0, (p.stdout + p.stderr)[-4000:]


def write_replay(prop: str, payload: dict) -> str:
    os.makedirs(REPLAYS, exist_ok=True)
    blob = json.dumps(payload, sort_keys=True, default=str)
    h = hashlib.sha256(blob.encode()).hexdigest()[:12]
    path = os.path.join(REPLAYS, f"{prop}-{h}.json")
    with open(path, "w") as f:
        json.dump(payload, f, indent=1, default=str)
    return path


class Result:
    """Accumulates what one check run found; `finish` prints the protocol lines and writes evidence."""

    def __init__(self, prop: str, tier: str):
        self.prop = prop
        self.tier = tier
        self.t0 = time.time()
        self.violations: list[tuple[str, bool]] = []   # (replay path, has_failing_input)
        self.known_hits: dict[str, dict] = {}           # finding id -> {"what":…, "count":…, "example":…}
        self.coverage: dict = {}
        self.assumptions: list[str] = []
        self.level = "proof"
        self.notes: list[str] = []

    def violation(self, payload: dict, failing_input: bool = True):
        payload = dict(payload, property=self.prop, failing_input_found=failing_input)
        path = write_replay(self.prop, payload)
        self.violations.append((path, failing_input))

    def known(self, fid: str, what: str, example=None):
        k = self.known_hits.setdefault(fid, {"what": what, "count": 0, "example": example})
        k["count"] += 1

    def finish(self) -> int:
        known = load_known()
        listed = {f["id"]: f for f in known.get("findings", []) if f.get("status", "open") == "open"}
        # a hit on an id that is not listed (or is listed as fixed) is a violation, not a finding
        for fid, k in list(self.known_hits.items()):
            if fid not in listed or self.prop not in listed[fid].get("properties", []):
                self.violation({"reason": f"failure with the signature of {fid}, which is not an open listed finding for {self.prop}",
                                "what": k["what"], "example": k["example"]})
                del self.known_hits[fid]
        for fid, k in sorted(self.known_hits.items()):
            print(f"KNOWN-FINDING: property={self.prop} {fid} {k['what']} (hits={k['count']})")
        seen = set()
        for path, has_input in self.violations:
            if path in seen:
                continue
            seen.add(path)
            tail = "" if has_input else " no-failing-input-found"
            print(f"VIOLATION property={self.prop} replay={path}{tail}")
        cov = dict(self.coverage)
        cov["known_finding_hits"] = {k: v["count"] for k, v in self.known_hits.items()}
        ev = {"property_id": self.prop, "tier": self.tier, "seed": seed(), "level": self.level,
              "coverage": cov, "assumptions": self.assumptions, "wall_s": round(time.time() - self.t0, 2),
              "violations": len(seen), "notes": self.notes}
        os.makedirs(EVIDENCE, exist_ok=True)
        with open(os.path.join(EVIDENCE, f"{self.prop}.json"), "w") as f:
            json.dump(ev, f, indent=1, default=str)
        return 1 if seen else 0
