"""Shared plumbing of the checks: build, verdict protocol, evidence, known findings."""
from __future__ import annotations

import hashlib
import json
import os
import subprocess
import sys
import time

HERE = os.path.dirname(os.path.abspath(__file__))
VERIF = os.path.dirname(HERE)
LEAN_DIR = os.path.join(VERIF, "lean")
EVIDENCE = os.path.join(VERIF, "evidence")
REPLAYS = os.path.join(VERIF, "replays")
REPO = os.environ.get("FACTO_REPO", "/repo")

STD_AXIOMS = {"propext", "Classical.choice", "Quot.sound"}


def seed() -> int:
    try:
        return int(os.environ.get("VERIF_SEED", "1"))
    except ValueError:
        return 1


def load_known():
    with open(os.path.join(VERIF, "KNOWN_FINDINGS.json")) as f:
        return json.load(f)


def lake_build(targets=("Model", "driver", "gendriver")) -> tuple[bool, str]:
    p = subprocess.run(["lake", "build", *targets], cwd=LEAN_DIR, capture_output=True, text=True)
    return p.returncode == 0, (p.stdout + p.stderr)[-6000:]


def regenerate() -> tuple[bool, str]:
    """Re-run the Python -> Lean translator on the current /repo sources."""
    p = subprocess.run([sys.executable, os.path.join(HERE, "py2lean.py")], capture_output=True, text=True,
                       env=dict(os.environ, FACTO_REPO=REPO))
    return p.returncode == 0, (p.stdout + p.stderr).strip()


FORBIDDEN = ["sorry", "admit", "native_decide", "bv_decide", "implemented_by", "unsafe ", "maxHeartbeats 0"]


def grep_forbidden() -> list[str]:
    """sorry / axiom / native_decide ... outside comments, in every Lean source of the framework."""
    import re
    hits = []
    for root, _, files in os.walk(LEAN_DIR):
        if ".lake" in root:
            continue
        for fn in files:
            if not fn.endswith(".lean"):
                continue
            text = open(os.path.join(root, fn)).read()
            text = re.sub(r"/-.*?-/", "", text, flags=re.S)
            for ln, line in enumerate(text.splitlines(), 1):
                code = line.split("--")[0]
                for w in FORBIDDEN:
                    if w in code:
                        hits.append(f"{fn}:{ln}: {w}")
                if re.match(r"\s*axiom\s", code):
                    hits.append(f"{fn}:{ln}: axiom")
    return hits


def audit_axioms(theorems: list[str], module: str = "Proofs") -> dict[str, list[str] | None]:
    """`#print axioms` for every property theorem; None = the theorem does not exist / did not check."""
    import re
    import tempfile
    src = f"import {module}\n" + "\n".join(f"#print axioms {t}" for t in theorems) + "\n"
    with tempfile.NamedTemporaryFile("w", suffix=".lean", delete=False, dir=LEAN_DIR) as tf:
        tf.write(src)
        path = tf.name
    try:
        p = subprocess.run(["lake", "env", "lean", path], cwd=LEAN_DIR, capture_output=True, text=True)
    finally:
        os.unlink(path)
    out = p.stdout + p.stderr
    res: dict[str, list[str] | None] = {t: None for t in theorems}
    for m in re.finditer(r"'([^']+)' depends on axioms: \[([^\]]*)\]", out):
        res[m.group(1)] = [a.strip() for a in m.group(2).replace("\n", " ").split(",") if a.strip()]
    for m in re.finditer(r"'([^']+)' does not depend on any axioms", out):
        res[m.group(1)] = []
    return res


def prove(res: "Result", module: str, theorems: list[str]) -> bool:
    """Build the property's proof module and audit its theorems. Records the proof keys of the evidence.
    Returns False when a proof obligation no longer checks (the caller then searches for a failing input)."""
    ok, log = lake_build((module,))
    audited = audit_axioms(theorems, module) if ok else {t: None for t in theorems}
    bad_axioms = {t: a for t, a in audited.items() if a is not None and not set(a) <= STD_AXIOMS}
    missing = [t for t, a in audited.items() if a is None]
    forbidden = grep_forbidden()
    discharged = sum(1 for t, a in audited.items() if a is not None and set(a) <= STD_AXIOMS)
    res.coverage.update({
        "obligations": len(theorems), "discharged": discharged,
        "checker_cmd": f"cd /verif/lean && lake build {module} && lake env lean <#print axioms of the {len(theorems)} property theorems>",
        "trusted_base": ["Lean 4.33.0 kernel", "axioms: propext, Classical.choice, Quot.sound (audited by #print axioms on every run)",
                         "spec layer Model/{Int32,SigMap,Circuit,Core,Elab}.lean", "harness/py2lean.py + Model/PyInt.lean (translator and integer shim)",
                         "harness/facto_dump.py (artefact capture) and Lean's JSON decoding"],
        "theorems": {t: ("ok" if (a is not None and set(a) <= STD_AXIOMS) else ("missing" if a is None else "axioms:" + ",".join(a))) for t, a in audited.items()},
    })
    # thorough tier: the toolchain's independent re-checker replays the compiled proof module in a fresh kernel
    recheck_ok = True
    if ok and getattr(res, "tier", "quick") == "thorough":
        pr = subprocess.run(["lake", "env", "leanchecker", module], cwd=LEAN_DIR, capture_output=True, text=True)
        out = (pr.stdout + pr.stderr).strip()
        recheck_ok = pr.returncode == 0 and "exception" not in out and "error" not in out.lower()
        res.coverage["leanchecker"] = {"module": module, "ok": recheck_ok, "output": out[-300:]}
    res.proof_ok = ok and not bad_axioms and not missing and not forbidden and recheck_ok
    res.proof_log = log if not ok else ""
    res.proof_problems = {"build_failed": not ok, "missing": missing, "bad_axioms": bad_axioms, "forbidden": forbidden,
                          "leanchecker_failed": not recheck_ok}
    return res.proof_ok


def write_replay(prop: str, payload: dict) -> str:
    os.makedirs(REPLAYS, exist_ok=True)
    blob = json.dumps(payload, sort_keys=True, default=str)
    h = hashlib.sha256(blob.encode()).hexdigest()[:12]
    path = os.path.join(REPLAYS, f"{prop}-{h}.json")
    with open(path, "w") as f:
        json.dump(payload, f, indent=1, default=str)
    return path


class Result:
    """Accumulates what one check run found; `finish` prints the protocol lines and writes evidence."""

    def __init__(self, prop: str, tier: str):
        self.prop = prop
        self.tier = tier
        self.t0 = time.time()
        self.violations: list[tuple[str, bool]] = []   # (replay path, has_failing_input)
        self.known_hits: dict[str, dict] = {}           # finding id -> {"what":…, "count":…, "example":…}
        self.coverage: dict = {}
        self.assumptions: list[str] = []
        self.level = "proof"
        self.notes: list[str] = []
        self.proof_ok = None
        self.proof_log = ""
        self.proof_problems = {}

    def violation(self, payload: dict, failing_input: bool = True):
        payload = dict(payload, property=self.prop, failing_input_found=failing_input)
        path = write_replay(self.prop, payload)
        self.violations.append((path, failing_input))

    def known(self, fid: str, what: str, example=None):
        k = self.known_hits.setdefault(fid, {"what": what, "count": 0, "example": example})
        k["count"] += 1

    def finish(self) -> int:
        known = load_known()
        listed = {f["id"]: f for f in known.get("findings", []) if f.get("status", "open") == "open"}
        # a hit on an id that is not listed (or is listed as fixed) is a violation, not a finding
        for fid, k in list(self.known_hits.items()):
            if fid not in listed or self.prop not in listed[fid].get("properties", []):
                self.violation({"reason": f"failure with the signature of {fid}, which is not an open listed finding for {self.prop}",
                                "what": k["what"], "example": k["example"]})
                del self.known_hits[fid]
        for fid, k in sorted(self.known_hits.items()):
            print(f"KNOWN-FINDING: property={self.prop} {fid} {k['what']} (hits={k['count']})")
        seen = set()
        for path, has_input in self.violations:
            if path in seen:
                continue
            seen.add(path)
            tail = "" if has_input else " no-failing-input-found"
            print(f"VIOLATION property={self.prop} replay={path}{tail}")
        cov = dict(self.coverage)
        cov["known_finding_hits"] = {k: v["count"] for k, v in self.known_hits.items()}
        ev = {"property_id": self.prop, "tier": self.tier, "seed": seed(), "level": self.level,
              "coverage": cov, "assumptions": self.assumptions, "wall_s": round(time.time() - self.t0, 2),
              "violations": len(seen), "notes": self.notes}
        os.makedirs(EVIDENCE, exist_ok=True)
        with open(os.path.join(EVIDENCE, f"{self.prop}.json"), "w") as f:
            json.dump(ev, f, indent=1, default=str)
        return 1 if seen else 0
